"""C08 -- query output rows: one per input, in order, correctly labelled, context-free.

Tie: B.  Five kinds of cases (the fifth, `seq`, runs scripts of the other kinds' calls over shared objects, each script in a
process of its own -- see "State and aliasing" at the end), all against the implementation imported in place:

  label  a file name (dir, stem, ext, gz): gambit.cli.common.get_file_id / strip_seq_file_ext against the
         extracted model (ops 801/802) and against the specification "the label is the stem" wherever
         theorem C08_label applies (ext a FASTA extension or none, gz '.gz' or none, no '/' in the name,
         stem not itself ending in such an extension when there is no FASTA extension).
  files  gambit.cli.common.get_sequence_files on positional arguments / a list file (written to disk and
         opened the way click.File('r') does) + base directory, against the model (op 806) and against
         pathlib itself (model op 803): ids and resolved file paths, as lists; the files must be the
         arguments / the non-blank lines resolved against the base directory, in order (specification).
  cli    `gambit -d DB query -o FILE -f csv|json|archive [-c N] [--progress|--no-progress]` in process on
         the bundled test database, for a batch of genomes given positionally (absolute, relative, './',
         '//' spellings), through `-l LIST [--ldir DIR]` (relative / absolute lines, padding, blank lines,
         LF / CRLF / CR) or through `-s SIGFILE` (built with `gambit signatures create -d -i IDS`).  Files
         are copies of bundled query genomes under harness-chosen names (assorted extensions, gzip or not);
         the commands run in a working directory that is NOT the base directory of the list files.
         Checked per case: the command succeeds, number of rows = number of inputs, row i's content equals
         the content of the SINGLETON run of genome i (one positional plain FASTA file, default options,
         same output format) -- i.e. context-freeness, order, channel / compression / cores / progress
         independence in one comparison --, label i = what the model computes (= the stem / the stored id),
         and for json/archive the recorded path = the model's resolved path.  The model (op 807) gets the
         same arguments plus the harness's own table path -> genome and answers which genome's distances sit
         in which row under which label.
  api    gambit.query.query_parse / query with QueryParams(chunksize=...) for chunk sizes around the
         number of references (and <= 0: ValueError), rows exported as JSON and compared with the same
         singleton contents; model op 809.

Property predicate (VIOLATION with the input as replay): wrong number of rows, a row whose content differs
from the genome's singleton content, a label different from the stem / stored id where the specification
fixes it.  A difference between model and implementation that leaves these true (e.g. the label of a name
outside the specification's scope, an error class) is reported as a broken tie.

Coverage audit (item of the property text -> stream that drives it ON THE IMPLEMENTATION; P = the property predicate is
judged there, M = also compared with the model; streams marked + were added by the audit):

  one row per input / input order / context-free   cli-exhaustive-orders, cli-random (P M); +cli-large-batch 24..40 inputs,
                                                   +bundled-sigfile 50 inputs (P)
  label = name minus directory and FASTA/gz ext.   label-exhaustive, label-structured (P M); cli-extensions, cli-random (P M)
  label = stored id (signature file)               cli-* channel sig, string ids from `signatures create -i` (P M); +cli-sig-variants:
                                                   INTEGER ids, ids derived from file names (no -i), files written through the
                                                   Python API in 16/32/64-bit / signed, with metadata (P M); +bundled-sigfile: the
                                                   repository's own query-signatures.gs (P, no model)
  positional / list file + base dir / gzip         cli-* (P M): absolute, relative, './', '//' spellings; list decorations; +cli-flat-cwd:
                                                   BARE names with the working directory = base directory (default --ldir, '.', './'),
                                                   './name', names starting with '-' after '--' (P M); +list file on stdin (`-l -`)
  gzip-compressed                                  until the gzip audit: ONE plain member (gzip.compress) under a '.gz' name only.  +cli-gzip-containers, +api-gzip-
                                                   containers, and a third of the compressed inputs of every other cli stream: the genome in the gzip containers real
                                                   tools write (GZ_FLAVOURS: `gzip FILE` with FNAME / MTIME / OS, -1 / -9 / stored, flushed deflate blocks, FEXTRA /
                                                   FCOMMENT / FHCRC / FTEXT, SEVERAL MEMBERS cut at record / line boundaries, mid-line, after the first byte, before
                                                   the last, fixed blocks (bgzip BGZF with its empty end-of-file member, pigz -i), empty members first / middle / last,
                                                   members of different levels / headers) and random combinations; with and without the '.gz' suffix (the command
                                                   decides by content); the same genome in two containers and uncompressed in one batch; positional / list file /
                                                   signature file created from the compressed files (sig how=files); query_parse and calc_file_signatures + query with
                                                   compression 'auto' and 'gzip'.  Judged: row = row of the UNCOMPRESSED genome queried alone, label = stem (P M)
  genome classes                                   6 bundled query genomes; +cli-genome-classes: empty file, header only, no k-mer,
                                                   a reference genome itself (distance 0), mixed into batches of all channels (P M)
  alone or within any batch, any order, repeats    cli-exhaustive-orders, cli-random (same file twice, duplicate labels) (P M)
  -c 1..16                                         cli-cores-progress: 1..4 quick, 1..16 thorough; +cli-cores-high: 16 and one of 5..15
                                                   in the quick tier (P M)
  any reference chunk size                         api-chunks (P M), only JSON / QueryParams(chunksize=int); +api-call-forms: random chunk
                                                   sizes 1..nrefs+3 and 10**6, as NumPy integer, as keyword (params=None), positional
                                                   QueryParams field (P M); the command line has no chunk-size option
  progress on / off                                --progress / --no-progress (P M); +cli-call-forms: NO flag (default on); +cli-process-
                                                   stdout: display on while the rows go to the standard output; +api: progress=
                                                   'click' / class / ProgressConfig / False
  output formats csv / json / archive              all cli streams (P M); +no -f (default csv); +api-call-forms: the three exporters
  observe at `gambit -d DB query ...`              CliRunner with -d, -o FILE; +cli-call-forms: --db, --db=, GAMBIT_DB_PATH, long options,
                                                   --opt=value, -oVALUE, options after / between the genomes, --strict / --no-strict
                                                   (reference = singleton under the same flag); +cli-process-stdout: `python -m gambit`
                                                   in its own process, rows on stdout (no -o)
  Python entry points                              query_parse / query (api-chunks); +api-call-forms: inputs as str / tuple / QueryInput /
                                                   SequenceFile / mixed / absent, file_labels absent, query signatures as list / tuple /
                                                   SignatureList / SignatureArray / index view / file-backed HDF5 in u2/u4/u8, one
                                                   QueryParams object and one parse_kw dict shared by two calls (both judged), genomes
                                                   without k-mers (P M; labels judged only where the caller states them);
                                                   get_sequence_files (files-random); +files-call-forms: str / tuple / PurePath arguments,
                                                   list file as path, base directory as pathlib path, positional call (P M)
  malformed                                        no input, chunk size <= 0, no queries; +malformed-channels: two channels at once
                                                   (some named inputs would get no row), a signature file with no signature
Not covered: non-UTF-8 file names and names ending in white space in a list file (outside the stated domain); non-native /
non-contiguous signature arrays (C02/C15); completion orders of the process pool (C13); the terminal rendering of the
progress display.

State and aliasing (audit of hidden state: every entry point the property is observed through, every caller-supplied or long-lived
mutable object it receives or creates that can outlive one call, and the stream that (a) REUSES it across calls whose other arguments
differ, in both orders, (b) checks after every call that the caller's object is UNMODIFIED, (c) interleaves calls that FAIL part-way
and repeats a good call on the same objects and thread, (d) repeats a call and requires the same rows, (e) calls from another thread /
process where that is advertised.  `seq-cli` / `seq-api` are the two modes of kind 'seq'; + marks what this audit added):

  entry point                          object that outlives a call                   (a) reuse   (b) unmodified   (c) after failure   (d) twice   (e) thread
  get_file_id / strip_seq_file_ext     none of the caller's (str / PathLike in, str  -           -                -                   +label      -
    (cli/common.py)                    out); module constants FASTA_/GZIP_EXTENSIONS                                                  second pass
  get_sequence_files                   `explicit` list / tuple of paths; open list-  +files-     +files-second-   - (it does not      +files-     -
    (cli/common.py)                    file handle (consumed: documented) or list-   second-call call: the list   fail part-way: no   second-call
                                       file path; the RETURNED ids / files lists     (other ldir of paths is      file is opened)
                                       (the caller's from then on)                   / flags)    compared; the
                                                                                                 returned lists are
                                                                                                 scribbled on
  warn_duplicate_file_ids              the ids list (labels of the rows)             cli-random (duplicate labels in a batch; a list sorted in place
    (cli/common.py)                                                                  shows as a wrong label -- round 2)
  `gambit [-d DB] query ...`           per invocation: CLIContext, engine, session,  +seq-cli: 2-5 commands in ONE fresh process: two of the
    (cli/root.py, cli/query.py,        HDF5 reader, exporter, QueryParams -- all     databases A / B / Bf in both orders, channels, formats, -c,
    CLIContext in cli/common.py)       fresh; what survives an invocation is         progress, --strict, the same files in other batches, the same
                                       process-wide: module / class attributes of    NAME for another genome, ONE list-file path rewritten per
                                       gambit.cli.*, gambit.query, gambit.results,   command, ONE output path; (b) SHA-1 of every database /
                                       gambit.sigs.*, gambit.util.progress.REGISTRY, genome / list / signature file after every command; (c)
                                       the click command objects, the OpenMP thread  commands that fail part-way in between (truncated gzip /
                                       count (-c N stays set), the working           undecodable / missing file / directory in the middle of a
                                       directory, os.environ; on disk: the database  batch, signature file with other parameters or cut off);
                                       directory, genome files, list file,           (d) `twice`; (e) `thread`: the command in a thread of its own
                                       signature file, output file                   (+ cli-process-stdout: a process of its own)
  query(db, queries, params,           db: ReferenceDatabase (genomes list,          +seq-api: the SAME container / params / labels / QueryInput
        inputs=, progress=)            sig_indices list, HDF5 reader = open file,    list / progress configuration on two database objects of
    (query.py)                         ORM session); queries: list / tuple /         different size and order, in both orders (theme two-db:
                                       SignatureList / SignatureArray / index view / d0, d1, d0); `BA` = the genomes of B on the very reader
                                       HDF5-backed; params: QueryParams (mutable     OBJECT of A; (b) every pool object compared with a snapshot
                                       attrs; also ends up in results.params -- by   after every step (database: genome keys, sig_indices, ids,
                                       design); inputs: list / tuple of str /        session clean, file open; containers byte by byte; params
                                       QueryInput (QueryInput objects end up in the  field by field; lists element by element by identity);
                                       result items -- by design); progress:         (c) queries / inputs containers that raise after k items, a
                                       ProgressConfig (kw dict); the returned        progress meter that raises at its k-th movement, mismatching
                                       QueryResults                                  inputs, chunk size <= 0; (d) `twice`; (e) not advertised
                                                                                     (ORM objects are bound to their thread)
  query_parse(db, files, params,       files: list of SequenceFile (mutable attrs);  +seq-api (theme parse-fail: good parse, one with a truncated /
        file_labels=, parse_kw=)       file_labels list / tuple; parse_kw dict       undecodable / missing file in the MIDDLE, good parse -- same
    (query.py -> sigs/calc.py          (WRITTEN by the code as found: see below);    parse_kw, same thread(s)): concurrency None (the calling
     calc_file_signatures)             an executor of the caller's inside parse_kw   thread), 'threads', process pool, ONE ThreadPoolExecutor of
                                       (thread pool reused by later calls: worker    the caller's (1 or 2 workers) serving every call; labels /
                                       threads and whatever they keep); accumulators files containers that raise after k items (after k files
                                       (per call in the code as found)               were handed to the pool); (b) files, labels, parse_kw
                                                                                     (every key but the known one), executor still usable;
                                                                                     (e) concurrency='threads' and the process pool ARE the
                                                                                     advertised ways
  CSV/JSON/archive exporter .export    the QueryResults it is given (read-only       +seq-api: steps `export` (theme export: one result through 2-3
    (results.py)                       operation); the exporter object (format_opts, exporters, any order, again); ONE exporter object per format
                                       pretty; singledispatch registry on the class) serves all steps; (b) result object field by field (an
                                       ; the output stream (caller's, left open)     attribute deleted through vars() shows), exporter options;
                                                                                     (c) an output stream of the caller's that raises part-way,
                                                                                     then the same exporter and result again; (d) every result is
                                                                                     exported again after the last step and must read as before
  load_signatures (-s FILE)            HDF5Signatures: open h5py file, ids array     seq-api container 'hdf5' (one open reader queried on two
    (sigs/hdf5.py)                                                                   databases, whole and by index lists), seq-cli channel sig
  jaccarddist_matrix(out=, chunksize=) `out` is documented as written; called by     through query only (chunk sizes 1 .. > number of references
    (metric.py)                        query without `out`                           on databases of 213 and 142 references)

Found by this audit in the code as found (recorded, not repaired; proposed repair repo_fixes/C08-parse-kw-copy.diff): query_parse
writes its progress configuration into the CALLER's parse_kw dict (`parse_kw.setdefault('progress', ...)`), so the caller's next
query_parse with the same dict ignores its own `progress` argument and uses the previous call's -- a call asking for no display
writes to the earlier call's stream, and FAILS ("I/O operation on closed file") when that stream has been closed meanwhile: no rows for
a valid batch.  Sequence: SEQ_KNOWN_PARSE_KW below (stream seq-known-defect-probe; counted, not reported, as seq:known-defect:*; the
"unmodified" check lets through exactly the key `progress` added to a parse_kw dict and nothing else)."""
import csv
import gc
import glob
import gzip
import hashlib
import io
import itertools
import json
import os
import pathlib
import struct
import subprocess
import sys
import time
import zlib

PROP = 'C08'
RULE = ('label: names dir+stem+ext+gz, exhaustively all token strings of length <= 4 over {x . .fa .gz .fasta /} '
        'plus structured names; non-trivial: the name has an extension to strip or a directory part.  '
        'files: get_sequence_files on random positional lists / list-file texts, in several call forms (Path / str / tuple / '
        'PurePath arguments, list file as handle or path, base directory as str or Path); non-trivial: >= 2 entries.  '
        'cli: batches x orders x channel (pos/list/sig) x name spelling x gzip x -c N x progress x format; '
        'non-trivial: >= 2 inputs of >= 2 distinct genomes.  Added streams: cli-genome-classes (files without any k-mer, a '
        'reference genome), cli-flat-cwd (bare names, working directory = base directory, "--"), cli-call-forms (long / '
        '= / attached option spellings, option order, no -f, no progress flag, --db / environment, list on stdin, '
        '--strict/--no-strict), cli-cores-high (-c 5..16 in the quick tier), cli-sig-variants (integer ids, ids from file '
        'names, API-written files of other integer widths), cli-large-batch (24..40 inputs), cli-process-stdout (own process, '
        'rows on stdout), bundled-sigfile (the repository\'s 50-signature file vs its 50 genome files; property predicate only, '
        'no model).  api: chunk sizes; non-trivial: >= 2 distinct genomes and a chunk size smaller than the number of '
        'references; api-call-forms: chunk size as int / NumPy integer / keyword / positional field, inputs and query '
        'signatures in every accepted container, three exporters, progress arguments, shared QueryParams / parse_kw objects '
        '(labels judged only where the caller states them).  malformed-channels: two input channels at once, empty signature file.  '
        'cli-gzip-containers / api-gzip-containers (and a third of the compressed inputs of the other cli streams): the genome as a gzip '
        'file of every make -- one member or several (cut at record or line boundaries, mid-line, after the first / before the last byte, '
        'fixed blocks as bgzip / pigz -i write them), empty members first / middle / last, deflate levels 0..9 mixed between members, '
        'flush points inside a member, header fields FNAME / FCOMMENT / FEXTRA / FHCRC / FTEXT / MTIME / XFL / OS on all / some members -- '
        'under a name with or without .gz, positional / list file / signature file created from those files / query_parse and '
        'calc_file_signatures with compression auto and gzip; the row must equal the row of the uncompressed genome queried alone, the '
        'label the stem; non-trivial as for cli / api.  '
        'State and aliasing: seq (seq-cli: 2-5 `gambit query` commands in ONE process that has run nothing before, over a pool of files, '
        'two of three databases of different size / order / content in both orders, one list-file path and one output path reused, commands that '
        'fail part-way in between, a command in a thread of its own, a command run twice; seq-api: 3-6 calls of query / query_parse / the '
        'exporters over shared database objects (two of A / B / Bf / B-on-the-reader-of-A), QueryParams, signature containers, SequenceFile '
        'lists, label / QueryInput lists, parse_kw dicts with a thread pool of the caller\'s, progress configurations, exporter objects and '
        'earlier results; calls that fail part-way -- bad file in the middle, a container or progress meter of the caller\'s that raises, '
        'an output stream that raises -- followed by good calls on the same objects and threads).  Every step is judged by the predicate of '
        'the single-call kinds against the singleton rows of THAT step\'s database and compared with model ops 807 / 809; after every step '
        'all objects and files of the caller\'s must equal their snapshots; old results are exported again at the end; non-trivial: >= 2 '
        'good steps and two databases or a failing step in between.  files-second-call: get_sequence_files twice with the same list / tuple / '
        'open handle / path and other base directory / flags, the returned lists scribbled on in between, the caller\'s list compared; '
        'label second pass: every third name again, in reverse order, same answers')
TRUSTED = ['click (argument parsing, click.File / click.Path parameter types, CliRunner), concurrent.futures process '
           'pool, OpenMP and the progress meter are runtime: not modelled; the run checks that -c N and --progress '
           'leave the rows unchanged',
           'CPython pathlib / posixpath / str.strip / universal-newline text files: modelled in Model/C08.v '
           '(path_str, posix_join, basename, strip, universal_newlines) and compared with the real ones on every run',
           'the content of a row is compared with the implementation\'s own singleton run of that genome '
           '(the property is relational); what the content should be is C03/C09/C10/C11',
           'csv / json modules to read the output back; gzip to produce the one-member compressed copies',
           'gzip containers (RFC 1952) are written by the harness itself, member by member and header field by header field; zlib supplies '
           'the raw deflate streams and crc32, and an independent zlib.decompressobj loop checks on every file that the container holds '
           'exactly the genome\'s bytes in the intended number of members.  That such a file IS the same genome is RFC 1952 (a gzip file '
           'is a series of members) -- what gzip -d, zcat and Python\'s gzip module implement',
           'gambit signatures create -d -i IDS to build the signature files (order of signatures: C13); calc_file_signatures on a '
           'single file + dump_signatures to build the API-written signature files and the query signatures of the api cases',
           'subprocess / `python -m gambit` for the own-process cases; h5py to read the ids of the bundled signature file',
           'the singleton reference rows come from a helper process that imports gambit.cli and then only forks: each reference is the '
           'single command of a freshly forked child (state: modules imported, nothing called), so state that survives between commands in '
           'the harness\'s own process cannot reach the references; each sequence case runs in such a child as well (os.fork, pickle for '
           'the prepared inputs, JSON for the findings)',
           'the second databases B / Bf are made from the bundled one with sqlite3 (annotations of every third genome deleted) and '
           'gambit\'s own load_signatures / dump_signatures (signatures reversed and stored under the neighbour\'s id): preparation; what '
           'their rows should be is decided by singleton runs on B / Bf themselves',
           'snapshots: hashlib SHA-1 of files, attr.asdict / id() / tobytes() of objects; concurrent.futures.ThreadPoolExecutor as the '
           'caller\'s executor; threading for the own-thread commands']
ASSUMPTIONS = ['the distance between a query and a reference signature, the classification of a distance row and the '
               'signature computed from a file are functions of their arguments (theorems are polymorphic in them); '
               'no shared mutable state between rows',
               'the reference chunk size is None or positive (otherwise ValueError, modelled and tested)',
               'the signature file holds as many ids as signatures (C12/C20)',
               'files are not modified while a command runs; file names are valid UTF-8',
               'sequences: the steps of one script run one after the other (no two calls at the same time on the same objects); a call '
               'may keep what the documentation says it keeps (results.params IS the caller\'s params object, result items hold the '
               'caller\'s QueryInput objects, an open list-file handle is read to its end); ORM-backed database objects stay in the '
               'thread that loaded them',
               'known, recorded defect (repo_fixes/C08-parse-kw-copy.diff): query_parse adds the key `progress` to the caller\'s parse_kw '
               'dict; exactly that key is let through by the unmodified check, and the one script in which the stale entry makes a good '
               'call fail is counted (seq:known-defect:*) instead of reported']
CORRESPONDENCES = ['label', 'files', 'cli', 'api', 'seq']      # + kind 'bundled': property predicate only, no model
BATCH = 4000
SHRINK = False    # cases are structured (inputs refer to genomes by index); generated smallest first

FASTA_EXT = ['.fasta', '.fna', '.ffn', '.faa', '.frn', '.fa']
ALL_EXT = ['.gz'] + FASTA_EXT
NG = 6            # number of distinct base genomes (bundled query genomes)
NGX = NG + 4      # + extra genomes: empty file, header only, no k-mer, a copy of a reference genome
NREFS_MODEL = 5   # references in the wire instantiation of the model
QERR = {1: 'NoQueries', 2: 'InputsMismatch', 3: 'ZipStrict', 4: 'BadChunkSize', 5: 'ShapeMismatch', 6: 'IndexErr',
        7: 'Uninit', 8: 'OutOfFuel', 9: 'UsageExclusive', 10: 'UsageRequired', 11: 'NoFiles'}

_S = {}


def S(s):
	return [ord(c) for c in s]


def U(l):
	return ''.join(chr(c) for c in l)


# ------------------------------------------------------------------------------------------------
# set-up: base genomes, singleton contents
# ------------------------------------------------------------------------------------------------

def setup(ctx):
	from vf import impl
	impl.check_import()
	_S.clear()
	_S['cwd'] = os.getcwd()
	root = impl.scratch_dir('gambit-verif-c08-')
	_S['root'] = root
	_S['db'] = os.path.join(ctx.repo, 'tests', 'data', 'testdb_210818')
	srcs = sorted(glob.glob(os.path.join(_S['db'], 'queries', 'genomes', '*.fasta.gz')))
	if len(srcs) < NG:
		raise RuntimeError('bundled query genomes not found under ' + _S['db'])
	step = len(srcs) // NG
	_S['genomes'] = [gzip.decompress(open(srcs[i * step], 'rb').read()) for i in range(NG)]
	# extra input classes (indices NG ..): genomes without a single k-mer and a genome that IS a reference
	refs = sorted(glob.glob(os.path.join(_S['db'], 'ref-genomes', '*.fasta')))
	if not refs:
		raise RuntimeError('bundled reference genomes not found under ' + _S['db'])
	_S['genomes'] += [b'', b'>only a header line\n', b'>too short for any k-mer\nACGTAC\n', open(refs[len(refs) // 2], 'rb').read()]
	assert len(_S['genomes']) == NGX
	_S['ref'] = {}
	_S['sigfiles'] = {}
	_S['sigs'] = {}
	_S['n'] = 0
	os.makedirs(os.path.join(root, 'g0'), exist_ok=True)
	os.makedirs(os.path.join(root, 'wd'), exist_ok=True)      # working directory of the cli runs: NOT the base directory
	os.makedirs(os.path.join(root, 'flat'), exist_ok=True)    # ... except for the 'flat' cases: bare names in the working directory


def teardown(ctx):
	_refsrv_stop()
	if 'cwd' in _S:
		os.chdir(_S['cwd'])


def _tmp_dir():
	d = os.path.join(_S['root'], 'tmp')
	os.makedirs(d, exist_ok=True)
	return d


def _tmp(suffix):
	_S['n'] += 1
	return os.path.join(_tmp_dir(), f'f{_S["n"]}{suffix}')


def _name(inp):
	return inp['stem'] + inp['ext'] + ('.gz' if inp['gz'] else '')


def _relpath(inp, flat=False):
	"""path of the input's file relative to the scratch root (the harness's own naming scheme)"""
	if flat:
		return 'flat/' + _name(inp)
	parts = [f'g{inp["g"]}']
	if inp.get('bad'):
		parts.append('bad-' + inp['bad']['kind'] + '-' + '-'.join(str(g) for g in inp['bad'].get('gs', [])))
	if inp.get('gzc'):
		# the same name may hold the same genome in different gzip containers: one directory per container description
		parts.append('z' + hashlib.md5(json.dumps(inp['gzc'], sort_keys=True).encode()).hexdigest()[:10])
	parts += ([inp['dir']] if inp['dir'] else []) + [_name(inp)]
	return '/'.join(parts)


# ---- gzip containers ------------------------------------------------------------------------------
# RFC 1952: a gzip file is a SERIES of members, each with its own header (optional FEXTRA / FNAME / FCOMMENT / FHCRC fields, MTIME, XFL,
# OS), a raw deflate stream and a CRC32 + ISIZE trailer; the file stands for the concatenation of the members' data.  `cat a.gz b.gz`,
# bgzip (BGZF: blocks of < 64 KiB with a 'BC' extra subfield and an empty end-of-file member), `pigz -i` and appending `gzip -c`
# produce several members; `gzip FILE` stores the file name (FNAME) and its modification time.  The members are written here byte by
# byte (zlib only supplies the raw deflate streams), so that every header field and member boundary is the harness's own choice.

def _gz_member(data, level=6, hdr=None, flush=None):
	hdr = hdr or {}
	flg = (1 if hdr.get('text') else 0) | (2 if hdr.get('hcrc') else 0) | (4 if hdr.get('extra') is not None else 0) \
		| (8 if hdr.get('name') is not None else 0) | (16 if hdr.get('comment') is not None else 0)
	co = zlib.compressobj(level, zlib.DEFLATED, -15, 9, {'filtered': zlib.Z_FILTERED, 'huffman': zlib.Z_HUFFMAN_ONLY, 'rle': zlib.Z_RLE,
	                                                  'fixed': zlib.Z_FIXED}.get(hdr.get('strategy'), zlib.Z_DEFAULT_STRATEGY))
	body = b''
	if flush and data:
		# several deflate blocks inside ONE member (what pigz without -i and flushing writers produce)
		n = flush.get('n', 2)
		mode = zlib.Z_FULL_FLUSH if flush.get('mode') == 'full' else zlib.Z_SYNC_FLUSH
		step = max(1, len(data) // (n + 1))
		for k in range(0, len(data), step):
			body += co.compress(data[k:k + step]) + co.flush(mode)
	else:
		body += co.compress(data)
	body += co.flush()
	trailer = struct.pack('<II', zlib.crc32(data) & 0xffffffff, len(data) & 0xffffffff)

	def head(extra):
		h = struct.pack('<BBBBIBB', 0x1f, 0x8b, 8, flg, hdr.get('mtime', 0) & 0xffffffff, hdr.get('xfl', 0), hdr.get('os', 255))
		if extra is not None:
			h += struct.pack('<H', len(extra)) + extra
		if hdr.get('name') is not None:
			h += hdr['name'].encode('latin-1') + b'\x00'
		if hdr.get('comment') is not None:
			h += hdr['comment'].encode('latin-1') + b'\x00'
		if hdr.get('hcrc'):
			h += struct.pack('<H', zlib.crc32(h) & 0xffff)
		return h
	extra = hdr.get('extra')
	if extra == 'bgzf':
		# BGZF: subfield 'B','C', length 2, value = total size of the member - 1
		total = len(head(b'BC\x02\x00\x00\x00')) + len(body) + 8
		if total > 65536:
			raise RuntimeError('harness error: BGZF member larger than 64 KiB')
		extra = b'BC\x02\x00' + struct.pack('<H', total - 1)
	elif extra is not None:
		extra = bytes.fromhex(extra)
	return head(extra) + body + trailer


def _gz_cuts(data, gzc):
	"""the offsets at which the genome's bytes are divided into members"""
	cut = gzc.get('cut', 'single')
	n = len(data)
	if cut == 'single':
		offs = []
	elif cut == 'records':            # one member per FASTA record
		offs = [k for k in range(1, n) if data[k:k + 1] == b'>' and data[k - 1:k] in (b'\n', b'\r')]
	elif cut == 'lines':              # at the line boundaries nearest to the given fractions of the file
		offs = []
		for f in gzc['at']:
			k = data.find(b'\n', int(f * n))
			if k >= 0:
				offs.append(k + 1)
	elif cut == 'frac':               # at raw byte offsets: in the middle of a line, of a header, of a record
		offs = [int(f * n) for f in gzc['at']]
	elif cut == 'bytes':              # absolute offsets, negative ones from the end (1: after the '>'; -1: before the final newline)
		offs = [k if k >= 0 else n + k for k in gzc['at']]
	elif cut == 'block':              # fixed-size blocks (bgzip: 65280 bytes, pigz -i: its block size)
		offs = list(range(gzc['block'], n, gzc['block']))
	else:
		raise ValueError(cut)
	return sorted(set(k for k in offs if 0 < k < n))


def _gz_container(data, gzc):
	"""the genome's bytes as a gzip file made the way `gzc` says (see _rand_gzc for the fields)"""
	offs = [0] + _gz_cuts(data, gzc) + [len(data)]
	parts = [data[a:b] for a, b in zip(offs, offs[1:])]
	empty = gzc.get('empty', [])
	if 'mid' in empty and len(parts) >= 2:
		parts.insert(len(parts) // 2, b'')
	if 'first' in empty:
		parts.insert(0, b'')
	if 'last' in empty:
		parts.append(b'')
	if gzc.get('eof_block'):          # bgzip's end-of-file marker: an empty BGZF member
		parts.append(b'')
	levels = gzc.get('levels') or [6]
	hdr = gzc.get('hdr')
	on = gzc.get('hdr_on', 'all')
	out = b''
	for k, part in enumerate(parts):
		h = hdr if (on == 'all' or (on == 'first' and k == 0) or (on == 'rest' and k > 0) or (on == 'alt' and k % 2 == 1)) else None
		out += _gz_member(part, levels[k % len(levels)], h, gzc.get('flush'))
	# the harness's own sanity check with an independent reader: the container stands for exactly the genome's bytes
	got, rest, nmemb = b'', out, 0
	while rest:
		d = zlib.decompressobj(31)
		got += d.decompress(rest) + d.flush()
		if not d.eof:
			raise RuntimeError('harness error: gzip member does not end')
		rest = d.unused_data
		nmemb += 1
	if got != data or nmemb != len(parts):
		raise RuntimeError(f'harness error: gzip container {gzc} does not hold the genome')
	return out


def _is_gzip(inp):
	"""the CONTENT is gzip: the name says so (one plain member, as before) or a container description is given (with or without
	the '.gz' suffix in the name -- the command decides by the content)"""
	return bool(inp['gz'] or inp.get('gzc'))


def _file_bytes(inp):
	data = _S['genomes'][inp['g']]
	if inp.get('bad'):
		# an input on which the command / call has to FAIL, part-way: the records of one or two genomes come first (they are parsed
		# and their k-mers collected), then the file turns out to be truncated / undecodable
		bad = inp['bad']
		data = b''.join(_S['genomes'][g] for g in bad['gs'])
		if bad['kind'] == 'truncgz':
			z = gzip.compress(data, mtime=0)
			return z[:max(20, int(len(z) * bad.get('frac', 0.7)))]
		if bad['kind'] == 'badutf8':
			return data + b'>undecodable\n\xff\xfe\xfa\n'
		raise ValueError(bad)
	if inp.get('gzc'):
		return _gz_container(data, inp['gzc'])
	return gzip.compress(data, mtime=0) if inp['gz'] else data


def _materialise(inp, flat=False):
	rel = _relpath(inp, flat)
	path = os.path.join(_S['root'], rel)
	data = _S['genomes'][inp['g']]
	if inp.get('bad') and inp['bad']['kind'] in ('missing', 'dir'):
		if flat:
			raise RuntimeError('harness error: bad inputs are not used in the flat cases')
		if inp['bad']['kind'] == 'dir':            # a directory where a genome file is expected
			os.makedirs(path, exist_ok=True)
		else:
			os.makedirs(os.path.dirname(path), exist_ok=True)
			if os.path.lexists(path):
				raise RuntimeError(f'harness error: {path} exists')
		return rel
	if not os.path.exists(path):
		os.makedirs(os.path.dirname(path), exist_ok=True)
		with open(path, 'wb') as f:
			f.write(_file_bytes(inp))
	elif flat:
		# one directory for all genomes: the generator has to keep the names of different genomes apart
		with open(path, 'rb') as f:
			have = f.read()
		if (gzip.decompress(have) if have[:2] == b'\x1f\x8b' else have) != data:
			raise RuntimeError(f'harness error: flat name {_name(inp)!r} used for two genomes')
		want = _file_bytes(inp)
		if have != want:              # same genome under the same name in another container: the case at hand decides
			with open(path, 'wb') as f:
				f.write(want)
	return rel


def _invoke(args, db='short', stdin=None, dbname='A'):
	from click.testing import CliRunner
	import gambit.cli
	# Every invocation opens its own SQLite connection and leaves it to the garbage collector.  With -c N the
	# process pool's management thread may be the one that triggers a collection, and SQLite refuses to close a
	# connection from another thread (a noisy, harmless message).  So: automatic collection off while commands
	# run, explicit collection in this thread after each one.
	was = gc.isenabled()
	gc.disable()
	pre, env = _db_args(db, dbname)
	res = e = None
	try:
		res = CliRunner(env=env).invoke(gambit.cli.cli, pre + args, input=stdin)
		if res.exit_code == 0 and res.exception is None:
			ret = None
		else:
			e = res.exception
			ret = f'{type(e).__name__}({e})' if e is not None and not isinstance(e, SystemExit) else \
				f'exit{res.exit_code}: {(res.output or "").strip()[-160:]}'
	finally:
		# (the result object of a FAILED command holds the traceback, hence the frames, hence the connection: let go of it before
		# collecting, so that the connection is closed here and now, in the thread that opened it)
		res = e = None
		gc.collect()
		if was:
			gc.enable()
	return ret


def _db_args(db, dbname='A'):
	"""how the database directory reaches the command: -d DB | --db DB | --db=DB | environment variable; `dbname` says WHICH
	database (A: the bundled one; B / Bf: the harness's second databases, see _dbdir)"""
	d = _dbdir(dbname)
	if db == 'short':
		return ['-d', d], None
	if db == 'long':
		return ['--db', d], None
	if db == 'eq':
		return ['--db=' + d], None
	if db == 'env':
		return [], {'GAMBIT_DB_PATH': d}
	raise ValueError(db)


def _dbdir(name):
	"""The databases of the sequence streams (one object / one process used against databases of different size and content):
	  A   the bundled test database (213 genomes)
	  B   the same genome file with the annotations of every third genome deleted (142 genomes), signature file holding ONLY 142
	      signatures, in REVERSED order and each stored under the id of its NEIGHBOUR (so the reference order, the positions in the
	      signature file, the number of references AND the signature that belongs to a given genome id all differ from A: signatures
	      of A or Bf used for the genomes of B, or the other way round, give other rows or no rows at all)
	  Bf  the genome file of B with the FULL signature file of A (71 signatures belong to no genome: the indices into the file skip)
	Built once with sqlite3 and gambit's own load_signatures / dump_signatures (a preparation step: what the rows of B / Bf should be
	is decided by the singleton runs on B / Bf themselves)."""
	if name == 'A':
		return _S['db']
	key = 'dbdir:' + name
	if key not in _S:
		import shutil
		import sqlite3
		import numpy as np
		from gambit.sigs import SignatureArray, AnnotatedSignatures, load_signatures, dump_signatures
		if name not in ('B', 'Bf'):
			raise ValueError(name)
		d = os.path.join(_S['root'], 'dbs', name)
		os.makedirs(d, exist_ok=True)
		gdb = os.path.join(d, 'second.gdb')
		shutil.copyfile(os.path.join(_S['db'], 'ref-genomes.gdb'), gdb)
		con = sqlite3.connect(gdb)
		con.execute('DELETE FROM genome_annotations WHERE genome_id % 3 = 0')
		con.commit()
		keep = {r[0] for r in con.execute('SELECT g."key" FROM genomes g JOIN genome_annotations a ON a.genome_id = g.id')}
		con.close()
		src = os.path.join(_S['db'], 'ref-signatures.gs')
		if name == 'Bf':
			shutil.copyfile(src, os.path.join(d, 'second.gs'))
		else:
			with load_signatures(src) as sigs:
				ids = [i.decode() if isinstance(i, bytes) else str(i) for i in sigs.ids]
				order = [n for n in reversed(range(len(ids))) if ids[n] in keep]
				arr = SignatureArray([np.array(sigs[n]) for n in order[1:] + order[:1]], sigs.kmerspec, dtype=sigs.dtype)
				dump_signatures(os.path.join(d, 'second.gs'), AnnotatedSignatures(arr, np.array([ids[n] for n in order], dtype=object), sigs.meta), 'hdf5')
			if len(order) != len(keep) or not 0 < len(keep) < len(ids):
				raise RuntimeError('harness error: second database')
		_S[key] = d
	return _S[key]


def _invoke_proc(args, db='short', stdin=None, dbname='A'):
	"""the command in a process of its own (`python -m gambit ...`); -> (error or None, what it wrote to stdout)"""
	pre, env = _db_args(db, dbname)
	e = dict(os.environ)
	e.pop('GAMBIT_DB_PATH', None)
	e.update(env or {})
	p = subprocess.run([sys.executable, '-m', 'gambit'] + pre + args, input=(stdin or '').encode('utf-8'), stdout=subprocess.PIPE,
	                   stderr=subprocess.PIPE, env=e, timeout=300)
	if p.returncode != 0:
		return f'exit{p.returncode}: {p.stderr.decode("utf-8", "replace").strip()[-160:]}', None
	return None, p.stdout.decode('utf-8')


LONG_OPT = {'-o': '--output', '-f': '--outfmt', '-c': '--cores', '-s': '--sigfile', '-l': None, '--ldir': '--ldir'}


def _respell(tokens, style):
	"""the same options written another way: 'short' (-o X) | 'long' (--output X) | 'eq' (--output=X) | 'attached' (-oX).
	`tokens` holds options (with their value as the next token) first, then the positional arguments."""
	if style == 'short':
		return list(tokens)
	out, n = [], 0
	while n < len(tokens):
		t = tokens[n]
		if t not in LONG_OPT:
			out.append(t)
			n += 1
			continue
		v, long = tokens[n + 1], LONG_OPT[t]
		n += 2
		if style == 'long':
			out += [long or t, v]
		elif style == 'eq':
			out += [long + '=' + v] if long else [t, v]
		elif style == 'attached':
			out += [t + v] if not t.startswith('--') else [t, v]
		else:
			raise ValueError(style)
	return out


def _sort_closest(lst):
	return sorted(lst, key=lambda m: (m['distance'], json.dumps(m['genome'].get('key'))))


def _rows(fmt, text):
	"""output text -> [(label, path or None, content)]"""
	out = []
	if fmt == 'csv':
		rows = list(csv.reader(io.StringIO(text)))
		hdr = rows[0]
		for r in rows[1:]:
			d = dict(zip(hdr, r))
			d['#cols'] = len(r)
			out.append((d.pop('query'), None, d))
	elif fmt == 'json':
		for it in json.loads(text)['items']:
			q = it.pop('query')
			it['closest_genomes'] = _sort_closest(it['closest_genomes'])
			out.append((q['name'], q['path'], it))
	else:
		for it in json.loads(text)['items']:
			q = it.pop('input')
			it['closest_genomes'] = _sort_closest(it['closest_genomes'])
			out.append((q['label'], None if q['file'] is None else q['file']['path'], it))
	return out


def _run_query(fmt, args, npos=0, call=None, stdin=None):
	"""-> ('ok', rows) | ('error', text).  `args`: options (each followed by its value), then `npos` positional arguments.
	`call` (all optional) says how the command line is written and where the output goes:
	  spell     short | long | eq | attached       option spellings
	  order     first | last | split                options before / after / around the positional arguments
	  ddash     '--' before the positional arguments
	  omit_fmt  no -f at all (the default format has to be csv)
	  db        short | long | eq | env             how the database directory is given
	  dbname    A | B | Bf                          which database (see _dbdir)
	  out       path of the output file (sequence streams: the SAME output file serves several invocations; it is left in place)
	  proc      run `python -m gambit` in a process of its own and take the rows from its standard output (no -o)"""
	call = call or {}
	proc = bool(call.get('proc'))
	out = None if proc else (os.path.join(_tmp_dir(), 'seq-shared.out') if call.get('out') else _tmp('.' + fmt))
	opts, pos = list(args[:len(args) - npos]), list(args[len(args) - npos:])
	opts = ([] if proc else ['-o', out]) + ([] if call.get('omit_fmt') else ['-f', fmt]) + opts
	opts = _respell(opts, call.get('spell', 'short'))
	if call.get('ddash'):
		pos = ['--'] + pos
	order = call.get('order', 'first')
	if order == 'first' or call.get('ddash'):
		argv = opts + pos
	elif order == 'last':
		argv = pos + opts
	else:
		h = len(pos) // 2
		argv = pos[:h] + opts + pos[h:]
	if proc:
		err, text = _invoke_proc(['query'] + argv, call.get('db', 'short'), stdin, call.get('dbname', 'A'))
	else:
		err = _invoke(['query'] + argv, call.get('db', 'short'), stdin, call.get('dbname', 'A'))
	if err is not None:
		return ('error', err)
	if not proc:
		with open(out) as f:
			text = f.read()
		if not call.get('out'):
			os.remove(out)
	try:
		return ('ok', _rows(fmt, text))
	except Exception as e:
		return ('error', f'output is not readable as {fmt}: {type(e).__name__}({e}): {text[:200]!r}')


# ---- singleton references from a process in which NOTHING has run yet -----------------------------------------------------------
# The reference rows ("genome g queried alone") used to come from commands run in the harness's own process.  With sequences in the
# campaign that is no longer sound: state that a change of the code lets survive between commands (a class-level cache, a module-level
# memo) reaches the reference runs too -- they then fail (a framework error instead of a finding) or agree with the wrong rows.  So a
# helper process is started once; it imports the command-line interface and then does nothing but FORK: every reference is one command
# in a child of its own, which starts from the state "modules imported, no call made yet" and exits afterwards.

_REFSRV = r"""
import sys, os, json
import gambit.cli
from click.testing import CliRunner
try:
	import harness.c08 as H
except Exception:
	H = None
sys.stdout.write('ready\n'); sys.stdout.flush()
while True:
	line = sys.stdin.readline()
	if not line:
		break
	req = json.loads(line)
	pid = os.fork()
	if pid == 0 and req.get('op') == 'seq':
		code = 4
		try:
			H._seq_child(req)
			code = 0
		finally:
			os._exit(code)
	if pid == 0:
		code = 4
		try:
			os.chdir(req['cwd'])
			res = CliRunner().invoke(gambit.cli.cli, req['args'])
			if res.exit_code == 0 and res.exception is None:
				code = 0
			else:
				with open(req['err'], 'w') as f:
					f.write(f'exit{res.exit_code}: {res.exception!r} {(res.output or "")[-300:]}')
				code = 3
		finally:
			os._exit(code)
	_, status = os.waitpid(pid, 0)
	sys.stdout.write(json.dumps(dict(status=status)) + '\n'); sys.stdout.flush()
"""


def _refsrv():
	if 'refsrv' not in _S:
		e = dict(os.environ)
		e.pop('GAMBIT_DB_PATH', None)
		p = subprocess.Popen([sys.executable, '-c', _REFSRV], stdin=subprocess.PIPE, stdout=subprocess.PIPE, env=e, text=True, bufsize=1)
		if p.stdout.readline().strip() != 'ready':
			raise RuntimeError('the reference helper process did not start')
		_S['refsrv'] = p
	return _S['refsrv']


def _refsrv_stop():
	p = _S.pop('refsrv', None)
	if p is not None:
		try:
			p.stdin.close()
			p.wait(timeout=20)
		except Exception:
			p.kill()


def _pristine_query(fmt, args, dbname='A'):
	"""`gambit -d DB query -o FILE -f fmt args` as the only command of a freshly forked process -> ('ok', rows) | ('error', text)"""
	out, err = _tmp('.' + fmt), _tmp('.err')
	p = _refsrv()
	p.stdin.write(json.dumps(dict(cwd=os.path.join(_S['root'], 'wd'), err=err, args=['-d', _dbdir(dbname), 'query', '-o', out, '-f', fmt] + list(args))) + '\n')
	p.stdin.flush()
	line = p.stdout.readline()
	if not line:
		raise RuntimeError('the reference helper process died')
	status = json.loads(line)['status']
	try:
		if status != 0:
			return ('error', open(err).read() if os.path.exists(err) else f'wait status {status}')
		with open(out) as f:
			return ('ok', _rows(fmt, f.read()))
	finally:
		for x in (out, err):
			if os.path.exists(x):
				os.remove(x)


def _reference(g, fmt, strict=False, dbname='A'):
	"""content of the singleton run of genome g: one positional plain FASTA file, default options (on database `dbname`)"""
	key = (g, fmt, bool(strict)) if dbname == 'A' else (g, fmt, bool(strict), dbname)
	if key not in _S['ref'] and _S.get('in_child'):
		raise RuntimeError(f'harness error: reference {key} was not handed to the child process')
	if key not in _S['ref']:
		rel = _materialise(dict(g=g, dir='ref', stem=f'genome{g}', ext='.fasta', gz=False))
		# (the second databases: with `-c 1`, so that the process pool is not as many processes as the machine has cores -- the
		# sequence streams need many of these runs)
		r = _pristine_query(fmt, ['--no-progress'] + (['--strict'] if strict else []) + (['-c', '1'] if dbname != 'A' else []) + [os.path.join(_S['root'], rel)], dbname)
		if r[0] != 'ok' or len(r[1]) != 1:
			raise RuntimeError(f'singleton reference run failed for genome {g}: {r}')
		_S['ref'][key] = r[1][0][2]
	return _S['ref'][key]


def _ref_cached(g, fmt, strict=False, dbname='A'):
	"""the reference if it has been computed already, else None (for the wording of findings only)"""
	return _S['ref'].get((g, fmt, bool(strict)) if dbname == 'A' else (g, fmt, bool(strict), dbname))


def _kspec():
	"""the k-mer search parameters of the bundled database"""
	if 'kspec' not in _S:
		ks = _db().signatures.kmerspec
		_S['kspec'] = (int(ks.k), ks.prefix_str)
	from gambit.kmers import KmerSpec
	return KmerSpec(_S['kspec'][0], _S['kspec'][1].encode('ascii'))


def _genome_sig(g):
	"""signature of genome g (computed once, alone, by the implementation; only used to BUILD inputs: signature files and
	the query signatures of the api cases)"""
	if g not in _S['sigs']:
		import numpy as np
		from gambit.seq import SequenceFile
		from gambit.sigs.calc import calc_file_signatures
		path = os.path.join(_S['root'], _materialise(dict(g=g, dir='ref', stem=f'genome{g}', ext='.fasta', gz=False)))
		sigs = calc_file_signatures(_kspec(), SequenceFile.from_paths([path], 'fasta', 'auto'))
		_S['sigs'][g] = np.array(sigs[0])
	return _S['sigs'][g]


def _sigfile_api(gs, ids, sig):
	"""signature file written through the Python API: ids of another type, another integer width, metadata or not"""
	key = json.dumps([gs, ids, sig], sort_keys=True)
	if key not in _S['sigfiles']:
		import numpy as np
		from gambit.sigs import SignatureArray, SignaturesMeta, AnnotatedSignatures, dump_signatures
		kspec = _kspec()
		arr = SignatureArray([_genome_sig(g) for g in gs], kspec, dtype=np.dtype(sig.get('dtype', 'u8')))
		if sig.get('idkind') == 'int':
			idarr = np.array([int(i) for i in ids], dtype=np.int64)
		else:
			idarr = np.array([str(i) for i in ids], dtype=object) if ids else np.array([], dtype=object)
		meta = SignaturesMeta(id='harness', name='made by harness/c08.py', version='1.0', id_attr='key', description='d') \
			if sig.get('meta') else SignaturesMeta()
		path = _tmp('.gs')
		dump_signatures(path, AnnotatedSignatures(arr, idarr, meta), 'hdf5')
		_S['sigfiles'][key] = path
	return _S['sigfiles'][key]


def _sigfile_noids(gs):
	"""signature file made by `gambit signatures create` WITHOUT -i: the stored ids are derived from the file names"""
	key = json.dumps(['noids', gs])
	if key not in _S['sigfiles']:
		path = _tmp('.gs')
		files = [os.path.join(_S['root'], _materialise(dict(g=g, dir='ref', stem=f'genome{g}', ext='.fasta', gz=False))) for g in gs]
		err = _invoke(['signatures', 'create', '-d', '-o', path, '--no-progress'] + files)
		if err is not None:
			raise RuntimeError('could not build signature file: ' + err)
		_S['sigfiles'][key] = path
	return _S['sigfiles'][key]


def _sigfile_bad(gs, ids, how):
	"""a signature file `query -s` has to refuse: computed with OTHER k-mer search parameters (bad-kspec), or cut off in the middle
	(bad-trunc)"""
	key = json.dumps([how, gs, ids])
	if key not in _S['sigfiles']:
		import numpy as np
		from gambit.kmers import KmerSpec
		from gambit.sigs import SignatureArray, SignaturesMeta, AnnotatedSignatures, dump_signatures
		path = _tmp('.gs')
		if how == 'bad-kspec':
			kspec = KmerSpec(7, 'ATGC')
			arr = SignatureArray([np.arange(3 + g, dtype=kspec.index_dtype) for g in gs], kspec)
			dump_signatures(path, AnnotatedSignatures(arr, np.array([str(i) for i in ids], dtype=object), SignaturesMeta()), 'hdf5')
		else:
			with open(_sigfile_api(gs, ids, dict(how='api', idkind='str', dtype='u8')), 'rb') as f:
				data = f.read()
			with open(path, 'wb') as f:
				f.write(data[:len(data) // 2])
		_S['sigfiles'][key] = path
	return _S['sigfiles'][key]


class _Unbuildable(Exception):
	"""`signatures create` (trusted, a preparation step) failed on the inputs' own files: the case cannot be judged"""


def _sigfile(gs, ids, inputs=None):
	"""signature file holding the signatures of genomes gs under the given ids; computed from the plain reference copies of the
	genomes, or (inputs given) from the inputs' own files -- whatever their names and gzip containers are"""
	key = json.dumps([gs, ids, inputs], sort_keys=True)
	if key not in _S['sigfiles']:
		path = _tmp('.gs')
		idf = _tmp('.ids')
		with open(idf, 'w', encoding='utf-8', newline='') as f:
			f.write(''.join(i + '\n' for i in ids))
		if inputs is not None:
			files = [os.path.join(_S['root'], _materialise(i)) for i in inputs]
		else:
			files = [os.path.join(_S['root'], _materialise(dict(g=g, dir='ref', stem=f'genome{g}', ext='.fasta', gz=False))) for g in gs]
		err = _invoke(['signatures', 'create', '-d', '-o', path, '-i', idf, '--no-progress'] + files)
		if err is not None and inputs is not None:
			raise _Unbuildable(err)
		if err is not None:
			raise RuntimeError('could not build signature file: ' + err)
		_S['sigfiles'][key] = path
	return _S['sigfiles'][key]


# ------------------------------------------------------------------------------------------------
# kind: label
# ------------------------------------------------------------------------------------------------

def _in_label_spec(c):
	name = c['stem'] + c['ext'] + c['gz']
	if c['ext'] not in FASTA_EXT + [''] or c['gz'] not in ('', '.gz') or '/' in name:
		return False
	if c['dir'] and not c['dir'].endswith('/'):
		return False
	if c['ext'] == '' and any(c['stem'].endswith(e) for e in ALL_EXT):
		return False
	return True


def k_label(ctx, cases):
	from gambit.cli import common
	reqs = []
	for c in cases:
		p = c['dir'] + c['stem'] + c['ext'] + c['gz']
		reqs += [(802, [S(p), True, True]), (801, S(c['stem'] + c['ext'] + c['gz'])), (802, [S(p), True, False]), (802, [S(p), False, True])]
	ans = ctx.model(reqs) if ctx.model_ok else None
	firsts = []
	for j, c in enumerate(cases):
		p = c['dir'] + c['stem'] + c['ext'] + c['gz']
		name = c['stem'] + c['ext'] + c['gz']
		impl = [common.get_file_id(p), common.strip_seq_file_ext(name), common.get_file_id(p, strip_ext=False),
		        common.get_file_id(p, strip_dir=False)]
		spec = _in_label_spec(c)
		ctx.case(c, nontrivial=bool(c['dir'] or c['ext'] or c['gz']))
		if spec:
			ctx.count('label:in-spec')
		m = [U(x) for x in ans[4 * j:4 * j + 4]] if ans else None
		if spec and (impl[0] != c['stem'] or impl[1] != c['stem']):
			ctx.violation('label', c, f'label of {p!r} is {impl[0]!r}, the stem is {c["stem"]!r}', impl=impl, spec=c['stem'], model=m)
		elif m is not None and m != impl:
			ctx.broke('correspondence label (model != implementation outside/inside the specified names)', f'case {c}: impl={impl} model={m}')
		if spec and m is not None and m[0] != c['stem']:
			ctx.broke('model label != stem on a specified name (contradicts theorem C08_label)', f'case {c}: model={m}')
		firsts.append(impl)
	# same call, same result: every third case of the batch once more, in REVERSE order, after all the other names have been through the functions
	# (a memo keyed too coarsely, a module-level table of extensions that a call changed)
	for c, impl in list(zip(reversed(cases), reversed(firsts)))[::3]:
		p = c['dir'] + c['stem'] + c['ext'] + c['gz']
		again = [common.get_file_id(p), common.strip_seq_file_ext(c['stem'] + c['ext'] + c['gz']), common.get_file_id(p, strip_ext=False),
		         common.get_file_id(p, strip_dir=False)]
		if again != impl:
			# (depends on the calls in between: there is no one-case replay, so it is reported as a broken obligation)
			ctx.broke('label: same call, same result (get_file_id / strip_seq_file_ext are functions of their arguments)',
			          f'label of {p!r}: the same call gave {impl} the first time and {again} after the {len(cases)} other names of the batch')
			break
	ctx.count('label:second-pass', len(cases[::3]))


# ------------------------------------------------------------------------------------------------
# kind: files
# ------------------------------------------------------------------------------------------------

def _files_spec(c, path):
	"""what the property says get_sequence_files has to return as files (None: nothing given)"""
	if c['text'] is None:
		return [str(pathlib.PurePosixPath(x)) for x in c['explicit']] or None
	with open(path, 'r') as f:
		spec_lines = [x.strip() for x in f.read().split('\n') if x.strip()]
	# the property: every non-blank line names a file below the base directory
	return [str(pathlib.PurePosixPath(c['ldir']) / x) for x in spec_lines]


def k_files(ctx, cases):
	"""A case may carry `again` = dict(ldir=, strip_dir=, strip_ext=): a SECOND call with the SAME caller objects (the same list / tuple
	of paths, the same open list-file handle rewound, or the same list-file path) and those other arguments, after the harness has
	scribbled on the lists the first call returned (they belong to the caller).  Both calls are judged alike; after every call the
	caller's list of paths must be what it was."""
	from gambit.cli import common
	reqs = []
	for c in cases:
		reqs.append((806, [[S(x) for x in c['explicit']], None if c['text'] is None else [S(c['text'])], S(c['ldir']),
		                   c['strip_dir'], c['strip_ext']]))
		reqs += [(803, S(x)) for x in c['explicit']]
		if c.get('again'):
			g = c['again']
			reqs.append((806, [[S(x) for x in c['explicit']], None if c['text'] is None else [S(c['text'])], S(g['ldir']),
			                   g['strip_dir'], g['strip_ext']]))
	ans = ctx.model(reqs) if ctx.model_ok else None
	k = 0
	for c in cases:
		lf = path = None
		if c['text'] is not None:
			path = _tmp('.list')
			with open(path, 'wb') as f:
				f.write(c['text'].encode('utf-8'))
			# what click.File('r') hands to the command; or (call forms of the Python API) the path of the list file itself
			lf_as = c.get('lf_as', 'handle')
			lf = open(path, 'r') if lf_as == 'handle' else (path if lf_as == 'str' else pathlib.Path(path))
		# call forms: the explicit paths as pathlib paths (what click hands over) / plain strings / a tuple / an iterator-free list
		ex_as = c.get('explicit_as', 'Path')
		ex = [pathlib.Path(x) if ex_as in ('Path', 'tuple') else (pathlib.PurePosixPath(x) if ex_as == 'PurePath' else x) for x in c['explicit']]
		ex = (tuple(ex) if ex_as == 'tuple' else ex) or None
		ex0 = None if ex is None else list(ex)
		calls = [(c, 'first call: ' if c.get('again') else '')]
		if c.get('again'):
			calls.append((dict(c, **c['again']), 'second call with the same objects: '))
		outcomes = []
		try:
			for n, (cc, _) in enumerate(calls):
				ldir = pathlib.Path(cc['ldir']) if c.get('ldir_as') == 'Path' else cc['ldir']
				if n and hasattr(lf, 'seek'):
					lf.seek(0)
				if c.get('positional_call'):
					ids, files = common.get_sequence_files(ex, lf, ldir, cc['strip_dir'], cc['strip_ext'])
				else:
					ids, files = common.get_sequence_files(ex, lf, ldir, strip_dir=cc['strip_dir'], strip_ext=cc['strip_ext'])
				outcomes.append(None if ids is None else [list(ids), [str(f.path) for f in files]])
				if ids is not None and len(calls) > 1:
					# the returned lists are the caller's: whatever he does to them must not reach the next call
					ids.append('scribbled by the caller')
					ids.reverse()
					del files[:1]
				if ex0 is not None and (list(ex) != ex0 or any(x is not y for x, y in zip(ex, ex0))):
					ctx.violation('files', c, f'{calls[n][1]}get_sequence_files changed the list of paths it was given', impl=[str(x) for x in ex],
					              spec=[str(x) for x in ex0])
					break
			spec_files = [_files_spec(cc, path) for cc, _ in calls]
		finally:
			if lf is not None:
				if hasattr(lf, 'close'):
					lf.close()
				os.remove(path)
		if len(outcomes) < len(calls):
			k += 1 + len(c['explicit']) + (1 if c.get('again') else 0)
			ctx.case(c, nontrivial=False)
			continue
		n0 = 0 if outcomes[0] is None else len(outcomes[0][0])
		ctx.case(c, nontrivial=n0 >= 2)
		if c.get('again'):
			ctx.count('files:second-call-same-objects')
		ms = []
		if ans is not None:
			def view(a):
				return None if a == [] else [[U(x) for x in a[0][0]], [U(x) for x in a[0][1]]]
			ms.append(view(ans[k]))
			pl = [U(x) for x in ans[k + 1:k + 1 + len(c['explicit'])]]
			k += 1 + len(c['explicit'])
			real = [str(pathlib.PurePosixPath(x)) for x in c['explicit']]
			if pl != real:
				ctx.broke('model path_str != str(PurePosixPath(.))', f'{c["explicit"]}: model={pl} pathlib={real}')
			if c.get('again'):
				ms.append(view(ans[k]))
				k += 1
		for n, (cc, what) in enumerate(calls):
			impl, m = outcomes[n], (ms[n] if ms else None)
			ok = impl is None or (len(impl[0]) == len(impl[1]))
			if not ok:
				ctx.violation('files', c, what + 'get_sequence_files returned different numbers of ids and files', impl=impl, model=m)
			elif (impl[1] if impl is not None else None) != spec_files[n]:
				ctx.violation('files', c, what + 'the files are not the arguments / the list-file lines resolved against the base directory, in order',
				              impl=impl, spec=spec_files[n], model=m)
			elif m is not None and m != impl:
				ctx.broke('correspondence files (model get_sequence_files != implementation)', f'{what}case {c}: impl={impl} model={m}')
			else:
				continue
			break


# ------------------------------------------------------------------------------------------------
# kind: cli
# ------------------------------------------------------------------------------------------------

def _spell(rel, form):
	"""how a positional argument / absolute list line names root/rel"""
	root = _S['root']
	if form == 'abs':
		return root + '/' + rel
	if form == 'dot':
		return root + '/./' + rel.replace('/', '//', 1)
	if form == 'rel':
		return '../' + rel
	if form == 'reldot':
		return './../' + rel
	if form == 'bare':               # flat cases: the working directory holds the file
		return rel.split('/', 1)[1]
	if form == 'dotbare':
		return './' + rel.split('/', 1)[1]
	raise ValueError(form)


def _list_text(lines, lf):
	eol = lf.get('eol', '\n')
	text = ''
	for n, line in enumerate(lines):
		if lf.get('blanks') and n % 2 == 1:
			text += eol + '  ' + eol
		last = n == len(lines) - 1
		text += lf.get('lpad', '') + line + lf.get('rpad', '') + ('' if (last and not lf.get('final_eol', True)) else eol)
	if not lines:
		text = eol + ' \t' + eol
	return text


def _cli_plan(c):
	"""-> (options with values + positional arguments, number of positional arguments, model request, text for stdin or None)"""
	root = _S['root']
	inputs = c['inputs']
	flat = bool(c.get('flat'))
	rels = [_materialise(i, flat) for i in inputs]
	table = []
	files_arg, listfile, ldir_model, sigfile = [], None, '.', None
	args, npos, stdin = [], 0, None
	if c['channel'] == 'pos':
		files_arg = [_spell(r, c.get('form', 'bare' if flat else 'abs')) for r in rels]
		args = list(files_arg)
		npos = len(args)
		table = [[S(str(pathlib.PurePosixPath(a))), i['g']] for a, i in zip(files_arg, inputs)]
	elif c['channel'] == 'list':
		lf = c['lf']
		if flat:
			ldir = {'default': None, 'dot': '.', 'abs': root + '/flat', 'dotslash': './'}[lf['ldir']]
		else:
			ldir = {'abs': root, 'slash': root + '/', 'default': None, 'rel': '..', 'sub': root + '/g0/..'}[lf['ldir']]
		lines = []
		for r, i in zip(rels, inputs):
			if flat:
				line = (root + '/' + r) if lf.get('abs_lines') else r.split('/', 1)[1]
			else:
				# with the default base directory '.' (= root/wd) the lines have to climb out of it
				line = (root + '/' + r) if lf.get('abs_lines') else (('../' + r) if ldir is None else r)
			lines.append(line)
			table.append([S(str(pathlib.PurePosixPath(ldir if ldir is not None else '.') / line)), i['g']])
		text = _list_text(lines, lf)
		if c.get('stdin_list'):
			path, stdin = '-', text           # click.File('r') reads '-' from the standard input
		else:
			# (sequence streams: ONE list file path, rewritten for every invocation that uses it)
			path = os.path.join(_tmp_dir(), c['list_path']) if c.get('list_path') else _tmp('.list')
			with open(path, 'wb') as f:
				f.write(text.encode('utf-8'))
		args = ['-l', path] + (['--ldir', ldir] if ldir is not None else [])
		listfile = text
		ldir_model = ldir if ldir is not None else '.'
	else:
		ids = c['ids']
		gs = [i['g'] for i in inputs]
		sig = c.get('sig')
		if sig is None:
			path = _sigfile(gs, ids)
		elif sig['how'] == 'api':
			path = _sigfile_api(gs, ids, sig)
		elif sig['how'] == 'noids':
			path = _sigfile_noids(gs)
		elif sig['how'] == 'files':          # `signatures create -i IDS` on the inputs' own (compressed) files
			path = _sigfile(gs, ids, inputs)
		elif sig['how'] in ('bad-kspec', 'bad-trunc'):   # (sequence streams) a signature file the command has to refuse
			path = _sigfile_bad(gs, ids, sig['how'])
		else:
			raise ValueError(sig)
		args = ['-s', path]
		sigfile = [[S(str(x)) for x in ids], gs]
	# ---- malformed: a second input channel on the same command line (the channels are mutually exclusive)
	if c.get('also_sig'):
		a = c['also_sig']
		args = ['-s', _sigfile(a['gs'], a['ids'])] + args
		sigfile = [[S(x) for x in a['ids']], a['gs']]
	if c.get('also_list'):
		lines = [root + '/' + r for r in rels]
		text = _list_text(lines, {})
		path = _tmp('.list')
		with open(path, 'wb') as f:
			f.write(text.encode('utf-8'))
		args = ['-l', path] + args
		listfile = text
		table = table + [[S(str(pathlib.PurePosixPath('.') / line)), i['g']] for line, i in zip(lines, inputs)]
	req = [[c.get('chunksize_model', 1000)], [S(a) for a in files_arg], None if listfile is None else [S(listfile)], S(ldir_model),
	       None if sigfile is None else [sigfile], table, NREFS_MODEL]
	return args, npos, req, stdin


def _stem_expected(c, n):
	"""the label the SPECIFICATION fixes for input n, or None if it leaves it to the algorithm"""
	if c['channel'] == 'sig':
		return c['ids'][n]      # (integer ids: compared as their decimal strings, see _lab)
	i = c['inputs'][n]
	spec = dict(dir='', stem=i['stem'], ext=i['ext'], gz='.gz' if i['gz'] else '')
	return i['stem'] if _in_label_spec(spec) else None


def _lab(c, x):
	"""canonical form of a label: a signature file may store integer ids; csv then shows the decimal string, json the number"""
	if (c.get('sig') or {}).get('idkind') == 'int' and isinstance(x, int) and not isinstance(x, bool):
		return str(x)
	return x


def k_cli(ctx, cases):
	try:
		_k_cli(ctx, cases)
	finally:
		os.chdir(_S['cwd'])


class _Rep:
	"""where the findings of one command-line case go: a case of kind 'cli' reports itself; a step of a sequence case reports the
	whole sequence (the replay has to repeat the steps before it)"""

	def __init__(self, ctx, kind, case, prefix=''):
		self.ctx, self.kind, self.case, self.prefix = ctx, kind, case, prefix
		self.nviol = 0

	def violation(self, what, **values):
		self.nviol += 1
		self.ctx.violation(self.kind, self.case, self.prefix + what, **values)

	def broke(self, obligation, detail):
		self.ctx.broke(obligation, self.prefix + str(detail))


def _cli_run(c, plan):
	"""run the command of case c (plan: what _cli_plan returned) -> ('ok', rows) | ('error', text)"""
	args, npos, _, stdin = plan
	fmt = c.get('fmt', 'csv')
	call = c.get('call') or {}
	strict = c.get('strict')          # None: option absent | True: --strict | False: --no-strict
	# progress: True / False as flags; 'default': no flag at all (the default is to show it)
	opts = [] if c.get('progress') == 'default' else ['--progress' if c.get('progress') else '--no-progress']
	if strict is not None:
		opts += ['--strict' if strict else '--no-strict']
	if c.get('cores') is not None:
		opts += ['-c', str(c['cores'])]
	# the working directory is NOT the base directory of the list files, except in the 'flat' cases (bare names)
	os.chdir(os.path.join(_S['root'], 'flat' if c.get('flat') else 'wd'))
	obs = _run_query(fmt, opts + args, npos, call, stdin)
	if obs[0] == 'ok':
		obs = ('ok', [(_lab(c, r[0]), r[1], r[2]) for r in obs[1]])
	return obs


def _cli_model(rep, c, a):
	"""the model's answer (op 807) in the shape of the observation"""
	gs = [i['g'] for i in c['inputs']]
	if a[0] == 0:
		m = ('ok', [(U(r[0]), U(r[1][0]) if r[1] else None, r[2]) for r in a[1]])
		# the model itself must put genome i's distances into row i (theorems C08_cli_*)
		want = [[[g, r] for r in range(NREFS_MODEL)] for g in gs]
		if [r[2] for r in m[1]] != want:
			rep.broke('model rows are not (genome i x references) in input order', f'case {c}: {a}')
			return None
		return m
	return ('error', QERR.get(a[1], a[1]))


def _cli_judge(rep, c, obs, m):
	"""the property predicate on the outcome of one command, then the comparison with the model"""
	gs = [i['g'] for i in c['inputs']]
	fmt = c.get('fmt', 'csv')
	strict = c.get('strict')
	dbname = (c.get('call') or {}).get('dbname', 'A')
	if obs[0] != 'ok':
		if gs and not c.get('expect_error'):
			rep.violation(f'query of {len(gs)} inputs failed: {obs[1]}', impl=obs, model=m)
		elif m is not None and m[0] == 'ok':
			rep.broke('correspondence cli (implementation fails, model answers)', f'case {c}: impl={obs} model={m}')
		return
	rows = obs[1]
	if c.get('expect_error'):
		if m is not None and m[0] == 'error':
			rep.violation(f'malformed invocation produced {len(rows)} rows instead of an error ({m[1]})', impl=[r[0] for r in rows], model=m)
		return
	bad = None
	if len(rows) != len(gs):
		bad = f'{len(gs)} inputs gave {len(rows)} rows'
	else:
		for n, (g, row) in enumerate(zip(gs, rows)):
			ref = _reference(g, fmt, strict, dbname)
			if row[2] != ref:
				other = [h for h in range(NG) if h != g and _ref_cached(h, fmt, strict, dbname) == row[2]]
				bad = (f'row {n} (input {c["inputs"][n]}) does not have the content of that genome queried alone'
				       + (' as a plain FASTA file [the input is a gzip file, see its gz / gzc fields]' if _is_gzip(c['inputs'][n]) and c['channel'] != 'sig' else '')
				       + (f' on database {dbname}' if dbname != 'A' else '')
				       + (f'; it has the content of genome {other[0]}' if other else ''))
				break
			want = _stem_expected(c, n)
			if want is not None and row[0] != _lab(c, want):
				bad = f'row {n} is labelled {row[0]!r}, expected {want!r}'
				break
	if bad:
		rep.violation(f'{c["channel"]} -f {fmt} -c {c.get("cores")}: {bad}',
		              impl=[(r[0], r[1]) for r in rows], spec=[_stem_expected(c, n) for n in range(len(gs))],
		              model=None if m is None else (m[1] if m[0] == 'error' else [(r[0], r[1]) for r in m[1]]))
		return
	if m is None:
		return
	if m[0] != 'ok':
		rep.broke('correspondence cli (model fails, implementation answers)', f'case {c}: model={m}')
		return
	ml = [r[0] for r in m[1]]
	if ml != [r[0] for r in rows]:
		rep.broke('correspondence cli: labels (outside the specified names)', f'case {c}: impl={[r[0] for r in rows]} model={ml}')
	if fmt != 'csv':
		mp = [r[1] for r in m[1]]
		if mp != [r[1] for r in rows]:
			rep.broke('correspondence cli: recorded file paths', f'case {c}: impl={[r[1] for r in rows]} model={mp}')


def _k_cli(ctx, cases):
	plans, judged = [], []
	for c in cases:
		try:
			plans.append(_cli_plan(c))
			judged.append(c)
		except _Unbuildable as e:
			# not a statement about `query`: reported as a broken obligation of the trusted base, the campaign goes on (the same
			# containers reach `query` itself through the positional and list-file cases)
			ctx.count('cli:sigfile-from-inputs-unbuildable')
			ctx.broke('preparation: `gambit signatures create` failed on harness-made genome files (valid FASTA / gzip), so the '
			          'signature-file channel could not be judged for them', f'case {c}: {e}')
	cases = judged
	ans = ctx.model([(807, p[2]) for p in plans]) if ctx.model_ok else None
	for j, c in enumerate(cases):
		rep = _Rep(ctx, 'cli', c)
		obs = _cli_run(c, plans[j])
		gs = [i['g'] for i in c['inputs']]
		fmt = c.get('fmt', 'csv')
		ctx.case(c, nontrivial=len(gs) >= 2 and len(set(gs)) >= 2, stream=None)
		ctx.count('cli:' + c['channel'])
		if len(gs) >= 3 and len(_S.setdefault('samples', [])) < 3 and c['channel'] not in [x['channel'] for x in _S['samples']]:
			_S['samples'].append(c)
		ctx.count('cli:fmt:' + fmt)
		m = _cli_model(rep, c, ans[j]) if ans is not None else None
		_cli_judge(rep, c, obs, m)


# ------------------------------------------------------------------------------------------------
# kind: api
# ------------------------------------------------------------------------------------------------

def _db():
	if 'dbobj' not in _S:
		from gambit.db import ReferenceDatabase
		_S['dbobj'] = ReferenceDatabase.load_from_dir(_S['db'])
	return _S['dbobj']


def _api_queries(c, gs):
	"""the query signatures of an api case in the container / integer width the case asks for"""
	import numpy as np
	from gambit.sigs import SignatureArray, SignatureList, load_signatures
	kspec = _kspec()
	cont = c.get('container', 'calc')
	dt = np.dtype(c['dtype']) if 'dtype' in c else _genome_sig(0).dtype
	arrs = [_genome_sig(g).astype(dt) for g in gs]
	if cont == 'pylist':
		return arrs
	if cont == 'tuple':
		return tuple(arrs)
	if cont == 'SignatureList':
		return SignatureList(arrs, kspec, dtype=dt)
	if cont == 'SignatureArray':
		return SignatureArray(arrs, kspec, dtype=dt)
	if cont == 'view':                   # rows of a larger array picked by an index list (not a copy made for this call)
		big = SignatureArray([_genome_sig(g).astype(dt) for g in range(NGX)], kspec, dtype=dt)
		return big[list(gs)]
	if cont == 'hdf5':                   # file-backed collection, as `query -s` passes it on
		return load_signatures(_sigfile_api(list(gs), [f'h{n}' for n in range(len(gs))], dict(how='api', dtype=dt.str.lstrip('<>=|'), meta=True)))
	raise ValueError(cont)


def _api_call(c, gs, labels, state):
	"""one call of query / query_parse in the call form the case asks for -> QueryResults"""
	import numpy as np
	from gambit.query import query_parse, query, QueryParams, QueryInput
	from gambit.seq import SequenceFile
	from gambit.sigs.calc import calc_file_signatures
	db = _db()
	if c.get('files'):
		# the genomes as files of the harness's choosing (names, gzip containers); compression 'auto' is what the command line
		# passes, 'gzip' the explicit form (only where every file is gzip)
		comp = c.get('compression', 'auto')
		if [i['g'] for i in c['files']] != list(c['gs']):
			raise RuntimeError('harness error: files and gs of an api case disagree')
		by_g = {}
		for i in c['files']:
			by_g.setdefault(i['g'], []).append(i)
		# (the `reuse` form calls with another arrangement of the same genomes first: take each genome's files in turn)
		seen = {}
		paths = []
		for g in gs:
			k = seen.get(g, 0)
			seen[g] = k + 1
			paths.append(os.path.join(_S['root'], _materialise(by_g[g][k % len(by_g[g])])))
		files = SequenceFile.from_paths(paths, 'fasta', comp)
	else:
		paths = [os.path.join(_S['root'], _materialise(dict(g=g, dir='ref', stem=f'genome{g}', ext='.fasta', gz=False))) for g in gs]
		files = SequenceFile.from_paths(paths, 'fasta', 'auto')
	cs = c['chunksize']
	cs_as = c.get('cs_as', 'int')
	if cs_as == 'np' and cs is not None:
		cs = np.int64(cs)
	if cs_as == 'kw':                     # params=None, the chunk size as a keyword argument
		params, kw = None, dict(chunksize=cs)
	elif cs_as == 'positional':           # QueryParams(False, cs) instead of QueryParams(chunksize=cs)
		params, kw = QueryParams(False, cs), {}
	else:
		params, kw = state.setdefault('params', QueryParams(chunksize=cs)) if c.get('reuse') else QueryParams(chunksize=cs), {}
	if c.get('progress') is not None:
		kw['progress'] = _progress_arg(c['progress'])
	ia = c.get('inputs_as', 'str')
	if c['via'] == 'parse':
		if ia == 'none':
			fl = {}
		else:
			fl = dict(file_labels=tuple(labels) if ia == 'tuple' else list(labels))
		if c.get('reuse'):
			kw['parse_kw'] = state.setdefault('parse_kw', {})      # the caller's own dict, handed in again on the next call
		return query_parse(db, files, params, **fl, **kw)
	if 'container' in c or 'dtype' in c:
		sigs = _api_queries(c, gs)
	else:
		sigs = calc_file_signatures(db.signatures.kmerspec, files)
	if ia == 'none':
		inp = {}
	elif ia == 'QueryInput':
		inp = dict(inputs=[QueryInput(l, f) for l, f in zip(labels, files)])
	elif ia == 'SequenceFile':
		inp = dict(inputs=files)
	elif ia == 'mixed':
		inp = dict(inputs=[(l, QueryInput(l), QueryInput(l, f))[n % 3] for n, (l, f) in enumerate(zip(labels, files))])
	elif ia == 'tuple':
		inp = dict(inputs=tuple(labels))
	else:
		inp = dict(inputs=labels)
	return query(db, sigs, params, **inp, **kw)


def _progress_arg(how):
	"""the forms of the `progress` argument: a registry key / a class / a ProgressConfig / False (the click meter writes to a
	buffer, not to the terminal)"""
	from gambit.util.progress import TestProgressMeter, ClickProgressMeter, progress_config
	if how == 'click':
		return progress_config('click', file=io.StringIO())
	if how == 'config':
		return ClickProgressMeter.config(file=io.StringIO())
	if how == 'test':
		return TestProgressMeter
	if how == 'false':
		return False
	raise ValueError(how)


def _api_export(fmt, res):
	from gambit.results import JSONResultsExporter, CSVResultsExporter, ResultsArchiveWriter
	buf = io.StringIO()
	{'json': JSONResultsExporter, 'csv': CSVResultsExporter, 'archive': ResultsArchiveWriter}[fmt]().export(buf, res)
	return _rows(fmt, buf.getvalue())


def k_api(ctx, cases):
	# the Python API has no thread-count argument; an earlier `query -c 16` in this process would leave 16 OpenMP threads
	# behind, which makes the many small distance calls of small chunk sizes very slow on a shared machine
	from gambit._cython.threads import omp_set_num_threads
	omp_set_num_threads(1)
	db = _db()
	nrefs = len(db.genomes)
	reqs = [(809, [None if c['chunksize'] is None else [c['chunksize']], c['gs'], NREFS_MODEL, len(c['gs'])]) for c in cases]
	ans = ctx.model(reqs) if ctx.model_ok else None
	for j, c in enumerate(cases):
		gs = c['gs']
		labels = [f'in{n}' for n in range(len(gs))]
		fmt = c.get('export', 'json')
		ia = c.get('inputs_as', 'str')
		state = {}
		first = None
		try:
			if c.get('reuse'):
				# the same QueryParams object / parse_kw dict serve a call on another batch first: the rows of the second
				# call must not depend on it (and the first call is judged as well)
				g1 = list(reversed(gs)) + gs[:1]
				first = (g1, _api_export(fmt, _api_call(c, g1, [f'first{n}' for n in range(len(g1))], state)))
			obs = ('ok', _api_export(fmt, _api_call(c, gs, labels, state)))
		except Exception as e:
			obs = ('error', type(e).__name__ + (f'({e})' if 'container' in c or 'inputs_as' in c or 'cs_as' in c else ''))
		cs = c['chunksize']
		ctx.case(c, nontrivial=len(set(gs)) >= 2 and cs is not None and 0 < cs < nrefs)
		m = None
		if ans is not None:
			a = ans[j]
			m = ('ok', a[1]) if a[0] == 0 else ('error', QERR.get(a[1], a[1]))
			if m[0] == 'ok' and a[1] != [[n, [[g, r] for r in range(NREFS_MODEL)]] for n, g in enumerate(gs)]:
				ctx.broke('model rows are not (genome i x references) in input order', f'case {c}: {a}')
		valid = bool(gs) and (cs is None or cs > 0)
		if not valid:
			if obs[0] == 'ok':
				ctx.violation('api', c, f'invalid call (chunksize={cs}, {len(gs)} queries) returned {len(obs[1])} rows', impl=[r[0] for r in obs[1]], model=m)
			elif m is not None and m[0] == 'ok':
				ctx.broke('correspondence api (implementation raises, model answers)', f'case {c}: impl={obs}')
			continue
		bad = None
		# the label is judged where the caller states it (strings / QueryInput objects); the default labels ('1', '2', ... and
		# the file path) are not part of the property
		judged = ia in ('str', 'QueryInput', 'mixed', 'tuple')
		if obs[0] != 'ok':
			bad = f'raised {obs[1]}'
		else:
			batches = [('', gs, obs[1], labels)]
			if first:
				batches.insert(0, ('first call with the shared objects: ', first[0], first[1], [f'first{n}' for n in range(len(first[0]))]))
			for what, bg, brows, blabels in batches:
				if bad:
					break
				if len(brows) != len(bg):
					bad = f'{what}{len(bg)} inputs gave {len(brows)} rows'
					break
				for n, (g, row) in enumerate(zip(bg, brows)):
					if row[2] != _reference(g, fmt):
						bad = f'{what}row {n} (genome {g}) differs from that genome queried alone with the default chunk size'
						break
					if judged and row[0] != blabels[n]:
						bad = f'{what}row {n} is labelled {row[0]!r}, expected {blabels[n]!r}'
						break
		if bad:
			ctx.violation('api', c, f'{c["via"]} chunksize={cs}: {bad}', impl=obs if obs[0] != 'ok' else [r[0] for r in obs[1]], model=m)
		elif m is not None and m[0] != 'ok':
			ctx.broke('correspondence api (model fails, implementation answers)', f'case {c}: model={m}')


# ------------------------------------------------------------------------------------------------
# kind: seq -- short scripts of calls over a small pool of SHARED objects (hidden state and aliasing)
# ------------------------------------------------------------------------------------------------
# A case is a script of 2-6 steps.  Every step is judged by the predicate of the single-call kinds (number of rows, row i = genome i
# queried alone ON THE DATABASE OF THAT STEP, labels) and compared with the same model ops (807 / 809); in addition, after EVERY step,
# everything the caller owns must be what it was before the step (objects: compared field by field / byte by byte with a snapshot
# taken when the object was made; files and database directories: SHA-1 of every file), a step marked `twice` is run again and must
# give the same rows, and results obtained earlier are exported again at the end and must still read the same.  Steps that have to
# FAIL part-way (a truncated / undecodable / missing file in the middle of a batch, a container or progress meter of the caller's
# that raises after a few items, an invalid chunk size, a signature file made with other parameters) are followed by good calls on
# the same objects, on the same thread.

class _CallerError(Exception):
	"""raised by an object the CALLER supplied (a list that fails while it is iterated, a progress meter that fails when moved)"""


class _Flaky(list):
	"""a list that raises after `k` items whenever it is iterated"""

	def __init__(self, items, k):
		super().__init__(items)
		self.k = max(0, min(k, len(self) - 1))      # (at the last item at the latest)

	def __iter__(self):
		for n, x in enumerate(list.__iter__(self)):
			if n >= self.k:
				raise _CallerError(f'the caller\'s container raised after {self.k} items')
			yield x


def _raising_progress(k):
	"""a progress argument (factory function) whose meter raises at its k-th movement"""
	from gambit.util.progress import AbstractProgressMeter

	class Meter(AbstractProgressMeter):
		def __init__(self, total):
			self.n, self.total, self.closed, self.moves = 0, total, False, 0

		def increment(self, delta=1):
			self.moveto(self.n + delta)

		def moveto(self, n):
			self.moves += 1
			if self.moves >= k:
				raise _CallerError(f'the caller\'s progress meter raised at movement {k}')
			self.n = n

		def close(self):
			self.closed = True

		@classmethod
		def create(cls, total, *, initial=0, desc=None, file=None, **kw):
			return cls(total)

	return lambda total, **kw: Meter(total)


def _sha(data):
	return hashlib.sha1(data).hexdigest()[:16]


def _disk_state(paths):
	"""what is on disk at the given paths: SHA-1 of a file, the listing + SHA-1s of a directory (one level), None if absent"""
	out = {}
	for p in sorted(set(paths)):
		if os.path.isdir(p):
			out[p] = {n: (_sha(open(os.path.join(p, n), 'rb').read()) if os.path.isfile(os.path.join(p, n)) else 'dir') for n in sorted(os.listdir(p))}
		elif os.path.isfile(p):
			with open(p, 'rb') as f:
				out[p] = _sha(f.read())
		else:
			out[p] = None
	return out


def _diff_state(before, after):
	"""the first key whose value changed, as text (or None)"""
	if before == after:
		return None
	for k in before:
		if before[k] != after.get(k, '<gone>'):
			return f'{k}: {str(before[k])[:160]} -> {str(after.get(k, "<gone>"))[:160]}'
	return f'new entries: {[k for k in after if k not in before][:5]}'


def _in_thread(fn):
	"""run fn() in a thread of its own, wait for it, hand its result / exception over"""
	import threading
	box = {}

	def run():
		try:
			box['r'] = fn()
		except BaseException as e:
			box['e'] = e
	t = threading.Thread(target=run)
	t.start()
	t.join()
	if 'e' in box:
		raise box['e']
	return box['r']


def _step_is_bad(st):
	"""does the command of this cli step have to fail (a bad input file / signature file was planted)?"""
	return any(i.get('bad') for i in st['inputs']) or str((st.get('sig') or {}).get('how', '')).startswith('bad-')


def _seq_cli(ctx, c, prep_only=False):
	"""prep_only (in the harness's own process): make the files, signature files, databases and references the case needs and return the
	model requests; otherwise (in a child process that has run nothing yet, everything being there already): run and judge the steps"""
	rep = _Rep(ctx, 'seq', c)
	steps = c['steps']
	# ---- preparation, BEFORE the first step: files, signature files, second databases, singleton references.  (In a campaign most of
	#      it is there already; in a replay it is made here -- either way nothing but the steps themselves runs between the steps.)
	plans = [_cli_plan(st) for st in steps]
	for st in steps:
		dbname = (st.get('call') or {}).get('dbname', 'A')
		_dbdir(dbname)
		if not _step_is_bad(st) and not st.get('expect_error'):
			for g in sorted({i['g'] for i in st['inputs']}):
				_reference(g, st.get('fmt', 'csv'), st.get('strict'), dbname)
	watched = []
	for st, plan in zip(steps, plans):
		watched.append(_dbdir((st.get('call') or {}).get('dbname', 'A')))
		watched += [os.path.join(_S['root'], _relpath(i)) for i in st['inputs']]
		watched += [a for a in plan[0] if isinstance(a, str) and a.endswith('.gs')]
	snap = _disk_state(watched)
	if prep_only:
		return [(807, p[2]) for p in plans]
	ans = ctx.model([(807, p[2]) for p in plans]) if ctx.model_ok else None
	good = 0
	for n, st in enumerate(steps):
		dbname = (st.get('call') or {}).get('dbname', 'A')
		rep.prefix = (f'step {n + 1} of {len(steps)} [{st["channel"]} -f {st.get("fmt", "csv")} -c {st.get("cores")} db {dbname}'
		              + (', own thread' if st.get('thread') else '') + ']: ')
		plan = _cli_plan(st)              # (again: a shared list file is rewritten for the step that uses it)
		lists = [a for a in plan[0] if isinstance(a, str) and a.endswith('.list')]
		lsnap = _disk_state(lists)
		run = (lambda: _in_thread(lambda: _cli_run(st, plan))) if st.get('thread') else (lambda: _cli_run(st, plan))
		obs = run()
		ctx.count('seq:cli-steps')
		bad = _step_is_bad(st)
		if bad:
			# the command has to fail; what matters is what the NEXT commands do
			ctx.count('seq:cli-steps-failed-as-planned' if obs[0] != 'ok' else 'seq:bad-input-accepted')
		else:
			m = _cli_model(rep, st, ans[n]) if ans is not None else None
			_cli_judge(rep, st, obs, m)
			good += obs[0] == 'ok'
			if not rep.nviol and st.get('twice'):
				obs2 = run()
				ctx.count('seq:same-call-twice')
				if obs2 != obs:
					rep.violation('the same command run twice in a row gave different rows', impl=[obs2[0], [(r[0], r[1]) for r in obs2[1]] if obs2[0] == 'ok' else obs2[1]],
					              spec=[obs[0], [(r[0], r[1]) for r in obs[1]] if obs[0] == 'ok' else obs[1]])
		if not rep.nviol:
			d = _diff_state(snap, _disk_state(watched)) or _diff_state(lsnap, _disk_state(lists))
			ctx.count('seq:unmodified-checks')
			if d:
				rep.violation(f'the command changed a file it only had to read (database / genome / list / signature file): {d}')
		if rep.nviol:
			break
	dbs = {(st.get('call') or {}).get('dbname', 'A') for st in steps}
	ctx.case(c, nontrivial=good >= 2 and (len(dbs) >= 2 or any(_step_is_bad(st) for st in steps)))


# ---- the Python API -----------------------------------------------------------------------------------

class _Pool:
	"""the shared objects of one api sequence, made on first use, each with a snapshot of its observable state"""

	def __init__(self, c):
		self.c = c
		self.obj = {}          # name -> object
		self.snap = {}         # name -> state when made
		self.results = []      # [(QueryResults, gs, labels or None, paths or None, db reference name, strict, fmt, rows at the time)]
		self.closers = []
		self.known_pk_progress = set()

	# -- states
	@staticmethod
	def _sigs_state(x):
		import numpy as np
		from gambit.sigs import SignatureArray
		from gambit.sigs.hdf5 import HDF5Signatures
		if isinstance(x, SignatureArray):
			return ['SignatureArray', x.values.dtype.str, _sha(x.values.tobytes()), x.bounds.dtype.str, _sha(x.bounds.tobytes()), repr(x.kmerspec)]
		if isinstance(x, HDF5Signatures):
			return ['HDF5Signatures', bool(x), len(x), [str(i) for i in x.ids], [_sha(np.asarray(x[i]).tobytes()) for i in range(len(x))], repr(x.kmerspec)]
		return [type(x).__name__, len(x), [(id(a), a.dtype.str, a.shape, _sha(a.tobytes())) for a in x]]

	@staticmethod
	def _db_state(db):
		sess = db.session
		return dict(genomes=_sha('\n'.join(f'{g.genome_id} {g.key} {g.taxon_id}' for g in db.genomes).encode()), ngenomes=len(db.genomes),
		            sig_indices=[int(i) for i in db.sig_indices], sig_indices_type=type(db.sig_indices).__name__, nsigs=len(db.signatures),
		            ids=_sha('\n'.join(str(i) for i in db.signatures.ids).encode()), kmerspec=repr(db.signatures.kmerspec),
		            meta=repr(db.signatures.meta), genomeset=(db.genomeset.key, db.genomeset.version, db.genomeset.name),
		            pending=[len(sess.new), len(sess.dirty), len(sess.deleted)] if sess is not None else None,
		            open=bool(db.signatures) if hasattr(db.signatures, 'group') else None)

	@staticmethod
	def _result_state(res):
		st = []
		for name in ('items', 'params', 'genomeset', 'signaturesmeta', 'gambit_version', 'timestamp', 'extra'):
			if not hasattr(res, name):
				st.append((name, 'ATTRIBUTE GONE'))
			else:
				st.append((name, f'object {id(getattr(res, name))}' if name != 'gambit_version' else getattr(res, name)))
		st.append(('extra-value', json.dumps(getattr(res, 'extra', None), sort_keys=True, default=repr)))
		for it in res.items:
			st.append((id(it), id(getattr(it, 'input', None)), id(getattr(it, 'classifier_result', None)), id(getattr(it, 'report_taxon', None)),
			           id(getattr(it, 'closest_genomes', None)), len(getattr(it, 'closest_genomes', ())),
			           getattr(it.input, 'label', '<gone>'), str(getattr(it.input, 'file', '<gone>'))))
		return st

	def state(self, name):
		import attr
		o = self.obj[name]
		kind = name.split(':')[0]
		if kind == 'db':
			return self._db_state(o)
		if kind == 'params':
			return attr.asdict(o)
		if kind == 'sigs':
			return self._sigs_state(o)
		if kind in ('L', 'T'):
			return [type(o).__name__] + list(o)
		if kind == 'QI':
			return [(id(i), i.label, i.file) for i in o]
		if kind == 'files':
			return [(id(f), str(f.path), f.format, f.compression) for f in o]
		if kind == 'pk':
			return {k: (id(v) if k in ('executor', 'progress') else v) for k, v in o.items()}
		if kind == 'prog':
			return [type(o).__name__, id(getattr(o, 'callable', None)), {k: id(v) for k, v in getattr(o, 'kw', {}).items()}]
		if kind == 'exporter':
			return [type(o).__name__, dict(getattr(o, 'format_opts', {})), getattr(o, 'pretty', None)]
		if kind == 'res':
			return self._result_state(o)
		if kind == 'executor':
			return [o.submit(int, '7').result(timeout=60), getattr(o, '_shutdown', None)]
		raise ValueError(name)

	def put(self, name, o):
		self.obj[name] = o
		self.snap[name] = self.state(name)
		return o

	def verify(self, ctx):
		"""-> text naming the first shared object that is no longer what it was, or None"""
		for name in list(self.obj):
			try:
				now = self.state(name)
			except Exception as e:
				return f'{name} can no longer be inspected: {type(e).__name__}({e})'
			was = self.snap[name]
			if now != was and name.startswith('pk:') and set(now) - set(was) == {'progress'} and {k: v for k, v in now.items() if k != 'progress'} == was:
				# KNOWN defect of the code as found (repo_fixes/C08-parse-kw-copy.diff): query_parse writes its progress configuration
				# into the caller's parse_kw dict.  Exactly this entry is let through (counted); anything else written there is not.
				ctx.count('seq:known-defect:parse_kw-progress-written-into-callers-dict')
				self.known_pk_progress.add(name)
				self.snap[name] = now
				continue
			if now != was and name in self.known_pk_progress and set(now) == set(was) and {k: v for k, v in now.items() if k != 'progress'} == {k: v for k, v in was.items() if k != 'progress'}:
				self.snap[name] = now
				continue
			if now != was:
				return f'{name}: ' + self._first_difference(was, now)
		return None

	@staticmethod
	def _first_difference(was, now):
		if isinstance(was, dict) and isinstance(now, dict):
			for k in list(was) + [k for k in now if k not in was]:
				if was.get(k, '<absent>') != now.get(k, '<absent>'):
					return f'[{k!r}] was {str(was.get(k, "<absent>"))[:200]}, is {str(now.get(k, "<absent>"))[:200]}'
		if isinstance(was, (list, tuple)) and isinstance(now, (list, tuple)):
			if len(was) != len(now):
				return f'{len(was)} entries before, {len(now)} after: {str(was)[:150]} -> {str(now)[:150]}'
			for k, (a, b) in enumerate(zip(was, now)):
				if a != b:
					return f'entry {k} was {str(a)[:200]}, is {str(b)[:200]}'
		return f'{str(was)[:300]} -> {str(now)[:300]}'

	# -- objects
	def db(self, name):
		key = 'db:' + name
		if key not in self.obj:
			from gambit.db import ReferenceDatabase
			if name == 'BA':      # the genomes of B with the very signatures OBJECT (open file) that database A uses
				db = ReferenceDatabase(self.db('Bf').genomeset, self.db('A').signatures)
			else:
				db = ReferenceDatabase.load_from_dir(_dbdir(name))
			self.put(key, db)
		return self.obj[key]

	def params(self, k):
		key = f'params:{k}'
		if key not in self.obj:
			from gambit.query import QueryParams
			p = self.c['params'][k]
			self.put(key, QueryParams(classify_strict=bool(p.get('strict')), chunksize=p['chunksize']))
		return self.obj[key]

	def sigs(self, k):
		key = f'sigs:{k}'
		if key not in self.obj:
			s = self.c['sigs'][k]
			o = _api_queries(dict(container=s['cont'], dtype=s['dtype']), s['gs'])
			if hasattr(o, 'close'):
				self.closers.append(o.close)
			self.put(key, o)
		return self.obj[key]

	def labels(self, kind, n):
		key = f'{kind}:{n}'
		if key not in self.obj:
			from gambit.query import QueryInput
			if kind == 'L':
				self.put(key, [f'lab{n}_{i}' for i in range(n)])
			elif kind == 'T':
				self.put(key, tuple(f'tup{n}_{i}' for i in range(n)))
			else:
				self.put(key, [QueryInput(f'qi{n}_{i}') for i in range(n)])
		return self.obj[key]

	def files(self, k):
		key = f'files:{k}'
		if key not in self.obj:
			from gambit.seq import SequenceFile
			paths = [os.path.join(_S['root'], _materialise(i)) for i in self.c['filesets'][k]]
			self.put(key, SequenceFile.from_paths(paths, 'fasta', 'auto'))
		return self.obj[key]

	def executor(self, name):
		key = 'executor:' + name
		if key not in self.obj:
			from concurrent.futures import ThreadPoolExecutor
			ex = ThreadPoolExecutor(max_workers=int(name[1:]))
			self.closers.append(lambda: ex.shutdown(wait=True))
			self.put(key, ex)
		return self.obj[key]

	def pk(self, k):
		key = f'pk:{k}'
		if key not in self.obj:
			d = dict(self.c['pks'][k])
			if 'executor' in d:
				d['executor'] = self.executor(d['executor'])
			self.put(key, d)
		return self.obj[key]

	def prog(self, k):
		key = f'prog:{k}'
		if key not in self.obj:
			self.put(key, _progress_arg(self.c['progs'][k]))
		return self.obj[key]

	def exporter(self, fmt):
		key = 'exporter:' + fmt
		if key not in self.obj:
			from gambit.results import JSONResultsExporter, CSVResultsExporter, ResultsArchiveWriter
			self.put(key, {'json': JSONResultsExporter, 'csv': CSVResultsExporter, 'archive': ResultsArchiveWriter}[fmt]())
		return self.obj[key]

	def export(self, fmt, res):
		buf = io.StringIO()
		self.exporter(fmt).export(buf, res)
		return _rows(fmt, buf.getvalue())

	def close(self):
		for f in reversed(self.closers):
			try:
				f()
			except Exception:
				pass


DBREF = {'A': 'A', 'B': 'B', 'Bf': 'Bf', 'BA': 'Bf'}      # which directory's singleton runs say what a row of that database object holds


def _api_rows_bad(rows, gs, labels, fmt, strict, dbref):
	"""the property predicate on the rows of one api call -> text or None"""
	if len(rows) != len(gs):
		return f'{len(gs)} inputs gave {len(rows)} rows'
	for n, (g, row) in enumerate(zip(gs, rows)):
		if row[2] != _reference(g, fmt, strict, dbref):
			other = [h for h in range(NGX) if h != g and _ref_cached(h, fmt, strict, dbref) == row[2]]
			elsewhere = [d for d in ('A', 'B', 'Bf') if d != dbref and _ref_cached(g, fmt, strict, d) == row[2]]
			return (f'row {n} (genome {g}) differs from that genome queried alone on database {dbref}'
			        + (f'; it has the content of genome {other[0]}' if other else '')
			        + (f'; it is what database {elsewhere[0]} gives' if elsewhere else ''))
		if labels is not None and row[0] != labels[n]:
			return f'row {n} is labelled {row[0]!r}, expected {labels[n]!r}'
	return None


def _seq_api_step(pool, st):
	"""run one query / query_parse step -> (QueryResults, gs, labels or None, paths or None)"""
	from gambit.query import query, query_parse
	db = pool.db(st['db'])
	params = pool.params(st['params']) if st.get('params') is not None else None
	kw = {}
	fail = st.get('fail')
	if st.get('prog') is not None and st['prog'] != 'closing-file':
		kw['progress'] = pool.prog(st['prog'])
	if fail == 'meter':
		kw['progress'] = _raising_progress(st.get('fail_at', 2))
	if st.get('prog') == 'closing-file':
		f = open(_tmp('.progress'), 'w')
		from gambit.util.progress import ClickProgressMeter
		kw['progress'] = ClickProgressMeter.config(file=f)
		pool.closers.append(f.close)
	try:
		if st['op'] == 'parse':
			files = pool.files(st['files'])
			gs = [i['g'] for i in pool.c['filesets'][st['files']]]
			paths = [str(f.path) for f in files]
			n = len(files)
			labels = None
			if st.get('labels', 'L') != 'none':
				labels = pool.labels(st.get('labels', 'L'), n + (1 if fail == 'mismatch' else 0))
				kw['file_labels'] = _Flaky(labels, st.get('fail_at', 1)) if fail == 'labels-iter' else labels
			if st.get('pk') is not None:
				kw['parse_kw'] = pool.pk(st['pk'])
			if fail == 'files-raise':
				files = _Flaky(files, st.get('fail_at', 1))
			return query_parse(db, files, params, **kw), gs, (list(labels) if labels is not None else None), paths
		cont = pool.sigs(st['sigs'])
		cgs = pool.c['sigs'][st['sigs']]['gs']
		sel = st.get('sel')
		if sel is None:
			q, gs = cont, list(cgs)
		elif isinstance(cont, (list, tuple)):
			q, gs = [cont[i] for i in sel], [cgs[i] for i in sel]
		else:
			q, gs = cont[list(sel)], [cgs[i] for i in sel]
		labels = None
		if st.get('inputs', 'L') != 'none':
			labels = pool.labels(st.get('inputs', 'L'), len(gs) + (1 if fail == 'mismatch' else 0))
			kw['inputs'] = _Flaky(labels, st.get('fail_at', 1)) if fail == 'inputs-iter' else labels
		if fail == 'iter':
			q = _Flaky([q[i] for i in range(len(q))], st.get('fail_at', 1))
		want = None if labels is None else [getattr(x, 'label', x) for x in labels]
		return query(db, q, params, **kw), gs, want, None
	finally:
		if st.get('prog') == 'closing-file':
			f.close()


def _seq_api(ctx, c, prep_only=False):
	"""(prep_only: see _seq_cli)"""
	from gambit._cython.threads import omp_set_num_threads
	if not prep_only:
		omp_set_num_threads(1)
	rep = _Rep(ctx, 'seq', c)
	steps = c['steps']
	pool = _Pool(c)

	def step_info(st):
		"""(genomes, strict, chunk size, database reference name) of a query / parse step, from the case alone"""
		gs = [i['g'] for i in c['filesets'][st['files']]] if st['op'] == 'parse' else \
			[c['sigs'][st['sigs']]['gs'][i] for i in (st['sel'] if st.get('sel') is not None else range(len(c['sigs'][st['sigs']]['gs'])))]
		p = c['params'][st['params']] if st.get('params') is not None else dict(chunksize=1000, strict=False)
		return gs, bool(p.get('strict')), p['chunksize'], DBREF[st['db']]

	def planted(st):
		return bool(st.get('fail')) or (st['op'] == 'parse' and any(i.get('bad') for i in c['filesets'][st['files']]))

	try:
		# ---- preparation before the first step (see _seq_cli): files, databases, references of every row that will be judged
		info = {}
		for n, st in enumerate(steps):
			if st['op'] == 'export':
				continue
			info[n] = step_info(st)
			_dbdir(DBREF[st['db']])
		for n, st in enumerate(steps):
			src = n if st['op'] != 'export' else st['res']
			if src not in info or planted(dict(steps[src], fail=None)):      # (bad files: no row of that step will be judged)
				continue
			gs, strict, cs, dbref = info[src]
			if gs and (cs is None or cs > 0):
				for g in sorted(set(gs)):
					_reference(g, st.get('fmt', 'json'), strict, dbref)
		for k, fs in enumerate(c.get('filesets', [])):
			for i in fs:
				_materialise(i)
		if prep_only:
			# whatever the harness computes WITH the implementation to build inputs (signatures of the genomes, signature files)
			for g in range(NGX):
				_genome_sig(g)
			for sg in c.get('sigs', []):
				o = _api_queries(dict(container=sg['cont'], dtype=sg['dtype']), sg['gs'])
				if hasattr(o, 'close'):
					o.close()
		watched = [_dbdir(d) for d in sorted({DBREF[st['db']] for st in steps if st['op'] != 'export'} | ({'A'} if any(st.get('db') == 'BA' for st in steps) else set()))]
		watched += [os.path.join(_S['root'], _relpath(i)) for fs in c.get('filesets', []) for i in fs]
		reqs, where = [], {}
		for n, st in enumerate(steps):
			if n in info and st.get('fail') in (None, 'mismatch') and not planted(dict(st, fail=None)):
				gs, strict, cs, dbref = info[n]
				where[n] = len(reqs)
				reqs.append((809, [None if cs is None else [cs], gs, NREFS_MODEL, len(gs) + (1 if st.get('fail') == 'mismatch' else 0)]))
		if prep_only:
			return reqs
		ans = ctx.model(reqs) if ctx.model_ok and reqs else None
		snap = _disk_state(watched)
		by_step = {}
		good = 0
		for n, st in enumerate(steps):
			rep.prefix = f'step {n + 1} of {len(steps)} [{json.dumps(st, sort_keys=True)}]: '
			ctx.count('seq:api-steps')
			if st['op'] == 'export':
				# a result obtained earlier is exported (again): read-only, so the rows are the rows of that step in this format
				if st['res'] not in by_step:
					ctx.count('seq:export-of-a-failed-step-skipped')
					continue
				res, gs, labels, paths, dbref, strict = by_step[st['res']]
				fmt = st.get('fmt', 'json')
				try:
					if st.get('sink') == 'failing':
						# the caller's output stream fails part-way; the exporter (a shared object) and the result must survive that
						class Sink(io.StringIO):
							def write(self, text, _n=[0]):
								_n[0] += 1
								if _n[0] > 2:
									raise _CallerError('the caller\'s output stream raised')
								return super().write(text)
						try:
							pool.exporter(fmt).export(Sink(), res)
						except _CallerError:
							ctx.count('seq:api-steps-failed-as-planned')
					rows = pool.export(fmt, res)
					bad = _api_rows_bad(rows, gs, labels, fmt, strict, dbref)
				except Exception as e:
					bad = f'raised {type(e).__name__}({e})'
				if bad:
					rep.violation(f'export -f {fmt} of the result of step {st["res"] + 1}: {bad}')
			else:
				gs, strict, cs, dbref = info[n]
				fmt = st.get('fmt', 'json')
				valid = bool(gs) and (cs is None or cs > 0)
				m = None
				if ans is not None and n in where:
					a = ans[where[n]]
					m = ('ok', a[1]) if a[0] == 0 else ('error', QERR.get(a[1], a[1]))
				try:
					res, gs2, labels, paths = _seq_api_step(pool, st)
					if gs2 != gs:
						raise RuntimeError('harness error: genomes of a step')
					obs = ('ok', pool.export(fmt, res))
				except RuntimeError as e:
					if 'harness error' in str(e):
						raise
					obs = ('error', f'{type(e).__name__}({e})')
				except Exception as e:
					obs = ('error', f'{type(e).__name__}({e})')
				bad_files = st['op'] == 'parse' and any(i.get('bad') for i in c['filesets'][st['files']])
				if (planted(st) or not valid) and obs[0] != 'ok':
					ctx.count('seq:api-steps-failed-as-planned')
				elif not valid:
					rep.violation(f'invalid call (chunksize={cs}, {len(gs)} queries) returned {len(obs[1])} rows', impl=[r[0] for r in obs[1]], model=m)
				elif st.get('fail') == 'mismatch':
					if m is not None and m[0] == 'error':
						rep.broke('correspondence api (model: the numbers of labels and queries differ; implementation answers)', f'case {c}')
				elif bad_files:
					ctx.count('seq:bad-input-accepted')
				elif obs[0] != 'ok':
					if c.get('known') == 'parse_kw-progress-writeback' and 'closed file' in obs[1] and st['op'] == 'parse' and st.get('pk') is not None \
							and any(s2.get('prog') == 'closing-file' and s2.get('pk') == st['pk'] for s2 in steps[:n]):
						# KNOWN defect of the code as found (see verify above and repo_fixes/C08-parse-kw-copy.diff): the progress
						# configuration of an EARLIER call, written into the caller's parse_kw, is used by this call, whose own
						# `progress` argument asks for no display -- and the file it writes to has been closed meanwhile.
						ctx.count('seq:known-defect:parse_kw-stale-progress-makes-a-good-call-fail')
					else:
						rep.violation(f'a good call on objects that earlier calls had used failed: {obs[1]}', impl=obs, model=m)
				else:
					if c.get('known') == 'parse_kw-progress-writeback' and n == len(steps) - 1:
						ctx.count('seq:known-defect:parse_kw-stale-progress:not-observed (repaired?)')
					bad = _api_rows_bad(obs[1], gs, labels, fmt, strict, dbref)
					if bad:
						rep.violation(bad, impl=[r[0] for r in obs[1]], spec=labels, model=m)
					else:
						good += 1
						by_step[n] = (res, gs, labels, paths, dbref, strict)
						pool.put(f'res:{n}', res)
						pool.results.append((n, fmt, obs[1]))
						if paths is not None and fmt != 'csv' and [r[1] for r in obs[1]] != paths:
							rep.broke('correspondence api: recorded file paths', f'case {c}: impl={[r[1] for r in obs[1]]} files={paths}')
						if m is not None and m[0] != 'ok':
							rep.broke('correspondence api (model fails, implementation answers)', f'case {c}: model={m}')
						if st.get('twice'):
							ctx.count('seq:same-call-twice')
							try:
								res2 = _seq_api_step(pool, st)[0]
								rows2 = pool.export(fmt, res2)
							except Exception as e:
								rows2 = f'{type(e).__name__}({e})'
							if rows2 != obs[1]:
								rep.violation('the same call made twice in a row gave different rows', impl=rows2 if isinstance(rows2, str) else [r[0] for r in rows2])
			if not rep.nviol:
				ctx.count('seq:unmodified-checks')
				d = pool.verify(ctx) or _diff_state(snap, _disk_state(watched))
				if d:
					rep.violation(f'an object of the caller\'s (or a file that is only read) is not what it was before the call: {d}')
			if rep.nviol:
				break
		# ---- results obtained earlier must still read the same after everything that came later
		if not rep.nviol:
			for n, fmt, rows in pool.results:
				rep.prefix = f'after the last step, the result of step {n + 1} exported again (-f {fmt}): '
				try:
					again = pool.export(fmt, by_step[n][0])
				except Exception as e:
					again = f'{type(e).__name__}({e})'
				ctx.count('seq:old-results-re-exported')
				if again != rows:
					rep.violation('it no longer reads as it did when it was obtained', impl=again if isinstance(again, str) else [r[0] for r in again], spec=[r[0] for r in rows])
					break
		dbs = {st['db'] for st in steps if st['op'] != 'export'}
		ctx.case(c, nontrivial=good >= 2 and (len(dbs) >= 2 or any(planted(st) for st in steps if st['op'] != 'export')))
	finally:
		pool.close()


class _StubCtx:
	"""what a sequence case reports, collected in the child process and handed back as JSON"""

	def __init__(self, ans):
		self.out = []
		self.ans = ans
		self.model_ok = ans is not None

	def model(self, reqs):
		if self.ans is None or len(self.ans) != len(reqs):
			raise RuntimeError('harness error: model answers handed to the child do not match its requests')
		return self.ans

	def count(self, key, n=1):
		self.out.append(['count', key, n])

	def case(self, case, nontrivial=False, stream=None):
		self.out.append(['case', bool(nontrivial)])

	def violation(self, kind, case, what, **values):
		self.out.append(['violation', str(what), json.loads(json.dumps(values, default=repr))])

	def broke(self, obligation, detail):
		self.out.append(['broke', str(obligation), str(detail)])


def _seq_child(req):
	"""(runs in a child forked from the helper process: gambit imported, no call made yet)  One sequence case, start to end."""
	import pickle
	import traceback
	with open(req['state'], 'rb') as f:
		state = pickle.load(f)
	_S.clear()
	_S.update(state)
	_S['in_child'] = True
	stub = _StubCtx(req.get('ans'))
	c = req['case']
	try:
		gc.disable()         # (database objects hold SQLite connections: collected where they were made, see _invoke)
		try:
			(_seq_cli if c['mode'] == 'cli' else _seq_api)(stub, c)
		finally:
			gc.collect()
	except BaseException:
		stub.out.append(['error', traceback.format_exc()])
	with open(req['result'], 'w') as f:
		json.dump(stub.out, f)


def k_seq(ctx, cases):
	"""Every case runs in a process of its own that has executed NOTHING of the implementation before the first step (a child forked
	from the helper process, see _refsrv): the steps of a case share whatever state the implementation keeps in its modules, classes
	and objects, the cases share nothing -- so a replay file reproduces exactly.  Everything that is preparation (files, signature
	files, second databases, singleton references, model answers) is made here, in the harness's process, and handed over."""
	import pickle
	try:
		for c in cases:
			reqs = (_seq_cli if c['mode'] == 'cli' else _seq_api)(ctx, c, prep_only=True)
			ans = ctx.model(reqs) if (ctx.model_ok and reqs) else None
			state = {k: _S[k] for k in ('root', 'db', 'cwd', 'genomes', 'ref', 'sigfiles', 'sigs', 'kspec', 'dbdir:B', 'dbdir:Bf', 'bundled_ids') if k in _S}
			state['n'] = _S['n'] + 1000000
			spath, rpath = _tmp('.state'), _tmp('.result')
			with open(spath, 'wb') as f:
				pickle.dump(state, f)
			p = _refsrv()
			p.stdin.write(json.dumps(dict(op='seq', state=spath, result=rpath, case=c, ans=ans)) + '\n')
			p.stdin.flush()
			line = p.stdout.readline()
			if not line:
				raise RuntimeError('the helper process died while a sequence case ran')
			status = json.loads(line)['status']
			if status != 0 or not os.path.exists(rpath):
				raise RuntimeError(f'the child process of a sequence case ended with wait status {status}')
			with open(rpath) as f:
				out = json.load(f)
			os.remove(spath)
			os.remove(rpath)
			for item in out:
				if item[0] == 'count':
					ctx.count(item[1], item[2])
				elif item[0] == 'case':
					ctx.case(c, nontrivial=item[1])
				elif item[0] == 'violation':
					ctx.violation('seq', c, item[1], **item[2])
				elif item[0] == 'broke':
					ctx.broke(item[1], item[2])
				else:
					raise RuntimeError('sequence case failed in its child process:\n' + item[1])
	finally:
		os.chdir(_S['cwd'])


# ------------------------------------------------------------------------------------------------
# kind: bundled -- the repository's own pre-computed query signature file and the 50 genomes it was made from
# ------------------------------------------------------------------------------------------------

def _bundled_ids():
	"""the ids stored in tests/data/testdb_210818/queries/query-signatures.gs, read with h5py (not through gambit)"""
	if 'bundled_ids' not in _S:
		import h5py
		with h5py.File(os.path.join(_S['db'], 'queries', 'query-signatures.gs'), 'r') as f:
			_S['bundled_ids'] = [x.decode('utf-8') if isinstance(x, bytes) else str(x) for x in f['ids'][:]]
	return _S['bundled_ids']


def k_bundled(ctx, cases):
	"""No model comparison here (the files are not harness-made): property predicate only."""
	ids = _bundled_ids()
	gdir = os.path.join(_S['db'], 'queries', 'genomes')
	sigpath = os.path.join(_S['db'], 'queries', 'query-signatures.gs')
	os.chdir(os.path.join(_S['root'], 'wd'))
	try:
		for c in cases:
			fmt, perm = c['fmt'], c['perm']
			opts = ['--progress' if c.get('progress') else '--no-progress'] + (['-c', str(c['cores'])] if c.get('cores') else [])
			files = [os.path.join(gdir, ids[i] + ('.fasta.gz' if (i + n) % 2 else '.fasta')) for n, i in enumerate(perm)]
			files = [f if os.path.exists(f) else f + '.gz' for f in files]       # (a checkout may hold the compressed copies only)
			sig = _run_query(fmt, opts + ['-s', sigpath])
			pos = _run_query(fmt, opts + files, len(files))
			ctx.case(c, nontrivial=len(perm) >= 2)
			bad = None
			if sig[0] != 'ok':
				bad = f'query -s of the bundled signature file failed: {sig[1]}'
			elif pos[0] != 'ok':
				bad = f'positional query of {len(files)} bundled genomes failed: {pos[1]}'
			elif [r[0] for r in sig[1]] != ids:
				bad = f'signature file: the labels are not the {len(ids)} stored ids in stored order: {[r[0] for r in sig[1]][:8]}...'
			elif [r[0] for r in pos[1]] != [ids[i] for i in perm]:
				bad = f'positional: the labels are not the file names without directory and extensions, in input order: {[r[0] for r in pos[1]][:8]}...'
			else:
				for n, i in enumerate(perm):
					if pos[1][n][2] != sig[1][i][2]:
						bad = f'row {n} of the positional run (genome {ids[i]}) differs from row {i} of the signature-file run'
						break
			if not bad:
				for i in c['sample']:
					one = _run_query(fmt, ['--no-progress', os.path.join(gdir, ids[i] + '.fasta.gz')], 1)
					if one[0] != 'ok' or len(one[1]) != 1:
						bad = f'singleton query of {ids[i]} failed: {one}'
					elif one[1][0][2] != sig[1][i][2] or one[1][0][0] != ids[i]:
						bad = f'genome {ids[i]} queried alone differs from its row {i} in the batch of {len(ids)}'
					if bad:
						break
			if bad:
				ctx.violation('bundled', c, bad, impl=None if sig[0] != 'ok' else [r[0] for r in sig[1]], spec=ids)
	finally:
		os.chdir(_S['cwd'])


def finish(ctx):
	# show command-line cases among the evidence samples, not only the (first generated) label cases
	ctx.samples[:0] = _S.get('samples', [])


def _timed(name, fn):
	def run(ctx, cases):
		t = time.time()
		try:
			return fn(ctx, cases)
		finally:
			ctx.count('seconds:' + name, round(time.time() - t))
	return run


KINDS = {'label': _timed('label', k_label), 'files': _timed('files', k_files), 'cli': _timed('cli', k_cli),
         'api': _timed('api', k_api), 'bundled': _timed('bundled', k_bundled), 'seq': _timed('seq', k_seq)}


# ------------------------------------------------------------------------------------------------
# generators
# ------------------------------------------------------------------------------------------------

STEMS = ['A1', 'x', 'my genome', 'GCF_000.1', 'a,b', 'x.fa', 'q"uote', 's.gz', 'fasta', '.hidden', 'gén ome', 'x.FASTA', 'a.fa.b']
EXTS = FASTA_EXT + ['', '.txt', '.FA', '.fas', '.gb']


# gzip containers, by the tools that make them (every one of them a valid gzip file that expands to the genome's bytes):
BGZF_HDR = dict(extra='bgzf', os=255)
GZ_FLAVOURS = [
	('gzip-cli', dict(cut='single', levels=[6], hdr=dict(name='orig name.fasta', mtime=1700000000, os=3))),         # `gzip FILE`
	('gzip-9', dict(cut='single', levels=[9], hdr=dict(name='x.fa', mtime=1, os=3, xfl=2))),                          # `gzip -9`
	('gzip-1', dict(cut='single', levels=[1], hdr=dict(mtime=2 ** 31 + 5, os=3, xfl=4))),                             # `gzip -1 -n`
	('stored', dict(cut='single', levels=[0])),                                                                       # level 0
	('flushed', dict(cut='single', levels=[6], flush=dict(n=5, mode='sync'))),                                        # pigz (one member, many blocks)
	('full-flushed', dict(cut='single', levels=[4], flush=dict(n=3, mode='full'), hdr=dict(comment='made by a flushing writer'))),
	('hdr-all', dict(cut='single', levels=[6], hdr=dict(name='n', comment='c', extra='4142020001ff', hcrc=True, text=True, mtime=123456, os=0))),
	('cat-records', dict(cut='records', levels=[6])),                                                                 # cat rec1.gz rec2.gz ...
	('cat-records-named', dict(cut='records', levels=[9, 1], hdr=dict(name='part.fa', mtime=1600000000, os=3))),
	('cat-two', dict(cut='lines', at=[0.5], levels=[6, 9])),                                                          # cat a.gz b.gz
	('cat-mid-line', dict(cut='frac', at=[0.37], levels=[6])),
	('cat-mid-many', dict(cut='frac', at=[0.1, 0.2, 0.45, 0.7, 0.99], levels=[1, 6, 9, 0])),
	('cut-after-gt', dict(cut='bytes', at=[1], levels=[6])),                                                          # first member holds only '>'
	('cut-before-end', dict(cut='bytes', at=[-1], levels=[6])),                                                       # last member: final newline
	('empty-first', dict(cut='single', levels=[6], empty=['first'])),                                                 # `gzip -c /dev/null; gzip -c x`
	('empty-last', dict(cut='single', levels=[6], empty=['last'])),
	('empty-mid', dict(cut='lines', at=[0.3, 0.6], levels=[6], empty=['mid'])),
	('empty-all', dict(cut='records', levels=[6], empty=['first', 'mid', 'last'], hdr=dict(name='e'), hdr_on='alt')),
	('bgzip', dict(cut='block', block=65280, levels=[6], hdr=BGZF_HDR, eof_block=True)),                              # bgzip (BGZF)
	('bgzip-small', dict(cut='block', block=1000, levels=[6], hdr=BGZF_HDR, eof_block=True)),
	('pigz-i', dict(cut='block', block=2048, levels=[6], hdr=dict(name='pig.fa', mtime=1650000000, os=3), hdr_on='first')),   # pigz -i -b
	('blocks-512', dict(cut='block', block=512, levels=[9])),
	('hdr-rest', dict(cut='lines', at=[0.25, 0.75], levels=[6], hdr=dict(comment='appended', hcrc=True), hdr_on='rest')),
	('huffman', dict(cut='lines', at=[0.5], levels=[6], hdr=dict(strategy='huffman'))),
]


def _rand_gzc(rng):
	"""a random gzip container description:
	  cut      single | records | lines (at fractions) | frac (raw byte offsets at fractions) | bytes (absolute offsets) | block (size)
	  levels   deflate levels 0..9, taken in turn by the members
	  empty    empty members: first / mid / last
	  hdr      optional header fields of the members: name, comment, extra (hex or 'bgzf'), hcrc, text, mtime, os, xfl, strategy
	  hdr_on   all | first | rest | alt: which members carry them
	  flush    deflate blocks inside a member (sync / full flush points)
	  eof_block  bgzip's empty end-of-file member"""
	if rng.random() < 0.3:
		return dict(rng.choice(GZ_FLAVOURS)[1])
	cut = rng.choice(['single', 'records', 'lines', 'frac', 'frac', 'bytes', 'block'])
	gzc = dict(cut=cut, levels=[rng.randint(0, 9) for _ in range(rng.randint(1, 3))])
	if cut in ('lines', 'frac'):
		gzc['at'] = sorted(round(rng.random(), 3) for _ in range(rng.choice([1, 1, 2, 3, 8])))
	elif cut == 'bytes':
		gzc['at'] = sorted(set(rng.choice([1, 2, 5, 60, 61, 100, 1024, -1, -2, -60, -61, -1000]) for _ in range(rng.randint(1, 3))))
	elif cut == 'block':
		gzc['block'] = rng.choice([64, 100, 512, 1000, 1024, 4096, 5000, 65280])
	r = rng.random()
	if r < 0.3:
		gzc['empty'] = rng.sample(['first', 'mid', 'last'], rng.randint(1, 3))
	r = rng.random()
	if r < 0.5:
		hdr = {}
		if rng.random() < 0.6:
			hdr['name'] = rng.choice(['genome.fasta', 'other.fa', 'x', 'sp ace.fna', 'caf\xe9.fa'])
		if rng.random() < 0.3:
			hdr['comment'] = rng.choice(['', 'a comment', '>not a record'])
		if rng.random() < 0.3:
			hdr['extra'] = rng.choice(['', '4142020001ff', '58590000', '00' * 40])
		if rng.random() < 0.3:
			hdr['hcrc'] = True
		if rng.random() < 0.3:
			hdr['text'] = True
		if rng.random() < 0.6:
			hdr['mtime'] = rng.choice([1, 1700000000, 2 ** 32 - 1, 86400])
		hdr['os'] = rng.choice([0, 3, 7, 11, 255])
		if rng.random() < 0.3:
			hdr['xfl'] = rng.choice([2, 4])
		if rng.random() < 0.15:
			hdr['strategy'] = rng.choice(['filtered', 'huffman', 'rle', 'fixed'])
		gzc['hdr'] = hdr
		gzc['hdr_on'] = rng.choice(['all', 'all', 'first', 'rest', 'alt'])
	elif r < 0.6 and cut == 'block' and gzc['block'] >= 512:
		gzc['hdr'], gzc['eof_block'] = dict(BGZF_HDR), rng.random() < 0.8
	if rng.random() < 0.15:
		gzc['flush'] = dict(n=rng.randint(1, 6), mode=rng.choice(['sync', 'full']))
	return gzc


def _rand_input(rng, g=None):
	inp = dict(g=rng.randrange(NG) if g is None else g, dir=rng.choice(['', '', 'sub', 'a/b', 'sp ace']),
	           stem=rng.choice(STEMS), ext=rng.choice(EXTS), gz=rng.random() < 0.5)
	# a third of the compressed inputs of EVERY cli stream come in some other gzip container than one plain member
	if inp['gz'] and rng.random() < 0.35:
		inp['gzc'] = _rand_gzc(rng)
	return inp


def _rand_lf(rng):
	return dict(ldir=rng.choice(['abs', 'abs', 'slash', 'default', 'rel', 'sub']), eol=rng.choice(['\n', '\n', '\r\n', '\r']),
	            lpad=rng.choice(['', '', ' ', '\t']), rpad=rng.choice(['', '', '  ', '\t ']), blanks=rng.random() < 0.3,
	            final_eol=rng.random() < 0.7, abs_lines=rng.random() < 0.25)


def _plain(g):
	return dict(g=g, dir='', stem=f'genome{g}', ext='.fasta', gz=False)


FLAT_BASES = ['A', 'my genome ', 'a,b', 'GCF_000.', 'x.fa.', '-dash', 'gén', '.hid', 'q"']


def _flat_input(rng):
	"""an input of the 'flat' cases: all files share one directory, so the genome's index is part of the stem"""
	g = rng.randrange(NGX)
	inp = dict(g=g, dir='', stem=rng.choice(FLAT_BASES) + str(g), ext=rng.choice(FASTA_EXT + ['', '.txt']), gz=rng.random() < 0.5)
	if inp['gz'] and rng.random() < 0.35:
		inp['gzc'] = _rand_gzc(rng)
	return inp


# ---- sequences (kind 'seq') --------------------------------------------------------------------------

SEQ_DBS = ['A', 'B', 'Bf']
BAD_KINDS = ['truncgz', 'badutf8', 'missing', 'dir']


def _rand_bad(rng, name_of=None):
	"""an input on which the command has to fail part-way: the records of two genomes, then the file ends / cannot be decoded; or no
	file at all / a directory"""
	kind = rng.choice(BAD_KINDS)
	gs = [rng.randrange(NG), rng.randrange(NG)]
	return dict(g=gs[0], dir=rng.choice(['', 'sub']), stem=rng.choice(['A1', 'x', 'my genome']) + '_bad', ext=rng.choice(['.fasta', '.fa', '.fna']),
	            gz=kind == 'truncgz', bad=dict(kind=kind, gs=gs, **({'frac': rng.choice([0.5, 0.7, 0.9])} if kind == 'truncgz' else {})))


SEQ_GENOMES_SMALL = [0, 1, 2, 3, NG + 2, NG + 3]      # (quick tier: every singleton reference of a second database is a process of its own)


def _rand_seq_cli(rng, small=False):
	"""a script of 2-5 `gambit query` commands in ONE process over a small pool of files, two or three databases, one list-file path
	and (half of the cases) one output path"""
	genomes = SEQ_GENOMES_SMALL if small else list(range(NGX))
	pool = [_rand_input(rng, rng.choice(genomes[:4] if small else range(NG))) for _ in range(4)]
	pool.append(dict(pool[0], g=rng.choice([g for g in genomes[:4] if g != pool[0]['g']])))      # the same NAME, another genome
	if rng.random() < 0.4:
		pool.append(_rand_input(rng, rng.choice([g for g in genomes if g >= NG])))
	fmts = ['csv', 'csv', 'archive', 'json'] if small else ['csv', 'json', 'archive']
	dbs = rng.sample(SEQ_DBS, 2)
	share_out = rng.random() < 0.5
	steps = []
	nsteps = rng.choice([2, 3, 3, 4, 5])
	for n in range(nsteps):
		k = rng.choice([1, 2, 2, 3, 4])
		inputs = [dict(rng.choice(pool)) for _ in range(k)]
		ch = rng.choice(['pos', 'list', 'list', 'sig'])
		# both databases in both orders: the first two steps use the two databases, later ones either
		db = dbs[n] if n < 2 else rng.choice(dbs)
		st = dict(channel=ch, inputs=inputs, cores=rng.choice([None, 1, 1, 2, 2, 3]), progress=rng.choice([True, False, 'default']),
		          fmt=rng.choice(fmts), call=dict(dbname=db, db=rng.choice(['short', 'short', 'long', 'env'])))
		if share_out:
			st['call']['out'] = 'shared'
		if small and db != 'A' and st['fmt'] == 'json':
			st['fmt'] = 'archive'      # (quick tier: fewer singleton references of the second databases, each a process of its own)
		if rng.random() < (0.1 if small else 0.25):
			st['strict'] = rng.random() < 0.7
			if small and st['strict']:
				st['fmt'] = 'csv'
		if rng.random() < 0.2:
			st['thread'] = True
		if rng.random() < 0.3:
			st['twice'] = True
		planted = n > 0 and n < nsteps - 1 and rng.random() < 0.45 or (n == 0 and rng.random() < 0.15)
		if ch == 'pos':
			st['form'] = rng.choice(['abs', 'dot', 'rel', 'reldot'])
		elif ch == 'list':
			st['lf'] = _rand_lf(rng)
			st['list_path'] = 'seq-shared.list'
		else:
			st['inputs'] = [_plain(i['g']) for i in inputs]
			st['ids'] = [rng.choice(['id', 'x.fasta', 'a b']) + f'-{m}' for m in range(k)]
			if planted:
				st['sig'] = dict(how=rng.choice(['bad-kspec', 'bad-trunc']))
		if planted and ch != 'sig':
			# in the middle of the batch where there is a middle, or at its end
			at = rng.choice([len(inputs) // 2, len(inputs) // 2, len(inputs)])
			st['inputs'].insert(at, _rand_bad(rng))
		if planted:
			st.pop('twice', None)
		steps.append(st)
	return dict(mode='cli', steps=steps)


def _rand_seq_api(rng, small=False):
	"""a script of 3-6 calls of query / query_parse / the exporters over shared objects: two database objects (of different size and
	order; 'BA' = the genomes of B on the very signatures object of A), two QueryParams objects, two signature containers, two lists of
	SequenceFile objects, label lists / QueryInput lists, two parse_kw dicts (one of them holding a thread pool of the caller's),
	two progress configurations, one exporter object per format, and the results of the earlier steps.  Themes: `two-db` the same
	query objects on one database, the other, the first again; `parse-fail` a good parse, one that fails part-way (bad file in the
	middle), a good one -- all with the same parse_kw, on the same thread(s); `export` one result through several exporters, a failing
	output stream in between; `mixed` anything."""
	theme = rng.choice(['mixed', 'mixed', 'two-db', 'parse-fail', 'parse-fail', 'export'])
	if small:
		gpool = rng.sample(SEQ_GENOMES_SMALL[:4], 3) + [rng.choice(SEQ_GENOMES_SMALL), rng.choice(SEQ_GENOMES_SMALL)]
	else:
		gpool = rng.sample(range(NG), 3) + [rng.randrange(NGX), rng.randrange(NGX)]
	conts = ['pylist', 'tuple', 'SignatureList', 'SignatureArray', 'view', 'hdf5']
	cs_choices = [None, 1, 7, 50, 141, 142, 143, 212, 213, 1000]
	fmts = ['csv', 'csv', 'csv', 'archive', 'archive', 'json']
	fmts2 = ['csv', 'csv', 'archive'] if small else fmts      # (quick tier: json only on database A, whose references the other streams need anyway)
	in_thread = [dict(concurrency=None), dict(concurrency=None), dict(executor='T1'), dict(executor='T1'), dict(executor='T2')]
	c = dict(mode='api', theme=theme,
	         params=[dict(chunksize=rng.choice(cs_choices), strict=rng.random() < (0.05 if small else 0.15)) for _ in range(2)],
	         sigs=[dict(cont=rng.choice(conts), dtype=rng.choice(['u2', 'u4', 'u8']), gs=[rng.choice(gpool) for _ in range(rng.randint(3, 5))]) for _ in range(2)],
	         filesets=[[_rand_input(rng, rng.choice(gpool)) for _ in range(rng.randint(2, 4))] for _ in range(2)],
	         pks=[rng.choice(in_thread + [dict(concurrency='threads', max_workers=2), dict(max_workers=2)]) for _ in range(2)],
	         progs=[rng.choice(['click', 'test', 'false', 'config']) for _ in range(2)], steps=[])
	if theme == 'parse-fail':
		c['pks'][0] = rng.choice(in_thread)
	if rng.random() < 0.3:
		c['params'].append(dict(chunksize=rng.choice([0, -1]), strict=False))
	if theme == 'parse-fail' or rng.random() < 0.5:
		fs = [_rand_input(rng, rng.choice(gpool)) for _ in range(rng.randint(2, 3))]
		# (in the middle: the files after it are still handed to a pool; at the end: whatever the failure leaves behind is still there
		# when the call returns)
		fs.insert(rng.choice([len(fs) // 2, len(fs)]), _rand_bad(rng))
		c['filesets'].append(fs)
	dbs = rng.sample(['A', 'B', 'Bf', 'BA'], 2)
	if 'BA' in dbs and 'A' not in dbs and rng.random() < 0.7:
		dbs = ['A', 'BA'] if rng.random() < 0.5 else ['BA', 'A']       # the signatures object of A serves both
	done = []          # indices of the query / parse steps that should succeed

	def valid_params():
		return rng.choice([k for k, p in enumerate(c['params']) if p['chunksize'] is None or p['chunksize'] > 0])

	def add(st):
		bad_files = st['op'] == 'parse' and any(i.get('bad') for i in c['filesets'][st['files']])
		invalid = st.get('params') is not None and c['params'][st['params']]['chunksize'] is not None and c['params'][st['params']]['chunksize'] <= 0
		if st['op'] != 'export' and not (bad_files or invalid or st.get('fail')):
			done.append(len(c['steps']))
			if rng.random() < 0.25:
				st['twice'] = True
		c['steps'].append(st)

	def rand_step(may_fail):
		r = rng.random()
		if done and r < 0.22:
			res = rng.choice(done)
			return dict(op='export', res=res, fmt=rng.choice(['csv', 'csv', 'archive', 'json'] if c['steps'][res]['db'] == 'A' or not small else ['csv', 'archive']),
			            **({'sink': 'failing'} if rng.random() < 0.3 else {}))
		db = dbs[len(done)] if len(done) < 2 else rng.choice(dbs)
		st = dict(db=db, params=rng.randrange(len(c['params'])) if rng.random() < 0.9 else None, fmt=rng.choice(fmts if db == 'A' else fmts2))
		if rng.random() < 0.5:
			st['prog'] = rng.randrange(2)
		if r < 0.62:
			cont = rng.randrange(2)
			ng = len(c['sigs'][cont]['gs'])
			st.update(op='query', sigs=cont, sel=None if rng.random() < 0.35 else [rng.randrange(ng) for _ in range(rng.randint(1, 4))],
			          inputs=rng.choice(['L', 'L', 'QI', 'QI', 'T', 'none']))
			if c['sigs'][cont]['cont'] == 'hdf5' and st['sel'] is not None:
				st['sel'] = sorted(set(st['sel']))      # (h5py reads index lists in increasing order only)
			fails = ['iter', 'mismatch', 'meter', 'inputs-iter']
		else:
			st.update(op='parse', files=rng.randrange(len(c['filesets'])), labels=rng.choice(['L', 'L', 'T', 'none']),
			          pk=rng.randrange(2) if rng.random() < 0.9 else None)
			fails = ['labels-iter', 'files-raise', 'meter', 'mismatch']
		bad_files = st['op'] == 'parse' and any(i.get('bad') for i in c['filesets'][st['files']])
		invalid = st['params'] is not None and c['params'][st['params']]['chunksize'] is not None and c['params'][st['params']]['chunksize'] <= 0
		if not bad_files and not invalid and may_fail and rng.random() < 0.3:
			st['fail'] = rng.choice(fails)
			st['fail_at'] = rng.choice([1, 1, 2, 3])
			if st['fail'] in ('inputs-iter', 'mismatch') and st.get('inputs') == 'none':
				st['inputs'] = 'L'
			if st['fail'] in ('labels-iter', 'mismatch') and st.get('labels') == 'none':
				st['labels'] = 'L'
			if st['fail'] == 'files-raise':
				st['labels'] = 'none'      # (so that the list is first iterated where the work is handed out)
			if st['fail'] == 'meter':
				st.pop('prog', None)
				if st['op'] == 'parse':
					st['pk'] = None        # (see the known defect: a progress configuration would stay in the shared parse_kw)
		return st

	if theme == 'two-db':
		cont = rng.randrange(2)
		ng = len(c['sigs'][cont]['gs'])
		sel = None if rng.random() < 0.4 else [rng.randrange(ng) for _ in range(rng.randint(1, 3))]
		if c['sigs'][cont]['cont'] == 'hdf5' and sel is not None:
			sel = sorted(set(sel))
		base = dict(op='query', sigs=cont, sel=sel, inputs=rng.choice(['L', 'QI', 'T']), params=valid_params())
		for db in (dbs[0], dbs[1], dbs[0]):
			add(dict(base, db=db, fmt=rng.choice(fmts if db == 'A' else fmts2), **({'prog': rng.randrange(2)} if rng.random() < 0.4 else {})))
	elif theme == 'parse-fail':
		pr = valid_params()
		add(dict(op='parse', db=dbs[0], files=rng.randrange(2), labels=rng.choice(['L', 'T', 'none']), pk=0, params=pr, fmt=rng.choice(fmts if dbs[0] == 'A' else fmts2)))
		add(dict(op='parse', db=rng.choice(dbs), files=len(c['filesets']) - 1, labels=rng.choice(['L', 'none']), pk=0, params=pr, fmt='csv'))
		add(dict(op='parse', db=dbs[1], files=rng.randrange(2), labels=rng.choice(['L', 'T', 'none']), pk=0, params=valid_params(), fmt=rng.choice(fmts if dbs[1] == 'A' else fmts2)))
	elif theme == 'export':
		add(rand_step(False))
		while not done:
			add(rand_step(False))
		for fmt in (rng.sample(['csv', 'json', 'archive'], rng.randint(2, 3)) if c['steps'][done[0]]['db'] == 'A' or not small else ['archive', 'csv', 'archive']):
			add(dict(op='export', res=done[0], fmt=fmt, **({'sink': 'failing'} if rng.random() < 0.4 else {})))
	nsteps = max(len(c['steps']) + rng.choice([0, 1, 2]), rng.choice([3, 4, 4, 5]))
	while len(c['steps']) < nsteps:
		n = len(c['steps'])
		add(rand_step(0 < n < nsteps - 1))
	return c


SEQ_KNOWN_PARSE_KW = dict(
	mode='api', known='parse_kw-progress-writeback', params=[dict(chunksize=1000, strict=False)], sigs=[], progs=[],
	filesets=[[dict(g=2, dir='', stem='genome2', ext='.fasta', gz=False), dict(g=0, dir='', stem='genome0', ext='.fasta', gz=False)]],
	pks=[dict(concurrency=None)],
	steps=[dict(op='parse', db='A', files=0, params=0, labels='L', pk=0, prog='closing-file', fmt='csv'),
	       dict(op='parse', db='A', files=0, params=0, labels='L', pk=0, fmt='csv')])


def generate(ctx):
	rng = ctx.rng
	ctx.rule(RULE)
	for a in ASSUMPTIONS:
		ctx.assume(a)

	# ---- 1. label: exhaustive token strings, then structured names ------------------------------------
	toks = ['x', '.', '.fa', '.gz', '.fasta', '/']
	n_ex = 0
	for n in range(0, 5):
		for combo in itertools.product(toks, repeat=n):
			s = ''.join(combo)
			d, _, name = s.rpartition('/')
			yield 'label', dict(dir=(d + '/') if '/' in s else '', stem=name, ext='', gz='')
			n_ex += 1
	ctx.count('stream:label-exhaustive', n_ex)
	n_st = 0
	for d in ['', 'd/', '/a/b/', './', 'a//', 'x.fa/', 'sp ace/']:
		for stem in STEMS + ['', '.', 'x.fna', 'x.fasta.gz']:
			for ext in EXTS:
				for gz in ['', '.gz', '.GZ', '.bz2']:
					yield 'label', dict(dir=d, stem=stem, ext=ext, gz=gz)
					n_st += 1
	ctx.count('stream:label-structured', n_st)

	# ---- 2. files: get_sequence_files as a function ----------------------------------------------------
	ptoks = ['/', '/', '.', '..', 'a', 'b c', 'x.fa', 'y.fasta.gz', '.gz', 'é']
	ltoks = ['a.fa', 'sub/b.fna.gz', '/abs/c.fasta', ' ', '\t', '\n', '\n', '\r\n', '\r', '\x0b', '\x85', ' ', 'x y', './d.faa', '\x1c']
	for n in range(ctx.pick(1500, 20000)):
		flags = dict(strip_dir=rng.random() < 0.8, strip_ext=rng.random() < 0.8)
		if n % 2 == 0:
			ex = []
			for _ in range(rng.randint(1, 4)):
				p = ''.join(rng.choice(ptoks) for _ in range(rng.randint(1, 6)))
				ex.append(p)
			ex = [p for p in ex if p and '\x00' not in p]
			yield 'files', dict(explicit=ex, text=None, ldir='.', **flags)
		else:
			text = ''.join(rng.choice(ltoks) for _ in range(rng.randint(0, 10)))
			yield 'files', dict(explicit=[], text=text, ldir=rng.choice(['.', 'ld', '/abs/dir', 'ld/', '', 'a/../b', './x']), **flags)
		ctx.count('stream:files-random')
	yield 'files', dict(explicit=[], text=None, ldir='.', strip_dir=True, strip_ext=True)

	# ---- 3. cli: exhaustive small scope -- every ordered selection of <= 3 of 3 genomes x 3 channels ----
	sel = [list(p) for k in (1, 2, 3) for p in itertools.permutations(range(3), k)]
	fmts_ex = ctx.pick(['csv'], ['csv', 'json', 'archive'])
	n_cli = 0
	for fmt in fmts_ex:
		for gs in sel:
			yield 'cli', dict(channel='pos', inputs=[_plain(g) for g in gs], form='abs', fmt=fmt)
			yield 'cli', dict(channel='list', inputs=[_plain(g) for g in gs], lf=dict(ldir='abs'), fmt=fmt)
			yield 'cli', dict(channel='sig', inputs=[_plain(g) for g in gs], ids=[f'stored-{g}' for g in gs], fmt=fmt)
			n_cli += 3
	ctx.count('stream:cli-exhaustive-orders', n_cli)
	ctx.exhaustive = True
	ctx.extra['exhaustive_scope'] = (f'label: all {n_ex} concatenations of <= 4 tokens from {{x . .fa .gz .fasta /}}; '
	                                 f'cli: every ordered selection without repetition of 1..3 out of 3 genomes x '
	                                 f'{{positional, list file, signature file}} x formats {fmts_ex}.  Everything else is sampled.')

	# ---- 4. cli: every extension x gzip x every spelling, cores and progress sweep ---------------------
	for ext in EXTS:
		for gz in (False, True):
			g = rng.randrange(NG)
			yield 'cli', dict(channel='pos', inputs=[dict(g=g, dir='e', stem=f'n{g}', ext=ext, gz=gz), _plain((g + 1) % NG)],
			                  form=rng.choice(['abs', 'dot', 'rel', 'reldot']), fmt=rng.choice(['csv', 'json', 'archive']))
			ctx.count('stream:cli-extensions')
	batch6 = [dict(g=g, dir='c', stem=f's{g}', ext=FASTA_EXT[g % 6], gz=g % 2 == 0) for g in (3, 0, 5, 1, 4, 2)]
	for cores in range(1, ctx.pick(5, 17)):
		for progress in (False, True):
			ch = ['pos', 'list', 'sig'][(cores + progress) % 3]
			c = dict(channel=ch, inputs=batch6, cores=cores, progress=progress, fmt=['csv', 'json', 'archive'][cores % 3])
			if ch == 'pos':
				c['form'] = 'abs'
			elif ch == 'list':
				c['lf'] = dict(ldir='abs')
			else:
				c['ids'] = [f'id{n}' for n in range(6)]
			yield 'cli', c
			ctx.count('stream:cli-cores-progress')

	# ---- 5. cli: random batches (repeats, duplicate labels, odd names, list-file decorations) ----------
	for n in range(ctx.pick(90, 800)):
		k = rng.choice([1, 2, 2, 3, 3, 4, 5, 8])
		inputs = [_rand_input(rng) for _ in range(k)]
		if rng.random() < 0.3 and k >= 2:
			inputs[-1] = dict(inputs[0])                       # the same file twice
		if rng.random() < 0.3 and k >= 2:
			inputs[1] = dict(inputs[0], g=(inputs[0]['g'] + 1) % NG)     # same name, another genome: duplicate label
		c = dict(channel=rng.choice(['pos', 'pos', 'list', 'list', 'sig']), inputs=inputs,
		         cores=rng.choice([None, 1, 2, 3, 4]), progress=rng.random() < 0.5, fmt=rng.choice(['csv', 'json', 'archive']))
		if c['channel'] == 'pos':
			c['form'] = rng.choice(['abs', 'dot', 'rel', 'reldot'])
		elif c['channel'] == 'list':
			c['lf'] = _rand_lf(rng)
		else:
			c['inputs'] = [_plain(i['g']) for i in inputs]
			c['ids'] = [rng.choice(['id', 'x.fasta', 'a b', 'Ünï', '7', 'd/e.fa']) + f'-{m}' for m in range(k)]
			if rng.random() < 0.3 and k >= 2:
				c['ids'][1] = c['ids'][0]
		yield 'cli', c
		ctx.count('stream:cli-random')

	# ---- 5a. cli: genomes of other classes (no k-mer at all: empty file, header only, too short; a reference genome itself)
	for n in range(ctx.pick(10, 60)):
		k = rng.choice([2, 3, 4, 5])
		gs = [rng.randrange(NG, NGX)] + [rng.randrange(NGX) for _ in range(k - 1)]
		rng.shuffle(gs)
		if n == 0:
			gs = list(range(NG, NGX)) + [0]
		inputs = [_rand_input(rng, g) for g in gs]
		c = dict(channel=['pos', 'list', 'sig'][n % 3], inputs=inputs, cores=rng.choice([None, 1, 2, 3]), progress=rng.random() < 0.5,
		         fmt=['csv', 'json', 'archive'][(n // 3) % 3])
		if c['channel'] == 'pos':
			c['form'] = rng.choice(['abs', 'dot', 'rel', 'reldot'])
		elif c['channel'] == 'list':
			c['lf'] = _rand_lf(rng)
		else:
			c['inputs'] = [_plain(g) for g in gs]
			c['ids'] = [f'x{m}-{g}' for m, g in enumerate(gs)]
		yield 'cli', c
		ctx.count('stream:cli-genome-classes')

	# ---- 5a'. cli / api: gzip containers.  Every flavour of GZ_FLAVOURS once (channel, spelling, format, cores in rotation), then
	#      random containers; with and without the '.gz' suffix; mixed with plain and ordinarily compressed files in one batch;
	#      positional / list file / signature file made from the compressed files; query_parse and calc_file_signatures + query with
	#      compression 'auto' and 'gzip'.  The row has to be the row of the UNCOMPRESSED genome queried alone.
	def gz_input(gzc, g=None, suffix=True):
		g = rng.randrange(NGX if rng.random() < 0.15 else NG) if g is None else g
		return dict(g=g, dir=rng.choice(['', 'z']), stem=rng.choice(['A1', 'my genome', 'GCF_000.1', 'x']) + f'_{g}',
		            ext=rng.choice(FASTA_EXT if suffix else FASTA_EXT + ['']), gz=suffix, gzc=gzc)

	def gz_case(n, inputs):
		ch = ['pos', 'list', 'pos', 'sig'][n % 4]
		c = dict(channel=ch, inputs=inputs, cores=[None, 1, 2, 3][(n // 4) % 4], progress=n % 3 == 0, fmt=['csv', 'json', 'archive'][n % 3])
		if ch == 'pos':
			c['form'] = ['abs', 'rel', 'dot', 'reldot'][(n // 2) % 4]
		elif ch == 'list':
			c['lf'] = dict(ldir=['abs', 'default', 'rel'][(n // 4) % 3])
		else:
			c['ids'] = [f'z{m}' for m in range(len(inputs))]
			c['sig'] = dict(how='files')
		return c

	flav = list(GZ_FLAVOURS)
	rng.shuffle(flav)                 # (every flavour in one cli case; channel / format / neighbours differ from seed to seed)
	for n, (fname, gzc) in enumerate(flav):
		inputs = [gz_input(gzc, suffix=n % 5 != 4)]
		if n % 2 == 1:
			inputs.append(_rand_input(rng))
		if n % 3 == 2:
			inputs.insert(0, gz_input(flav[(n + 7) % len(flav)][1]))
		yield 'cli', gz_case(n, inputs)
		ctx.count('stream:cli-gzip-containers')
		ctx.count('gzip-flavour:' + fname)
	for n in range(ctx.pick(16, 200)):
		k = rng.choice([1, 2, 3, 4])
		inputs = [gz_input(_rand_gzc(rng), suffix=rng.random() < 0.75) for _ in range(k)]
		if k >= 2 and rng.random() < 0.4:
			inputs[0] = dict(inputs[1], gzc=_rand_gzc(rng))          # the same genome and name twice, in two containers
		if k >= 3 and rng.random() < 0.5:
			inputs[-1] = _plain(inputs[0]['g'])                       # ... and uncompressed in the same batch
		yield 'cli', gz_case(n + len(flav), inputs)
		ctx.count('stream:cli-gzip-containers')
	for n in range(ctx.pick(12, 80)):
		k = rng.choice([1, 2, 3])
		files = [gz_input(rng.choice(GZ_FLAVOURS)[1] if n % 2 else _rand_gzc(rng), suffix=rng.random() < 0.7) for _ in range(k)]
		c = dict(gs=[i['g'] for i in files], files=files, chunksize=rng.choice([None, 1, 50, 1000]), via=['parse', 'query'][n % 2],
		         compression=['auto', 'auto', 'gzip'][n % 3], export=['json', 'csv', 'archive'][n % 3],
		         inputs_as=rng.choice(['str', 'tuple'] if n % 2 == 0 else ['str', 'QueryInput', 'mixed']))
		if c['compression'] == 'auto' and rng.random() < 0.4:
			c['files'][0] = dict(_plain(c['files'][0]['g']), dir='zp')      # a plain file among them
		yield 'api', c
		ctx.count('stream:api-gzip-containers')

	# ---- 5b. cli: bare file names, the working directory holds the files (and is the default base directory of the list)
	for n in range(ctx.pick(12, 60)):
		k = rng.choice([1, 2, 3, 4, 6])
		inputs = [_flat_input(rng) for _ in range(k)]
		if k >= 3 and rng.random() < 0.4:
			inputs[-1] = dict(inputs[0])
		c = dict(channel=['pos', 'list'][n % 2], flat=True, inputs=inputs, cores=rng.choice([None, 1, 2, 4]), progress=rng.random() < 0.5,
		         fmt=rng.choice(['csv', 'json', 'archive']))
		if c['channel'] == 'pos':
			c['form'] = rng.choice(['bare', 'bare', 'dotbare'])
			if c['form'] == 'bare' and any(_name(i).startswith('-') for i in inputs):
				c['call'] = dict(ddash=True)
			elif rng.random() < 0.3:
				c['call'] = dict(ddash=True)
		else:
			c['lf'] = dict(_rand_lf(rng), ldir=rng.choice(['default', 'default', 'dot', 'dotslash', 'abs']))
		yield 'cli', c
		ctx.count('stream:cli-flat-cwd')

	# ---- 5c. cli: the same command written differently (long options, --opt=value, -oVALUE, options after / between the
	#      positional arguments, no -f, no progress flag, database through --db / the environment, list file on stdin,
	#      --strict / --no-strict: compared with the singleton run under the same flag)
	for n in range(ctx.pick(18, 120)):
		k = rng.choice([2, 3, 4])
		inputs = [_rand_input(rng) for _ in range(k)]
		ch = ['pos', 'list', 'sig'][n % 3]
		call = dict(spell=['long', 'eq', 'attached', 'short'][n % 4], db=['long', 'eq', 'env', 'short'][(n // 2) % 4])
		c = dict(channel=ch, inputs=inputs, cores=rng.choice([None, 2, 3]), progress=rng.choice([True, False, 'default', 'default']),
		         fmt=rng.choice(['csv', 'json', 'archive']), call=call)
		if rng.random() < 0.35:
			c['fmt'], call['omit_fmt'] = 'csv', True
		if rng.random() < 0.4:
			c['strict'] = rng.random() < 0.6
		if ch == 'pos':
			c['form'] = rng.choice(['abs', 'dot', 'rel', 'reldot'])
			call['order'] = rng.choice(['first', 'last', 'split'])
		elif ch == 'list':
			c['lf'] = _rand_lf(rng)
			c['stdin_list'] = rng.random() < 0.5
		else:
			c['inputs'] = [_plain(i['g']) for i in inputs]
			c['ids'] = [f'id {m}' for m in range(k)]
		yield 'cli', c
		ctx.count('stream:cli-call-forms')

	# ---- 5d. cli: -c 5..16 also in the quick tier
	for cores in ctx.pick([16, rng.randint(5, 15)], []):
		ch = rng.choice(['pos', 'list'])
		c = dict(channel=ch, inputs=batch6[:rng.randint(2, 6)], cores=cores, progress=rng.random() < 0.5, fmt=rng.choice(['csv', 'json', 'archive']))
		if ch == 'pos':
			c['form'] = 'abs'
		else:
			c['lf'] = dict(ldir='abs')
		yield 'cli', c
		ctx.count('stream:cli-cores-high')

	# ---- 5e. cli: signature files of other make: written through the Python API (integer ids, 16/32/64-bit values, metadata)
	#      or by `signatures create` without -i (ids derived from the file names)
	for n in range(ctx.pick(8, 40)):
		k = rng.choice([1, 2, 3, 5])
		gs = [rng.randrange(NGX) for _ in range(k)]
		c = dict(channel='sig', inputs=[_plain(g) for g in gs], cores=rng.choice([None, 1, 3]), progress=rng.random() < 0.5,
		         fmt=['csv', 'json', 'archive'][n % 3])
		if n % 4 == 3:
			c['sig'] = dict(how='noids')
			c['ids'] = [f'genome{g}' for g in gs]
		else:
			idkind = ['int', 'str', 'int'][n % 3]
			c['sig'] = dict(how='api', idkind=idkind, dtype=rng.choice(['u2', 'u4', 'u8', 'i8']), meta=rng.random() < 0.5)
			if idkind == 'int':
				c['ids'] = [rng.choice([0, 7, 10 ** 12, 3]) + 100 * m for m in range(k)]
				if k >= 2 and rng.random() < 0.3:
					c['ids'][1] = c['ids'][0]
			else:
				c['ids'] = [rng.choice(['7', 'x/y.fasta.gz', ' lead', 'naïve', '']) + f'#{m}' for m in range(k)]
		yield 'cli', c
		ctx.count('stream:cli-sig-variants')

	# ---- 5f. cli: large batches
	for n in range(ctx.pick(2, 6)):
		k = rng.randint(24, 40)
		inputs = [_rand_input(rng, rng.randrange(NGX)) for _ in range(k)]
		c = dict(channel=['pos', 'list'][n % 2], inputs=inputs, cores=rng.choice([None, 3]), progress=rng.random() < 0.5, fmt=['json', 'csv'][n % 2])
		if c['channel'] == 'pos':
			c['form'] = rng.choice(['abs', 'rel'])
		else:
			c['lf'] = _rand_lf(rng)
		yield 'cli', c
		ctx.count('stream:cli-large-batch')

	# ---- 5g. cli: a process of its own, rows on the standard output (no -o), progress display on (it goes to stderr)
	for n in range(ctx.pick(2, 9)):
		k = rng.choice([2, 3])
		inputs = [_rand_input(rng) for _ in range(k)]
		ch = ['pos', 'list', 'sig'][n % 3]
		c = dict(channel=ch, inputs=inputs, cores=[2, None, 1][n % 3], progress=['default', True, False][n % 3], fmt=['csv', 'json', 'archive'][n % 3],
		         call=dict(proc=True, db=['env', 'short', 'long'][n % 3], omit_fmt=n % 3 == 0))
		if ch == 'pos':
			c['form'] = 'rel'
		elif ch == 'list':
			c['lf'] = _rand_lf(rng)
			c['stdin_list'] = True
		else:
			c['inputs'] = [_plain(i['g']) for i in inputs]
			c['ids'] = [f'p{m}' for m in range(k)]
		yield 'cli', c
		ctx.count('stream:cli-process-stdout')

	# ---- 5h. the repository's own signature file (50 ids) against the 50 genome files it was computed from
	nb = len(_bundled_ids())
	for n in range(ctx.pick(2, 6)):
		perm = list(range(nb))
		if n % 2 == 0:
			rng.shuffle(perm)
		else:
			perm = [rng.randrange(nb) for _ in range(rng.randint(5, 20))]
		yield 'bundled', dict(fmt=['csv', 'json', 'archive'][n % 3], perm=perm, sample=rng.sample(range(nb), ctx.pick(3, 8)),
		                      cores=rng.choice([None, 2]), progress=n % 2 == 1)
		ctx.count('stream:bundled-sigfile')

	# ---- 6. api: chunk sizes -----------------------------------------------------------------------------
	chunks = ctx.pick([None, 1, 7, 106, 212, 213, 214, 1000], [None, 1, 2, 3, 7, 50, 106, 107, 212, 213, 214, 1000])
	for n, cs in enumerate(chunks):
		for via in ctx.pick([('parse', 'query')[n % 2]], ['parse', 'query']):
			gs = rng.sample(range(NG), rng.randint(2, 4))
			yield 'api', dict(gs=gs, chunksize=cs, via=via)
			ctx.count('stream:api-chunks')

	# ---- 6a. api: other call forms of query / query_parse (see _api_call): random chunk sizes, the chunk size as NumPy
	#      integer / keyword / positional field, inputs as QueryInput / SequenceFile / tuple / mixed / absent, the query
	#      signatures as list / tuple / SignatureList / SignatureArray / index view / file-backed collection in 16/32/64 bits,
	#      every exporter, progress arguments, a QueryParams object and a parse_kw dict shared by two calls, genomes
	#      without k-mers
	nref = 213
	conts = ['pylist', 'tuple', 'SignatureList', 'SignatureArray', 'view', 'hdf5']
	for n in range(ctx.pick(40, 300)):
		k = rng.choice([1, 2, 3, 4, 6])
		gs = [rng.randrange(NGX) for _ in range(k)]
		cs = rng.choice([None, 1, 2, rng.randint(1, 30), rng.randint(1, nref + 3), nref - 1, nref, nref + 1, 10 ** 6])
		c = dict(gs=gs, chunksize=cs, via=['query', 'query', 'parse'][n % 3], export=['json', 'csv', 'archive'][n % 3 if n % 2 else (n // 2) % 3])
		c['cs_as'] = rng.choice(['int', 'np', 'kw', 'positional'])
		c['inputs_as'] = rng.choice(['str', 'tuple', 'none'] if c['via'] == 'parse' else ['str', 'QueryInput', 'SequenceFile', 'mixed', 'tuple', 'none'])
		if c['via'] == 'query':
			c['container'] = conts[(n // 3) % len(conts)]
			c['dtype'] = rng.choice(['u2', 'u4', 'u8', 'u8'])
		if rng.random() < 0.4:
			c['progress'] = rng.choice(['click', 'test', 'false', 'config'])
		if c['cs_as'] == 'int' and rng.random() < 0.6:
			c['reuse'] = True
		yield 'api', c
		ctx.count('stream:api-call-forms')

	# ---- 6b. files: other call forms of get_sequence_files (strings / tuple / pure paths, the list file as a path, the base
	#      directory as a pathlib path, positional arguments)
	for n in range(ctx.pick(400, 4000)):
		flags = dict(strip_dir=rng.random() < 0.8, strip_ext=rng.random() < 0.8, positional_call=rng.random() < 0.3)
		if n % 2 == 0:
			ex = [''.join(rng.choice(ptoks) for _ in range(rng.randint(1, 6))) for _ in range(rng.randint(1, 4))]
			yield 'files', dict(explicit=ex, text=None, ldir='.', explicit_as=rng.choice(['str', 'tuple', 'PurePath']), **flags)
		else:
			text = ''.join(rng.choice(ltoks) for _ in range(rng.randint(0, 10)))
			yield 'files', dict(explicit=[], text=text, ldir=rng.choice(['.', 'ld', '/abs/dir', 'ld/', '', 'a/../b', './x']),
			                    lf_as=rng.choice(['str', 'Path', 'handle']), ldir_as=rng.choice(['str', 'Path']), **flags)
		ctx.count('stream:files-call-forms')

	# ---- 6c. files: a second call with the same caller objects (list / tuple of paths, open list-file handle rewound, list-file
	#      path) and another base directory / other flags, after the caller has changed the lists the first call returned
	for n in range(ctx.pick(300, 3000)):
		flags = dict(strip_dir=rng.random() < 0.8, strip_ext=rng.random() < 0.8, positional_call=rng.random() < 0.3)
		again = dict(ldir=rng.choice(['.', 'ld', '/abs/dir', 'other/', 'a/../b']), strip_dir=rng.random() < 0.7, strip_ext=rng.random() < 0.7)
		if n % 2 == 0:
			ex = [''.join(rng.choice(ptoks) for _ in range(rng.randint(1, 6))) for _ in range(rng.randint(1, 4))]
			yield 'files', dict(explicit=ex, text=None, ldir='.', explicit_as=rng.choice(['str', 'tuple', 'PurePath', 'Path']), again=again, **flags)
		else:
			text = ''.join(rng.choice(ltoks) for _ in range(rng.randint(0, 10)))
			yield 'files', dict(explicit=[], text=text, ldir=rng.choice(['.', 'ld', '/abs/dir', 'ld/', '', './x']),
			                    lf_as=rng.choice(['str', 'Path', 'handle', 'handle']), ldir_as=rng.choice(['str', 'Path']), again=again, **flags)
		ctx.count('stream:files-second-call')

	# ---- 6d. sequences: scripts of commands in one process / of API calls over shared objects (see kind 'seq')
	for n in range(ctx.pick(5, 80)):
		yield 'seq', _rand_seq_cli(rng, ctx.quick)
		ctx.count('stream:seq-cli')
	for n in range(ctx.pick(15, 300)):
		yield 'seq', _rand_seq_api(rng, ctx.quick)
		ctx.count('stream:seq-api')
	yield 'seq', json.loads(json.dumps(SEQ_KNOWN_PARSE_KW))
	ctx.count('stream:seq-known-defect-probe')

	# ---- 7. malformed ------------------------------------------------------------------------------------
	yield 'cli', dict(channel='list', inputs=[], lf=dict(ldir='abs', blanks=True), fmt='csv', expect_error=True)
	yield 'cli', dict(channel='pos', inputs=[], form='abs', fmt='csv', expect_error=True)
	for cs in (0, -1, -1000):
		yield 'api', dict(gs=[0, 1], chunksize=cs, via='parse')
	yield 'api', dict(gs=[], chunksize=10, via='query')
	ctx.count('stream:malformed', 6)
	# two input channels at once (mutually exclusive: otherwise some of the inputs named on the command line get no row);
	# a signature file without signatures
	two = [_plain(1), _plain(4)]
	yield 'cli', dict(channel='pos', inputs=two, form='abs', fmt='csv', also_sig=dict(gs=[2, 0], ids=['s2', 's0']), expect_error=True)
	yield 'cli', dict(channel='list', inputs=two, lf=dict(ldir='abs'), fmt='json', also_sig=dict(gs=[2], ids=['s2']), expect_error=True)
	yield 'cli', dict(channel='pos', inputs=two, form='abs', fmt='csv', also_list=True, expect_error=True)
	yield 'cli', dict(channel='sig', inputs=[], ids=[], sig=dict(how='api', idkind='str', dtype='u8'), fmt='csv', expect_error=True)
	ctx.count('stream:malformed-channels', 4)
