"""C08 -- query output rows: one per input, in order, correctly labelled, context-free.

Tie: B.  Four kinds of cases, all against the implementation imported in place:

  label  a file name (dir, stem, ext, gz): gambit.cli.common.get_file_id / strip_seq_file_ext against the
         extracted model (ops 801/802) and against the specification "the label is the stem" wherever
         theorem C08_label applies (ext a FASTA extension or none, gz '.gz' or none, no '/' in the name,
         stem not itself ending in such an extension when there is no FASTA extension).
  files  gambit.cli.common.get_sequence_files on positional arguments / a list file (written to disk and
         opened the way click.File('r') does) + base directory, against the model (op 806) and against
         pathlib itself (model op 803): ids and resolved file paths, as lists; the files must be the
         arguments / the non-blank lines resolved against the base directory, in order (specification).
  cli    `gambit -d DB query -o FILE -f csv|json|archive [-c N] [--progress|--no-progress]` in process on
         the bundled test database, for a batch of genomes given positionally (absolute, relative, './',
         '//' spellings), through `-l LIST [--ldir DIR]` (relative / absolute lines, padding, blank lines,
         LF / CRLF / CR) or through `-s SIGFILE` (built with `gambit signatures create -d -i IDS`).  Files
         are copies of bundled query genomes under harness-chosen names (assorted extensions, gzip or not);
         the commands run in a working directory that is NOT the base directory of the list files.
         Checked per case: the command succeeds, number of rows = number of inputs, row i's content equals
         the content of the SINGLETON run of genome i (one positional plain FASTA file, default options,
         same output format) -- i.e. context-freeness, order, channel / compression / cores / progress
         independence in one comparison --, label i = what the model computes (= the stem / the stored id),
         and for json/archive the recorded path = the model's resolved path.  The model (op 807) gets the
         same arguments plus the harness's own table path -> genome and answers which genome's distances sit
         in which row under which label.
  api    gambit.query.query_parse / query with QueryParams(chunksize=...) for chunk sizes around the
         number of references (and <= 0: ValueError), rows exported as JSON and compared with the same
         singleton contents; model op 809.

Property predicate (VIOLATION with the input as replay): wrong number of rows, a row whose content differs
from the genome's singleton content, a label different from the stem / stored id where the specification
fixes it.  A difference between model and implementation that leaves these true (e.g. the label of a name
outside the specification's scope, an error class) is reported as a broken tie."""
import csv
import gc
import glob
import gzip
import io
import itertools
import json
import os
import pathlib
import time

PROP = 'C08'
RULE = ('label: names dir+stem+ext+gz, exhaustively all token strings of length <= 4 over {x . .fa .gz .fasta /} '
        'plus structured names; non-trivial: the name has an extension to strip or a directory part.  '
        'files: get_sequence_files on random positional lists / list-file texts; non-trivial: >= 2 entries.  '
        'cli: batches x orders x channel (pos/list/sig) x name spelling x gzip x -c N x progress x format; '
        'non-trivial: >= 2 inputs of >= 2 distinct genomes.  api: chunk sizes; non-trivial: >= 2 distinct '
        'genomes and a chunk size smaller than the number of references')
TRUSTED = ['click (argument parsing, click.File / click.Path parameter types, CliRunner), concurrent.futures process '
           'pool, OpenMP and the progress meter are runtime: not modelled; the run checks that -c N and --progress '
           'leave the rows unchanged',
           'CPython pathlib / posixpath / str.strip / universal-newline text files: modelled in Model/C08.v '
           '(path_str, posix_join, basename, strip, universal_newlines) and compared with the real ones on every run',
           'the content of a row is compared with the implementation\'s own singleton run of that genome '
           '(the property is relational); what the content should be is C03/C09/C10/C11',
           'csv / json modules to read the output back; gzip to produce compressed copies',
           'gambit signatures create -d -i IDS to build the signature files (order of signatures: C13)']
ASSUMPTIONS = ['the distance between a query and a reference signature, the classification of a distance row and the '
               'signature computed from a file are functions of their arguments (theorems are polymorphic in them); '
               'no shared mutable state between rows',
               'the reference chunk size is None or positive (otherwise ValueError, modelled and tested)',
               'the signature file holds as many ids as signatures (C12/C20)',
               'files are not modified while a command runs; file names are valid UTF-8']
CORRESPONDENCES = ['label', 'files', 'cli', 'api']
BATCH = 4000
SHRINK = False    # cases are structured (inputs refer to genomes by index); generated smallest first

FASTA_EXT = ['.fasta', '.fna', '.ffn', '.faa', '.frn', '.fa']
ALL_EXT = ['.gz'] + FASTA_EXT
NG = 6            # number of distinct base genomes
NREFS_MODEL = 5   # references in the wire instantiation of the model
QERR = {1: 'NoQueries', 2: 'InputsMismatch', 3: 'ZipStrict', 4: 'BadChunkSize', 5: 'ShapeMismatch', 6: 'IndexErr',
        7: 'Uninit', 8: 'OutOfFuel', 9: 'UsageExclusive', 10: 'UsageRequired', 11: 'NoFiles'}

_S = {}


def S(s):
	return [ord(c) for c in s]


def U(l):
	return ''.join(chr(c) for c in l)


# ------------------------------------------------------------------------------------------------
# set-up: base genomes, singleton contents
# ------------------------------------------------------------------------------------------------

def setup(ctx):
	from vf import impl
	impl.check_import()
	_S.clear()
	_S['cwd'] = os.getcwd()
	root = impl.scratch_dir('gambit-verif-c08-')
	_S['root'] = root
	_S['db'] = os.path.join(ctx.repo, 'tests', 'data', 'testdb_210818')
	srcs = sorted(glob.glob(os.path.join(_S['db'], 'queries', 'genomes', '*.fasta.gz')))
	if len(srcs) < NG:
		raise RuntimeError('bundled query genomes not found under ' + _S['db'])
	step = len(srcs) // NG
	_S['genomes'] = [gzip.decompress(open(srcs[i * step], 'rb').read()) for i in range(NG)]
	_S['ref'] = {}
	_S['sigfiles'] = {}
	_S['n'] = 0
	os.makedirs(os.path.join(root, 'g0'), exist_ok=True)
	os.makedirs(os.path.join(root, 'wd'), exist_ok=True)      # working directory of the cli runs: NOT the base directory


def teardown(ctx):
	if 'cwd' in _S:
		os.chdir(_S['cwd'])


def _tmp(suffix):
	_S['n'] += 1
	d = os.path.join(_S['root'], 'tmp')
	os.makedirs(d, exist_ok=True)
	return os.path.join(d, f'f{_S["n"]}{suffix}')


def _name(inp):
	return inp['stem'] + inp['ext'] + ('.gz' if inp['gz'] else '')


def _relpath(inp):
	"""path of the input's file relative to the scratch root (the harness's own naming scheme)"""
	parts = [f'g{inp["g"]}'] + ([inp['dir']] if inp['dir'] else []) + [_name(inp)]
	return '/'.join(parts)


def _materialise(inp):
	rel = _relpath(inp)
	path = os.path.join(_S['root'], rel)
	if not os.path.exists(path):
		os.makedirs(os.path.dirname(path), exist_ok=True)
		data = _S['genomes'][inp['g']]
		with open(path, 'wb') as f:
			f.write(gzip.compress(data, mtime=0) if inp['gz'] else data)
	return rel


def _invoke(args):
	from click.testing import CliRunner
	import gambit.cli
	# Every invocation opens its own SQLite connection and leaves it to the garbage collector.  With -c N the
	# process pool's management thread may be the one that triggers a collection, and SQLite refuses to close a
	# connection from another thread (a noisy, harmless message).  So: automatic collection off while commands
	# run, explicit collection in this thread after each one.
	was = gc.isenabled()
	gc.disable()
	try:
		res = CliRunner().invoke(gambit.cli.cli, ['-d', _S['db']] + args)
	finally:
		gc.collect()
		if was:
			gc.enable()
	if res.exit_code == 0 and res.exception is None:
		return None
	e = res.exception
	return f'{type(e).__name__}({e})' if e is not None and not isinstance(e, SystemExit) else \
		f'exit{res.exit_code}: {(res.output or "").strip()[-160:]}'


def _sort_closest(lst):
	return sorted(lst, key=lambda m: (m['distance'], json.dumps(m['genome'].get('key'))))


def _rows(fmt, text):
	"""output text -> [(label, path or None, content)]"""
	out = []
	if fmt == 'csv':
		rows = list(csv.reader(io.StringIO(text)))
		hdr = rows[0]
		for r in rows[1:]:
			d = dict(zip(hdr, r))
			d['#cols'] = len(r)
			out.append((d.pop('query'), None, d))
	elif fmt == 'json':
		for it in json.loads(text)['items']:
			q = it.pop('query')
			it['closest_genomes'] = _sort_closest(it['closest_genomes'])
			out.append((q['name'], q['path'], it))
	else:
		for it in json.loads(text)['items']:
			q = it.pop('input')
			it['closest_genomes'] = _sort_closest(it['closest_genomes'])
			out.append((q['label'], None if q['file'] is None else q['file']['path'], it))
	return out


def _run_query(fmt, args):
	"""-> ('ok', rows) | ('error', text)"""
	out = _tmp('.' + fmt)
	err = _invoke(['query', '-o', out, '-f', fmt] + args)
	if err is not None:
		return ('error', err)
	with open(out) as f:
		text = f.read()
	os.remove(out)
	return ('ok', _rows(fmt, text))


def _reference(g, fmt):
	"""content of the singleton run of genome g: one positional plain FASTA file, default options"""
	key = (g, fmt)
	if key not in _S['ref']:
		rel = _materialise(dict(g=g, dir='ref', stem=f'genome{g}', ext='.fasta', gz=False))
		r = _run_query(fmt, ['--no-progress', os.path.join(_S['root'], rel)])
		if r[0] != 'ok' or len(r[1]) != 1:
			raise RuntimeError(f'singleton reference run failed for genome {g}: {r}')
		_S['ref'][key] = r[1][0][2]
	return _S['ref'][key]


def _sigfile(gs, ids):
	"""signature file holding the signatures of genomes gs under the given ids"""
	key = json.dumps([gs, ids])
	if key not in _S['sigfiles']:
		path = _tmp('.gs')
		idf = _tmp('.ids')
		with open(idf, 'w', encoding='utf-8', newline='') as f:
			f.write(''.join(i + '\n' for i in ids))
		files = [os.path.join(_S['root'], _materialise(dict(g=g, dir='ref', stem=f'genome{g}', ext='.fasta', gz=False))) for g in gs]
		err = _invoke(['signatures', 'create', '-d', '-o', path, '-i', idf, '--no-progress'] + files)
		if err is not None:
			raise RuntimeError('could not build signature file: ' + err)
		_S['sigfiles'][key] = path
	return _S['sigfiles'][key]


# ------------------------------------------------------------------------------------------------
# kind: label
# ------------------------------------------------------------------------------------------------

def _in_label_spec(c):
	name = c['stem'] + c['ext'] + c['gz']
	if c['ext'] not in FASTA_EXT + [''] or c['gz'] not in ('', '.gz') or '/' in name:
		return False
	if c['dir'] and not c['dir'].endswith('/'):
		return False
	if c['ext'] == '' and any(c['stem'].endswith(e) for e in ALL_EXT):
		return False
	return True


def k_label(ctx, cases):
	from gambit.cli import common
	reqs = []
	for c in cases:
		p = c['dir'] + c['stem'] + c['ext'] + c['gz']
		reqs += [(802, [S(p), True, True]), (801, S(c['stem'] + c['ext'] + c['gz'])), (802, [S(p), True, False]), (802, [S(p), False, True])]
	ans = ctx.model(reqs) if ctx.model_ok else None
	for j, c in enumerate(cases):
		p = c['dir'] + c['stem'] + c['ext'] + c['gz']
		name = c['stem'] + c['ext'] + c['gz']
		impl = [common.get_file_id(p), common.strip_seq_file_ext(name), common.get_file_id(p, strip_ext=False),
		        common.get_file_id(p, strip_dir=False)]
		spec = _in_label_spec(c)
		ctx.case(c, nontrivial=bool(c['dir'] or c['ext'] or c['gz']))
		if spec:
			ctx.count('label:in-spec')
		m = [U(x) for x in ans[4 * j:4 * j + 4]] if ans else None
		if spec and (impl[0] != c['stem'] or impl[1] != c['stem']):
			ctx.violation('label', c, f'label of {p!r} is {impl[0]!r}, the stem is {c["stem"]!r}', impl=impl, spec=c['stem'], model=m)
		elif m is not None and m != impl:
			ctx.broke('correspondence label (model != implementation outside/inside the specified names)', f'case {c}: impl={impl} model={m}')
		if spec and m is not None and m[0] != c['stem']:
			ctx.broke('model label != stem on a specified name (contradicts theorem C08_label)', f'case {c}: model={m}')


# ------------------------------------------------------------------------------------------------
# kind: files
# ------------------------------------------------------------------------------------------------

def k_files(ctx, cases):
	from gambit.cli import common
	reqs = []
	for c in cases:
		reqs.append((806, [[S(x) for x in c['explicit']], None if c['text'] is None else [S(c['text'])], S(c['ldir']),
		                   c['strip_dir'], c['strip_ext']]))
		reqs += [(803, S(x)) for x in c['explicit']]
	ans = ctx.model(reqs) if ctx.model_ok else None
	k = 0
	for c in cases:
		lf = None
		spec_files = [str(pathlib.PurePosixPath(x)) for x in c['explicit']] or None
		if c['text'] is not None:
			path = _tmp('.list')
			with open(path, 'wb') as f:
				f.write(c['text'].encode('utf-8'))
			with open(path, 'r') as f:
				spec_lines = [x.strip() for x in f.read().split('\n') if x.strip()]
			# the property: every non-blank line names a file below the base directory
			spec_files = [str(pathlib.PurePosixPath(c['ldir']) / x) for x in spec_lines]
			lf = open(path, 'r')          # what click.File('r') hands to the command
		try:
			ids, files = common.get_sequence_files([pathlib.Path(x) for x in c['explicit']] or None, lf, c['ldir'],
			                                       strip_dir=c['strip_dir'], strip_ext=c['strip_ext'])
		finally:
			if lf is not None:
				lf.close()
				os.remove(path)
		impl = None if ids is None else [list(ids), [str(f.path) for f in files]]
		ok = impl is None or (len(impl[0]) == len(impl[1]))
		n = 0 if impl is None else len(impl[0])
		ctx.case(c, nontrivial=n >= 2)
		m = None
		if ans is not None:
			a = ans[k]
			m = None if a == [] else [[U(x) for x in a[0][0]], [U(x) for x in a[0][1]]]
			pl = [U(x) for x in ans[k + 1:k + 1 + len(c['explicit'])]]
			k += 1 + len(c['explicit'])
			real = [str(pathlib.PurePosixPath(x)) for x in c['explicit']]
			if pl != real:
				ctx.broke('model path_str != str(PurePosixPath(.))', f'{c["explicit"]}: model={pl} pathlib={real}')
		if not ok:
			ctx.violation('files', c, 'get_sequence_files returned different numbers of ids and files', impl=impl, model=m)
		elif (impl[1] if impl is not None else None) != spec_files:
			ctx.violation('files', c, 'the files are not the arguments / the list-file lines resolved against the base directory, in order',
			              impl=impl, spec=spec_files, model=m)
		elif m is not None and m != impl:
			ctx.broke('correspondence files (model get_sequence_files != implementation)', f'case {c}: impl={impl} model={m}')


# ------------------------------------------------------------------------------------------------
# kind: cli
# ------------------------------------------------------------------------------------------------

def _spell(rel, form):
	"""how a positional argument / absolute list line names root/rel"""
	root = _S['root']
	if form == 'abs':
		return root + '/' + rel
	if form == 'dot':
		return root + '/./' + rel.replace('/', '//', 1)
	if form == 'rel':
		return '../' + rel
	if form == 'reldot':
		return './../' + rel
	raise ValueError(form)


def _cli_plan(c):
	"""-> (command-line arguments after the options, model request parts, expected stems or None per input)"""
	root = _S['root']
	inputs = c['inputs']
	rels = [_materialise(i) for i in inputs]
	table = []
	files_arg, listfile, ldir_model, sigfile = [], None, '.', None
	args = []
	if c['channel'] == 'pos':
		files_arg = [_spell(r, c.get('form', 'abs')) for r in rels]
		args = list(files_arg)
		table = [[S(str(pathlib.PurePosixPath(a))), i['g']] for a, i in zip(files_arg, inputs)]
	elif c['channel'] == 'list':
		lf = c['lf']
		ldir = {'abs': root, 'slash': root + '/', 'default': None, 'rel': '..', 'sub': root + '/g0/..'}[lf['ldir']]
		lines = []
		for r, i in zip(rels, inputs):
			# with the default base directory '.' (= root/wd) the lines have to climb out of it
			line = (root + '/' + r) if lf.get('abs_lines') else (('../' + r) if ldir is None else r)
			lines.append(line)
			table.append([S(str(pathlib.PurePosixPath(ldir if ldir is not None else '.') / line)), i['g']])
		eol = lf.get('eol', '\n')
		text = ''
		for n, line in enumerate(lines):
			if lf.get('blanks') and n % 2 == 1:
				text += eol + '  ' + eol
			last = n == len(lines) - 1
			text += lf.get('lpad', '') + line + lf.get('rpad', '') + ('' if (last and not lf.get('final_eol', True)) else eol)
		if not lines:
			text = eol + ' \t' + eol
		path = _tmp('.list')
		with open(path, 'wb') as f:
			f.write(text.encode('utf-8'))
		args = ['-l', path] + (['--ldir', ldir] if ldir is not None else [])
		listfile = text
		ldir_model = ldir if ldir is not None else '.'
	else:
		ids = c['ids']
		gs = [i['g'] for i in inputs]
		args = ['-s', _sigfile(gs, ids)]
		sigfile = [[S(x) for x in ids], gs]
	req = [[c.get('chunksize_model', 1000)], [S(a) for a in files_arg], None if listfile is None else [S(listfile)], S(ldir_model),
	       None if sigfile is None else [sigfile], table, NREFS_MODEL]
	return args, req


def _stem_expected(c, n):
	"""the label the SPECIFICATION fixes for input n, or None if it leaves it to the algorithm"""
	if c['channel'] == 'sig':
		return c['ids'][n]
	i = c['inputs'][n]
	spec = dict(dir='', stem=i['stem'], ext=i['ext'], gz='.gz' if i['gz'] else '')
	return i['stem'] if _in_label_spec(spec) else None


def k_cli(ctx, cases):
	os.chdir(os.path.join(_S['root'], 'wd'))
	try:
		_k_cli(ctx, cases)
	finally:
		os.chdir(_S['cwd'])


def _k_cli(ctx, cases):
	plans = [_cli_plan(c) for c in cases]
	ans = ctx.model([(807, p[1]) for p in plans]) if ctx.model_ok else None
	for j, c in enumerate(cases):
		args, _ = plans[j]
		fmt = c.get('fmt', 'csv')
		opts = ['--progress' if c.get('progress') else '--no-progress']
		if c.get('cores') is not None:
			opts += ['-c', str(c['cores'])]
		obs = _run_query(fmt, opts + args)
		gs = [i['g'] for i in c['inputs']]
		ctx.case(c, nontrivial=len(gs) >= 2 and len(set(gs)) >= 2, stream=None)
		ctx.count('cli:' + c['channel'])
		if len(gs) >= 3 and len(_S.setdefault('samples', [])) < 3 and c['channel'] not in [x['channel'] for x in _S['samples']]:
			_S['samples'].append(c)
		ctx.count('cli:fmt:' + fmt)
		# ---- model
		m = None
		if ans is not None:
			a = ans[j]
			if a[0] == 0:
				m = ('ok', [(U(r[0]), U(r[1][0]) if r[1] else None, r[2]) for r in a[1]])
				# the model itself must put genome i's distances into row i (theorems C08_cli_*)
				want = [[[g, r] for r in range(NREFS_MODEL)] for g in gs]
				if [r[2] for r in m[1]] != want:
					ctx.broke('model rows are not (genome i x references) in input order', f'case {c}: {a}')
					m = None
			else:
				m = ('error', QERR.get(a[1], a[1]))
		# ---- property predicate on the implementation
		if obs[0] != 'ok':
			if gs and not c.get('expect_error'):
				ctx.violation('cli', c, f'query of {len(gs)} inputs failed: {obs[1]}', impl=obs, model=m)
			elif m is not None and m[0] == 'ok':
				ctx.broke('correspondence cli (implementation fails, model answers)', f'case {c}: impl={obs} model={m}')
			continue
		rows = obs[1]
		if c.get('expect_error'):
			if m is not None and m[0] == 'error':
				ctx.violation('cli', c, f'malformed invocation produced {len(rows)} rows instead of an error ({m[1]})', impl=[r[0] for r in rows], model=m)
			continue
		bad = None
		if len(rows) != len(gs):
			bad = f'{len(gs)} inputs gave {len(rows)} rows'
		else:
			for n, (g, row) in enumerate(zip(gs, rows)):
				ref = _reference(g, fmt)
				if row[2] != ref:
					other = [h for h in range(NG) if _reference(h, fmt) == row[2]]
					bad = (f'row {n} (input {c["inputs"][n]}) does not have the content of that genome queried alone'
					       + (f'; it has the content of genome {other[0]}' if other else ''))
					break
				want = _stem_expected(c, n)
				if want is not None and row[0] != want:
					bad = f'row {n} is labelled {row[0]!r}, expected {want!r}'
					break
		if bad:
			ctx.violation('cli', c, f'{c["channel"]} -f {fmt} -c {c.get("cores")}: {bad}',
			              impl=[(r[0], r[1]) for r in rows], spec=[_stem_expected(c, n) for n in range(len(gs))],
			              model=None if m is None else (m[1] if m[0] == 'error' else [(r[0], r[1]) for r in m[1]]))
			continue
		if m is None:
			continue
		if m[0] != 'ok':
			ctx.broke('correspondence cli (model fails, implementation answers)', f'case {c}: model={m}')
			continue
		ml = [r[0] for r in m[1]]
		if ml != [r[0] for r in rows]:
			ctx.broke('correspondence cli: labels (outside the specified names)', f'case {c}: impl={[r[0] for r in rows]} model={ml}')
		if fmt != 'csv':
			mp = [r[1] for r in m[1]]
			if mp != [r[1] for r in rows]:
				ctx.broke('correspondence cli: recorded file paths', f'case {c}: impl={[r[1] for r in rows]} model={mp}')


# ------------------------------------------------------------------------------------------------
# kind: api
# ------------------------------------------------------------------------------------------------

def _db():
	if 'dbobj' not in _S:
		from gambit.db import ReferenceDatabase
		_S['dbobj'] = ReferenceDatabase.load_from_dir(_S['db'])
	return _S['dbobj']


def k_api(ctx, cases):
	from gambit.query import query_parse, query, QueryParams
	from gambit.results import JSONResultsExporter
	from gambit.seq import SequenceFile
	from gambit.sigs.calc import calc_file_signatures
	db = _db()
	nrefs = len(db.genomes)
	reqs = [(809, [None if c['chunksize'] is None else [c['chunksize']], c['gs'], NREFS_MODEL, len(c['gs'])]) for c in cases]
	ans = ctx.model(reqs) if ctx.model_ok else None
	for j, c in enumerate(cases):
		gs = c['gs']
		paths = [os.path.join(_S['root'], _materialise(dict(g=g, dir='ref', stem=f'genome{g}', ext='.fasta', gz=False))) for g in gs]
		files = SequenceFile.from_paths(paths, 'fasta', 'auto')
		labels = [f'in{n}' for n in range(len(gs))]
		params = QueryParams(chunksize=c['chunksize'])
		try:
			if c['via'] == 'parse':
				res = query_parse(db, files, params, file_labels=labels)
			else:
				sigs = calc_file_signatures(db.signatures.kmerspec, files)
				res = query(db, sigs, params, inputs=labels)
			buf = io.StringIO()
			JSONResultsExporter().export(buf, res)
			obs = ('ok', _rows('json', buf.getvalue()))
		except Exception as e:
			obs = ('error', type(e).__name__)
		cs = c['chunksize']
		ctx.case(c, nontrivial=len(set(gs)) >= 2 and cs is not None and 0 < cs < nrefs)
		m = None
		if ans is not None:
			a = ans[j]
			m = ('ok', a[1]) if a[0] == 0 else ('error', QERR.get(a[1], a[1]))
			if m[0] == 'ok' and a[1] != [[n, [[g, r] for r in range(NREFS_MODEL)]] for n, g in enumerate(gs)]:
				ctx.broke('model rows are not (genome i x references) in input order', f'case {c}: {a}')
		valid = bool(gs) and (cs is None or cs > 0)
		if not valid:
			if obs[0] == 'ok':
				ctx.violation('api', c, f'invalid call (chunksize={cs}, {len(gs)} queries) returned {len(obs[1])} rows', impl=[r[0] for r in obs[1]], model=m)
			elif m is not None and m[0] == 'ok':
				ctx.broke('correspondence api (implementation raises, model answers)', f'case {c}: impl={obs}')
			continue
		bad = None
		if obs[0] != 'ok':
			bad = f'raised {obs[1]}'
		elif len(obs[1]) != len(gs):
			bad = f'{len(gs)} inputs gave {len(obs[1])} rows'
		else:
			for n, (g, row) in enumerate(zip(gs, obs[1])):
				if row[2] != _reference(g, 'json'):
					bad = f'row {n} (genome {g}) differs from that genome queried alone with the default chunk size'
					break
				if row[0] != labels[n]:
					bad = f'row {n} is labelled {row[0]!r}, expected {labels[n]!r}'
					break
		if bad:
			ctx.violation('api', c, f'{c["via"]} chunksize={cs}: {bad}', impl=obs if obs[0] != 'ok' else [r[0] for r in obs[1]], model=m)
		elif m is not None and m[0] != 'ok':
			ctx.broke('correspondence api (model fails, implementation answers)', f'case {c}: model={m}')


def finish(ctx):
	# show command-line cases among the evidence samples, not only the (first generated) label cases
	ctx.samples[:0] = _S.get('samples', [])


def _timed(name, fn):
	def run(ctx, cases):
		t = time.time()
		try:
			return fn(ctx, cases)
		finally:
			ctx.count('seconds:' + name, round(time.time() - t))
	return run


KINDS = {'label': _timed('label', k_label), 'files': _timed('files', k_files), 'cli': _timed('cli', k_cli),
         'api': _timed('api', k_api)}


# ------------------------------------------------------------------------------------------------
# generators
# ------------------------------------------------------------------------------------------------

STEMS = ['A1', 'x', 'my genome', 'GCF_000.1', 'a,b', 'x.fa', 'q"uote', 's.gz', 'fasta', '.hidden', 'gén ome', 'x.FASTA', 'a.fa.b']
EXTS = FASTA_EXT + ['', '.txt', '.FA', '.fas', '.gb']


def _rand_input(rng, g=None):
	return dict(g=rng.randrange(NG) if g is None else g, dir=rng.choice(['', '', 'sub', 'a/b', 'sp ace']),
	            stem=rng.choice(STEMS), ext=rng.choice(EXTS), gz=rng.random() < 0.5)


def _rand_lf(rng):
	return dict(ldir=rng.choice(['abs', 'abs', 'slash', 'default', 'rel', 'sub']), eol=rng.choice(['\n', '\n', '\r\n', '\r']),
	            lpad=rng.choice(['', '', ' ', '\t']), rpad=rng.choice(['', '', '  ', '\t ']), blanks=rng.random() < 0.3,
	            final_eol=rng.random() < 0.7, abs_lines=rng.random() < 0.25)


def _plain(g):
	return dict(g=g, dir='', stem=f'genome{g}', ext='.fasta', gz=False)


def generate(ctx):
	rng = ctx.rng
	ctx.rule(RULE)
	for a in ASSUMPTIONS:
		ctx.assume(a)

	# ---- 1. label: exhaustive token strings, then structured names ------------------------------------
	toks = ['x', '.', '.fa', '.gz', '.fasta', '/']
	n_ex = 0
	for n in range(0, 5):
		for combo in itertools.product(toks, repeat=n):
			s = ''.join(combo)
			d, _, name = s.rpartition('/')
			yield 'label', dict(dir=(d + '/') if '/' in s else '', stem=name, ext='', gz='')
			n_ex += 1
	ctx.count('stream:label-exhaustive', n_ex)
	n_st = 0
	for d in ['', 'd/', '/a/b/', './', 'a//', 'x.fa/', 'sp ace/']:
		for stem in STEMS + ['', '.', 'x.fna', 'x.fasta.gz']:
			for ext in EXTS:
				for gz in ['', '.gz', '.GZ', '.bz2']:
					yield 'label', dict(dir=d, stem=stem, ext=ext, gz=gz)
					n_st += 1
	ctx.count('stream:label-structured', n_st)

	# ---- 2. files: get_sequence_files as a function ----------------------------------------------------
	ptoks = ['/', '/', '.', '..', 'a', 'b c', 'x.fa', 'y.fasta.gz', '.gz', 'é']
	ltoks = ['a.fa', 'sub/b.fna.gz', '/abs/c.fasta', ' ', '\t', '\n', '\n', '\r\n', '\r', '\x0b', '\x85', ' ', 'x y', './d.faa', '\x1c']
	for n in range(ctx.pick(1500, 20000)):
		flags = dict(strip_dir=rng.random() < 0.8, strip_ext=rng.random() < 0.8)
		if n % 2 == 0:
			ex = []
			for _ in range(rng.randint(1, 4)):
				p = ''.join(rng.choice(ptoks) for _ in range(rng.randint(1, 6)))
				ex.append(p)
			ex = [p for p in ex if p and '\x00' not in p]
			yield 'files', dict(explicit=ex, text=None, ldir='.', **flags)
		else:
			text = ''.join(rng.choice(ltoks) for _ in range(rng.randint(0, 10)))
			yield 'files', dict(explicit=[], text=text, ldir=rng.choice(['.', 'ld', '/abs/dir', 'ld/', '', 'a/../b', './x']), **flags)
		ctx.count('stream:files-random')
	yield 'files', dict(explicit=[], text=None, ldir='.', strip_dir=True, strip_ext=True)

	# ---- 3. cli: exhaustive small scope -- every ordered selection of <= 3 of 3 genomes x 3 channels ----
	sel = [list(p) for k in (1, 2, 3) for p in itertools.permutations(range(3), k)]
	fmts_ex = ctx.pick(['csv'], ['csv', 'json', 'archive'])
	n_cli = 0
	for fmt in fmts_ex:
		for gs in sel:
			yield 'cli', dict(channel='pos', inputs=[_plain(g) for g in gs], form='abs', fmt=fmt)
			yield 'cli', dict(channel='list', inputs=[_plain(g) for g in gs], lf=dict(ldir='abs'), fmt=fmt)
			yield 'cli', dict(channel='sig', inputs=[_plain(g) for g in gs], ids=[f'stored-{g}' for g in gs], fmt=fmt)
			n_cli += 3
	ctx.count('stream:cli-exhaustive-orders', n_cli)
	ctx.exhaustive = True
	ctx.extra['exhaustive_scope'] = (f'label: all {n_ex} concatenations of <= 4 tokens from {{x . .fa .gz .fasta /}}; '
	                                 f'cli: every ordered selection without repetition of 1..3 out of 3 genomes x '
	                                 f'{{positional, list file, signature file}} x formats {fmts_ex}.  Everything else is sampled.')

	# ---- 4. cli: every extension x gzip x every spelling, cores and progress sweep ---------------------
	for ext in EXTS:
		for gz in (False, True):
			g = rng.randrange(NG)
			yield 'cli', dict(channel='pos', inputs=[dict(g=g, dir='e', stem=f'n{g}', ext=ext, gz=gz), _plain((g + 1) % NG)],
			                  form=rng.choice(['abs', 'dot', 'rel', 'reldot']), fmt=rng.choice(['csv', 'json', 'archive']))
			ctx.count('stream:cli-extensions')
	batch6 = [dict(g=g, dir='c', stem=f's{g}', ext=FASTA_EXT[g % 6], gz=g % 2 == 0) for g in (3, 0, 5, 1, 4, 2)]
	for cores in range(1, ctx.pick(5, 17)):
		for progress in (False, True):
			ch = ['pos', 'list', 'sig'][(cores + progress) % 3]
			c = dict(channel=ch, inputs=batch6, cores=cores, progress=progress, fmt=['csv', 'json', 'archive'][cores % 3])
			if ch == 'pos':
				c['form'] = 'abs'
			elif ch == 'list':
				c['lf'] = dict(ldir='abs')
			else:
				c['ids'] = [f'id{n}' for n in range(6)]
			yield 'cli', c
			ctx.count('stream:cli-cores-progress')

	# ---- 5. cli: random batches (repeats, duplicate labels, odd names, list-file decorations) ----------
	for n in range(ctx.pick(90, 800)):
		k = rng.choice([1, 2, 2, 3, 3, 4, 5, 8])
		inputs = [_rand_input(rng) for _ in range(k)]
		if rng.random() < 0.3 and k >= 2:
			inputs[-1] = dict(inputs[0])                       # the same file twice
		if rng.random() < 0.3 and k >= 2:
			inputs[1] = dict(inputs[0], g=(inputs[0]['g'] + 1) % NG)     # same name, another genome: duplicate label
		c = dict(channel=rng.choice(['pos', 'pos', 'list', 'list', 'sig']), inputs=inputs,
		         cores=rng.choice([None, 1, 2, 3, 4]), progress=rng.random() < 0.5, fmt=rng.choice(['csv', 'json', 'archive']))
		if c['channel'] == 'pos':
			c['form'] = rng.choice(['abs', 'dot', 'rel', 'reldot'])
		elif c['channel'] == 'list':
			c['lf'] = _rand_lf(rng)
		else:
			c['inputs'] = [_plain(i['g']) for i in inputs]
			c['ids'] = [rng.choice(['id', 'x.fasta', 'a b', 'Ünï', '7', 'd/e.fa']) + f'-{m}' for m in range(k)]
			if rng.random() < 0.3 and k >= 2:
				c['ids'][1] = c['ids'][0]
		yield 'cli', c
		ctx.count('stream:cli-random')

	# ---- 6. api: chunk sizes -----------------------------------------------------------------------------
	chunks = ctx.pick([None, 1, 7, 106, 212, 213, 214, 1000], [None, 1, 2, 3, 7, 50, 106, 107, 212, 213, 214, 1000])
	for n, cs in enumerate(chunks):
		for via in ctx.pick([('parse', 'query')[n % 2]], ['parse', 'query']):
			gs = rng.sample(range(NG), rng.randint(2, 4))
			yield 'api', dict(gs=gs, chunksize=cs, via=via)
			ctx.count('stream:api-chunks')

	# ---- 7. malformed ------------------------------------------------------------------------------------
	yield 'cli', dict(channel='list', inputs=[], lf=dict(ldir='abs', blanks=True), fmt='csv', expect_error=True)
	yield 'cli', dict(channel='pos', inputs=[], form='abs', fmt='csv', expect_error=True)
	for cs in (0, -1, -1000):
		yield 'api', dict(gs=[0, 1], chunksize=cs, via='parse')
	yield 'api', dict(gs=[], chunksize=10, via='query')
	ctx.count('stream:malformed', 6)
