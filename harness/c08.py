"""C08 -- query output rows: one per input, in order, correctly labelled, context-free.

Tie: B.  Four kinds of cases, all against the implementation imported in place:

  label  a file name (dir, stem, ext, gz): gambit.cli.common.get_file_id / strip_seq_file_ext against the
         extracted model (ops 801/802) and against the specification "the label is the stem" wherever
         theorem C08_label applies (ext a FASTA extension or none, gz '.gz' or none, no '/' in the name,
         stem not itself ending in such an extension when there is no FASTA extension).
  files  gambit.cli.common.get_sequence_files on positional arguments / a list file (written to disk and
         opened the way click.File('r') does) + base directory, against the model (op 806) and against
         pathlib itself (model op 803): ids and resolved file paths, as lists; the files must be the
         arguments / the non-blank lines resolved against the base directory, in order (specification).
  cli    `gambit -d DB query -o FILE -f csv|json|archive [-c N] [--progress|--no-progress]` in process on
         the bundled test database, for a batch of genomes given positionally (absolute, relative, './',
         '//' spellings), through `-l LIST [--ldir DIR]` (relative / absolute lines, padding, blank lines,
         LF / CRLF / CR) or through `-s SIGFILE` (built with `gambit signatures create -d -i IDS`).  Files
         are copies of bundled query genomes under harness-chosen names (assorted extensions, gzip or not);
         the commands run in a working directory that is NOT the base directory of the list files.
         Checked per case: the command succeeds, number of rows = number of inputs, row i's content equals
         the content of the SINGLETON run of genome i (one positional plain FASTA file, default options,
         same output format) -- i.e. context-freeness, order, channel / compression / cores / progress
         independence in one comparison --, label i = what the model computes (= the stem / the stored id),
         and for json/archive the recorded path = the model's resolved path.  The model (op 807) gets the
         same arguments plus the harness's own table path -> genome and answers which genome's distances sit
         in which row under which label.
  api    gambit.query.query_parse / query with QueryParams(chunksize=...) for chunk sizes around the
         number of references (and <= 0: ValueError), rows exported as JSON and compared with the same
         singleton contents; model op 809.

Property predicate (VIOLATION with the input as replay): wrong number of rows, a row whose content differs
from the genome's singleton content, a label different from the stem / stored id where the specification
fixes it.  A difference between model and implementation that leaves these true (e.g. the label of a name
outside the specification's scope, an error class) is reported as a broken tie.

Coverage audit (item of the property text -> stream that drives it ON THE IMPLEMENTATION; P = the property predicate is
judged there, M = also compared with the model; streams marked + were added by the audit):

  one row per input / input order / context-free   cli-exhaustive-orders, cli-random (P M); +cli-large-batch 24..40 inputs,
                                                   +bundled-sigfile 50 inputs (P)
  label = name minus directory and FASTA/gz ext.   label-exhaustive, label-structured (P M); cli-extensions, cli-random (P M)
  label = stored id (signature file)               cli-* channel sig, string ids from `signatures create -i` (P M); +cli-sig-variants:
                                                   INTEGER ids, ids derived from file names (no -i), files written through the
                                                   Python API in 16/32/64-bit / signed, with metadata (P M); +bundled-sigfile: the
                                                   repository's own query-signatures.gs (P, no model)
  positional / list file + base dir / gzip         cli-* (P M): absolute, relative, './', '//' spellings; list decorations; +cli-flat-cwd:
                                                   BARE names with the working directory = base directory (default --ldir, '.', './'),
                                                   './name', names starting with '-' after '--' (P M); +list file on stdin (`-l -`)
  gzip-compressed                                  until the gzip audit: ONE plain member (gzip.compress) under a '.gz' name only.  +cli-gzip-containers, +api-gzip-
                                                   containers, and a third of the compressed inputs of every other cli stream: the genome in the gzip containers real
                                                   tools write (GZ_FLAVOURS: `gzip FILE` with FNAME / MTIME / OS, -1 / -9 / stored, flushed deflate blocks, FEXTRA /
                                                   FCOMMENT / FHCRC / FTEXT, SEVERAL MEMBERS cut at record / line boundaries, mid-line, after the first byte, before
                                                   the last, fixed blocks (bgzip BGZF with its empty end-of-file member, pigz -i), empty members first / middle / last,
                                                   members of different levels / headers) and random combinations; with and without the '.gz' suffix (the command
                                                   decides by content); the same genome in two containers and uncompressed in one batch; positional / list file /
                                                   signature file created from the compressed files (sig how=files); query_parse and calc_file_signatures + query with
                                                   compression 'auto' and 'gzip'.  Judged: row = row of the UNCOMPRESSED genome queried alone, label = stem (P M)
  genome classes                                   6 bundled query genomes; +cli-genome-classes: empty file, header only, no k-mer,
                                                   a reference genome itself (distance 0), mixed into batches of all channels (P M)
  alone or within any batch, any order, repeats    cli-exhaustive-orders, cli-random (same file twice, duplicate labels) (P M)
  -c 1..16                                         cli-cores-progress: 1..4 quick, 1..16 thorough; +cli-cores-high: 16 and one of 5..15
                                                   in the quick tier (P M)
  any reference chunk size                         api-chunks (P M), only JSON / QueryParams(chunksize=int); +api-call-forms: random chunk
                                                   sizes 1..nrefs+3 and 10**6, as NumPy integer, as keyword (params=None), positional
                                                   QueryParams field (P M); the command line has no chunk-size option
  progress on / off                                --progress / --no-progress (P M); +cli-call-forms: NO flag (default on); +cli-process-
                                                   stdout: display on while the rows go to the standard output; +api: progress=
                                                   'click' / class / ProgressConfig / False
  output formats csv / json / archive              all cli streams (P M); +no -f (default csv); +api-call-forms: the three exporters
  observe at `gambit -d DB query ...`              CliRunner with -d, -o FILE; +cli-call-forms: --db, --db=, GAMBIT_DB_PATH, long options,
                                                   --opt=value, -oVALUE, options after / between the genomes, --strict / --no-strict
                                                   (reference = singleton under the same flag); +cli-process-stdout: `python -m gambit`
                                                   in its own process, rows on stdout (no -o)
  Python entry points                              query_parse / query (api-chunks); +api-call-forms: inputs as str / tuple / QueryInput /
                                                   SequenceFile / mixed / absent, file_labels absent, query signatures as list / tuple /
                                                   SignatureList / SignatureArray / index view / file-backed HDF5 in u2/u4/u8, one
                                                   QueryParams object and one parse_kw dict shared by two calls (both judged), genomes
                                                   without k-mers (P M; labels judged only where the caller states them);
                                                   get_sequence_files (files-random); +files-call-forms: str / tuple / PurePath arguments,
                                                   list file as path, base directory as pathlib path, positional call (P M)
  malformed                                        no input, chunk size <= 0, no queries; +malformed-channels: two channels at once
                                                   (some named inputs would get no row), a signature file with no signature
Not covered: non-UTF-8 file names and names ending in white space in a list file (outside the stated domain); non-native /
non-contiguous signature arrays (C02/C15); completion orders of the process pool (C13); the terminal rendering of the
progress display."""
import csv
import gc
import glob
import gzip
import hashlib
import io
import itertools
import json
import os
import pathlib
import struct
import subprocess
import sys
import time
import zlib

PROP = 'C08'
RULE = ('label: names dir+stem+ext+gz, exhaustively all token strings of length <= 4 over {x . .fa .gz .fasta /} '
        'plus structured names; non-trivial: the name has an extension to strip or a directory part.  '
        'files: get_sequence_files on random positional lists / list-file texts, in several call forms (Path / str / tuple / '
        'PurePath arguments, list file as handle or path, base directory as str or Path); non-trivial: >= 2 entries.  '
        'cli: batches x orders x channel (pos/list/sig) x name spelling x gzip x -c N x progress x format; '
        'non-trivial: >= 2 inputs of >= 2 distinct genomes.  Added streams: cli-genome-classes (files without any k-mer, a '
        'reference genome), cli-flat-cwd (bare names, working directory = base directory, "--"), cli-call-forms (long / '
        '= / attached option spellings, option order, no -f, no progress flag, --db / environment, list on stdin, '
        '--strict/--no-strict), cli-cores-high (-c 5..16 in the quick tier), cli-sig-variants (integer ids, ids from file '
        'names, API-written files of other integer widths), cli-large-batch (24..40 inputs), cli-process-stdout (own process, '
        'rows on stdout), bundled-sigfile (the repository\'s 50-signature file vs its 50 genome files; property predicate only, '
        'no model).  api: chunk sizes; non-trivial: >= 2 distinct genomes and a chunk size smaller than the number of '
        'references; api-call-forms: chunk size as int / NumPy integer / keyword / positional field, inputs and query '
        'signatures in every accepted container, three exporters, progress arguments, shared QueryParams / parse_kw objects '
        '(labels judged only where the caller states them).  malformed-channels: two input channels at once, empty signature file.  '
        'cli-gzip-containers / api-gzip-containers (and a third of the compressed inputs of the other cli streams): the genome as a gzip '
        'file of every make -- one member or several (cut at record or line boundaries, mid-line, after the first / before the last byte, '
        'fixed blocks as bgzip / pigz -i write them), empty members first / middle / last, deflate levels 0..9 mixed between members, '
        'flush points inside a member, header fields FNAME / FCOMMENT / FEXTRA / FHCRC / FTEXT / MTIME / XFL / OS on all / some members -- '
        'under a name with or without .gz, positional / list file / signature file created from those files / query_parse and '
        'calc_file_signatures with compression auto and gzip; the row must equal the row of the uncompressed genome queried alone, the '
        'label the stem; non-trivial as for cli / api')
TRUSTED = ['click (argument parsing, click.File / click.Path parameter types, CliRunner), concurrent.futures process '
           'pool, OpenMP and the progress meter are runtime: not modelled; the run checks that -c N and --progress '
           'leave the rows unchanged',
           'CPython pathlib / posixpath / str.strip / universal-newline text files: modelled in Model/C08.v '
           '(path_str, posix_join, basename, strip, universal_newlines) and compared with the real ones on every run',
           'the content of a row is compared with the implementation\'s own singleton run of that genome '
           '(the property is relational); what the content should be is C03/C09/C10/C11',
           'csv / json modules to read the output back; gzip to produce the one-member compressed copies',
           'gzip containers (RFC 1952) are written by the harness itself, member by member and header field by header field; zlib supplies '
           'the raw deflate streams and crc32, and an independent zlib.decompressobj loop checks on every file that the container holds '
           'exactly the genome\'s bytes in the intended number of members.  That such a file IS the same genome is RFC 1952 (a gzip file '
           'is a series of members) -- what gzip -d, zcat and Python\'s gzip module implement',
           'gambit signatures create -d -i IDS to build the signature files (order of signatures: C13); calc_file_signatures on a '
           'single file + dump_signatures to build the API-written signature files and the query signatures of the api cases',
           'subprocess / `python -m gambit` for the own-process cases; h5py to read the ids of the bundled signature file']
ASSUMPTIONS = ['the distance between a query and a reference signature, the classification of a distance row and the '
               'signature computed from a file are functions of their arguments (theorems are polymorphic in them); '
               'no shared mutable state between rows',
               'the reference chunk size is None or positive (otherwise ValueError, modelled and tested)',
               'the signature file holds as many ids as signatures (C12/C20)',
               'files are not modified while a command runs; file names are valid UTF-8']
CORRESPONDENCES = ['label', 'files', 'cli', 'api']      # + kind 'bundled': property predicate only, no model
BATCH = 4000
SHRINK = False    # cases are structured (inputs refer to genomes by index); generated smallest first

FASTA_EXT = ['.fasta', '.fna', '.ffn', '.faa', '.frn', '.fa']
ALL_EXT = ['.gz'] + FASTA_EXT
NG = 6            # number of distinct base genomes (bundled query genomes)
NGX = NG + 4      # + extra genomes: empty file, header only, no k-mer, a copy of a reference genome
NREFS_MODEL = 5   # references in the wire instantiation of the model
QERR = {1: 'NoQueries', 2: 'InputsMismatch', 3: 'ZipStrict', 4: 'BadChunkSize', 5: 'ShapeMismatch', 6: 'IndexErr',
        7: 'Uninit', 8: 'OutOfFuel', 9: 'UsageExclusive', 10: 'UsageRequired', 11: 'NoFiles'}

_S = {}


def S(s):
	return [ord(c) for c in s]


def U(l):
	return ''.join(chr(c) for c in l)


# ------------------------------------------------------------------------------------------------
# set-up: base genomes, singleton contents
# ------------------------------------------------------------------------------------------------

def setup(ctx):
	from vf import impl
	impl.check_import()
	_S.clear()
	_S['cwd'] = os.getcwd()
	root = impl.scratch_dir('gambit-verif-c08-')
	_S['root'] = root
	_S['db'] = os.path.join(ctx.repo, 'tests', 'data', 'testdb_210818')
	srcs = sorted(glob.glob(os.path.join(_S['db'], 'queries', 'genomes', '*.fasta.gz')))
	if len(srcs) < NG:
		raise RuntimeError('bundled query genomes not found under ' + _S['db'])
	step = len(srcs) // NG
	_S['genomes'] = [gzip.decompress(open(srcs[i * step], 'rb').read()) for i in range(NG)]
	# extra input classes (indices NG ..): genomes without a single k-mer and a genome that IS a reference
	refs = sorted(glob.glob(os.path.join(_S['db'], 'ref-genomes', '*.fasta')))
	if not refs:
		raise RuntimeError('bundled reference genomes not found under ' + _S['db'])
	_S['genomes'] += [b'', b'>only a header line\n', b'>too short for any k-mer\nACGTAC\n', open(refs[len(refs) // 2], 'rb').read()]
	assert len(_S['genomes']) == NGX
	_S['ref'] = {}
	_S['sigfiles'] = {}
	_S['sigs'] = {}
	_S['n'] = 0
	os.makedirs(os.path.join(root, 'g0'), exist_ok=True)
	os.makedirs(os.path.join(root, 'wd'), exist_ok=True)      # working directory of the cli runs: NOT the base directory
	os.makedirs(os.path.join(root, 'flat'), exist_ok=True)    # ... except for the 'flat' cases: bare names in the working directory


def teardown(ctx):
	if 'cwd' in _S:
		os.chdir(_S['cwd'])


def _tmp(suffix):
	_S['n'] += 1
	d = os.path.join(_S['root'], 'tmp')
	os.makedirs(d, exist_ok=True)
	return os.path.join(d, f'f{_S["n"]}{suffix}')


def _name(inp):
	return inp['stem'] + inp['ext'] + ('.gz' if inp['gz'] else '')


def _relpath(inp, flat=False):
	"""path of the input's file relative to the scratch root (the harness's own naming scheme)"""
	if flat:
		return 'flat/' + _name(inp)
	parts = [f'g{inp["g"]}']
	if inp.get('gzc'):
		# the same name may hold the same genome in different gzip containers: one directory per container description
		parts.append('z' + hashlib.md5(json.dumps(inp['gzc'], sort_keys=True).encode()).hexdigest()[:10])
	parts += ([inp['dir']] if inp['dir'] else []) + [_name(inp)]
	return '/'.join(parts)


# ---- gzip containers ------------------------------------------------------------------------------
# RFC 1952: a gzip file is a SERIES of members, each with its own header (optional FEXTRA / FNAME / FCOMMENT / FHCRC fields, MTIME, XFL,
# OS), a raw deflate stream and a CRC32 + ISIZE trailer; the file stands for the concatenation of the members' data.  `cat a.gz b.gz`,
# bgzip (BGZF: blocks of < 64 KiB with a 'BC' extra subfield and an empty end-of-file member), `pigz -i` and appending `gzip -c`
# produce several members; `gzip FILE` stores the file name (FNAME) and its modification time.  The members are written here byte by
# byte (zlib only supplies the raw deflate streams), so that every header field and member boundary is the harness's own choice.

def _gz_member(data, level=6, hdr=None, flush=None):
	hdr = hdr or {}
	flg = (1 if hdr.get('text') else 0) | (2 if hdr.get('hcrc') else 0) | (4 if hdr.get('extra') is not None else 0) \
		| (8 if hdr.get('name') is not None else 0) | (16 if hdr.get('comment') is not None else 0)
	co = zlib.compressobj(level, zlib.DEFLATED, -15, 9, {'filtered': zlib.Z_FILTERED, 'huffman': zlib.Z_HUFFMAN_ONLY, 'rle': zlib.Z_RLE,
	                                                  'fixed': zlib.Z_FIXED}.get(hdr.get('strategy'), zlib.Z_DEFAULT_STRATEGY))
	body = b''
	if flush and data:
		# several deflate blocks inside ONE member (what pigz without -i and flushing writers produce)
		n = flush.get('n', 2)
		mode = zlib.Z_FULL_FLUSH if flush.get('mode') == 'full' else zlib.Z_SYNC_FLUSH
		step = max(1, len(data) // (n + 1))
		for k in range(0, len(data), step):
			body += co.compress(data[k:k + step]) + co.flush(mode)
	else:
		body += co.compress(data)
	body += co.flush()
	trailer = struct.pack('<II', zlib.crc32(data) & 0xffffffff, len(data) & 0xffffffff)

	def head(extra):
		h = struct.pack('<BBBBIBB', 0x1f, 0x8b, 8, flg, hdr.get('mtime', 0) & 0xffffffff, hdr.get('xfl', 0), hdr.get('os', 255))
		if extra is not None:
			h += struct.pack('<H', len(extra)) + extra
		if hdr.get('name') is not None:
			h += hdr['name'].encode('latin-1') + b'\x00'
		if hdr.get('comment') is not None:
			h += hdr['comment'].encode('latin-1') + b'\x00'
		if hdr.get('hcrc'):
			h += struct.pack('<H', zlib.crc32(h) & 0xffff)
		return h
	extra = hdr.get('extra')
	if extra == 'bgzf':
		# BGZF: subfield 'B','C', length 2, value = total size of the member - 1
		total = len(head(b'BC\x02\x00\x00\x00')) + len(body) + 8
		if total > 65536:
			raise RuntimeError('harness error: BGZF member larger than 64 KiB')
		extra = b'BC\x02\x00' + struct.pack('<H', total - 1)
	elif extra is not None:
		extra = bytes.fromhex(extra)
	return head(extra) + body + trailer


def _gz_cuts(data, gzc):
	"""the offsets at which the genome's bytes are divided into members"""
	cut = gzc.get('cut', 'single')
	n = len(data)
	if cut == 'single':
		offs = []
	elif cut == 'records':            # one member per FASTA record
		offs = [k for k in range(1, n) if data[k:k + 1] == b'>' and data[k - 1:k] in (b'\n', b'\r')]
	elif cut == 'lines':              # at the line boundaries nearest to the given fractions of the file
		offs = []
		for f in gzc['at']:
			k = data.find(b'\n', int(f * n))
			if k >= 0:
				offs.append(k + 1)
	elif cut == 'frac':               # at raw byte offsets: in the middle of a line, of a header, of a record
		offs = [int(f * n) for f in gzc['at']]
	elif cut == 'bytes':              # absolute offsets, negative ones from the end (1: after the '>'; -1: before the final newline)
		offs = [k if k >= 0 else n + k for k in gzc['at']]
	elif cut == 'block':              # fixed-size blocks (bgzip: 65280 bytes, pigz -i: its block size)
		offs = list(range(gzc['block'], n, gzc['block']))
	else:
		raise ValueError(cut)
	return sorted(set(k for k in offs if 0 < k < n))


def _gz_container(data, gzc):
	"""the genome's bytes as a gzip file made the way `gzc` says (see _rand_gzc for the fields)"""
	offs = [0] + _gz_cuts(data, gzc) + [len(data)]
	parts = [data[a:b] for a, b in zip(offs, offs[1:])]
	empty = gzc.get('empty', [])
	if 'mid' in empty and len(parts) >= 2:
		parts.insert(len(parts) // 2, b'')
	if 'first' in empty:
		parts.insert(0, b'')
	if 'last' in empty:
		parts.append(b'')
	if gzc.get('eof_block'):          # bgzip's end-of-file marker: an empty BGZF member
		parts.append(b'')
	levels = gzc.get('levels') or [6]
	hdr = gzc.get('hdr')
	on = gzc.get('hdr_on', 'all')
	out = b''
	for k, part in enumerate(parts):
		h = hdr if (on == 'all' or (on == 'first' and k == 0) or (on == 'rest' and k > 0) or (on == 'alt' and k % 2 == 1)) else None
		out += _gz_member(part, levels[k % len(levels)], h, gzc.get('flush'))
	# the harness's own sanity check with an independent reader: the container stands for exactly the genome's bytes
	got, rest, nmemb = b'', out, 0
	while rest:
		d = zlib.decompressobj(31)
		got += d.decompress(rest) + d.flush()
		if not d.eof:
			raise RuntimeError('harness error: gzip member does not end')
		rest = d.unused_data
		nmemb += 1
	if got != data or nmemb != len(parts):
		raise RuntimeError(f'harness error: gzip container {gzc} does not hold the genome')
	return out


def _is_gzip(inp):
	"""the CONTENT is gzip: the name says so (one plain member, as before) or a container description is given (with or without
	the '.gz' suffix in the name -- the command decides by the content)"""
	return bool(inp['gz'] or inp.get('gzc'))


def _file_bytes(inp):
	data = _S['genomes'][inp['g']]
	if inp.get('gzc'):
		return _gz_container(data, inp['gzc'])
	return gzip.compress(data, mtime=0) if inp['gz'] else data


def _materialise(inp, flat=False):
	rel = _relpath(inp, flat)
	path = os.path.join(_S['root'], rel)
	data = _S['genomes'][inp['g']]
	if not os.path.exists(path):
		os.makedirs(os.path.dirname(path), exist_ok=True)
		with open(path, 'wb') as f:
			f.write(_file_bytes(inp))
	elif flat:
		# one directory for all genomes: the generator has to keep the names of different genomes apart
		with open(path, 'rb') as f:
			have = f.read()
		if (gzip.decompress(have) if have[:2] == b'\x1f\x8b' else have) != data:
			raise RuntimeError(f'harness error: flat name {_name(inp)!r} used for two genomes')
		want = _file_bytes(inp)
		if have != want:              # same genome under the same name in another container: the case at hand decides
			with open(path, 'wb') as f:
				f.write(want)
	return rel


def _invoke(args, db='short', stdin=None):
	from click.testing import CliRunner
	import gambit.cli
	# Every invocation opens its own SQLite connection and leaves it to the garbage collector.  With -c N the
	# process pool's management thread may be the one that triggers a collection, and SQLite refuses to close a
	# connection from another thread (a noisy, harmless message).  So: automatic collection off while commands
	# run, explicit collection in this thread after each one.
	was = gc.isenabled()
	gc.disable()
	pre, env = _db_args(db)
	try:
		res = CliRunner(env=env).invoke(gambit.cli.cli, pre + args, input=stdin)
	finally:
		gc.collect()
		if was:
			gc.enable()
	if res.exit_code == 0 and res.exception is None:
		return None
	e = res.exception
	return f'{type(e).__name__}({e})' if e is not None and not isinstance(e, SystemExit) else \
		f'exit{res.exit_code}: {(res.output or "").strip()[-160:]}'


def _db_args(db):
	"""how the database directory reaches the command: -d DB | --db DB | --db=DB | environment variable"""
	if db == 'short':
		return ['-d', _S['db']], None
	if db == 'long':
		return ['--db', _S['db']], None
	if db == 'eq':
		return ['--db=' + _S['db']], None
	if db == 'env':
		return [], {'GAMBIT_DB_PATH': _S['db']}
	raise ValueError(db)


def _invoke_proc(args, db='short', stdin=None):
	"""the command in a process of its own (`python -m gambit ...`); -> (error or None, what it wrote to stdout)"""
	pre, env = _db_args(db)
	e = dict(os.environ)
	e.pop('GAMBIT_DB_PATH', None)
	e.update(env or {})
	p = subprocess.run([sys.executable, '-m', 'gambit'] + pre + args, input=(stdin or '').encode('utf-8'), stdout=subprocess.PIPE,
	                   stderr=subprocess.PIPE, env=e, timeout=300)
	if p.returncode != 0:
		return f'exit{p.returncode}: {p.stderr.decode("utf-8", "replace").strip()[-160:]}', None
	return None, p.stdout.decode('utf-8')


LONG_OPT = {'-o': '--output', '-f': '--outfmt', '-c': '--cores', '-s': '--sigfile', '-l': None, '--ldir': '--ldir'}


def _respell(tokens, style):
	"""the same options written another way: 'short' (-o X) | 'long' (--output X) | 'eq' (--output=X) | 'attached' (-oX).
	`tokens` holds options (with their value as the next token) first, then the positional arguments."""
	if style == 'short':
		return list(tokens)
	out, n = [], 0
	while n < len(tokens):
		t = tokens[n]
		if t not in LONG_OPT:
			out.append(t)
			n += 1
			continue
		v, long = tokens[n + 1], LONG_OPT[t]
		n += 2
		if style == 'long':
			out += [long or t, v]
		elif style == 'eq':
			out += [long + '=' + v] if long else [t, v]
		elif style == 'attached':
			out += [t + v] if not t.startswith('--') else [t, v]
		else:
			raise ValueError(style)
	return out


def _sort_closest(lst):
	return sorted(lst, key=lambda m: (m['distance'], json.dumps(m['genome'].get('key'))))


def _rows(fmt, text):
	"""output text -> [(label, path or None, content)]"""
	out = []
	if fmt == 'csv':
		rows = list(csv.reader(io.StringIO(text)))
		hdr = rows[0]
		for r in rows[1:]:
			d = dict(zip(hdr, r))
			d['#cols'] = len(r)
			out.append((d.pop('query'), None, d))
	elif fmt == 'json':
		for it in json.loads(text)['items']:
			q = it.pop('query')
			it['closest_genomes'] = _sort_closest(it['closest_genomes'])
			out.append((q['name'], q['path'], it))
	else:
		for it in json.loads(text)['items']:
			q = it.pop('input')
			it['closest_genomes'] = _sort_closest(it['closest_genomes'])
			out.append((q['label'], None if q['file'] is None else q['file']['path'], it))
	return out


def _run_query(fmt, args, npos=0, call=None, stdin=None):
	"""-> ('ok', rows) | ('error', text).  `args`: options (each followed by its value), then `npos` positional arguments.
	`call` (all optional) says how the command line is written and where the output goes:
	  spell     short | long | eq | attached       option spellings
	  order     first | last | split                options before / after / around the positional arguments
	  ddash     '--' before the positional arguments
	  omit_fmt  no -f at all (the default format has to be csv)
	  db        short | long | eq | env             how the database directory is given
	  proc      run `python -m gambit` in a process of its own and take the rows from its standard output (no -o)"""
	call = call or {}
	proc = bool(call.get('proc'))
	out = None if proc else _tmp('.' + fmt)
	opts, pos = list(args[:len(args) - npos]), list(args[len(args) - npos:])
	opts = ([] if proc else ['-o', out]) + ([] if call.get('omit_fmt') else ['-f', fmt]) + opts
	opts = _respell(opts, call.get('spell', 'short'))
	if call.get('ddash'):
		pos = ['--'] + pos
	order = call.get('order', 'first')
	if order == 'first' or call.get('ddash'):
		argv = opts + pos
	elif order == 'last':
		argv = pos + opts
	else:
		h = len(pos) // 2
		argv = pos[:h] + opts + pos[h:]
	if proc:
		err, text = _invoke_proc(['query'] + argv, call.get('db', 'short'), stdin)
	else:
		err = _invoke(['query'] + argv, call.get('db', 'short'), stdin)
	if err is not None:
		return ('error', err)
	if not proc:
		with open(out) as f:
			text = f.read()
		os.remove(out)
	try:
		return ('ok', _rows(fmt, text))
	except Exception as e:
		return ('error', f'output is not readable as {fmt}: {type(e).__name__}({e}): {text[:200]!r}')


def _reference(g, fmt, strict=False):
	"""content of the singleton run of genome g: one positional plain FASTA file, default options"""
	key = (g, fmt, bool(strict))
	if key not in _S['ref']:
		rel = _materialise(dict(g=g, dir='ref', stem=f'genome{g}', ext='.fasta', gz=False))
		r = _run_query(fmt, ['--no-progress'] + (['--strict'] if strict else []) + [os.path.join(_S['root'], rel)], 1)
		if r[0] != 'ok' or len(r[1]) != 1:
			raise RuntimeError(f'singleton reference run failed for genome {g}: {r}')
		_S['ref'][key] = r[1][0][2]
	return _S['ref'][key]


def _genome_sig(g):
	"""signature of genome g (computed once, alone, by the implementation; only used to BUILD inputs: signature files and
	the query signatures of the api cases)"""
	if g not in _S['sigs']:
		import numpy as np
		from gambit.seq import SequenceFile
		from gambit.sigs.calc import calc_file_signatures
		path = os.path.join(_S['root'], _materialise(dict(g=g, dir='ref', stem=f'genome{g}', ext='.fasta', gz=False)))
		sigs = calc_file_signatures(_db().signatures.kmerspec, SequenceFile.from_paths([path], 'fasta', 'auto'))
		_S['sigs'][g] = np.array(sigs[0])
	return _S['sigs'][g]


def _sigfile_api(gs, ids, sig):
	"""signature file written through the Python API: ids of another type, another integer width, metadata or not"""
	key = json.dumps([gs, ids, sig], sort_keys=True)
	if key not in _S['sigfiles']:
		import numpy as np
		from gambit.sigs import SignatureArray, SignaturesMeta, AnnotatedSignatures, dump_signatures
		kspec = _db().signatures.kmerspec
		arr = SignatureArray([_genome_sig(g) for g in gs], kspec, dtype=np.dtype(sig.get('dtype', 'u8')))
		if sig.get('idkind') == 'int':
			idarr = np.array([int(i) for i in ids], dtype=np.int64)
		else:
			idarr = np.array([str(i) for i in ids], dtype=object) if ids else np.array([], dtype=object)
		meta = SignaturesMeta(id='harness', name='made by harness/c08.py', version='1.0', id_attr='key', description='d') \
			if sig.get('meta') else SignaturesMeta()
		path = _tmp('.gs')
		dump_signatures(path, AnnotatedSignatures(arr, idarr, meta), 'hdf5')
		_S['sigfiles'][key] = path
	return _S['sigfiles'][key]


def _sigfile_noids(gs):
	"""signature file made by `gambit signatures create` WITHOUT -i: the stored ids are derived from the file names"""
	key = json.dumps(['noids', gs])
	if key not in _S['sigfiles']:
		path = _tmp('.gs')
		files = [os.path.join(_S['root'], _materialise(dict(g=g, dir='ref', stem=f'genome{g}', ext='.fasta', gz=False))) for g in gs]
		err = _invoke(['signatures', 'create', '-d', '-o', path, '--no-progress'] + files)
		if err is not None:
			raise RuntimeError('could not build signature file: ' + err)
		_S['sigfiles'][key] = path
	return _S['sigfiles'][key]


class _Unbuildable(Exception):
	"""`signatures create` (trusted, a preparation step) failed on the inputs' own files: the case cannot be judged"""


def _sigfile(gs, ids, inputs=None):
	"""signature file holding the signatures of genomes gs under the given ids; computed from the plain reference copies of the
	genomes, or (inputs given) from the inputs' own files -- whatever their names and gzip containers are"""
	key = json.dumps([gs, ids, inputs], sort_keys=True)
	if key not in _S['sigfiles']:
		path = _tmp('.gs')
		idf = _tmp('.ids')
		with open(idf, 'w', encoding='utf-8', newline='') as f:
			f.write(''.join(i + '\n' for i in ids))
		if inputs is not None:
			files = [os.path.join(_S['root'], _materialise(i)) for i in inputs]
		else:
			files = [os.path.join(_S['root'], _materialise(dict(g=g, dir='ref', stem=f'genome{g}', ext='.fasta', gz=False))) for g in gs]
		err = _invoke(['signatures', 'create', '-d', '-o', path, '-i', idf, '--no-progress'] + files)
		if err is not None and inputs is not None:
			raise _Unbuildable(err)
		if err is not None:
			raise RuntimeError('could not build signature file: ' + err)
		_S['sigfiles'][key] = path
	return _S['sigfiles'][key]


# ------------------------------------------------------------------------------------------------
# kind: label
# ------------------------------------------------------------------------------------------------

def _in_label_spec(c):
	name = c['stem'] + c['ext'] + c['gz']
	if c['ext'] not in FASTA_EXT + [''] or c['gz'] not in ('', '.gz') or '/' in name:
		return False
	if c['dir'] and not c['dir'].endswith('/'):
		return False
	if c['ext'] == '' and any(c['stem'].endswith(e) for e in ALL_EXT):
		return False
	return True


def k_label(ctx, cases):
	from gambit.cli import common
	reqs = []
	for c in cases:
		p = c['dir'] + c['stem'] + c['ext'] + c['gz']
		reqs += [(802, [S(p), True, True]), (801, S(c['stem'] + c['ext'] + c['gz'])), (802, [S(p), True, False]), (802, [S(p), False, True])]
	ans = ctx.model(reqs) if ctx.model_ok else None
	for j, c in enumerate(cases):
		p = c['dir'] + c['stem'] + c['ext'] + c['gz']
		name = c['stem'] + c['ext'] + c['gz']
		impl = [common.get_file_id(p), common.strip_seq_file_ext(name), common.get_file_id(p, strip_ext=False),
		        common.get_file_id(p, strip_dir=False)]
		spec = _in_label_spec(c)
		ctx.case(c, nontrivial=bool(c['dir'] or c['ext'] or c['gz']))
		if spec:
			ctx.count('label:in-spec')
		m = [U(x) for x in ans[4 * j:4 * j + 4]] if ans else None
		if spec and (impl[0] != c['stem'] or impl[1] != c['stem']):
			ctx.violation('label', c, f'label of {p!r} is {impl[0]!r}, the stem is {c["stem"]!r}', impl=impl, spec=c['stem'], model=m)
		elif m is not None and m != impl:
			ctx.broke('correspondence label (model != implementation outside/inside the specified names)', f'case {c}: impl={impl} model={m}')
		if spec and m is not None and m[0] != c['stem']:
			ctx.broke('model label != stem on a specified name (contradicts theorem C08_label)', f'case {c}: model={m}')


# ------------------------------------------------------------------------------------------------
# kind: files
# ------------------------------------------------------------------------------------------------

def k_files(ctx, cases):
	from gambit.cli import common
	reqs = []
	for c in cases:
		reqs.append((806, [[S(x) for x in c['explicit']], None if c['text'] is None else [S(c['text'])], S(c['ldir']),
		                   c['strip_dir'], c['strip_ext']]))
		reqs += [(803, S(x)) for x in c['explicit']]
	ans = ctx.model(reqs) if ctx.model_ok else None
	k = 0
	for c in cases:
		lf = None
		spec_files = [str(pathlib.PurePosixPath(x)) for x in c['explicit']] or None
		if c['text'] is not None:
			path = _tmp('.list')
			with open(path, 'wb') as f:
				f.write(c['text'].encode('utf-8'))
			with open(path, 'r') as f:
				spec_lines = [x.strip() for x in f.read().split('\n') if x.strip()]
			# the property: every non-blank line names a file below the base directory
			spec_files = [str(pathlib.PurePosixPath(c['ldir']) / x) for x in spec_lines]
			# what click.File('r') hands to the command; or (call forms of the Python API) the path of the list file itself
			lf_as = c.get('lf_as', 'handle')
			lf = open(path, 'r') if lf_as == 'handle' else (path if lf_as == 'str' else pathlib.Path(path))
		# call forms: the explicit paths as pathlib paths (what click hands over) / plain strings / a tuple / an iterator-free list
		ex_as = c.get('explicit_as', 'Path')
		ex = [pathlib.Path(x) if ex_as in ('Path', 'tuple') else (pathlib.PurePosixPath(x) if ex_as == 'PurePath' else x) for x in c['explicit']]
		ex = (tuple(ex) if ex_as == 'tuple' else ex) or None
		ldir = pathlib.Path(c['ldir']) if c.get('ldir_as') == 'Path' else c['ldir']
		try:
			if c.get('positional_call'):
				ids, files = common.get_sequence_files(ex, lf, ldir, c['strip_dir'], c['strip_ext'])
			else:
				ids, files = common.get_sequence_files(ex, lf, ldir, strip_dir=c['strip_dir'], strip_ext=c['strip_ext'])
		finally:
			if lf is not None:
				if hasattr(lf, 'close'):
					lf.close()
				os.remove(path)
		impl = None if ids is None else [list(ids), [str(f.path) for f in files]]
		ok = impl is None or (len(impl[0]) == len(impl[1]))
		n = 0 if impl is None else len(impl[0])
		ctx.case(c, nontrivial=n >= 2)
		m = None
		if ans is not None:
			a = ans[k]
			m = None if a == [] else [[U(x) for x in a[0][0]], [U(x) for x in a[0][1]]]
			pl = [U(x) for x in ans[k + 1:k + 1 + len(c['explicit'])]]
			k += 1 + len(c['explicit'])
			real = [str(pathlib.PurePosixPath(x)) for x in c['explicit']]
			if pl != real:
				ctx.broke('model path_str != str(PurePosixPath(.))', f'{c["explicit"]}: model={pl} pathlib={real}')
		if not ok:
			ctx.violation('files', c, 'get_sequence_files returned different numbers of ids and files', impl=impl, model=m)
		elif (impl[1] if impl is not None else None) != spec_files:
			ctx.violation('files', c, 'the files are not the arguments / the list-file lines resolved against the base directory, in order',
			              impl=impl, spec=spec_files, model=m)
		elif m is not None and m != impl:
			ctx.broke('correspondence files (model get_sequence_files != implementation)', f'case {c}: impl={impl} model={m}')


# ------------------------------------------------------------------------------------------------
# kind: cli
# ------------------------------------------------------------------------------------------------

def _spell(rel, form):
	"""how a positional argument / absolute list line names root/rel"""
	root = _S['root']
	if form == 'abs':
		return root + '/' + rel
	if form == 'dot':
		return root + '/./' + rel.replace('/', '//', 1)
	if form == 'rel':
		return '../' + rel
	if form == 'reldot':
		return './../' + rel
	if form == 'bare':               # flat cases: the working directory holds the file
		return rel.split('/', 1)[1]
	if form == 'dotbare':
		return './' + rel.split('/', 1)[1]
	raise ValueError(form)


def _list_text(lines, lf):
	eol = lf.get('eol', '\n')
	text = ''
	for n, line in enumerate(lines):
		if lf.get('blanks') and n % 2 == 1:
			text += eol + '  ' + eol
		last = n == len(lines) - 1
		text += lf.get('lpad', '') + line + lf.get('rpad', '') + ('' if (last and not lf.get('final_eol', True)) else eol)
	if not lines:
		text = eol + ' \t' + eol
	return text


def _cli_plan(c):
	"""-> (options with values + positional arguments, number of positional arguments, model request, text for stdin or None)"""
	root = _S['root']
	inputs = c['inputs']
	flat = bool(c.get('flat'))
	rels = [_materialise(i, flat) for i in inputs]
	table = []
	files_arg, listfile, ldir_model, sigfile = [], None, '.', None
	args, npos, stdin = [], 0, None
	if c['channel'] == 'pos':
		files_arg = [_spell(r, c.get('form', 'bare' if flat else 'abs')) for r in rels]
		args = list(files_arg)
		npos = len(args)
		table = [[S(str(pathlib.PurePosixPath(a))), i['g']] for a, i in zip(files_arg, inputs)]
	elif c['channel'] == 'list':
		lf = c['lf']
		if flat:
			ldir = {'default': None, 'dot': '.', 'abs': root + '/flat', 'dotslash': './'}[lf['ldir']]
		else:
			ldir = {'abs': root, 'slash': root + '/', 'default': None, 'rel': '..', 'sub': root + '/g0/..'}[lf['ldir']]
		lines = []
		for r, i in zip(rels, inputs):
			if flat:
				line = (root + '/' + r) if lf.get('abs_lines') else r.split('/', 1)[1]
			else:
				# with the default base directory '.' (= root/wd) the lines have to climb out of it
				line = (root + '/' + r) if lf.get('abs_lines') else (('../' + r) if ldir is None else r)
			lines.append(line)
			table.append([S(str(pathlib.PurePosixPath(ldir if ldir is not None else '.') / line)), i['g']])
		text = _list_text(lines, lf)
		if c.get('stdin_list'):
			path, stdin = '-', text           # click.File('r') reads '-' from the standard input
		else:
			path = _tmp('.list')
			with open(path, 'wb') as f:
				f.write(text.encode('utf-8'))
		args = ['-l', path] + (['--ldir', ldir] if ldir is not None else [])
		listfile = text
		ldir_model = ldir if ldir is not None else '.'
	else:
		ids = c['ids']
		gs = [i['g'] for i in inputs]
		sig = c.get('sig')
		if sig is None:
			path = _sigfile(gs, ids)
		elif sig['how'] == 'api':
			path = _sigfile_api(gs, ids, sig)
		elif sig['how'] == 'noids':
			path = _sigfile_noids(gs)
		elif sig['how'] == 'files':          # `signatures create -i IDS` on the inputs' own (compressed) files
			path = _sigfile(gs, ids, inputs)
		else:
			raise ValueError(sig)
		args = ['-s', path]
		sigfile = [[S(str(x)) for x in ids], gs]
	# ---- malformed: a second input channel on the same command line (the channels are mutually exclusive)
	if c.get('also_sig'):
		a = c['also_sig']
		args = ['-s', _sigfile(a['gs'], a['ids'])] + args
		sigfile = [[S(x) for x in a['ids']], a['gs']]
	if c.get('also_list'):
		lines = [root + '/' + r for r in rels]
		text = _list_text(lines, {})
		path = _tmp('.list')
		with open(path, 'wb') as f:
			f.write(text.encode('utf-8'))
		args = ['-l', path] + args
		listfile = text
		table = table + [[S(str(pathlib.PurePosixPath('.') / line)), i['g']] for line, i in zip(lines, inputs)]
	req = [[c.get('chunksize_model', 1000)], [S(a) for a in files_arg], None if listfile is None else [S(listfile)], S(ldir_model),
	       None if sigfile is None else [sigfile], table, NREFS_MODEL]
	return args, npos, req, stdin


def _stem_expected(c, n):
	"""the label the SPECIFICATION fixes for input n, or None if it leaves it to the algorithm"""
	if c['channel'] == 'sig':
		return c['ids'][n]      # (integer ids: compared as their decimal strings, see _lab)
	i = c['inputs'][n]
	spec = dict(dir='', stem=i['stem'], ext=i['ext'], gz='.gz' if i['gz'] else '')
	return i['stem'] if _in_label_spec(spec) else None


def _lab(c, x):
	"""canonical form of a label: a signature file may store integer ids; csv then shows the decimal string, json the number"""
	if (c.get('sig') or {}).get('idkind') == 'int' and isinstance(x, int) and not isinstance(x, bool):
		return str(x)
	return x


def k_cli(ctx, cases):
	try:
		_k_cli(ctx, cases)
	finally:
		os.chdir(_S['cwd'])


def _k_cli(ctx, cases):
	plans, judged = [], []
	for c in cases:
		try:
			plans.append(_cli_plan(c))
			judged.append(c)
		except _Unbuildable as e:
			# not a statement about `query`: reported as a broken obligation of the trusted base, the campaign goes on (the same
			# containers reach `query` itself through the positional and list-file cases)
			ctx.count('cli:sigfile-from-inputs-unbuildable')
			ctx.broke('preparation: `gambit signatures create` failed on harness-made genome files (valid FASTA / gzip), so the '
			          'signature-file channel could not be judged for them', f'case {c}: {e}')
	cases = judged
	ans = ctx.model([(807, p[2]) for p in plans]) if ctx.model_ok else None
	for j, c in enumerate(cases):
		args, npos, _, stdin = plans[j]
		fmt = c.get('fmt', 'csv')
		call = c.get('call') or {}
		strict = c.get('strict')          # None: option absent | True: --strict | False: --no-strict
		# progress: True / False as flags; 'default': no flag at all (the default is to show it)
		opts = [] if c.get('progress') == 'default' else ['--progress' if c.get('progress') else '--no-progress']
		if strict is not None:
			opts += ['--strict' if strict else '--no-strict']
		if c.get('cores') is not None:
			opts += ['-c', str(c['cores'])]
		# the working directory is NOT the base directory of the list files, except in the 'flat' cases (bare names)
		os.chdir(os.path.join(_S['root'], 'flat' if c.get('flat') else 'wd'))
		obs = _run_query(fmt, opts + args, npos, call, stdin)
		gs = [i['g'] for i in c['inputs']]
		if obs[0] == 'ok':
			obs = ('ok', [(_lab(c, r[0]), r[1], r[2]) for r in obs[1]])
		ctx.case(c, nontrivial=len(gs) >= 2 and len(set(gs)) >= 2, stream=None)
		ctx.count('cli:' + c['channel'])
		if len(gs) >= 3 and len(_S.setdefault('samples', [])) < 3 and c['channel'] not in [x['channel'] for x in _S['samples']]:
			_S['samples'].append(c)
		ctx.count('cli:fmt:' + fmt)
		# ---- model
		m = None
		if ans is not None:
			a = ans[j]
			if a[0] == 0:
				m = ('ok', [(U(r[0]), U(r[1][0]) if r[1] else None, r[2]) for r in a[1]])
				# the model itself must put genome i's distances into row i (theorems C08_cli_*)
				want = [[[g, r] for r in range(NREFS_MODEL)] for g in gs]
				if [r[2] for r in m[1]] != want:
					ctx.broke('model rows are not (genome i x references) in input order', f'case {c}: {a}')
					m = None
			else:
				m = ('error', QERR.get(a[1], a[1]))
		# ---- property predicate on the implementation
		if obs[0] != 'ok':
			if gs and not c.get('expect_error'):
				ctx.violation('cli', c, f'query of {len(gs)} inputs failed: {obs[1]}', impl=obs, model=m)
			elif m is not None and m[0] == 'ok':
				ctx.broke('correspondence cli (implementation fails, model answers)', f'case {c}: impl={obs} model={m}')
			continue
		rows = obs[1]
		if c.get('expect_error'):
			if m is not None and m[0] == 'error':
				ctx.violation('cli', c, f'malformed invocation produced {len(rows)} rows instead of an error ({m[1]})', impl=[r[0] for r in rows], model=m)
			continue
		bad = None
		if len(rows) != len(gs):
			bad = f'{len(gs)} inputs gave {len(rows)} rows'
		else:
			for n, (g, row) in enumerate(zip(gs, rows)):
				ref = _reference(g, fmt, strict)
				if row[2] != ref:
					other = [h for h in range(NG) if _reference(h, fmt, strict) == row[2]]
					bad = (f'row {n} (input {c["inputs"][n]}) does not have the content of that genome queried alone'
					       + (' as a plain FASTA file [the input is a gzip file, see its gz / gzc fields]' if _is_gzip(c['inputs'][n]) and c['channel'] != 'sig' else '')
					       + (f'; it has the content of genome {other[0]}' if other else ''))
					break
				want = _stem_expected(c, n)
				if want is not None and row[0] != _lab(c, want):
					bad = f'row {n} is labelled {row[0]!r}, expected {want!r}'
					break
		if bad:
			ctx.violation('cli', c, f'{c["channel"]} -f {fmt} -c {c.get("cores")}: {bad}',
			              impl=[(r[0], r[1]) for r in rows], spec=[_stem_expected(c, n) for n in range(len(gs))],
			              model=None if m is None else (m[1] if m[0] == 'error' else [(r[0], r[1]) for r in m[1]]))
			continue
		if m is None:
			continue
		if m[0] != 'ok':
			ctx.broke('correspondence cli (model fails, implementation answers)', f'case {c}: model={m}')
			continue
		ml = [r[0] for r in m[1]]
		if ml != [r[0] for r in rows]:
			ctx.broke('correspondence cli: labels (outside the specified names)', f'case {c}: impl={[r[0] for r in rows]} model={ml}')
		if fmt != 'csv':
			mp = [r[1] for r in m[1]]
			if mp != [r[1] for r in rows]:
				ctx.broke('correspondence cli: recorded file paths', f'case {c}: impl={[r[1] for r in rows]} model={mp}')


# ------------------------------------------------------------------------------------------------
# kind: api
# ------------------------------------------------------------------------------------------------

def _db():
	if 'dbobj' not in _S:
		from gambit.db import ReferenceDatabase
		_S['dbobj'] = ReferenceDatabase.load_from_dir(_S['db'])
	return _S['dbobj']


def _api_queries(c, gs):
	"""the query signatures of an api case in the container / integer width the case asks for"""
	import numpy as np
	from gambit.sigs import SignatureArray, SignatureList, load_signatures
	kspec = _db().signatures.kmerspec
	cont = c.get('container', 'calc')
	dt = np.dtype(c['dtype']) if 'dtype' in c else _genome_sig(0).dtype
	arrs = [_genome_sig(g).astype(dt) for g in gs]
	if cont == 'pylist':
		return arrs
	if cont == 'tuple':
		return tuple(arrs)
	if cont == 'SignatureList':
		return SignatureList(arrs, kspec, dtype=dt)
	if cont == 'SignatureArray':
		return SignatureArray(arrs, kspec, dtype=dt)
	if cont == 'view':                   # rows of a larger array picked by an index list (not a copy made for this call)
		big = SignatureArray([_genome_sig(g).astype(dt) for g in range(NGX)], kspec, dtype=dt)
		return big[list(gs)]
	if cont == 'hdf5':                   # file-backed collection, as `query -s` passes it on
		return load_signatures(_sigfile_api(list(gs), [f'h{n}' for n in range(len(gs))], dict(how='api', dtype=dt.str.lstrip('<>=|'), meta=True)))
	raise ValueError(cont)


def _api_call(c, gs, labels, state):
	"""one call of query / query_parse in the call form the case asks for -> QueryResults"""
	import numpy as np
	from gambit.query import query_parse, query, QueryParams, QueryInput
	from gambit.seq import SequenceFile
	from gambit.sigs.calc import calc_file_signatures
	db = _db()
	if c.get('files'):
		# the genomes as files of the harness's choosing (names, gzip containers); compression 'auto' is what the command line
		# passes, 'gzip' the explicit form (only where every file is gzip)
		comp = c.get('compression', 'auto')
		if [i['g'] for i in c['files']] != list(c['gs']):
			raise RuntimeError('harness error: files and gs of an api case disagree')
		by_g = {}
		for i in c['files']:
			by_g.setdefault(i['g'], []).append(i)
		# (the `reuse` form calls with another arrangement of the same genomes first: take each genome's files in turn)
		seen = {}
		paths = []
		for g in gs:
			k = seen.get(g, 0)
			seen[g] = k + 1
			paths.append(os.path.join(_S['root'], _materialise(by_g[g][k % len(by_g[g])])))
		files = SequenceFile.from_paths(paths, 'fasta', comp)
	else:
		paths = [os.path.join(_S['root'], _materialise(dict(g=g, dir='ref', stem=f'genome{g}', ext='.fasta', gz=False))) for g in gs]
		files = SequenceFile.from_paths(paths, 'fasta', 'auto')
	cs = c['chunksize']
	cs_as = c.get('cs_as', 'int')
	if cs_as == 'np' and cs is not None:
		cs = np.int64(cs)
	if cs_as == 'kw':                     # params=None, the chunk size as a keyword argument
		params, kw = None, dict(chunksize=cs)
	elif cs_as == 'positional':           # QueryParams(False, cs) instead of QueryParams(chunksize=cs)
		params, kw = QueryParams(False, cs), {}
	else:
		params, kw = state.setdefault('params', QueryParams(chunksize=cs)) if c.get('reuse') else QueryParams(chunksize=cs), {}
	if c.get('progress') is not None:
		kw['progress'] = _progress_arg(c['progress'])
	ia = c.get('inputs_as', 'str')
	if c['via'] == 'parse':
		if ia == 'none':
			fl = {}
		else:
			fl = dict(file_labels=tuple(labels) if ia == 'tuple' else list(labels))
		if c.get('reuse'):
			kw['parse_kw'] = state.setdefault('parse_kw', {})      # the caller's own dict, handed in again on the next call
		return query_parse(db, files, params, **fl, **kw)
	if 'container' in c or 'dtype' in c:
		sigs = _api_queries(c, gs)
	else:
		sigs = calc_file_signatures(db.signatures.kmerspec, files)
	if ia == 'none':
		inp = {}
	elif ia == 'QueryInput':
		inp = dict(inputs=[QueryInput(l, f) for l, f in zip(labels, files)])
	elif ia == 'SequenceFile':
		inp = dict(inputs=files)
	elif ia == 'mixed':
		inp = dict(inputs=[(l, QueryInput(l), QueryInput(l, f))[n % 3] for n, (l, f) in enumerate(zip(labels, files))])
	elif ia == 'tuple':
		inp = dict(inputs=tuple(labels))
	else:
		inp = dict(inputs=labels)
	return query(db, sigs, params, **inp, **kw)


def _progress_arg(how):
	"""the forms of the `progress` argument: a registry key / a class / a ProgressConfig / False (the click meter writes to a
	buffer, not to the terminal)"""
	from gambit.util.progress import TestProgressMeter, ClickProgressMeter, progress_config
	if how == 'click':
		return progress_config('click', file=io.StringIO())
	if how == 'config':
		return ClickProgressMeter.config(file=io.StringIO())
	if how == 'test':
		return TestProgressMeter
	if how == 'false':
		return False
	raise ValueError(how)


def _api_export(fmt, res):
	from gambit.results import JSONResultsExporter, CSVResultsExporter, ResultsArchiveWriter
	buf = io.StringIO()
	{'json': JSONResultsExporter, 'csv': CSVResultsExporter, 'archive': ResultsArchiveWriter}[fmt]().export(buf, res)
	return _rows(fmt, buf.getvalue())


def k_api(ctx, cases):
	# the Python API has no thread-count argument; an earlier `query -c 16` in this process would leave 16 OpenMP threads
	# behind, which makes the many small distance calls of small chunk sizes very slow on a shared machine
	from gambit._cython.threads import omp_set_num_threads
	omp_set_num_threads(1)
	db = _db()
	nrefs = len(db.genomes)
	reqs = [(809, [None if c['chunksize'] is None else [c['chunksize']], c['gs'], NREFS_MODEL, len(c['gs'])]) for c in cases]
	ans = ctx.model(reqs) if ctx.model_ok else None
	for j, c in enumerate(cases):
		gs = c['gs']
		labels = [f'in{n}' for n in range(len(gs))]
		fmt = c.get('export', 'json')
		ia = c.get('inputs_as', 'str')
		state = {}
		first = None
		try:
			if c.get('reuse'):
				# the same QueryParams object / parse_kw dict serve a call on another batch first: the rows of the second
				# call must not depend on it (and the first call is judged as well)
				g1 = list(reversed(gs)) + gs[:1]
				first = (g1, _api_export(fmt, _api_call(c, g1, [f'first{n}' for n in range(len(g1))], state)))
			obs = ('ok', _api_export(fmt, _api_call(c, gs, labels, state)))
		except Exception as e:
			obs = ('error', type(e).__name__ + (f'({e})' if 'container' in c or 'inputs_as' in c or 'cs_as' in c else ''))
		cs = c['chunksize']
		ctx.case(c, nontrivial=len(set(gs)) >= 2 and cs is not None and 0 < cs < nrefs)
		m = None
		if ans is not None:
			a = ans[j]
			m = ('ok', a[1]) if a[0] == 0 else ('error', QERR.get(a[1], a[1]))
			if m[0] == 'ok' and a[1] != [[n, [[g, r] for r in range(NREFS_MODEL)]] for n, g in enumerate(gs)]:
				ctx.broke('model rows are not (genome i x references) in input order', f'case {c}: {a}')
		valid = bool(gs) and (cs is None or cs > 0)
		if not valid:
			if obs[0] == 'ok':
				ctx.violation('api', c, f'invalid call (chunksize={cs}, {len(gs)} queries) returned {len(obs[1])} rows', impl=[r[0] for r in obs[1]], model=m)
			elif m is not None and m[0] == 'ok':
				ctx.broke('correspondence api (implementation raises, model answers)', f'case {c}: impl={obs}')
			continue
		bad = None
		# the label is judged where the caller states it (strings / QueryInput objects); the default labels ('1', '2', ... and
		# the file path) are not part of the property
		judged = ia in ('str', 'QueryInput', 'mixed', 'tuple')
		if obs[0] != 'ok':
			bad = f'raised {obs[1]}'
		else:
			batches = [('', gs, obs[1], labels)]
			if first:
				batches.insert(0, ('first call with the shared objects: ', first[0], first[1], [f'first{n}' for n in range(len(first[0]))]))
			for what, bg, brows, blabels in batches:
				if bad:
					break
				if len(brows) != len(bg):
					bad = f'{what}{len(bg)} inputs gave {len(brows)} rows'
					break
				for n, (g, row) in enumerate(zip(bg, brows)):
					if row[2] != _reference(g, fmt):
						bad = f'{what}row {n} (genome {g}) differs from that genome queried alone with the default chunk size'
						break
					if judged and row[0] != blabels[n]:
						bad = f'{what}row {n} is labelled {row[0]!r}, expected {blabels[n]!r}'
						break
		if bad:
			ctx.violation('api', c, f'{c["via"]} chunksize={cs}: {bad}', impl=obs if obs[0] != 'ok' else [r[0] for r in obs[1]], model=m)
		elif m is not None and m[0] != 'ok':
			ctx.broke('correspondence api (model fails, implementation answers)', f'case {c}: model={m}')


# ------------------------------------------------------------------------------------------------
# kind: bundled -- the repository's own pre-computed query signature file and the 50 genomes it was made from
# ------------------------------------------------------------------------------------------------

def _bundled_ids():
	"""the ids stored in tests/data/testdb_210818/queries/query-signatures.gs, read with h5py (not through gambit)"""
	if 'bundled_ids' not in _S:
		import h5py
		with h5py.File(os.path.join(_S['db'], 'queries', 'query-signatures.gs'), 'r') as f:
			_S['bundled_ids'] = [x.decode('utf-8') if isinstance(x, bytes) else str(x) for x in f['ids'][:]]
	return _S['bundled_ids']


def k_bundled(ctx, cases):
	"""No model comparison here (the files are not harness-made): property predicate only."""
	ids = _bundled_ids()
	gdir = os.path.join(_S['db'], 'queries', 'genomes')
	sigpath = os.path.join(_S['db'], 'queries', 'query-signatures.gs')
	os.chdir(os.path.join(_S['root'], 'wd'))
	try:
		for c in cases:
			fmt, perm = c['fmt'], c['perm']
			opts = ['--progress' if c.get('progress') else '--no-progress'] + (['-c', str(c['cores'])] if c.get('cores') else [])
			files = [os.path.join(gdir, ids[i] + ('.fasta.gz' if (i + n) % 2 else '.fasta')) for n, i in enumerate(perm)]
			files = [f if os.path.exists(f) else f + '.gz' for f in files]       # (a checkout may hold the compressed copies only)
			sig = _run_query(fmt, opts + ['-s', sigpath])
			pos = _run_query(fmt, opts + files, len(files))
			ctx.case(c, nontrivial=len(perm) >= 2)
			bad = None
			if sig[0] != 'ok':
				bad = f'query -s of the bundled signature file failed: {sig[1]}'
			elif pos[0] != 'ok':
				bad = f'positional query of {len(files)} bundled genomes failed: {pos[1]}'
			elif [r[0] for r in sig[1]] != ids:
				bad = f'signature file: the labels are not the {len(ids)} stored ids in stored order: {[r[0] for r in sig[1]][:8]}...'
			elif [r[0] for r in pos[1]] != [ids[i] for i in perm]:
				bad = f'positional: the labels are not the file names without directory and extensions, in input order: {[r[0] for r in pos[1]][:8]}...'
			else:
				for n, i in enumerate(perm):
					if pos[1][n][2] != sig[1][i][2]:
						bad = f'row {n} of the positional run (genome {ids[i]}) differs from row {i} of the signature-file run'
						break
			if not bad:
				for i in c['sample']:
					one = _run_query(fmt, ['--no-progress', os.path.join(gdir, ids[i] + '.fasta.gz')], 1)
					if one[0] != 'ok' or len(one[1]) != 1:
						bad = f'singleton query of {ids[i]} failed: {one}'
					elif one[1][0][2] != sig[1][i][2] or one[1][0][0] != ids[i]:
						bad = f'genome {ids[i]} queried alone differs from its row {i} in the batch of {len(ids)}'
					if bad:
						break
			if bad:
				ctx.violation('bundled', c, bad, impl=None if sig[0] != 'ok' else [r[0] for r in sig[1]], spec=ids)
	finally:
		os.chdir(_S['cwd'])


def finish(ctx):
	# show command-line cases among the evidence samples, not only the (first generated) label cases
	ctx.samples[:0] = _S.get('samples', [])


def _timed(name, fn):
	def run(ctx, cases):
		t = time.time()
		try:
			return fn(ctx, cases)
		finally:
			ctx.count('seconds:' + name, round(time.time() - t))
	return run


KINDS = {'label': _timed('label', k_label), 'files': _timed('files', k_files), 'cli': _timed('cli', k_cli),
         'api': _timed('api', k_api), 'bundled': _timed('bundled', k_bundled)}


# ------------------------------------------------------------------------------------------------
# generators
# ------------------------------------------------------------------------------------------------

STEMS = ['A1', 'x', 'my genome', 'GCF_000.1', 'a,b', 'x.fa', 'q"uote', 's.gz', 'fasta', '.hidden', 'gén ome', 'x.FASTA', 'a.fa.b']
EXTS = FASTA_EXT + ['', '.txt', '.FA', '.fas', '.gb']


# gzip containers, by the tools that make them (every one of them a valid gzip file that expands to the genome's bytes):
BGZF_HDR = dict(extra='bgzf', os=255)
GZ_FLAVOURS = [
	('gzip-cli', dict(cut='single', levels=[6], hdr=dict(name='orig name.fasta', mtime=1700000000, os=3))),         # `gzip FILE`
	('gzip-9', dict(cut='single', levels=[9], hdr=dict(name='x.fa', mtime=1, os=3, xfl=2))),                          # `gzip -9`
	('gzip-1', dict(cut='single', levels=[1], hdr=dict(mtime=2 ** 31 + 5, os=3, xfl=4))),                             # `gzip -1 -n`
	('stored', dict(cut='single', levels=[0])),                                                                       # level 0
	('flushed', dict(cut='single', levels=[6], flush=dict(n=5, mode='sync'))),                                        # pigz (one member, many blocks)
	('full-flushed', dict(cut='single', levels=[4], flush=dict(n=3, mode='full'), hdr=dict(comment='made by a flushing writer'))),
	('hdr-all', dict(cut='single', levels=[6], hdr=dict(name='n', comment='c', extra='4142020001ff', hcrc=True, text=True, mtime=123456, os=0))),
	('cat-records', dict(cut='records', levels=[6])),                                                                 # cat rec1.gz rec2.gz ...
	('cat-records-named', dict(cut='records', levels=[9, 1], hdr=dict(name='part.fa', mtime=1600000000, os=3))),
	('cat-two', dict(cut='lines', at=[0.5], levels=[6, 9])),                                                          # cat a.gz b.gz
	('cat-mid-line', dict(cut='frac', at=[0.37], levels=[6])),
	('cat-mid-many', dict(cut='frac', at=[0.1, 0.2, 0.45, 0.7, 0.99], levels=[1, 6, 9, 0])),
	('cut-after-gt', dict(cut='bytes', at=[1], levels=[6])),                                                          # first member holds only '>'
	('cut-before-end', dict(cut='bytes', at=[-1], levels=[6])),                                                       # last member: final newline
	('empty-first', dict(cut='single', levels=[6], empty=['first'])),                                                 # `gzip -c /dev/null; gzip -c x`
	('empty-last', dict(cut='single', levels=[6], empty=['last'])),
	('empty-mid', dict(cut='lines', at=[0.3, 0.6], levels=[6], empty=['mid'])),
	('empty-all', dict(cut='records', levels=[6], empty=['first', 'mid', 'last'], hdr=dict(name='e'), hdr_on='alt')),
	('bgzip', dict(cut='block', block=65280, levels=[6], hdr=BGZF_HDR, eof_block=True)),                              # bgzip (BGZF)
	('bgzip-small', dict(cut='block', block=1000, levels=[6], hdr=BGZF_HDR, eof_block=True)),
	('pigz-i', dict(cut='block', block=2048, levels=[6], hdr=dict(name='pig.fa', mtime=1650000000, os=3), hdr_on='first')),   # pigz -i -b
	('blocks-512', dict(cut='block', block=512, levels=[9])),
	('hdr-rest', dict(cut='lines', at=[0.25, 0.75], levels=[6], hdr=dict(comment='appended', hcrc=True), hdr_on='rest')),
	('huffman', dict(cut='lines', at=[0.5], levels=[6], hdr=dict(strategy='huffman'))),
]


def _rand_gzc(rng):
	"""a random gzip container description:
	  cut      single | records | lines (at fractions) | frac (raw byte offsets at fractions) | bytes (absolute offsets) | block (size)
	  levels   deflate levels 0..9, taken in turn by the members
	  empty    empty members: first / mid / last
	  hdr      optional header fields of the members: name, comment, extra (hex or 'bgzf'), hcrc, text, mtime, os, xfl, strategy
	  hdr_on   all | first | rest | alt: which members carry them
	  flush    deflate blocks inside a member (sync / full flush points)
	  eof_block  bgzip's empty end-of-file member"""
	if rng.random() < 0.3:
		return dict(rng.choice(GZ_FLAVOURS)[1])
	cut = rng.choice(['single', 'records', 'lines', 'frac', 'frac', 'bytes', 'block'])
	gzc = dict(cut=cut, levels=[rng.randint(0, 9) for _ in range(rng.randint(1, 3))])
	if cut in ('lines', 'frac'):
		gzc['at'] = sorted(round(rng.random(), 3) for _ in range(rng.choice([1, 1, 2, 3, 8])))
	elif cut == 'bytes':
		gzc['at'] = sorted(set(rng.choice([1, 2, 5, 60, 61, 100, 1024, -1, -2, -60, -61, -1000]) for _ in range(rng.randint(1, 3))))
	elif cut == 'block':
		gzc['block'] = rng.choice([64, 100, 512, 1000, 1024, 4096, 5000, 65280])
	r = rng.random()
	if r < 0.3:
		gzc['empty'] = rng.sample(['first', 'mid', 'last'], rng.randint(1, 3))
	r = rng.random()
	if r < 0.5:
		hdr = {}
		if rng.random() < 0.6:
			hdr['name'] = rng.choice(['genome.fasta', 'other.fa', 'x', 'sp ace.fna', 'caf\xe9.fa'])
		if rng.random() < 0.3:
			hdr['comment'] = rng.choice(['', 'a comment', '>not a record'])
		if rng.random() < 0.3:
			hdr['extra'] = rng.choice(['', '4142020001ff', '58590000', '00' * 40])
		if rng.random() < 0.3:
			hdr['hcrc'] = True
		if rng.random() < 0.3:
			hdr['text'] = True
		if rng.random() < 0.6:
			hdr['mtime'] = rng.choice([1, 1700000000, 2 ** 32 - 1, 86400])
		hdr['os'] = rng.choice([0, 3, 7, 11, 255])
		if rng.random() < 0.3:
			hdr['xfl'] = rng.choice([2, 4])
		if rng.random() < 0.15:
			hdr['strategy'] = rng.choice(['filtered', 'huffman', 'rle', 'fixed'])
		gzc['hdr'] = hdr
		gzc['hdr_on'] = rng.choice(['all', 'all', 'first', 'rest', 'alt'])
	elif r < 0.6 and cut == 'block' and gzc['block'] >= 512:
		gzc['hdr'], gzc['eof_block'] = dict(BGZF_HDR), rng.random() < 0.8
	if rng.random() < 0.15:
		gzc['flush'] = dict(n=rng.randint(1, 6), mode=rng.choice(['sync', 'full']))
	return gzc


def _rand_input(rng, g=None):
	inp = dict(g=rng.randrange(NG) if g is None else g, dir=rng.choice(['', '', 'sub', 'a/b', 'sp ace']),
	           stem=rng.choice(STEMS), ext=rng.choice(EXTS), gz=rng.random() < 0.5)
	# a third of the compressed inputs of EVERY cli stream come in some other gzip container than one plain member
	if inp['gz'] and rng.random() < 0.35:
		inp['gzc'] = _rand_gzc(rng)
	return inp


def _rand_lf(rng):
	return dict(ldir=rng.choice(['abs', 'abs', 'slash', 'default', 'rel', 'sub']), eol=rng.choice(['\n', '\n', '\r\n', '\r']),
	            lpad=rng.choice(['', '', ' ', '\t']), rpad=rng.choice(['', '', '  ', '\t ']), blanks=rng.random() < 0.3,
	            final_eol=rng.random() < 0.7, abs_lines=rng.random() < 0.25)


def _plain(g):
	return dict(g=g, dir='', stem=f'genome{g}', ext='.fasta', gz=False)


FLAT_BASES = ['A', 'my genome ', 'a,b', 'GCF_000.', 'x.fa.', '-dash', 'gén', '.hid', 'q"']


def _flat_input(rng):
	"""an input of the 'flat' cases: all files share one directory, so the genome's index is part of the stem"""
	g = rng.randrange(NGX)
	inp = dict(g=g, dir='', stem=rng.choice(FLAT_BASES) + str(g), ext=rng.choice(FASTA_EXT + ['', '.txt']), gz=rng.random() < 0.5)
	if inp['gz'] and rng.random() < 0.35:
		inp['gzc'] = _rand_gzc(rng)
	return inp


def generate(ctx):
	rng = ctx.rng
	ctx.rule(RULE)
	for a in ASSUMPTIONS:
		ctx.assume(a)

	# ---- 1. label: exhaustive token strings, then structured names ------------------------------------
	toks = ['x', '.', '.fa', '.gz', '.fasta', '/']
	n_ex = 0
	for n in range(0, 5):
		for combo in itertools.product(toks, repeat=n):
			s = ''.join(combo)
			d, _, name = s.rpartition('/')
			yield 'label', dict(dir=(d + '/') if '/' in s else '', stem=name, ext='', gz='')
			n_ex += 1
	ctx.count('stream:label-exhaustive', n_ex)
	n_st = 0
	for d in ['', 'd/', '/a/b/', './', 'a//', 'x.fa/', 'sp ace/']:
		for stem in STEMS + ['', '.', 'x.fna', 'x.fasta.gz']:
			for ext in EXTS:
				for gz in ['', '.gz', '.GZ', '.bz2']:
					yield 'label', dict(dir=d, stem=stem, ext=ext, gz=gz)
					n_st += 1
	ctx.count('stream:label-structured', n_st)

	# ---- 2. files: get_sequence_files as a function ----------------------------------------------------
	ptoks = ['/', '/', '.', '..', 'a', 'b c', 'x.fa', 'y.fasta.gz', '.gz', 'é']
	ltoks = ['a.fa', 'sub/b.fna.gz', '/abs/c.fasta', ' ', '\t', '\n', '\n', '\r\n', '\r', '\x0b', '\x85', ' ', 'x y', './d.faa', '\x1c']
	for n in range(ctx.pick(1500, 20000)):
		flags = dict(strip_dir=rng.random() < 0.8, strip_ext=rng.random() < 0.8)
		if n % 2 == 0:
			ex = []
			for _ in range(rng.randint(1, 4)):
				p = ''.join(rng.choice(ptoks) for _ in range(rng.randint(1, 6)))
				ex.append(p)
			ex = [p for p in ex if p and '\x00' not in p]
			yield 'files', dict(explicit=ex, text=None, ldir='.', **flags)
		else:
			text = ''.join(rng.choice(ltoks) for _ in range(rng.randint(0, 10)))
			yield 'files', dict(explicit=[], text=text, ldir=rng.choice(['.', 'ld', '/abs/dir', 'ld/', '', 'a/../b', './x']), **flags)
		ctx.count('stream:files-random')
	yield 'files', dict(explicit=[], text=None, ldir='.', strip_dir=True, strip_ext=True)

	# ---- 3. cli: exhaustive small scope -- every ordered selection of <= 3 of 3 genomes x 3 channels ----
	sel = [list(p) for k in (1, 2, 3) for p in itertools.permutations(range(3), k)]
	fmts_ex = ctx.pick(['csv'], ['csv', 'json', 'archive'])
	n_cli = 0
	for fmt in fmts_ex:
		for gs in sel:
			yield 'cli', dict(channel='pos', inputs=[_plain(g) for g in gs], form='abs', fmt=fmt)
			yield 'cli', dict(channel='list', inputs=[_plain(g) for g in gs], lf=dict(ldir='abs'), fmt=fmt)
			yield 'cli', dict(channel='sig', inputs=[_plain(g) for g in gs], ids=[f'stored-{g}' for g in gs], fmt=fmt)
			n_cli += 3
	ctx.count('stream:cli-exhaustive-orders', n_cli)
	ctx.exhaustive = True
	ctx.extra['exhaustive_scope'] = (f'label: all {n_ex} concatenations of <= 4 tokens from {{x . .fa .gz .fasta /}}; '
	                                 f'cli: every ordered selection without repetition of 1..3 out of 3 genomes x '
	                                 f'{{positional, list file, signature file}} x formats {fmts_ex}.  Everything else is sampled.')

	# ---- 4. cli: every extension x gzip x every spelling, cores and progress sweep ---------------------
	for ext in EXTS:
		for gz in (False, True):
			g = rng.randrange(NG)
			yield 'cli', dict(channel='pos', inputs=[dict(g=g, dir='e', stem=f'n{g}', ext=ext, gz=gz), _plain((g + 1) % NG)],
			                  form=rng.choice(['abs', 'dot', 'rel', 'reldot']), fmt=rng.choice(['csv', 'json', 'archive']))
			ctx.count('stream:cli-extensions')
	batch6 = [dict(g=g, dir='c', stem=f's{g}', ext=FASTA_EXT[g % 6], gz=g % 2 == 0) for g in (3, 0, 5, 1, 4, 2)]
	for cores in range(1, ctx.pick(5, 17)):
		for progress in (False, True):
			ch = ['pos', 'list', 'sig'][(cores + progress) % 3]
			c = dict(channel=ch, inputs=batch6, cores=cores, progress=progress, fmt=['csv', 'json', 'archive'][cores % 3])
			if ch == 'pos':
				c['form'] = 'abs'
			elif ch == 'list':
				c['lf'] = dict(ldir='abs')
			else:
				c['ids'] = [f'id{n}' for n in range(6)]
			yield 'cli', c
			ctx.count('stream:cli-cores-progress')

	# ---- 5. cli: random batches (repeats, duplicate labels, odd names, list-file decorations) ----------
	for n in range(ctx.pick(90, 800)):
		k = rng.choice([1, 2, 2, 3, 3, 4, 5, 8])
		inputs = [_rand_input(rng) for _ in range(k)]
		if rng.random() < 0.3 and k >= 2:
			inputs[-1] = dict(inputs[0])                       # the same file twice
		if rng.random() < 0.3 and k >= 2:
			inputs[1] = dict(inputs[0], g=(inputs[0]['g'] + 1) % NG)     # same name, another genome: duplicate label
		c = dict(channel=rng.choice(['pos', 'pos', 'list', 'list', 'sig']), inputs=inputs,
		         cores=rng.choice([None, 1, 2, 3, 4]), progress=rng.random() < 0.5, fmt=rng.choice(['csv', 'json', 'archive']))
		if c['channel'] == 'pos':
			c['form'] = rng.choice(['abs', 'dot', 'rel', 'reldot'])
		elif c['channel'] == 'list':
			c['lf'] = _rand_lf(rng)
		else:
			c['inputs'] = [_plain(i['g']) for i in inputs]
			c['ids'] = [rng.choice(['id', 'x.fasta', 'a b', 'Ünï', '7', 'd/e.fa']) + f'-{m}' for m in range(k)]
			if rng.random() < 0.3 and k >= 2:
				c['ids'][1] = c['ids'][0]
		yield 'cli', c
		ctx.count('stream:cli-random')

	# ---- 5a. cli: genomes of other classes (no k-mer at all: empty file, header only, too short; a reference genome itself)
	for n in range(ctx.pick(10, 60)):
		k = rng.choice([2, 3, 4, 5])
		gs = [rng.randrange(NG, NGX)] + [rng.randrange(NGX) for _ in range(k - 1)]
		rng.shuffle(gs)
		if n == 0:
			gs = list(range(NG, NGX)) + [0]
		inputs = [_rand_input(rng, g) for g in gs]
		c = dict(channel=['pos', 'list', 'sig'][n % 3], inputs=inputs, cores=rng.choice([None, 1, 2, 3]), progress=rng.random() < 0.5,
		         fmt=['csv', 'json', 'archive'][(n // 3) % 3])
		if c['channel'] == 'pos':
			c['form'] = rng.choice(['abs', 'dot', 'rel', 'reldot'])
		elif c['channel'] == 'list':
			c['lf'] = _rand_lf(rng)
		else:
			c['inputs'] = [_plain(g) for g in gs]
			c['ids'] = [f'x{m}-{g}' for m, g in enumerate(gs)]
		yield 'cli', c
		ctx.count('stream:cli-genome-classes')

	# ---- 5a'. cli / api: gzip containers.  Every flavour of GZ_FLAVOURS once (channel, spelling, format, cores in rotation), then
	#      random containers; with and without the '.gz' suffix; mixed with plain and ordinarily compressed files in one batch;
	#      positional / list file / signature file made from the compressed files; query_parse and calc_file_signatures + query with
	#      compression 'auto' and 'gzip'.  The row has to be the row of the UNCOMPRESSED genome queried alone.
	def gz_input(gzc, g=None, suffix=True):
		g = rng.randrange(NGX if rng.random() < 0.15 else NG) if g is None else g
		return dict(g=g, dir=rng.choice(['', 'z']), stem=rng.choice(['A1', 'my genome', 'GCF_000.1', 'x']) + f'_{g}',
		            ext=rng.choice(FASTA_EXT if suffix else FASTA_EXT + ['']), gz=suffix, gzc=gzc)

	def gz_case(n, inputs):
		ch = ['pos', 'list', 'pos', 'sig'][n % 4]
		c = dict(channel=ch, inputs=inputs, cores=[None, 1, 2, 3][(n // 4) % 4], progress=n % 3 == 0, fmt=['csv', 'json', 'archive'][n % 3])
		if ch == 'pos':
			c['form'] = ['abs', 'rel', 'dot', 'reldot'][(n // 2) % 4]
		elif ch == 'list':
			c['lf'] = dict(ldir=['abs', 'default', 'rel'][(n // 4) % 3])
		else:
			c['ids'] = [f'z{m}' for m in range(len(inputs))]
			c['sig'] = dict(how='files')
		return c

	flav = list(GZ_FLAVOURS)
	rng.shuffle(flav)                 # (every flavour in one cli case; channel / format / neighbours differ from seed to seed)
	for n, (fname, gzc) in enumerate(flav):
		inputs = [gz_input(gzc, suffix=n % 5 != 4)]
		if n % 2 == 1:
			inputs.append(_rand_input(rng))
		if n % 3 == 2:
			inputs.insert(0, gz_input(flav[(n + 7) % len(flav)][1]))
		yield 'cli', gz_case(n, inputs)
		ctx.count('stream:cli-gzip-containers')
		ctx.count('gzip-flavour:' + fname)
	for n in range(ctx.pick(16, 200)):
		k = rng.choice([1, 2, 3, 4])
		inputs = [gz_input(_rand_gzc(rng), suffix=rng.random() < 0.75) for _ in range(k)]
		if k >= 2 and rng.random() < 0.4:
			inputs[0] = dict(inputs[1], gzc=_rand_gzc(rng))          # the same genome and name twice, in two containers
		if k >= 3 and rng.random() < 0.5:
			inputs[-1] = _plain(inputs[0]['g'])                       # ... and uncompressed in the same batch
		yield 'cli', gz_case(n + len(flav), inputs)
		ctx.count('stream:cli-gzip-containers')
	for n in range(ctx.pick(12, 80)):
		k = rng.choice([1, 2, 3])
		files = [gz_input(rng.choice(GZ_FLAVOURS)[1] if n % 2 else _rand_gzc(rng), suffix=rng.random() < 0.7) for _ in range(k)]
		c = dict(gs=[i['g'] for i in files], files=files, chunksize=rng.choice([None, 1, 50, 1000]), via=['parse', 'query'][n % 2],
		         compression=['auto', 'auto', 'gzip'][n % 3], export=['json', 'csv', 'archive'][n % 3],
		         inputs_as=rng.choice(['str', 'tuple'] if n % 2 == 0 else ['str', 'QueryInput', 'mixed']))
		if c['compression'] == 'auto' and rng.random() < 0.4:
			c['files'][0] = dict(_plain(c['files'][0]['g']), dir='zp')      # a plain file among them
		yield 'api', c
		ctx.count('stream:api-gzip-containers')

	# ---- 5b. cli: bare file names, the working directory holds the files (and is the default base directory of the list)
	for n in range(ctx.pick(12, 60)):
		k = rng.choice([1, 2, 3, 4, 6])
		inputs = [_flat_input(rng) for _ in range(k)]
		if k >= 3 and rng.random() < 0.4:
			inputs[-1] = dict(inputs[0])
		c = dict(channel=['pos', 'list'][n % 2], flat=True, inputs=inputs, cores=rng.choice([None, 1, 2, 4]), progress=rng.random() < 0.5,
		         fmt=rng.choice(['csv', 'json', 'archive']))
		if c['channel'] == 'pos':
			c['form'] = rng.choice(['bare', 'bare', 'dotbare'])
			if c['form'] == 'bare' and any(_name(i).startswith('-') for i in inputs):
				c['call'] = dict(ddash=True)
			elif rng.random() < 0.3:
				c['call'] = dict(ddash=True)
		else:
			c['lf'] = dict(_rand_lf(rng), ldir=rng.choice(['default', 'default', 'dot', 'dotslash', 'abs']))
		yield 'cli', c
		ctx.count('stream:cli-flat-cwd')

	# ---- 5c. cli: the same command written differently (long options, --opt=value, -oVALUE, options after / between the
	#      positional arguments, no -f, no progress flag, database through --db / the environment, list file on stdin,
	#      --strict / --no-strict: compared with the singleton run under the same flag)
	for n in range(ctx.pick(18, 120)):
		k = rng.choice([2, 3, 4])
		inputs = [_rand_input(rng) for _ in range(k)]
		ch = ['pos', 'list', 'sig'][n % 3]
		call = dict(spell=['long', 'eq', 'attached', 'short'][n % 4], db=['long', 'eq', 'env', 'short'][(n // 2) % 4])
		c = dict(channel=ch, inputs=inputs, cores=rng.choice([None, 2, 3]), progress=rng.choice([True, False, 'default', 'default']),
		         fmt=rng.choice(['csv', 'json', 'archive']), call=call)
		if rng.random() < 0.35:
			c['fmt'], call['omit_fmt'] = 'csv', True
		if rng.random() < 0.4:
			c['strict'] = rng.random() < 0.6
		if ch == 'pos':
			c['form'] = rng.choice(['abs', 'dot', 'rel', 'reldot'])
			call['order'] = rng.choice(['first', 'last', 'split'])
		elif ch == 'list':
			c['lf'] = _rand_lf(rng)
			c['stdin_list'] = rng.random() < 0.5
		else:
			c['inputs'] = [_plain(i['g']) for i in inputs]
			c['ids'] = [f'id {m}' for m in range(k)]
		yield 'cli', c
		ctx.count('stream:cli-call-forms')

	# ---- 5d. cli: -c 5..16 also in the quick tier
	for cores in ctx.pick([16, rng.randint(5, 15)], []):
		ch = rng.choice(['pos', 'list'])
		c = dict(channel=ch, inputs=batch6[:rng.randint(2, 6)], cores=cores, progress=rng.random() < 0.5, fmt=rng.choice(['csv', 'json', 'archive']))
		if ch == 'pos':
			c['form'] = 'abs'
		else:
			c['lf'] = dict(ldir='abs')
		yield 'cli', c
		ctx.count('stream:cli-cores-high')

	# ---- 5e. cli: signature files of other make: written through the Python API (integer ids, 16/32/64-bit values, metadata)
	#      or by `signatures create` without -i (ids derived from the file names)
	for n in range(ctx.pick(8, 40)):
		k = rng.choice([1, 2, 3, 5])
		gs = [rng.randrange(NGX) for _ in range(k)]
		c = dict(channel='sig', inputs=[_plain(g) for g in gs], cores=rng.choice([None, 1, 3]), progress=rng.random() < 0.5,
		         fmt=['csv', 'json', 'archive'][n % 3])
		if n % 4 == 3:
			c['sig'] = dict(how='noids')
			c['ids'] = [f'genome{g}' for g in gs]
		else:
			idkind = ['int', 'str', 'int'][n % 3]
			c['sig'] = dict(how='api', idkind=idkind, dtype=rng.choice(['u2', 'u4', 'u8', 'i8']), meta=rng.random() < 0.5)
			if idkind == 'int':
				c['ids'] = [rng.choice([0, 7, 10 ** 12, 3]) + 100 * m for m in range(k)]
				if k >= 2 and rng.random() < 0.3:
					c['ids'][1] = c['ids'][0]
			else:
				c['ids'] = [rng.choice(['7', 'x/y.fasta.gz', ' lead', 'naïve', '']) + f'#{m}' for m in range(k)]
		yield 'cli', c
		ctx.count('stream:cli-sig-variants')

	# ---- 5f. cli: large batches
	for n in range(ctx.pick(2, 6)):
		k = rng.randint(24, 40)
		inputs = [_rand_input(rng, rng.randrange(NGX)) for _ in range(k)]
		c = dict(channel=['pos', 'list'][n % 2], inputs=inputs, cores=rng.choice([None, 3]), progress=rng.random() < 0.5, fmt=['json', 'csv'][n % 2])
		if c['channel'] == 'pos':
			c['form'] = rng.choice(['abs', 'rel'])
		else:
			c['lf'] = _rand_lf(rng)
		yield 'cli', c
		ctx.count('stream:cli-large-batch')

	# ---- 5g. cli: a process of its own, rows on the standard output (no -o), progress display on (it goes to stderr)
	for n in range(ctx.pick(2, 9)):
		k = rng.choice([2, 3])
		inputs = [_rand_input(rng) for _ in range(k)]
		ch = ['pos', 'list', 'sig'][n % 3]
		c = dict(channel=ch, inputs=inputs, cores=[2, None, 1][n % 3], progress=['default', True, False][n % 3], fmt=['csv', 'json', 'archive'][n % 3],
		         call=dict(proc=True, db=['env', 'short', 'long'][n % 3], omit_fmt=n % 3 == 0))
		if ch == 'pos':
			c['form'] = 'rel'
		elif ch == 'list':
			c['lf'] = _rand_lf(rng)
			c['stdin_list'] = True
		else:
			c['inputs'] = [_plain(i['g']) for i in inputs]
			c['ids'] = [f'p{m}' for m in range(k)]
		yield 'cli', c
		ctx.count('stream:cli-process-stdout')

	# ---- 5h. the repository's own signature file (50 ids) against the 50 genome files it was computed from
	nb = len(_bundled_ids())
	for n in range(ctx.pick(2, 6)):
		perm = list(range(nb))
		if n % 2 == 0:
			rng.shuffle(perm)
		else:
			perm = [rng.randrange(nb) for _ in range(rng.randint(5, 20))]
		yield 'bundled', dict(fmt=['csv', 'json', 'archive'][n % 3], perm=perm, sample=rng.sample(range(nb), ctx.pick(3, 8)),
		                      cores=rng.choice([None, 2]), progress=n % 2 == 1)
		ctx.count('stream:bundled-sigfile')

	# ---- 6. api: chunk sizes -----------------------------------------------------------------------------
	chunks = ctx.pick([None, 1, 7, 106, 212, 213, 214, 1000], [None, 1, 2, 3, 7, 50, 106, 107, 212, 213, 214, 1000])
	for n, cs in enumerate(chunks):
		for via in ctx.pick([('parse', 'query')[n % 2]], ['parse', 'query']):
			gs = rng.sample(range(NG), rng.randint(2, 4))
			yield 'api', dict(gs=gs, chunksize=cs, via=via)
			ctx.count('stream:api-chunks')

	# ---- 6a. api: other call forms of query / query_parse (see _api_call): random chunk sizes, the chunk size as NumPy
	#      integer / keyword / positional field, inputs as QueryInput / SequenceFile / tuple / mixed / absent, the query
	#      signatures as list / tuple / SignatureList / SignatureArray / index view / file-backed collection in 16/32/64 bits,
	#      every exporter, progress arguments, a QueryParams object and a parse_kw dict shared by two calls, genomes
	#      without k-mers
	nref = 213
	conts = ['pylist', 'tuple', 'SignatureList', 'SignatureArray', 'view', 'hdf5']
	for n in range(ctx.pick(40, 300)):
		k = rng.choice([1, 2, 3, 4, 6])
		gs = [rng.randrange(NGX) for _ in range(k)]
		cs = rng.choice([None, 1, 2, rng.randint(1, 30), rng.randint(1, nref + 3), nref - 1, nref, nref + 1, 10 ** 6])
		c = dict(gs=gs, chunksize=cs, via=['query', 'query', 'parse'][n % 3], export=['json', 'csv', 'archive'][n % 3 if n % 2 else (n // 2) % 3])
		c['cs_as'] = rng.choice(['int', 'np', 'kw', 'positional'])
		c['inputs_as'] = rng.choice(['str', 'tuple', 'none'] if c['via'] == 'parse' else ['str', 'QueryInput', 'SequenceFile', 'mixed', 'tuple', 'none'])
		if c['via'] == 'query':
			c['container'] = conts[(n // 3) % len(conts)]
			c['dtype'] = rng.choice(['u2', 'u4', 'u8', 'u8'])
		if rng.random() < 0.4:
			c['progress'] = rng.choice(['click', 'test', 'false', 'config'])
		if c['cs_as'] == 'int' and rng.random() < 0.6:
			c['reuse'] = True
		yield 'api', c
		ctx.count('stream:api-call-forms')

	# ---- 6b. files: other call forms of get_sequence_files (strings / tuple / pure paths, the list file as a path, the base
	#      directory as a pathlib path, positional arguments)
	for n in range(ctx.pick(400, 4000)):
		flags = dict(strip_dir=rng.random() < 0.8, strip_ext=rng.random() < 0.8, positional_call=rng.random() < 0.3)
		if n % 2 == 0:
			ex = [''.join(rng.choice(ptoks) for _ in range(rng.randint(1, 6))) for _ in range(rng.randint(1, 4))]
			yield 'files', dict(explicit=ex, text=None, ldir='.', explicit_as=rng.choice(['str', 'tuple', 'PurePath']), **flags)
		else:
			text = ''.join(rng.choice(ltoks) for _ in range(rng.randint(0, 10)))
			yield 'files', dict(explicit=[], text=text, ldir=rng.choice(['.', 'ld', '/abs/dir', 'ld/', '', 'a/../b', './x']),
			                    lf_as=rng.choice(['str', 'Path', 'handle']), ldir_as=rng.choice(['str', 'Path']), **flags)
		ctx.count('stream:files-call-forms')

	# ---- 7. malformed ------------------------------------------------------------------------------------
	yield 'cli', dict(channel='list', inputs=[], lf=dict(ldir='abs', blanks=True), fmt='csv', expect_error=True)
	yield 'cli', dict(channel='pos', inputs=[], form='abs', fmt='csv', expect_error=True)
	for cs in (0, -1, -1000):
		yield 'api', dict(gs=[0, 1], chunksize=cs, via='parse')
	yield 'api', dict(gs=[], chunksize=10, via='query')
	ctx.count('stream:malformed', 6)
	# two input channels at once (mutually exclusive: otherwise some of the inputs named on the command line get no row);
	# a signature file without signatures
	two = [_plain(1), _plain(4)]
	yield 'cli', dict(channel='pos', inputs=two, form='abs', fmt='csv', also_sig=dict(gs=[2, 0], ids=['s2', 's0']), expect_error=True)
	yield 'cli', dict(channel='list', inputs=two, lf=dict(ldir='abs'), fmt='json', also_sig=dict(gs=[2], ids=['s2']), expect_error=True)
	yield 'cli', dict(channel='pos', inputs=two, form='abs', fmt='csv', also_list=True, expect_error=True)
	yield 'cli', dict(channel='sig', inputs=[], ids=[], sig=dict(how='api', idkind='str', dtype='u8'), fmt='csv', expect_error=True)
	ctx.count('stream:malformed-channels', 4)
