"""C13 -- multi-file signature computation keeps file order under every completion order.

Tie: B.  `gambit.sigs.calc.calc_file_signatures` (imported in place) is run

  sched  with a harness-supplied `concurrent.futures.Executor` whose futures stay unfinished until a
         controller thread completes them in a CHOSEN order sigma.  The controller starts once all n
         jobs are submitted and steps on the progress meter (`meter.increment()` follows every
         `sigs[i] = future.result()`), so each wake-up of `as_completed` sees exactly one newly
         finished future and the order in which the code consumes the futures is exactly sigma.
         Either passed as `executor=` or patched in for `ThreadPoolExecutor`/`ProcessPoolExecutor`
         in gambit.sigs.calc (paths `threads`/`processes`, which also shows max_workers arriving).
  pool   with real thread / process pools (owned by the call, or caller-supplied and wrapped so the
         completion order is recorded), max_workers 1..8, size-skewed FASTA files that make later
         files finish first, unreadable / malformed files at every position, concurrency=None.
  cli    `gambit signatures create -c N` in process, reading the written signature file back.

The same case is given to the extracted model (Model/C13.v: ops 1301 run_executor, 1303
calc_file_signatures, 1304 specification, 1306 pool_order, 1307 err_codes).  Model inputs are the
harness's own structures: a pure-Python reference signature of the sequences it wrote and its own
table of what is wrong with each bad file; the futures' identities are the executor's own counter.

Property predicate (what is reported as a violation with the input as replay): the call returns a
list with one signature per file, in file order, each equal to `calc_file_signature` of that file
-- or, if a file is unreadable, raises (the exception of one of the unreadable files).  A
model/implementation difference that leaves this predicate true is reported as a broken tie.

Coverage audit (statement / quantifier / observe-at item -> stream that drives it on the IMPLEMENTATION;
P = property predicate checked there, M = also compared with the model; [new] = added by the audit):
  one signature per file, file order, = single-file result   every stream (P); sched/pool/cli/var (M)
  sequential                                 pool 'sequential' (PM); var mode seq x containers/progress/kspec [new]
  threads / processes, owned pool            pool real-pool-* (PM); sched patched pool classes (PM, exhaustive n<=4)
  concurrency left at its default            cli (PM); var mode 'default' [new] (PM)
  worker counts                              pool 1..8,None (PM); sched max_workers arriving; var-worker-counts [new]: NumPy
                                             integer scalars, 13/16/32 workers (PM), 0/-1/float/str (P, may refuse)
  caller-supplied executor                   sched supplied (PM, exhaustive n<=5); pool supplied + second batch (PM);
                                             var-supplied-executor-kinds [new]: synchronous executor (all futures finished
                                             before waiting starts), burst executor (several futures finish per wake-up, any
                                             split), pool busy with the caller's other jobs, two concurrent calls sharing
                                             one pool, spawn/forkserver process pools, unwrapped pools, second batch through
                                             each; concurrency=/max_workers= passed next to executor= (any value) (PM / P)
  every completion order                     sched exhaustive + random + model pool orders (PM); simultaneous completions: burst/sync [new]
  size skews, later files finish first       pool real-pool-skewed (big file first) (PM); var-skew-shapes [new]: big file in the
                                             middle / last but one / descending / alternating / big gzip / slow-failing big file
  unreadable file at every position          sched exhaustive x 6 classes, pool, sequential (PM); [new] 12 more classes (error
                                             late in the file, bad gzip CRC, ELOOP, ENAMETOOLONG, dangling link, bad FASTQ,
                                             wrong format / compression name, str / None element): sched-new-file-classes
                                             (all orders x all positions, n=3) and var-new-unreadable-classes (every position,
                                             every mode) -- outside the model's error table, judged by P alone
  readable file classes                      FASTA / gzip / empty record (PM); [new] FASTQ, GenBank, CRLF, non-ASCII name with
                                             shell characters, symlink, 300 contigs, zero-byte file, relative path, big gzip (PM)
  repeated files, empty list, single file    pool repeated-file (equal objects) (PM); [new] the same OBJECT repeated (same_obj)
  arguments the statement does not mention   [new] var-call-forms: files as tuple/deque/Sequence class (PM), ndarray/generator
                                             (P, may refuse); progress = None/False/True/'click'/ProgressConfig/class/callable;
                                             positional / all-keyword call; k-mer specs 4/ATG, 11/ATGAC, 12/ATG (set
                                             accumulator, uint32), 17/AT (uint64); compression='auto' (PM)
  progress meter x mode x unreadable file    var-progress-unreadable [round 8]: EVERY value of progress= (left out / None / False / True / 'click' /
                                             'tqdm' where installed / ProgressConfig with the default and with the caller's stream / the
                                             Click, Null and Test meter classes / caller's subclass / factory function / caller's meter whose
                                             close() returns a value) x seq, threads, sup-sync + process / default / supplied pools x an
                                             unreadable file at EVERY position (n=3; thorough n=2,3,5), a single unreadable file, a file
                                             failing part-way, the all-readable and the empty list (PM: the meter is a context manager around
                                             the collecting loop, the failure must still reach the caller); entry-query-parse-progress: the
                                             same values through query_parse(progress=..., parse_kw=concurrency none/threads) (P)
  gambit signatures create -c N              cli 7 fixed cases (PM); cli-variants [new]: -l list file, --ldir, --cores, progress
                                             bar on, default / other k-mer spec, -c up to 12, repeated and unreadable files;
                                             labels written next to the signatures must not be permuted (P)
  other entry points reaching the code       [new] entry: gambit dist (-q/-r/--ql/--rl/--square, -c), gambit query, and
                                             gambit.query.query_parse(parse_kw=concurrency/max_workers/executor) -- P on the
                                             printed rows / result items (row i = distances of file i's signature)
  not driven: gambit tree (same call as dist -s; its output is a tree, judged by C17); executors that break the
  concurrent.futures contract (duplicate / never-finishing futures: excluded by ASSUMPTIONS).

State and aliasing (audit of what can outlive ONE call; kind `seq` = a script of 2-8 calls over shared objects):
  entry points: calc_file_signatures(kspec, files, progress, concurrency, max_workers, executor); calc_file_signature(kspec,
  seqfile, accumulator=) (the "single-file result"); gambit signatures create / dist / query (in process); gambit.query.
  query_parse(db, files, params, file_labels=, parse_kw=, progress=).
  dimensions: (a) reused across calls whose other arguments differ, both orders  (b) caller's object unmodified after every
  call  (c) a call that fails part-way, then good calls on the same thread and objects  (d) same call twice, same result
  (e) second thread / after fork.   "old" = covered before the audit, by which stream; everything else is kind seq.
  object (owner, lifetime)                        (a)                            (b)                 (c)                    (d)   (e)
  files: the caller's list/tuple/deque/Sequence   lists A,B,C (other size, other  length, element      bad file in the middle  twice helper/fresh
    and its SequenceFile elements (frozen attrs)  order, shared elements) x two   identity, path/      (C); container raising  flag  thread;
    -- old: one rotated/reversed second batch     k-mer specs x every mode        format/compression  at element j, once            processes =
       through a supplied executor (pool, var)                                    + size/mtime on disk (FaultyList)                  after fork
  the FILE behind a path (caller may rewrite it   rewrite steps: mut0/mut1 get     --                  variant 'bad' (fails    yes   yes
    between calls): any memo keyed by path        other content/size, unreadable,                     late), 'gone', back
                                                  back again; all entry points                        to readable
  kspec: the caller's KmerSpec (frozen attrs)     k0/k1 objects x lists, both      all 7 fields        yes                     yes   yes
                                                  orders (also k>11: set acc.)
  executor: caller-supplied pool (threads w=1..3, lists x k-mer specs through ONE  still accepts jobs  bad file; submit()      yes   calls from two
    processes w=1..2, synchronous), open for the  executor; also named in a        (next step runs     refusing job j, once;         threads, one after
    whole case -- worker threads keep thread-     parse_kw dict of query_parse     through it)         meter raising at j            the other (at once: old)
    locals, worker processes keep module globals
    -- old: second batch, busy/shared pool (var)
  progress: ProgressConfig (kw dict), meter class one shared ProgressConfig over   callable identity,  meter.increment raises  yes   yes
    / factory; gambit.util.progress.REGISTRY      all calls of a case              kw dict, REGISTRY   at step j, once
    -- the METER created per call lives inside  (not shared: one per call)       --                  [round 8] a file fails  --    --
       the call: it is entered around the loop                                                         while a display-backed
       and closed on the way out of a failure                                                          / value-returning meter
                                                                                                       is open, every position
                                                                                                       x mode (kind var)
  result: the SignatureList / arrays handed back  overwritten in place and         --                  --                      twice --
    (the caller's; MutableSequence)               emptied after every step: no
                                                  later result may share storage
  accumulator= of calc_file_signature             a0/a1 over several files         DOCUMENTED to       fresh-accumulator calls       helper
    (caller-supplied, documented to collect)      between batches                  collect: judged as  and batches in between
                                                                                   "union so far"
  parse_kw dict, file_labels list, db object      one dict / list / database over  shallow compare     unreadable file in a    --    main thread
    (query_parse)                                 lists of other size, both        (skips exactly the  batch, then good batch        only (the db
    -- old: db object reused by all qparse cases  orders; dict names concurrency / known 'progress'                                  holds an SQLite
                                                  max_workers / an executor        key, see below)                                   session)
  module / process state of gambit.sigs.calc,     API calls interleaved with the   pool classes, cwd,  every kind of failure   yes   fork after the
    gambit.cli.*, click context; cwd; thread-     in-process commands (signatures  REGISTRY compared   above, then in-process        parent made
    locals of the calling thread                  create, dist --square, query)    after every step    commands                      calls
  Found in the unchanged code: query_parse adds a 'progress' entry to the CALLER's parse_kw dict (setdefault on the
  argument); a later call with the same dict and another progress= reports parsing to the FIRST call's meter settings.  The
  signatures are unaffected, so it is counted (seq:skipped-known-...), not reported; fix proposed in
  repo_fixes/C13-parse-kw-not-modified.diff."""
import gzip
import itertools
import os
import random
import threading
import time
from concurrent.futures import Executor, Future, ThreadPoolExecutor, ProcessPoolExecutor

PROP = 'C13'
RULE = ('sched: (files, chosen completion order sigma, path supplied|threads|processes) -> result list or exception; '
        'non-trivial: >=2 files with pairwise distinct signatures and sigma != submission order, or an unreadable '
        'file among >=2 files.  pool: real thread/process pool, max_workers, size-skewed files; non-trivial: >=2 '
        'distinct files and (observed completion order != submission order, or a bad file, or a skew with >=2 workers). '
        'cli: signatures create -c N (also list files, --cores, progress bar, other k-mer specs); non-trivial: >=2 distinct files.  '
        'var: (files incl. the audit\'s extra readable/unreadable classes, mode seq|threads|processes|default|sup-*, container, '
        'progress argument (every accepted kind x mode x position of an unreadable file), call form, worker count and its type, k-mer spec, compression=auto, same object repeated) -> result list or '
        'exception, plus a second batch / a concurrent second call through a caller-supplied executor; non-trivial: >=2 files with '
        'distinct signatures.  entry: gambit dist / gambit query / query_parse on genome files -> row i must be the distances of '
        'file i\'s single-file signature (reference family with pairwise different distances), failure iff a file is unreadable; '
        'non-trivial: >=2 distinct query files.  seq: a script of 2-8 steps (calc_file_signatures / calc_file_signature / signatures create / '
        'dist / query / query_parse / rewrite a file) over shared caller objects (file lists, KmerSpecs, executors, ProgressConfig, parse_kw, '
        'accumulators) -> per step the result list or exception judged against the harness\'s reference signatures of what the files hold '
        'at that moment, caller objects unchanged, repeated call = same result; non-trivial: >=2 judged calls, one of them on >=2 distinct files')
TRUSTED = ['concurrent.futures (Future, as_completed, ThreadPoolExecutor, ProcessPoolExecutor) is runtime: modelled as '
           '"submit returns a fresh future; future.result() returns/re-raises the job\'s outcome; as_completed yields every '
           'future once, in any order" -- the harness executor realises exactly this contract with a chosen order',
           'Biopython FASTA parsing / gzip / open(): which exception an unreadable file raises is taken from the '
           'harness table and cross-checked against calc_file_signature on that file alone',
           'harness-side controller thread + progress-meter stepping (makes the consumption order equal to sigma)',
           'kind seq: the harness\'s snapshot of the caller-owned objects (length / element identity / attrs fields / dict items / size+mtime '
           'of the input files) is what "unmodified" means; a violation seen in the shared campaign process is re-run alone in a fresh '
           'interpreter and marked as (not) self-contained']
ASSUMPTIONS = ['executor.submit returns a distinct Future per call (NoDup hypothesis of the theorems; asserted by the '
               'harness executor)',
               'as_completed yields each submitted future exactly once (Permutation hypothesis); for any other yield '
               'sequence C13_never_wrong_list still excludes a wrong list',
               'files are not modified while the call runs; jobs are independent (calc_file_signature has no shared state) -- '
               'kind seq rewrites files only BETWEEN calls, where the property still promises the single-file result of the file as it is now',
               'kind seq: a result the caller received is the caller\'s to overwrite; an accumulator= argument is documented to collect; '
               'query_parse is called from the thread that opened the database (SQLite sessions are thread-bound)']
BATCH = 400
SHRINK = False     # cases are generated smallest-first; generic list shrinking would break "sigma is a permutation"

K = 8
PREFIX = 'AT'
POOL_SEED = 130013

#: what is wrong with a bad file -> (model error code, exception class the single-file call raises)
BAD = {
	'missing': (1, 'FileNotFoundError'),
	'nohdr': (2, 'ValueError'),
	'binary': (3, 'UnicodeDecodeError'),
	'dir': (4, 'IsADirectoryError'),
	'notgz': (5, 'BadGzipFile'),
	'truncgz': (6, 'EOFError'),
}
CODE_OF_EXC = {v[1]: v[0] for v in BAD.values()}
OTHER = {(3, 1): 'AssertionError', (3, 2): 'KeyError', (3, 3): 'IndexError', (3, 4): 'ValueError(concurrency)'}

_COMP = str.maketrans('ACGTacgt', 'TGCAtgca')
_S = {}       # per-process state: scratch dir, file table


# ------------------------------------------------------------------------------------------------
# files
# ------------------------------------------------------------------------------------------------

def ref_signature(seqs, K=K, PREFIX=PREFIX):
	"""pure-Python reference: sorted k-mer indices following PREFIX on either strand"""
	found = set()
	plen = len(PREFIX)
	for s in seqs:
		s = s.upper()
		for strand in (s, s.translate(_COMP)[::-1]):
			p = strand.find(PREFIX)
			while p >= 0:
				km = strand[p + plen:p + plen + K]
				if len(km) == K and all(c in 'ACGT' for c in km):
					idx = 0
					for c in km:
						idx = idx * 4 + 'ACGT'.index(c)
					found.add(idx)
				p = strand.find(PREFIX, p + 1)
	return sorted(found)


def _write_fasta(path, seqs, gz=False):
	text = ''.join(f'>contig{i} test\n' + '\n'.join(s[j:j + 70] for j in range(0, len(s), 70)) + '\n' for i, s in enumerate(seqs))
	if gz:
		with gzip.open(path, 'wt') as f:
			f.write(text)
	else:
		with open(path, 'w') as f:
			f.write(text)


def _file_table():
	"""fid -> dict(path, compression, ref (list|None), code (int|None), size).  Deterministic (own seed),
	so a replayed case sees the same files."""
	if 'files' in _S:
		return _S['files']
	from vf import impl
	d = impl.scratch_dir('gambit-verif-c13-')
	rng = random.Random(POOL_SEED)
	files = {}

	def good(fid, lens, gz=False):
		seqs = [''.join(rng.choice('ACGT') for _ in range(n)) for n in lens]
		# a few lower-case / N characters, as real assemblies have
		if len(seqs[0]) > 50:
			s = seqs[0]
			seqs[0] = s[:20] + 'NNNN' + s[24:40].lower() + s[40:]
		path = os.path.join(d, fid + ('.fa.gz' if gz else '.fa'))
		_write_fasta(path, seqs, gz)
		files[fid] = dict(path=path, compression='gzip' if gz else None, ref=ref_signature(seqs), code=None, size=sum(lens), seqs=seqs)

	for i in range(16):
		good(f's{i}', [rng.randint(150, 400), rng.randint(60, 300)])
	for i in range(2):
		good(f'z{i}', [rng.randint(150, 400)], gz=True)
	for i in range(4):
		good(f'm{i}', [rng.randint(15000, 30000)])
	for i in range(3):
		good(f'b{i}', [rng.randint(120000, 160000), 5000])
	good('e0', [0])    # a FASTA record with an empty sequence: readable, empty signature

	def bad(fid, name, compression=None):
		files[fid] = dict(path=os.path.join(d, name), compression=compression, ref=None, code=BAD[fid][0], size=0)

	bad('missing', 'does-not-exist.fa')
	bad('nohdr', 'nohdr.fa')
	with open(files['nohdr']['path'], 'w') as f:
		f.write('ATGGGGGGGGGATCCCCCCCCCC\n')
	bad('binary', 'binary.fa')
	with open(files['binary']['path'], 'wb') as f:
		f.write(b'>x\n' + bytes(range(256)))
	bad('dir', 'dir.fa')
	os.makedirs(files['dir']['path'])
	bad('notgz', 'notgz.fa.gz', 'gzip')
	with open(files['notgz']['path'], 'w') as f:
		f.write('>a\nATGGGGGGGGGG\n')
	bad('truncgz', 'trunc.fa.gz', 'gzip')
	with open(files['truncgz']['path'], 'wb') as f:
		f.write(gzip.compress(b'>a\nATGGGGGGGGGGATCCCCCCCCCC\n' * 200)[:60])
	_more_files(d, files)
	_mut_files(d, files)
	_S['files'] = files
	_S['dir'] = d
	return files


def _more_files(d, files):
	"""file classes added by the coverage audit.  Own generator, created after the original files, so the
	original files stay byte-identical (corpus cases keep their meaning).
	good files: ref/seqs as above (+ 'format', 'id' = the label the command line derives from the name).
	bad files outside the model's error table: code None, ref None, xbad = what is wrong (judged by the
	property predicate alone: the single-file call of the implementation says whether they are unreadable)."""
	rng = random.Random(POOL_SEED + 1)

	def rseq(n):
		return ''.join(rng.choice('ACGT') for _ in range(n))

	def fasta_text(seqs, nl='\n'):
		return ''.join(f'>c{i} x{nl}' + nl.join(s[j:j + 60] for j in range(0, len(s), 60)) + nl for i, s in enumerate(seqs))

	def good(fid, name, seqs, text=None, fmt='fasta', compression=None, **kw):
		path = os.path.join(d, name)
		if text is not None:
			with (gzip.open(path, 'wt', newline='') if compression == 'gzip' else open(path, 'w', newline='')) as f:
				f.write(text)
		files[fid] = dict(path=path, format=fmt, compression=compression, ref=ref_signature(seqs), code=None,
		                  size=sum(len(x) for x in seqs), seqs=seqs, **kw)

	# a family of related genomes (nested contig sets): pairwise distances all differ, so a distance
	# matrix / a database query identifies which signature sits where
	contigs = [rseq(300) for _ in range(48)]
	for i in range(8):
		seqs = contigs[:6 * (i + 1)]
		good(f'f{i}', f'f{i}.fa', seqs, fasta_text(seqs), id=f'f{i}')
	seqs = [rseq(200) for _ in range(3)]
	good('q0', 'reads.fastq', seqs, ''.join(f'@r{i}\n{x}\n+\n{"I" * len(x)}\n' for i, x in enumerate(seqs)), fmt='fastq')
	seqs = [rseq(500), rseq(320)]
	good('g0', 'genome.gb', seqs, fmt='genbank')
	from Bio import SeqIO
	from Bio.Seq import Seq
	from Bio.SeqRecord import SeqRecord
	SeqIO.write([SeqRecord(Seq(x), id=f'G{i}', name=f'G{i}', description='verif', annotations={'molecule_type': 'DNA'})
	             for i, x in enumerate(seqs)], files['g0']['path'], 'genbank')
	seqs = [rseq(260), rseq(130)]
	good('c0', 'crlf.fa', seqs, fasta_text(seqs, '\r\n'), id='crlf')
	seqs = [rseq(300)]
	good('u0', "g\u00e9n ome (1) [x] 'q' $HOME;#&-\u4e2d.fasta", seqs, fasta_text(seqs), id="g\u00e9n ome (1) [x] 'q' $HOME;#&-\u4e2d")
	seqs = [rseq(rng.randint(30, 60)) for _ in range(300)]
	good('n0', 'many-contigs.fa', seqs, fasta_text(seqs), id='many-contigs')
	seqs = [rseq(140000)]
	good('zb0', 'zbig.fa.gz', seqs, fasta_text(seqs), compression='gzip', id='zbig')
	good('x0', 'zero-bytes.fa', [], '', id='zero-bytes')
	seqs = [rseq(280)]
	good('rel0', 'relative.fa', seqs, fasta_text(seqs), id='relative')
	files['rel0']['path'] = os.path.relpath(files['rel0']['path'])
	seqs = [rseq(240)]
	good('k0', 'link-target.fa', seqs, fasta_text(seqs), id='link-target')
	files['k1'] = dict(files['k0'], path=os.path.join(d, 'link.fa'), id='link')
	os.symlink(files['k0']['path'], files['k1']['path'])

	def xbad(fid, name, what, content=None, fmt='fasta', compression=None, elem='seqfile'):
		path = os.path.join(d, name)
		if content is not None:
			with open(path, 'wb') as f:
				f.write(content)
		files[fid] = dict(path=path, format=fmt, compression=compression, ref=None, code=None, size=len(content or b''), xbad=what, elem=elem)

	xbad('late', 'late.fa', 'undecodable byte after three good records', fasta_text([rseq(900), rseq(900), rseq(900)]).encode() + b'>z\nACGT\xff\xfe\n')
	xbad('latebig', 'latebig.fa', 'undecodable byte after 150 kb of good sequence (fails late)', fasta_text([rseq(150000)]).encode() + b'>z\nAC\xff\n')
	raw = gzip.compress(fasta_text([rseq(3000)]).encode())
	xbad('badcrc', 'badcrc.fa.gz', 'gzip member with a wrong CRC (detected at end of stream)', raw[:-8] + bytes([raw[-8] ^ 1]) + raw[-7:], compression='gzip')
	xbad('longname', 'n' * 300 + '.fa', 'file name longer than NAME_MAX')
	xbad('loop', 'loop.fa', 'symbolic link to itself')
	os.symlink(files['loop']['path'], files['loop']['path'])
	xbad('dangling', 'dangling.fa', 'symbolic link to nothing')
	os.symlink(os.path.join(d, 'no-such-target'), files['dangling']['path'])
	xbad('badfastq', 'bad.fastq', 'FASTQ record whose quality string is too short', b'@r1\nACGTATGGGGGGGGGG\n+\nIIII\n', fmt='fastq')
	xbad('gbasfa', 'genbank-as.fa', 'GenBank text declared as FASTA', open(files['g0']['path'], 'rb').read())
	xbad('badfmt', 'badfmt.fa', 'SequenceFile with an unknown format name', b'>a\nATGGGGGGGGGGACGT\n', fmt='no-such-format')
	xbad('badcomp', 'badcomp.fa', 'SequenceFile with an unknown compression name', b'>a\nATGGGGGGGGGGACGT\n', compression='zip9')
	xbad('strelem', 'plain-str.fa', 'list element is a plain str path, not a SequenceFile', fasta_text([rseq(200)]).encode(), elem='str')
	xbad('noneelem', 'none', 'list element is None', elem='none')


XBAD = ['late', 'latebig', 'badcrc', 'longname', 'loop', 'dangling', 'badfastq', 'gbasfa', 'badfmt', 'badcomp', 'strelem', 'noneelem']

#: files whose CONTENT changes between the steps of a sequence case (kind seq): same path, same SequenceFile
#: object, other content / size / readability.  Only kind seq names them.
MUT = ['mut0', 'mut1']
#: variants: 0..3 readable FASTA of different sizes; 'bad' = three good records, then an undecodable byte (the
#: single-file call fails part-way through the file); 'gone' = the file is removed
MUT_VARIANTS = [0, 1, 2, 3, 'bad', 'gone']


def _mut_files(d, files):
	for name in MUT:
		files[name] = dict(path=os.path.join(d, name + '.fa'), format='fasta', compression=None, ref=None, code=None, size=0, mutable=True, id=name)


def _mut_variant(name, v):
	"""-> dict(data bytes | None, seqs | None, code): deterministic in (name, v), so a replay sees the same content"""
	cache = _S.setdefault('mutv', {})
	if (name, v) not in cache:
		rng = random.Random(f'{POOL_SEED}/{name}/{v}')

		def rseq(n):
			return ''.join(rng.choice('ACGT') for _ in range(n))

		def text(seqs):
			return ''.join(f'>m{i} {name} v{v}\n' + '\n'.join(s[j:j + 60] for j in range(0, len(s), 60)) + '\n' for i, s in enumerate(seqs))
		if v == 'gone':
			cache[name, v] = dict(data=None, seqs=None, code=1, exc='FileNotFoundError')
		elif v == 'bad':
			cache[name, v] = dict(data=text([rseq(400), rseq(400), rseq(400)]).encode() + b'>z\nACGT\xff\xfe\n', seqs=None, code=3, exc='UnicodeDecodeError')
		else:
			seqs = [rseq(n) for n in ([300, 120], [900, 500, 200], [150], [2500, 60])[int(v)]]
			cache[name, v] = dict(data=text(seqs).encode(), seqs=seqs, code=None, exc=None)
	return cache[name, v]


def _mut_write(name, v):
	path = _file_table()[name]['path']
	data = _mut_variant(name, v)['data']
	if data is None:
		if os.path.exists(path):
			os.remove(path)
		return
	with open(path, 'wb') as f:
		f.write(data)


def _mut_ref(name, v, ks=None):
	cache = _S.setdefault('mutrefs', {})
	if (name, v, ks) not in cache:
		seqs = _mut_variant(name, v)['seqs']
		cache[name, v, ks] = ref_signature(seqs) if ks is None else ref_signature(seqs, ks[0], ks[1])
	return cache[name, v, ks]


def _kspec(ks=None):
	"""ks: None (the default K/PREFIX) or (k, prefix)"""
	from gambit.kmers import KmerSpec
	return KmerSpec(K, PREFIX) if ks is None else KmerSpec(int(ks[0]), ks[1])


def _ks(case):
	ks = case.get('kspec')
	return None if ks is None or (ks[0], ks[1]) == (K, PREFIX) else (int(ks[0]), str(ks[1]))


def _seqfile(fid, auto=False):
	"""the list element for file `fid`: a SequenceFile (auto: compression='auto', as the command line passes it),
	or, for the two malformed-element classes, a str / None"""
	from gambit.seq import SequenceFile
	f = _file_table()[fid]
	if f.get('elem') == 'str':
		return f['path']
	if f.get('elem') == 'none':
		return None
	return SequenceFile(f['path'], f.get('format', 'fasta'), 'auto' if auto else f['compression'])


def _ref(fid, ks=None):
	"""the harness's reference signature of a good file for k-mer spec ks (None for a bad file)"""
	f = _file_table()[fid]
	if ks is None or f['ref'] is None:
		return f['ref']
	cache = _S.setdefault('refs', {})
	if (fid, ks) not in cache:
		cache[fid, ks] = ref_signature(f['seqs'], ks[0], ks[1])
	return cache[fid, ks]


def _is_bad(fid):
	f = _file_table()[fid]
	return f['code'] is not None or 'xbad' in f


def _modelled(fids):
	"""every file is inside the model's domain (readable with a reference signature, or one of the six BAD classes)"""
	return all('xbad' not in _file_table()[f] for f in fids)


def _canon_sig(a):
	return [int(x) for x in a]


def _single(fid, ks=None, auto=False):
	"""the single-file result of the implementation, cached: ('ok', sig) | ('err', class name)"""
	cache = _S.setdefault('single', {})
	key = fid if ks is None and not auto else (fid, ks, auto)
	if key not in cache:
		from gambit.sigs.calc import calc_file_signature
		try:
			cache[key] = ('ok', _canon_sig(calc_file_signature(_kspec(ks), _seqfile(fid, auto))))
		except Exception as e:     # noqa: the class is the observable
			cache[key] = ('err', type(e).__name__)
	return cache[key]


def _model_fres(fid, ks=None):
	f = _file_table()[fid]
	return [1, f['code']] if f['code'] is not None else [0, _ref(fid, ks)]


def _tie_usable(fids, ks=None, auto=False):
	"""the model input (reference signature / error table) agrees with the single-file implementation
	result for every file of the case; otherwise only the property predicate is evaluated"""
	for fid in fids:
		f = _file_table()[fid]
		kind, val = _single(fid, ks, auto)
		if 'xbad' in f:
			return False
		if f['code'] is None:
			if kind != 'ok' or val != _ref(fid, ks):
				return False
		elif kind != 'err' or CODE_OF_EXC.get(val) != f['code']:
			return False
	return True


def _observe(call):
	"""-> ('done', [sig...]) | ('raised', class name)"""
	try:
		res = call()
	except Exception as e:     # noqa
		return ('raised', type(e).__name__)
	try:
		return ('done', [None if s is None else _canon_sig(s) for s in res])
	except Exception as e:     # noqa
		return ('done-unreadable', repr(e))


def _predicate(fids, obs, may_refuse=False, ks=None, auto=False, singles=None):
	"""the property on this input; returns None if it holds, else a description.
	may_refuse: the call was made with arguments the function rejects (unknown concurrency string) --
	raising is then fine, only a wrong list would be a violation.
	singles: the per-file results to compare with, if not the cached single-file calls (kind seq: files whose
	content changes between the steps of a case)"""
	if singles is None:
		singles = [_single(f, ks, auto) for f in fids]
	bad_names = {v for k, v in singles if k == 'err'}
	if obs[0] == 'done':
		if bad_names:
			return f'returned a list of {len(obs[1])} signatures although {sorted(bad_names)} file(s) cannot be read'
		want = [v for _, v in singles]
		got = obs[1]
		if len(got) != len(want):
			return f'{len(got)} signatures returned for {len(want)} files'
		wrong = [i for i in range(len(want)) if got[i] != want[i]]
		if wrong:
			where = []
			for i in wrong[:4]:
				src = [j for j in range(len(want)) if want[j] == got[i]]
				where.append(f'position {i} holds ' + (f'the signature of file {src[0]}' if src else 'a signature of no input file' if got[i] is not None else 'None'))
			return 'signatures not in file order: ' + '; '.join(where)
		return None
	if obs[0] == 'raised':
		if not bad_names and not may_refuse:
			return f'raised {obs[1]} although every file is readable'
		return None
	return f'result is not a list of signatures: {obs[1]}'


def _describe(fids):
	"""what the file ids of a case stand for (the files are regenerated from POOL_SEED on every run)"""
	out = {}
	for f in fids:
		t = _file_table()[f]
		out[f] = (f'unreadable ({f}): single-file call raises {BAD[f][1]}' if t['code'] is not None
		          else f'{t["xbad"]} ({os.path.basename(t["path"])[:40]}); the single-file call ' + ('succeeds' if _single(f)[0] == 'ok' else f'raises {_single(f)[1]}') if 'xbad' in t
		          else f'{t.get("format", "fasta").upper()}{" (gzip)" if t["compression"] else ""} {os.path.basename(t["path"])[:40]!r}, {t["size"]} nt, '
		               f'{len(t["ref"])} k-mers (k={K}, prefix {PREFIX})')
	return out


def _model_obs(ans, fids):
	"""model answer -> same shape as _observe"""
	if ans[0] == 0:
		return ('done', ans[1])
	if ans[0] == 1:
		names = [n for n, c in CODE_OF_EXC.items() if c == ans[1]]
		return ('raised', names[0] if names else f'code{ans[1]}')
	return ('raised', OTHER.get(tuple(ans), str(ans)))


# ------------------------------------------------------------------------------------------------
# the controllable executor
# ------------------------------------------------------------------------------------------------

class Sync:
	def __init__(self):
		self.cv = threading.Condition()
		self.incs = 0
		self.closed = False
		self.meters = 0


class SyncMeter:
	"""progress meter whose increment() lets the controller take its next step"""

	def __init__(self, sync, total):
		self.sync = sync
		self.n = 0
		self.total = total
		self.closed = False
		with sync.cv:
			sync.meters += 1

	def increment(self, delta=1):
		self.n += delta
		with self.sync.cv:
			self.sync.incs += delta
			self.sync.cv.notify_all()

	def moveto(self, n):
		self.increment(n - self.n)

	def close(self):
		self.closed = True
		with self.sync.cv:
			self.sync.closed = True
			self.sync.cv.notify_all()

	def __enter__(self):
		return self

	def __exit__(self, *a):
		self.close()


def _meter_factory(sync):
	def create(total, initial=0, **kw):
		return SyncMeter(sync, total)
	return create


#: seconds the controller waits for the meter before moving on.  An implementation that does not step
#: the meter after each result (a harmless rewrite) must not stall the campaign: after three executors in a
#: row ran into the time-out the wait drops to a few milliseconds (the schedule is then not imposed, which
#: only costs detection power, never a false alarm).
_STEP_WAIT = [0.25]
_STALLED = [0]


class CtlExecutor(Executor):
	"""submit() returns an unfinished Future; a controller thread runs the jobs and finishes the futures
	in the order `sigma` (indices in submission order), one per progress-meter step."""

	def __init__(self, n, sigma, sync, max_workers=None):
		self.n = n
		self.sigma = list(sigma)
		self.sync = sync
		self.max_workers = max_workers
		self.tasks = []
		self.cv = threading.Condition()
		self.last_submit = time.time()
		self.consumed = []        # order in which futures were finished
		self.timeouts = 0
		self.shutdowns = 0
		self.thread = threading.Thread(target=self._control, daemon=True)
		self.thread.start()

	def submit(self, fn, /, *args, **kwargs):
		f = Future()
		with self.cv:
			assert all(f is not t[0] for t in self.tasks)
			self.tasks.append((f, fn, args, kwargs))
			self.last_submit = time.time()
			self.cv.notify_all()
		return f

	def shutdown(self, wait=True, *, cancel_futures=False):
		self.shutdowns += 1
		if wait and threading.current_thread() is not self.thread:
			self.thread.join(30)

	def _control(self):
		# wait until all n jobs are submitted (the meter exists before the submit loop, so "a meter was
		# created" is no signal); give up waiting when submissions stopped for a while
		t0 = time.time()
		with self.cv:
			while len(self.tasks) < self.n:
				self.cv.wait(0.05)
				idle = time.time() - max(self.last_submit, t0)
				if len(self.tasks) < self.n and idle > 1.0:
					break
			tasks = list(self.tasks)
		order = [i for i in self.sigma if i < len(tasks)] + [i for i in range(len(tasks)) if i not in self.sigma]
		for step, i in enumerate(order):
			f, fn, args, kwargs = tasks[i]
			if f.set_running_or_notify_cancel():
				try:
					r = fn(*args, **kwargs)
				except BaseException as e:     # noqa
					f.set_exception(e)
				else:
					f.set_result(r)
			self.consumed.append(i)
			with self.sync.cv:
				deadline = time.time() + (_STEP_WAIT[0] if not self.timeouts else 0.003)
				while self.sync.incs < step + 1 and not self.sync.closed:
					left = deadline - time.time()
					if left <= 0:
						self.timeouts += 1
						break
					self.sync.cv.wait(left)
		if self.timeouts:
			_STALLED[0] += 1
			if _STALLED[0] >= 3:
				_STEP_WAIT[0] = 0.004
		else:
			_STALLED[0] = 0
			_STEP_WAIT[0] = 0.25

	def finish(self):
		self.thread.join(30)


class RecordingExecutor(Executor):
	"""caller-supplied real pool, wrapped only to record the completion order"""

	def __init__(self, inner):
		self.inner = inner
		self.order = []
		self.count = 0
		self.lock = threading.Lock()
		self.shutdowns = 0

	def submit(self, fn, /, *args, **kwargs):
		i = self.count
		self.count += 1
		f = self.inner.submit(fn, *args, **kwargs)

		def done(_f, i=i):
			with self.lock:
				self.order.append(i)
		f.add_done_callback(done)
		return f

	def shutdown(self, wait=True, *, cancel_futures=False):
		# behave like the real pool: a call that shuts the caller's executor down makes it unusable
		self.shutdowns += 1
		self.inner.shutdown(wait=wait, cancel_futures=cancel_futures)


# ------------------------------------------------------------------------------------------------
# kinds
# ------------------------------------------------------------------------------------------------

def setup(ctx):
	from vf import impl
	impl.check_import()
	_file_table()


def _conc_code(path):
	return {'supplied': (1, True), 'threads': (1, False), 'processes': (2, False), 'none': (0, False)}[path]


def _distinct(fids, ks=None):
	sigs = [tuple(_ref(f, ks)) for f in fids if _file_table()[f]['ref'] is not None]
	return len(set(sigs)) == len(sigs)


def _model_batch(ctx, reqs):
	"""reqs: list of request | None (case outside the model's domain) -> list of answer | None; None if the model is off"""
	if not ctx.model_ok:
		return None
	idx = [j for j, r in enumerate(reqs) if r is not None]
	out = [None] * len(reqs)
	if idx:
		for j, a in zip(idx, ctx.model([reqs[j] for j in idx])):
			out[j] = a
	return out


def _judge(ctx, kind, case, fids, obs, model_ans, exact, nontrivial, may_refuse=False, ks=None, auto=False, how=''):
	"""common verdict.  model_ans: model outcome for this case (or None); exact: compare impl with
	model exactly (controlled schedule / single possible outcome) or only up to 'one of the files' errors'"""
	ctx.case(case, nontrivial=nontrivial)
	bad = _predicate(fids, obs, may_refuse, ks, auto)
	mobs = _model_obs(model_ans, fids) if model_ans is not None else None
	if may_refuse and mobs is not None and mobs[0] == 'raised' and obs[0] == 'raised':
		mobs = obs       # which exception reports the rejected argument is not the property's business
	if bad is not None:
		ctx.violation(kind, case, f'calc_file_signatures on {len(fids)} files ({kind}{how}): {bad}',
		              impl=obs, spec=[_single(f, ks, auto) for f in fids], model=mobs, files=_describe(fids))
		return
	if mobs is None or not _tie_usable(fids, ks, auto):
		if mobs is not None:
			ctx.count('tie-skipped:reference-differs-from-single-file-result')
		return
	if exact and obs[0] == 'raised' and mobs[0] == 'raised' and obs[1] != mobs[1]:
		# the property says "the whole call fails", not which exception reports it: evidence only
		ctx.count('note:exception-class-differs-from-model')
	if obs[0] != mobs[0] or (obs[0] == 'done' and obs[1] != mobs[1]):
		ctx.broke(f'correspondence {kind} (model outcome != implementation outcome, property predicate holds)',
		          f'case {case}: impl={str(obs)[:200]} model={str(mobs)[:200]}')


def k_sched(ctx, cases):
	import gambit.sigs.calc as calc
	kspec = _kspec()
	runs = []
	for case in cases:
		fids, sigma, path = case['files'], case['sigma'], case['path']
		n = len(fids)
		files = [_seqfile(f) for f in fids]
		sync = Sync()
		made = []

		def factory(max_workers=None, *a, **kw):
			ex = CtlExecutor(n, sigma, sync, max_workers=max_workers)
			made.append(ex)
			return ex

		if path == 'supplied':
			ex = factory()
			obs = _observe(lambda: calc.calc_file_signatures(kspec, files, progress=_meter_factory(sync), executor=ex))
		else:
			name = 'ThreadPoolExecutor' if path == 'threads' else 'ProcessPoolExecutor'
			orig = getattr(calc, name)
			setattr(calc, name, factory)
			try:
				obs = _observe(lambda: calc.calc_file_signatures(kspec, files, progress=_meter_factory(sync),
				                                                 concurrency=path, max_workers=case.get('workers')))
			finally:
				setattr(calc, name, orig)
		for ex in made:
			ex.finish()
			ctx.count('sched:meter-step-timeouts', ex.timeouts) if ex.timeouts else None
		controlled = len(made) == 1 and made[0].consumed == [i for i in sigma] and len(made[0].tasks) == n and not made[0].timeouts
		if not made:
			ctx.count('sched:executor-not-routed-through-patch')
		runs.append((obs, controlled))
	reqs = []
	for case in cases:
		fids = case['files']
		if not _modelled(fids):
			# a file class outside the model's error table: judged by the property predicate alone
			ctx.count('sched:judged-by-predicate-only')
			reqs.append(None)
			continue
		tasks = [[1000 + 7 * i, _model_fres(f)] for i, f in enumerate(fids)]    # the futures' identities
		c, sup = _conc_code(case['path'])
		reqs.append((1303, [c, sup, tasks, [1000 + 7 * i for i in case['sigma']]]))
	ans = _model_batch(ctx, reqs)
	for j, case in enumerate(cases):
		fids, sigma = case['files'], case['sigma']
		obs, controlled = runs[j]
		nbad = sum(1 for f in fids if _is_bad(f))
		nontriv = len(fids) >= 2 and _distinct(fids) and (sigma != sorted(sigma) or nbad > 0) and controlled
		ctx.count('sched:path-' + case['path'])
		if sigma != sorted(sigma):
			ctx.count('sched:out-of-order-schedules')
		# which exception is raised is determined by sigma only if the schedule was really imposed
		_judge(ctx, 'sched', case, fids, obs, ans[j] if ans else None, exact=controlled or nbad <= 1, nontrivial=nontriv)


def _run_pool(case):
	import gambit.sigs.calc as calc
	kspec = _kspec()
	fids, conc, workers, supplied = case['files'], case['conc'], case.get('workers'), case.get('supplied', False)
	files = [_seqfile(f) for f in fids]
	order = None
	if supplied:
		inner = ThreadPoolExecutor(max_workers=workers) if conc == 'threads' else ProcessPoolExecutor(max_workers=workers)
		rec = RecordingExecutor(inner)
		try:
			# `concurrency` is overridden by the executor: pass the *other* value on purpose
			obs = _observe(lambda: calc.calc_file_signatures(kspec, files, executor=rec, concurrency=None, max_workers=1))
			order = list(rec.order)[:len(fids)] if len(rec.order) >= len(fids) else None
			still_open = True
			try:
				inner.submit(int, 0).result(30)
			except Exception:     # noqa
				still_open = False
			# the caller owns the executor: a second batch (reversed) through the same executor must behave
			# exactly like the first
			obs2 = _observe(lambda: calc.calc_file_signatures(kspec, files[::-1], executor=rec, concurrency=None, max_workers=1))
		finally:
			inner.shutdown(wait=True)
		return obs, order, (still_open, obs2)
	obs = _observe(lambda: calc.calc_file_signatures(kspec, files, concurrency=conc, max_workers=workers))
	return obs, None, None


def k_pool(ctx, cases):
	runs = []
	for c in cases:
		r = _run_pool(c)
		if r[0] == ('raised', 'BrokenProcessPool'):
			# a worker process killed by the environment (memory pressure) is not the code's doing: once more
			ctx.count('pool:broken-process-pool-retried')
			r = _run_pool(c)
			if r[0] == ('raised', 'BrokenProcessPool'):
				raise RuntimeError('process pool keeps breaking in this environment (worker processes are being killed)')
		runs.append(r)
	ans = None
	if ctx.model_ok:
		reqs = []
		for case, (obs, order, _) in zip(cases, runs):
			fids = case['files']
			tasks = [[i, _model_fres(f)] for i, f in enumerate(fids)]
			sigma = order if order is not None and sorted(order) == list(range(len(fids))) else list(range(len(fids)))
			c = {'threads': 1, 'processes': 2, None: 0}.get(case['conc'], 3)
			reqs.append((1303, [c, bool(case.get('supplied')), tasks, sigma]))
		ans = ctx.model(reqs)
	for j, case in enumerate(cases):
		fids = case['files']
		obs, order, still_open = runs[j]
		n = len(fids)
		nbad = sum(1 for f in fids if _file_table()[f]['code'] is not None)
		sizes = [_file_table()[f]['size'] for f in fids]
		skew = n >= 2 and (case.get('workers') or 2) >= 2 and case['conc'] is not None and max(sizes[:-1] or [0]) > 20 * min(sizes[1:] or [1])
		reordered = order is not None and order != sorted(order)
		if reordered:
			ctx.count('pool:observed-out-of-order-completions')
		ctx.count(f'pool:{case["conc"]}' + ('-supplied' if case.get('supplied') else ''))
		if still_open is not None:
			still_open, obs2 = still_open
			if not still_open:
				ctx.count('pool:caller-executor-was-shut-down')
			bad2 = _predicate(fids[::-1], obs2)
			if bad2 is not None:
				ctx.violation('pool', case, f'second call through the same caller-supplied executor (files reversed): {bad2}'
				              + ('' if still_open else ' -- the first call shut the caller\'s executor down'),
				              impl=obs2, spec=[_single(f) for f in fids[::-1]], files=_describe(fids))
				continue
		nontriv = n >= 2 and _distinct(fids) and (reordered or nbad > 0 or skew)
		refuse = case['conc'] not in (None, 'threads', 'processes') and not case.get('supplied')
		_judge(ctx, 'pool', case, fids, obs, ans[j] if ans else None, exact=nbad <= 1, nontrivial=nontriv, may_refuse=refuse)


def _cli_ks(case):
	"""k-mer spec of a command-line case: 'kspec' absent -> -k K -p PREFIX; 'default' -> no -k/-p (gambit's default
	11/ATGAC); [k, prefix] -> given"""
	ks = case.get('kspec')
	if ks is None:
		return None, ['-k', str(K), '-p', PREFIX]
	if ks == 'default':
		return (11, 'ATGAC'), []
	return _ks(case), ['-k', str(ks[0]), '-p', str(ks[1])]


def _cli_file_args(case, fids, n, positional=True, flag=None):
	"""how the genome files are named on the command line: positional / repeated flag, or a list file with absolute
	paths ('abs'), or a list file with names relative to --ldir ('ldir'; all audit files live in one directory)"""
	paths = [_file_table()[f]['path'] for f in fids]
	how = case.get('listfile')
	if not how:
		if positional:
			return list(paths)
		return [x for p in paths for x in (flag[0], p)]
	lf = os.path.join(_S['dir'], 'cli-out', f'list-{os.getpid()}-{n}-{flag[1] if flag else "l"}.txt')
	with open(lf, 'w') as f:
		for p in paths:
			f.write((os.path.relpath(os.path.abspath(p), _S['dir']) if how == 'ldir' else os.path.abspath(p)) + '\n')
			if case.get('blank_lines'):
				f.write('\n')
	args = [flag[1] if flag else '-l', lf]
	if how == 'ldir':
		args += [flag[2] if flag else '--ldir', _S['dir']]
	return args


def _cli_common(case):
	args = []
	if not case.get('progress'):
		args.append('--no-progress')
	if case.get('cores') is not None:
		args += ['--cores' if case.get('long') else '-c', str(case['cores'])]
	return args


def _invoke(args):
	from click.testing import CliRunner
	import gambit.cli
	res = CliRunner().invoke(gambit.cli.cli, args)
	if res.exit_code == 0 and res.exception is None:
		return None
	return ('raised', type(res.exception).__name__ if res.exception is not None else f'exit{res.exit_code}')


def k_cli(ctx, cases):
	from gambit.sigs.base import load_signatures
	out_dir = os.path.join(_S['dir'], 'cli-out')
	os.makedirs(out_dir, exist_ok=True)
	runs = []
	for n, case in enumerate(cases):
		fids = case['files']
		ks, ksargs = _cli_ks(case)
		out = os.path.join(out_dir, f'out-{os.getpid()}-{n}.gs')
		if os.path.exists(out):
			os.remove(out)
		args = ['signatures', 'create'] + ksargs + ['-o', out] + _cli_common(case) + _cli_file_args(case, fids, n)
		obs = _invoke(args)
		ids = None
		if obs is None:
			def read():
				nonlocal ids
				with load_signatures(out) as sigs:
					ids = [str(x) for x in sigs.ids]
					return [sigs[i] for i in range(len(sigs))]
			obs = _observe(read)
			if obs[0] == 'raised':
				obs = ('output-unreadable', obs[1])
		if os.path.exists(out):
			os.remove(out)
		runs.append((obs, ids))
	# the command line opens every file with compression='auto'
	reqs = [(1303, [2, False, [[i, _model_fres(f, _cli_ks(c)[0])] for i, f in enumerate(c['files'])], list(range(len(c['files'])))])
	        if _modelled(c['files']) else None for c in cases]
	ans = _model_batch(ctx, reqs)
	for j, case in enumerate(cases):
		fids = case['files']
		ks = _cli_ks(case)[0]
		ctx.count('cli:cases')
		for feature in ('listfile', 'progress', 'long', 'kspec'):
			if case.get(feature):
				ctx.count(f'cli:{feature}')
		# the command line reports failures as SystemExit/exit status: only done-vs-failed is compared with the model
		obs, ids = runs[j]
		ctx.case(case, nontrivial=len(fids) >= 2 and _distinct(fids, ks))
		bad = _predicate(fids, obs, ks=ks, auto=True)
		if bad is None and obs[0] == 'done' and ids is not None:
			# the labels written next to the signatures: if they are the expected labels in another order, the
			# signatures are misplaced relative to their files (any other label difference is not this property's business)
			want = [_file_table()[f].get('id', f) for f in fids]
			if ids != want and sorted(ids) == sorted(want):
				bad = f'signatures are in file order but their labels are not: {ids}, files given as {want}'
			elif ids != want:
				ctx.count('cli:note-labels-differ-from-expected')
		if bad is not None:
			ctx.violation('cli', case, f'gambit signatures create -c {case.get("cores")} on {len(fids)} files: {bad}',
			              impl=obs, spec=[_single(f, ks, True) for f in fids], model=_model_obs(ans[j], fids) if ans and ans[j] is not None else None,
			              files=_describe(fids))
		elif ans is not None and ans[j] is not None and _tie_usable(fids, ks, True):
			m = _model_obs(ans[j], fids)
			if m[0] != obs[0] or (m[0] == 'done' and m[1] != obs[1]):
				ctx.broke('correspondence cli (model outcome != implementation outcome, property predicate holds)',
				          f'case {case}: impl={str(obs)[:200]} model={str(m)[:200]}')


# ------------------------------------------------------------------------------------------------
# kind var: the same call, varied in everything the statement does not mention (coverage audit)
# ------------------------------------------------------------------------------------------------

class SyncExecutor(Executor):
	"""the job runs inside submit(): every future is already finished when as_completed starts"""

	def __init__(self):
		self.shutdowns = 0
		self.closed = False

	def submit(self, fn, /, *args, **kwargs):
		if self.closed:
			raise RuntimeError('cannot schedule new futures after shutdown')
		f = Future()
		_finish(f, fn, args, kwargs)
		return f

	def shutdown(self, wait=True, *, cancel_futures=False):
		self.shutdowns += 1
		self.closed = True


def _finish(f, fn, args, kwargs):
	if f.set_running_or_notify_cancel():
		try:
			r = fn(*args, **kwargs)
		except BaseException as e:     # noqa
			f.set_exception(e)
		else:
			f.set_result(r)


class BurstExecutor(Executor):
	"""futures stay pending until the n-th submit of a batch; then the futures sigma[:split] are finished at
	once (still inside submit, i.e. before as_completed starts) and a thread finishes the others back to
	back, without waiting for the consumer: as_completed sees several finished futures per wake-up.
	A watchdog releases an incomplete batch after 2 s (an implementation that submits fewer jobs must not
	hang the campaign)."""

	def __init__(self, n, sigma, split):
		self.n, self.sigma, self.split = n, list(sigma), split
		self.lock = threading.Lock()
		self.tasks = []
		self.threads = []
		self.shutdowns = 0
		self.closed = False

	def submit(self, fn, /, *args, **kwargs):
		if self.closed:
			raise RuntimeError('cannot schedule new futures after shutdown')
		f = Future()
		with self.lock:
			self.tasks.append((f, fn, args, kwargs))
			first, full = len(self.tasks) == 1, len(self.tasks) >= self.n
			batch = self.tasks
			if full:
				self.tasks = []
		if full:
			self._release(batch)
		elif first:
			t = threading.Timer(2.0, self._watchdog, [batch])
			t.daemon = True
			t.start()
		return f

	def _watchdog(self, batch):
		with self.lock:
			if self.tasks is not batch:
				return
			self.tasks = []
		self._release(batch)

	def _release(self, batch):
		order = [i for i in self.sigma if i < len(batch)] + [i for i in range(len(batch)) if i not in self.sigma]
		for i in order[:self.split]:
			_finish(*batch[i])
		rest = [batch[i] for i in order[self.split:]]
		if rest:
			t = threading.Thread(target=lambda: [_finish(*x) for x in rest], daemon=True)
			self.threads.append(t)
			t.start()

	def shutdown(self, wait=True, *, cancel_futures=False):
		self.shutdowns += 1
		self.closed = True


class ListLike:
	"""a minimal collections.abc.Sequence that is not a list"""

	def __init__(self, items):
		self._items = list(items)

	def __len__(self):
		return len(self._items)

	def __getitem__(self, i):
		return self._items[i]

	def __iter__(self):
		return iter(self._items)


def _container(kind, elems):
	import collections
	import collections.abc
	import numpy as np
	if kind == 'tuple':
		return tuple(elems)
	if kind == 'deque':
		return collections.deque(elems)
	if kind == 'seqclass':
		collections.abc.Sequence.register(ListLike)
		return ListLike(elems)
	if kind == 'ndarray':
		a = np.empty(len(elems), dtype=object)
		for i, e in enumerate(elems):
			a[i] = e
		return a
	if kind == 'generator':
		return (e for e in elems)
	return list(elems)


#: containers that are not a Sequence of files: the function may refuse them (raise); only a wrong list counts
LOOSE_CONTAINERS = ('ndarray', 'generator')
WORKER_TYPES = ('int', 'np.int64', 'np.intp', 'np.uint8', 'np.int32')


def _workers(case):
	import numpy as np
	w = case.get('workers')
	t = case.get('wtype', 'int')
	if w is None or t == 'int':
		return w
	if t == 'float':
		return float(w)
	if t == 'str':
		return str(w)
	return getattr(np, t[3:])(w)


def _workers_valid(case):
	w = case.get('workers')
	return w is None or (case.get('wtype', 'int') in WORKER_TYPES and w >= 1)


class _RecMeter:
	"""a permissive progress meter (plain factory function protocol)"""

	def __init__(self, total, initial=0, **kw):
		self.total, self.n, self.closed = total, initial, False

	def increment(self, delta=1):
		self.n += delta

	def moveto(self, n):
		self.n = n

	def close(self):
		self.closed = True

	def __enter__(self):
		return self

	def __exit__(self, *a):
		self.close()


def _progress_arg(name):
	"""the value passed as progress= (all of them are accepted by gambit.util.progress.get_progress)"""
	from gambit.util import progress as gp
	if name in (None, 'none'):
		return None
	if name == 'false':
		return False
	if name == 'true':
		return True             # tqdm if installed, otherwise a warning + no meter
	if name == 'click':
		return 'click'
	if name == 'config':
		return gp.progress_config('click', desc='verif')
	if name == 'nullclass':
		return gp.NullProgressMeter
	if name == 'subclass':
		if 'meter_subclass' not in _S:
			class Sub(gp.AbstractProgressMeter):
				def __init__(self, total, initial=0, **kw):
					self.total, self.n, self.closed = total, initial, False

				def increment(self, delta=1):
					self.n += delta

				def moveto(self, n):
					self.n = n

				def close(self):
					self.closed = True

				@classmethod
				def create(cls, total, initial=0, **kw):
					return cls(total, initial, **kw)
			_S['meter_subclass'] = Sub
		return _S['meter_subclass']
	if name == 'callable':
		return _RecMeter
	if name == 'clickbuf':
		import io
		return gp.progress_config('click', file=io.StringIO(), desc='verif')      # display-backed meter writing to the caller's own stream
	if name == 'clickcls':
		return gp.ClickProgressMeter
	if name == 'tqdm':
		return 'tqdm'           # only generated where tqdm is importable
	if name == 'testcls':
		return gp.TestProgressMeter
	if name == 'closeval':
		# a caller's meter whose close() reports whether the meter was still open (the return value of close() is not
		# specified by AbstractProgressMeter, so this is inside the interface)
		if 'meter_closeval' not in _S:
			class CloseVal(gp.AbstractProgressMeter):
				def __init__(self, total, initial=0, **kw):
					self.total, self.n, self.closed = total, initial, False

				def increment(self, delta=1):
					self.n += delta

				def moveto(self, n):
					self.n = n

				def close(self):
					was_open, self.closed = not self.closed, True
					return was_open

				@classmethod
				def create(cls, total, initial=0, **kw):
					return cls(total, initial, **kw)
			_S['meter_closeval'] = CloseVal
		return _S['meter_closeval']
	raise ValueError(name)


class _Quiet:
	"""swallow what progress bars / warnings print during a call.  sys.stdout is process-wide and calls may run in
	two threads at once (sup-shared), so the swap is counted: first one in swaps, last one out restores."""
	lock = threading.Lock()
	depth = 0
	saved = None

	def __enter__(self):
		import io
		import sys
		import warnings
		with _Quiet.lock:
			if _Quiet.depth == 0:
				_Quiet.saved = (sys.stdout, sys.stderr, warnings.filters[:])
				sys.stdout, sys.stderr = io.StringIO(), io.StringIO()
				warnings.simplefilter('ignore')
			_Quiet.depth += 1

	def __exit__(self, *a):
		import sys
		import warnings
		with _Quiet.lock:
			_Quiet.depth -= 1
			if _Quiet.depth == 0:
				sys.stdout, sys.stderr, warnings.filters[:] = _Quiet.saved


PROGRESS_KINDS = ['none', 'false', 'true', 'click', 'config', 'nullclass', 'subclass', 'callable']
#: more values of progress= (stream var-progress-unreadable): the repository's own display-backed / test meters given as
#: class / configuration with the caller's stream, and a caller's meter whose close() returns a value
PROGRESS_MORE = ['clickbuf', 'clickcls', 'testcls', 'closeval']


def _have_tqdm():
	import importlib.util
	return importlib.util.find_spec('tqdm') is not None
_OMIT = object()


def _call_calc(form, kspec, files, progress=_OMIT, concurrency=_OMIT, max_workers=_OMIT, executor=_OMIT):
	"""call forms: kw (options by keyword, omitted ones left to their defaults), allkw (everything by keyword),
	pos (everything positional, which needs every option: omitted ones are given their documented defaults)"""
	import gambit.sigs.calc as calc
	opts = dict(progress=progress, concurrency=concurrency, max_workers=max_workers, executor=executor)
	with _Quiet():
		if form == 'pos':
			d = dict(progress=None, concurrency='processes', max_workers=None, executor=None)
			return calc.calc_file_signatures(kspec, files, *[d[k] if opts[k] is _OMIT else opts[k] for k in ('progress', 'concurrency', 'max_workers', 'executor')])
		kw = {k: v for k, v in opts.items() if v is not _OMIT}
		if form == 'allkw':
			return calc.calc_file_signatures(kspec=kspec, files=files, **kw)
		return calc.calc_file_signatures(kspec, files, **kw)


VAR_MODES = ('seq', 'threads', 'processes', 'default', 'sup-threads', 'sup-processes', 'sup-sync', 'sup-burst', 'sup-busy', 'sup-shared',
             'sup-spawn', 'sup-forkserver')


def _run_var(case):
	"""-> list of (fids, observation): the call itself, then (caller-supplied executors) a second batch through
	the same executor / the concurrent second call"""
	import multiprocessing
	ks, auto = _ks(case), bool(case.get('auto'))
	kspec = _kspec(ks)
	fids, mode, form = case['files'], case['mode'], case.get('form', 'kw')
	made = {}

	def elems(fs):
		out = []
		for f in fs:
			if case.get('same_obj'):
				if f not in made:
					made[f] = _seqfile(f, auto)
				out.append(made[f])
			else:
				out.append(_seqfile(f, auto))
		return out

	def files_of(fs):
		return _container(case.get('container', 'list'), elems(fs))

	w = _workers(case)
	prog = _OMIT if 'progress' not in case else _progress_arg(case['progress'])
	if not mode.startswith('sup-'):
		conc = {'seq': None, 'threads': 'threads', 'processes': 'processes', 'default': _OMIT}[mode]
		obs = _observe(lambda: _call_calc(form, kspec, files_of(fids), progress=prog, concurrency=conc, max_workers=_OMIT if w is None and form == 'kw' else w))
		return [(fids, obs)]
	# caller-supplied executors.  What is passed next to executor= must not matter ("overrides"): vary it
	extra = case.get('extra', 'omit')
	conc = _OMIT if extra == 'omit' else None if extra == 'none' else extra
	n = len(fids)
	pw = case.get('pool_workers') or 2
	noise = []
	if mode in ('sup-threads', 'sup-busy', 'sup-shared'):
		ex = ThreadPoolExecutor(max_workers=pw)
	elif mode == 'sup-processes':
		ex = ProcessPoolExecutor(max_workers=pw)
	elif mode in ('sup-spawn', 'sup-forkserver'):
		ex = ProcessPoolExecutor(max_workers=pw, mp_context=multiprocessing.get_context(mode[4:]))
	elif mode == 'sup-sync':
		ex = SyncExecutor()
	else:
		ex = BurstExecutor(n, case.get('sigma', list(range(n))), case.get('split', n))
	out = []
	try:
		def call(fs):
			return _observe(lambda: _call_calc(form, kspec, files_of(fs), progress=prog, concurrency=conc, max_workers=_OMIT if w is None else w, executor=ex))
		if mode == 'sup-busy':
			# the caller's pool already has other work queued, and more arrives while the call runs
			noise += [ex.submit(time.sleep, 0.004) for _ in range(3 * pw)]
			stop = threading.Event()

			def feeder():
				while not stop.is_set() and len(noise) < 200:
					try:
						noise.append(ex.submit(time.sleep, 0.001))
					except RuntimeError:
						return
					time.sleep(0.0005)
			t = threading.Thread(target=feeder, daemon=True)
			t.start()
			try:
				out.append((fids, call(fids)))
			finally:
				stop.set()
				t.join(10)
		elif mode == 'sup-shared':
			# two calls from two threads share the caller's pool
			fids2 = case['files2']
			box = {}
			t = threading.Thread(target=lambda: box.setdefault('obs', call(fids2)), daemon=True)
			t.start()
			out.append((fids, call(fids)))
			t.join(120)
			out.append((fids2, box.get('obs', ('raised', 'second concurrent call did not return within 120 s'))))
		else:
			out.append((fids, call(fids)))
		if mode not in ('sup-spawn', 'sup-forkserver', 'sup-shared'):
			# the caller owns the executor: a second batch (rotated) through the same object
			fs2 = fids[1:] + fids[:1]
			out.append((fs2, call(fs2)))
	finally:
		ex.shutdown(wait=True)
		for t in getattr(ex, 'threads', []):
			t.join(30)
	return out


def k_var(ctx, cases):
	runs = []
	for c in cases:
		r = _run_var(c)
		if any(o == ('raised', 'BrokenProcessPool') for _, o in r):
			ctx.count('pool:broken-process-pool-retried')
			r = _run_var(c)
			if any(o == ('raised', 'BrokenProcessPool') for _, o in r):
				raise RuntimeError('process pool keeps breaking in this environment (worker processes are being killed)')
		runs.append(r)
	reqs = []
	refuse = []
	for case in cases:
		fids, mode = case['files'], case['mode']
		ks = _ks(case)
		# outside the function's documented domain: it may raise instead (only a wrong list is a violation), and
		# the model (which has no notion of these arguments) is not consulted
		may_refuse = (case.get('container') in LOOSE_CONTAINERS or not _workers_valid(case)
		              or case.get('extra', 'omit') not in ('omit', 'none', 'threads', 'processes'))
		refuse.append(may_refuse)
		if may_refuse or not _modelled(fids):
			ctx.count('var:judged-by-predicate-only')
			reqs.append(None)
			continue
		c = {'seq': 0, 'threads': 1, 'processes': 2, 'default': 2}.get(mode, 1)
		reqs.append((1303, [c, mode.startswith('sup-'), [[i, _model_fres(f, ks)] for i, f in enumerate(fids)], list(range(len(fids)))]))
	ans = _model_batch(ctx, reqs)
	for j, case in enumerate(cases):
		ks, auto = _ks(case), bool(case.get('auto'))
		ctx.count('var:mode-' + case['mode'])
		for feature in ('container', 'progress', 'form', 'wtype', 'extra', 'kspec', 'auto', 'same_obj'):
			if case.get(feature) not in (None, False):
				ctx.count(f'var:{feature}-{case[feature] if feature not in ("kspec", "auto", "same_obj") else "varied"}')
		first = True
		for fids, obs in runs[j]:
			nbad = sum(1 for f in fids if _is_bad(f))
			nontriv = len(fids) >= 2 and _distinct(fids, ks)
			if first:
				_judge(ctx, 'var', case, fids, obs, ans[j] if ans else None, exact=nbad <= 1, nontrivial=nontriv, may_refuse=refuse[j], ks=ks, auto=auto,
				       how=': ' + case['mode'])
			else:
				bad2 = _predicate(fids, obs, refuse[j], ks, auto)
				if bad2 is not None:
					ctx.violation('var', case, f'{"concurrent second call" if case["mode"] == "sup-shared" else "second batch (files rotated)"} through the same '
					              f'caller-supplied executor ({case["mode"]}), files {fids}: {bad2}',
					              impl=obs, spec=[_single(f, ks, auto) for f in fids], files=_describe(fids))
			first = False


# ------------------------------------------------------------------------------------------------
# kind entry: the other public entry points that compute signatures for a list of files
#   dist    gambit dist -q ... -r ... | --square   (queries: max_workers=cores; references: defaults)
#   qparse  gambit.query.query_parse(db, files, parse_kw=...)
#   query   gambit -d DB query -f json ...
# Their output is not the signature list itself, so the predicate is stated on what they print: every row /
# result item i must be the one computed from file i's single-file signature (the reference family f0..f7 has
# pairwise different distances, so a misplaced, missing or duplicated signature changes a row).  If a file is
# unreadable the command / call must fail.  Not compared with the model (its domain is the signature list).
# ------------------------------------------------------------------------------------------------

DB_REFS = [f'f{i}' for i in range(8)]


def _entry_db():
	"""a reference database whose genomes are the harness's own reference signatures of f0..f7 (key = file id)"""
	if 'db_dir' in _S:
		return _S['db_dir']
	import numpy as np
	from sqlalchemy import create_engine
	from sqlalchemy.orm import Session
	from gambit.db.models import Base, ReferenceGenomeSet, Taxon, Genome, AnnotatedGenome
	from gambit.sigs import SignatureList, AnnotatedSignatures, SignaturesMeta, dump_signatures
	d = os.path.join(_S['dir'], 'refdb')
	os.makedirs(d)
	eng = create_engine('sqlite:///' + os.path.join(d, 'ref.gdb'))
	Base.metadata.create_all(eng)
	with Session(eng) as s:
		gs = ReferenceGenomeSet(id=1, key='verif/c13', version='1.0', name='c13')
		s.add(gs)
		tax = Taxon(id=1, key='t1', name='Taxon one', rank='species', genome_set=gs, distance_threshold=0.5, report=True)
		s.add(tax)
		for i, f in enumerate(DB_REFS):
			g = Genome(id=i + 1, key=f, description=f'genome {f}')
			s.add(g)
			s.add(AnnotatedGenome(genome=g, genome_set=gs, taxon=tax, organism=f'organism {f}'))
		s.commit()
	eng.dispose()
	sl = SignatureList([np.array(_file_table()[f]['ref'], dtype=np.uint16) for f in DB_REFS], _kspec(), dtype=np.uint16)
	dump_signatures(os.path.join(d, 'ref.gs'), AnnotatedSignatures(sl, np.array(DB_REFS, dtype=object), SignaturesMeta(id_attr='key', name='c13')), 'hdf5')
	_S['db_dir'] = d
	return d


def _dist(a, b):
	import numpy as np
	from gambit.metric import jaccarddist
	return float(jaccarddist(np.array(a, dtype=np.uint16), np.array(b, dtype=np.uint16)))


def _run_entry(case, n):
	"""-> ('failed', why) | ('rows', [[float...] per query file], labels or None)"""
	import json
	out_dir = os.path.join(_S['dir'], 'cli-out')
	os.makedirs(out_dir, exist_ok=True)
	out = os.path.join(out_dir, f'entry-{os.getpid()}-{n}.out')
	if os.path.exists(out):
		os.remove(out)
	q = case['files']
	what = case['entry']
	try:
		if what == 'dist':
			args = ['dist', '-k', str(K), '-p', PREFIX, '-o', out] + _cli_common(case) + _cli_file_args(case, q, n, positional=False, flag=('-q', '--ql', '--qdir'))
			args += ['--square'] if case.get('refs') is None else _cli_file_args(case, case['refs'], n, positional=False, flag=('-r', '--rl', '--rdir'))
			err = _invoke(args)
			if err is not None:
				return ('failed', err[1])
			import csv
			with open(out, newline='') as f:
				rows = list(csv.reader(f))
			return ('rows', [[float(x) for x in r[1:]] for r in rows[1:]], [r[0] for r in rows[1:]])
		if what == 'query':
			_call = None
			args = ['-d', _entry_db(), 'query', '-f', 'json', '-o', out] + _cli_common(case) + _cli_file_args(case, q, n)
			err = _invoke(args)
			if err is not None:
				return ('failed', err[1])
			with open(out) as f:
				items = json.load(f)['items']
			return ('rows', [[it['closest_genomes'][0]['distance']] for it in items], [it['closest_genomes'][0]['genome']['key'] for it in items])
		# query_parse
		from gambit.db import ReferenceDatabase
		from gambit.query import query_parse
		if 'db' not in _S:
			_S['db'] = ReferenceDatabase.load_from_dir(_entry_db())
		kw = dict(case.get('parse_kw') or {})
		if kw.get('concurrency') == 'none':
			kw['concurrency'] = None
		files = [_seqfile(f, bool(case.get('auto'))) for f in q]
		ex = None
		if kw.pop('executor', None):
			ex = kw['executor'] = ThreadPoolExecutor(max_workers=3)
		try:
			with _Quiet():
				res = query_parse(_S['db'], files, parse_kw=kw or None, progress=_progress_arg(case.get('progress')), **({'file_labels': [f'label-{i}' for i in range(len(q))]} if case.get('labels') else {}))
		finally:
			if ex is not None:
				ex.shutdown(wait=True)
		return ('rows', [[float(it.closest_genomes[0].distance)] for it in res.items], [it.closest_genomes[0].genome.key for it in res.items])
	except Exception as e:     # noqa
		return ('failed', type(e).__name__)
	finally:
		if os.path.exists(out):
			os.remove(out)


def _entry_bad(what, q, refs, singles, obs):
	"""the property on the output of an entry point other than calc_file_signatures: None if it holds, else a description.
	singles: fid -> ('ok', signature) | ('err', ...)"""
	allf = list(q) + list(refs or [])
	unreadable = sorted(f for f in allf if singles[f][0] == 'err')
	bad = None
	if obs[0] == 'failed':
		if not unreadable:
			bad = f'failed ({obs[1]}) although every file is readable'
	elif unreadable:
		bad = f'produced a result although {unreadable} cannot be read'
	else:
		if what == 'dist':
			cols = q if refs is None else refs
			want = [[_dist(singles[a][1], singles[b][1]) for b in cols] for a in q]
			tol = 6e-5      # 4 decimals are printed
		else:
			want = [[min(_dist(singles[a][1], _file_table()[r]['ref']) for r in DB_REFS)] for a in q]
			tol = 2e-6
		got = obs[1]
		if len(got) != len(want):
			bad = f'{len(got)} result rows for {len(want)} files'
		else:
			wrong = [i for i in range(len(want)) if len(got[i]) != len(want[i]) or any(abs(x - y) > tol for x, y in zip(got[i], want[i]))]
			if wrong:
				i = wrong[0]
				src = [j for j in range(len(want)) if len(got[i]) == len(want[j]) and all(abs(x - y) <= tol for x, y in zip(got[i], want[j]))]
				bad = (f'row {i} (file {q[i]}) does not hold the distances of that file\'s signature'
				       + (f': it holds those of file {src[0]} ({q[src[0]]})' if src else '') + f'; rows wrong: {wrong[:6]}')
			elif what != 'dist':
				# a query file that is itself a reference genome must be matched to that genome
				lab = obs[2]
				off = [i for i, f in enumerate(q) if f in DB_REFS and lab[i] != f]
				if off:
					bad = f'result {off[0]} (file {q[off[0]]}) names {lab[off[0]]} as the closest genome'
	return bad


def k_entry(ctx, cases):
	for n, case in enumerate(cases):
		q, refs = case['files'], case.get('refs')
		what = case['entry']
		auto = what != 'qparse' or bool(case.get('auto'))
		obs = _run_entry(case, n)
		if obs == ('failed', 'BrokenProcessPool'):
			ctx.count('pool:broken-process-pool-retried')
			obs = _run_entry(case, n)
		ctx.count('entry:' + what)
		allf = list(q) + list(refs or [])
		singles = {f: _single(f, None, auto) for f in allf}
		ctx.case(case, nontrivial=len(q) >= 2 and _distinct(q))
		bad = _entry_bad(what, q, refs, singles, obs)
		if bad is not None:
			ctx.violation('entry', case, f'{what} on {len(q)} files: {bad}', impl=obs, spec=[singles[f][0] for f in allf], files=_describe(allf))


# ------------------------------------------------------------------------------------------------
# kind seq: a short script of calls over a small pool of SHARED, long-lived objects (statefulness and aliasing audit;
# table "state and aliasing" in the module docstring).  case = dict(
#   lists    name -> dict(files=[fid...], container=list|tuple|deque|seqclass)   the caller's file lists (built ONCE per case)
#   kspecs   name -> None | [k, prefix]                                          the caller's KmerSpec objects
#   execs    name -> dict(type=threads|processes|sync, workers=n)                the caller's executors (open for the whole case)
#   pkw      name -> dict(concurrency=, max_workers=, executor=exec name)        the caller's parse_kw dicts (query_parse)
#   accs     name -> kspec name                                                  the caller's k-mer accumulators
#   steps    [step...]  executed in order, in ONE process, on the objects above:
#     calc     list, ks, mode seq|threads|processes|default|sup (+ex), workers, progress, thread main|helper|fresh,
#              twice (repeat the identical call), fault dict(kind=container|submit|meter, at=j) (an object the caller
#              supplied raises part-way through the call, once)
#     single   file, ks, acc (calc_file_signature, optionally into a caller-supplied accumulator)
#     rewrite  file (mut0|mut1), v   the file at that path gets other content (MUT_VARIANTS)
#     cli      list, ks, cores          gambit signatures create
#     dist     list, cores              gambit dist --square
#     query    list, cores              gambit query -f json
#     qparse   list, pkw, labels        gambit.query.query_parse(db, list, parse_kw=<the shared dict>, file_labels=<shared list>) )
# Every step is judged by the property predicate against the harness's own reference signatures of what the files hold AT
# THAT MOMENT (and, inside the model's domain, compared with Model op 1303); after every step every caller-owned object
# must be what it was before the step; a repeated call must return what the first returned; the result the caller got is
# overwritten and emptied before the next step (it is the caller's: no later result may be the same storage).
# ------------------------------------------------------------------------------------------------

class HarnessFault(RuntimeError):
	"""raised on purpose by an object the caller supplied (container / executor / progress meter)"""


class FaultyList(ListLike):
	"""a Sequence that can be armed to raise, once, when element `armed` is read"""

	def __init__(self, items):
		super().__init__(items)
		self.armed = None

	def _check(self, i):
		if self.armed is not None and i == self.armed:
			self.armed = None
			raise HarnessFault(f'the caller\'s container fails at element {i}')

	def __getitem__(self, i):
		if isinstance(i, int):
			self._check(i if i >= 0 else i + len(self._items))
		return self._items[i]

	def __iter__(self):
		for i in range(len(self._items)):
			self._check(i)
			yield self._items[i]


class SharedExecutor(Executor):
	"""the caller's long-lived executor of a seq case: a real pool / SyncExecutor behind a thin wrapper that can be
	armed to refuse, once, the j-th job of the next call"""

	def __init__(self, inner):
		self.inner = inner
		self.armed = None
		self.count = 0
		self.shutdowns = 0

	def arm(self, at):
		self.armed, self.count = at, 0

	def submit(self, fn, /, *args, **kwargs):
		i = self.count
		self.count += 1
		if self.armed is not None and i == self.armed:
			self.armed = None
			raise HarnessFault(f'the caller\'s executor refuses job {i}')
		return self.inner.submit(fn, *args, **kwargs)

	def shutdown(self, wait=True, *, cancel_futures=False):
		self.shutdowns += 1
		self.inner.shutdown(wait=wait, cancel_futures=cancel_futures)


def _faulty_meter(at):
	"""progress factory whose meter raises, once, at its (at+1)-th increment"""
	state = {'armed': True}

	class Meter(_RecMeter):
		def increment(self, delta=1):
			self.n += delta
			if state['armed'] and self.n > at:
				state['armed'] = False
				raise HarnessFault(f'the caller\'s progress meter fails at increment {at + 1}')
	return Meter


class _Helper:
	"""a second, long-lived thread of the caller that runs some of the steps"""

	def __init__(self):
		import queue
		self.q = queue.Queue()
		self.t = threading.Thread(target=self._loop, daemon=True)
		self.t.start()

	def _loop(self):
		while True:
			job = self.q.get()
			if job is None:
				return
			fn, box, ev = job
			try:
				box['r'] = fn()
			except BaseException as e:     # noqa
				box['e'] = e
			ev.set()

	def run(self, fn):
		box, ev = {}, threading.Event()
		self.q.put((fn, box, ev))
		if not ev.wait(600):
			raise RuntimeError('a step run in the helper thread did not return within 600 s')
		if 'e' in box:
			raise box['e']
		return box['r']

	def close(self):
		self.q.put(None)
		self.t.join(10)


def _in_thread(where, helper, fn):
	if where == 'helper':
		return helper().run(fn)
	if where == 'fresh':
		box = {}

		def run():
			try:
				box['r'] = fn()
			except BaseException as e:     # noqa
				box['e'] = e
		t = threading.Thread(target=run, daemon=True)
		t.start()
		t.join(600)
		if 'e' in box:
			raise box['e']
		if 'r' not in box:
			raise RuntimeError('a step run in a fresh thread did not return within 600 s')
		return box['r']
	return fn()


def _ksl(v):
	return None if v is None or (int(v[0]), str(v[1])) == (K, PREFIX) else (int(v[0]), str(v[1]))


def _observe_keep(call):
	"""as _observe, and the raw result (the caller's own object) so that it can be overwritten afterwards"""
	box = []

	def keep():
		box.append(call())
		return box[0]
	obs = _observe(keep)
	return obs, (box[0] if box else None)


def _scribble(res):
	"""what a caller may do with the list it was given: overwrite the signatures in place, then empty the list"""
	import numpy as np
	try:
		for a in list(res):
			if isinstance(a, np.ndarray) and a.flags.writeable and a.size:
				a[...] = np.iinfo(a.dtype).max if a.dtype.kind in 'ui' else 0
		while len(res):
			del res[len(res) - 1]
	except Exception:     # noqa: an immutable result cannot be scribbled on, which is fine
		pass


def _items_of(obj):
	return list(obj._items) if isinstance(obj, ListLike) else list(obj)


def _kspec_fields(ks):
	return (ks.k, bytes(ks.prefix), ks.prefix_str, ks.prefix_len, ks.total_len, ks.nkmers, str(ks.index_dtype))


def _seq_snapshot(objs):
	"""the observable state of everything the caller owns, and of the module-level state the entry points could touch"""
	import gambit.sigs.calc as calc
	from gambit.util import progress as gp
	snap = {}
	disk = {}
	for name, (obj, elems) in objs['lists'].items():
		items = _items_of(obj)
		snap[f'file list {name}'] = (type(obj).__name__, len(items), [id(e) for e in items],
		                             [(str(e.path), e.format, e.compression) if hasattr(e, 'path') else repr(e) for e in items])
		for e in elems:
			try:
				st = os.stat(os.fspath(e))
				disk[os.fspath(e)] = (st.st_size, st.st_mtime_ns)
			except OSError:
				disk[os.fspath(e)] = None
	snap['input files on disk'] = disk
	for name, ks in objs['kspecs'].items():
		snap[f'KmerSpec {name}'] = _kspec_fields(ks)
	if objs.get('progress') is not None:
		snap['ProgressConfig'] = (id(objs['progress'].callable), dict(objs['progress'].kw))
	for name, d in objs['pkw'].items():
		snap[f'parse_kw dict {name}'] = {k: (v if isinstance(v, (str, int, type(None))) else id(v)) for k, v in d.items()}
	for name, lab in objs['labels'].items():
		snap[f'file_labels list {name}'] = list(lab)
	snap['gambit.util.progress.REGISTRY'] = sorted((str(k), id(v)) for k, v in gp.REGISTRY.items())
	snap['gambit.sigs.calc pool classes'] = (calc.ThreadPoolExecutor is ThreadPoolExecutor, calc.ProcessPoolExecutor is ProcessPoolExecutor)
	snap['working directory'] = os.getcwd()
	return snap


def _seq_build(case):
	from gambit.util import progress as gp
	from gambit.sigs.calc import default_accumulator
	import collections
	objs = dict(lists={}, kspecs={}, execs={}, pkw={}, labels={}, accs={}, progress=None, keep=[])
	shared = {}
	for name, spec in case['lists'].items():
		elems = []
		own = {}
		for f in spec['files']:
			pool = shared if case.get('share_elems', True) else own
			if f not in pool:
				pool[f] = _seqfile(f)
			elems.append(pool[f])
		c = spec.get('container', 'list')
		obj = FaultyList(elems) if c == 'seqclass' else tuple(elems) if c == 'tuple' else collections.deque(elems) if c == 'deque' else list(elems)
		if c == 'seqclass':
			collections.abc.Sequence.register(ListLike)
		objs['lists'][name] = (obj, list(elems))
	for name, v in (case.get('kspecs') or {'k0': None}).items():
		objs['kspecs'][name] = _kspec(_ksl(v))
	for name, spec in (case.get('execs') or {}).items():
		w = spec.get('workers') or 2
		inner = ThreadPoolExecutor(max_workers=w) if spec['type'] == 'threads' else ProcessPoolExecutor(max_workers=w) if spec['type'] == 'processes' else SyncExecutor()
		objs['execs'][name] = SharedExecutor(inner)
	objs['progress'] = gp.progress_config(_RecMeter, desc='verif', leave=False)
	for name, spec in (case.get('pkw') or {}).items():
		d = {}
		if 'concurrency' in spec:
			d['concurrency'] = None if spec['concurrency'] == 'none' else spec['concurrency']
		if 'max_workers' in spec:
			d['max_workers'] = spec['max_workers']
		if spec.get('executor'):
			d['executor'] = objs['execs'][spec['executor']]
		objs['pkw'][name] = d
	for name, ksname in (case.get('accs') or {}).items():
		objs['accs'][name] = [default_accumulator(objs['kspecs'][ksname].k), ksname, set()]
	return objs


def _seq_want(fid, ks, auto, cur):
	"""what the single-file call must give for this file NOW: ('ok', signature) | ('err', exception class).  Readable files:
	the harness's own reference signature of the sequences it wrote; files the harness made unreadable: the implementation's
	single-file call says whether (and how) they fail"""
	t = _file_table()[fid]
	if t.get('mutable'):
		v = _mut_variant(fid, cur[fid])
		return ('ok', _mut_ref(fid, cur[fid], ks)) if v['seqs'] is not None else ('err', v['exc'])
	if t['ref'] is not None:
		return ('ok', _ref(fid, ks))
	return _single(fid, ks, auto)


def _seq_fres(fid, ks, cur):
	"""the model's per-file outcome, or None outside the model's domain"""
	t = _file_table()[fid]
	if t.get('mutable'):
		v = _mut_variant(fid, cur[fid])
		return [0, _mut_ref(fid, cur[fid], ks)] if v['seqs'] is not None else [1, v['code']]
	if 'xbad' in t:
		return None
	return _model_fres(fid, ks)


def _run_seq(case, n):
	"""-> list of step records dict(i, op, what, bad (description | None), obs, want, model (request | None), exact, judged)"""
	objs = _seq_build(case)
	cur = {m: 0 for m in MUT}
	for m in MUT:
		_mut_write(m, 0)
	helper = []

	def get_helper():
		if not helper:
			helper.append(_Helper())
		return helper[0]
	recs = []
	try:
		for i, st in enumerate(case['steps']):
			op = st['op']
			if op == 'rewrite':
				cur[st['file']] = st['v']
				_mut_write(st['file'], st['v'])
				recs.append(dict(i=i, op=op, what=f'{st["file"]} := variant {st["v"]}', bad=None, judged=False))
				continue
			before = _seq_snapshot(objs)
			rec = _seq_step(case, st, objs, cur, get_helper, n, i)
			rec.update(i=i, op=op, judged=True)
			after = _seq_snapshot(objs)
			changed = []
			for key in before:
				if before[key] != after[key]:
					if key.startswith('parse_kw dict') and {k: v for k, v in after[key].items() if k != 'progress'} == before[key]:
						rec['known_progress_key'] = True      # see repo_fixes/C13-parse-kw-not-modified.diff
						continue
					changed.append(f'{key}: {str(before[key])[:300]} -> {str(after[key])[:300]}')
			if changed and rec['bad'] is None:
				rec['bad'] = 'the call modified what belongs to the caller -- ' + '; '.join(changed[:3])
			recs.append(rec)
	finally:
		for h in helper:
			h.close()
		for ex in objs['execs'].values():
			try:
				ex.inner.shutdown(wait=True)
			except Exception:     # noqa
				pass
	return recs


def _seq_step(case, st, objs, cur, get_helper, n, i):
	import gambit.sigs.calc as calc
	op = st['op']
	where = st.get('thread', 'main')
	ksname = st.get('ks', 'k0')
	ks = _ksl((case.get('kspecs') or {'k0': None})[ksname])
	kspec = objs['kspecs'][ksname]
	if op == 'single':
		fid = st['file']
		acc = objs['accs'][st['acc']] if st.get('acc') else None
		elem = _seqfile(fid)
		obs, res = _in_thread(where, get_helper, lambda: _observe_keep(
			lambda: [calc.calc_file_signature(kspec, elem, **({'accumulator': acc[0]} if acc else {}))]))
		want = _seq_want(fid, ks, False, cur)
		if acc is not None and want[0] == 'ok':
			# documented: the caller's accumulator collects; the result is the signature of everything it holds
			acc[2].update(want[1])
			want = ('ok', sorted(acc[2]))
		bad = _predicate([fid], obs, singles=[want])
		if res is not None:
			_scribble(res)
		return dict(what=f'calc_file_signature({fid}{", accumulator=" + st["acc"] if acc else ""}) k-mer spec {ksname}', bad=bad, obs=obs, want=[want])
	lname = st['list']
	fids = case['lists'][lname]['files']
	files = objs['lists'][lname][0]
	auto = op in ('cli', 'dist', 'query')
	# only the default k-mer spec for the entry points that compare distances (the reference database has that spec)
	wants = [_seq_want(f, ks, auto, cur) for f in fids]
	if op == 'calc':
		mode = st.get('mode', 'seq')
		fault = st.get('fault')
		ex = objs['execs'][st['ex']] if mode == 'sup' else _OMIT
		conc = {'seq': None, 'threads': 'threads', 'processes': 'processes', 'default': _OMIT, 'sup': _OMIT}[mode]
		w = st.get('workers')
		p = st.get('progress')
		prog = _OMIT if p is None else objs['progress'] if p == 'shared' else _progress_arg(p)
		may_refuse = False
		if fault:
			may_refuse = True
			if fault['kind'] == 'container' and isinstance(files, FaultyList):
				files.armed = fault['at']
			elif fault['kind'] == 'submit' and mode == 'sup':
				ex.arm(fault['at'])
			elif fault['kind'] == 'meter':
				prog = _faulty_meter(fault['at'])
			else:
				may_refuse = False

		def call():
			return _observe_keep(lambda: _call_calc(st.get('form', 'kw'), kspec, files, progress=prog, concurrency=conc,
			                                        max_workers=_OMIT if w is None else w, executor=ex))
		obs, res = _in_thread(where, get_helper, call)
		if isinstance(files, FaultyList):
			files.armed = None
		if mode == 'sup':
			ex.armed = None
		bad = _predicate(fids, obs, may_refuse, singles=wants)
		if res is not None:
			_scribble(res)
		if bad is None and st.get('twice') and not fault:
			obs2, res2 = _in_thread(where, get_helper, call)
			if res2 is not None:
				_scribble(res2)
			if obs2[0] != obs[0] or (obs[0] == 'done' and obs2[1] != obs[1]):
				bad = f'the same call repeated on the same objects gave another result: first {str(obs)[:200]}, then {str(obs2)[:200]}'
		fres = [_seq_fres(f, ks, cur) for f in fids]
		model = None
		if not fault and all(x is not None for x in fres):
			c = {'seq': 0, 'threads': 1, 'processes': 2, 'default': 2}.get(mode, 1)
			model = (1303, [c, mode == 'sup', [[j, x] for j, x in enumerate(fres)], list(range(len(fids)))])
		nbad = sum(1 for x in wants if x[0] == 'err')
		return dict(what=f'calc_file_signatures(list {lname} = {fids}, k-mer spec {ksname}, {mode}{" " + st["ex"] if mode == "sup" else ""}'
		                 f'{", max_workers=" + str(w) if w is not None else ""}{", fault " + str(fault) if fault else ""}) in thread {where}',
		            bad=bad, obs=obs, want=wants, model=model, exact=nbad <= 1, may_refuse=may_refuse)
	if op == 'cli':
		from gambit.sigs.base import load_signatures
		out_dir = os.path.join(_S['dir'], 'cli-out')
		os.makedirs(out_dir, exist_ok=True)
		out = os.path.join(out_dir, f'seq-{os.getpid()}-{n}-{i}.gs')
		if os.path.exists(out):
			os.remove(out)
		k, pre = (K, PREFIX) if ks is None else ks
		args = ['signatures', 'create', '-k', str(k), '-p', pre, '-o', out, '--no-progress']
		if st.get('cores') is not None:
			args += ['-c', str(st['cores'])]
		args += [_file_table()[f]['path'] for f in fids]
		obs = _in_thread(where, get_helper, lambda: _invoke(args))
		if obs is None:
			def read():
				with load_signatures(out) as sigs:
					return [sigs[j] for j in range(len(sigs))]
			obs = _observe(read)
			if obs[0] == 'raised':
				obs = ('output-unreadable', obs[1])
		if os.path.exists(out):
			os.remove(out)
		return dict(what=f'gambit signatures create -c {st.get("cores")} on list {lname} = {fids}, k-mer spec {ksname}',
		            bad=_predicate(fids, obs, singles=wants), obs=obs, want=wants)
	singles = dict(zip(fids, wants))
	if op in ('dist', 'query'):
		obs = _in_thread(where, get_helper, lambda: _run_entry(dict(entry=op, files=fids, refs=None, cores=st.get('cores')), 100000 + 100 * n + i))
		what = f'gambit {op}{" --square" if op == "dist" else ""} -c {st.get("cores")} on list {lname} = {fids}'
		return dict(what=what, bad=_entry_bad(op, fids, None, singles, obs), obs=obs, want=wants)
	if op == 'qparse':
		from gambit.db import ReferenceDatabase
		from gambit.query import query_parse
		if 'db' not in _S:
			_S['db'] = ReferenceDatabase.load_from_dir(_entry_db())
		pkw = objs['pkw'][st['pkw']] if st.get('pkw') else None
		kw = {}
		if st.get('labels'):
			kw['file_labels'] = objs['labels'].setdefault(lname, [f'label-{lname}-{j}' for j in range(len(fids))])

		def call():
			try:
				with _Quiet():
					res = query_parse(_S['db'], files, parse_kw=pkw, progress=None, **kw)
				return ('rows', [[float(it.closest_genomes[0].distance)] for it in res.items], [it.closest_genomes[0].genome.key for it in res.items],
				        [it.input.label for it in res.items])
			except Exception as e:     # noqa
				return ('failed', type(e).__name__)
		# always in the main thread: the database object holds an SQLite session, which is bound to the thread that made it
		obs = call()
		bad = _entry_bad('qparse', fids, None, singles, obs)
		if bad is None and obs[0] == 'rows' and st.get('labels') and list(obs[3]) != list(kw['file_labels']):
			bad = f'result items carry the labels {obs[3]}, the caller gave {kw["file_labels"]}'
		return dict(what=f'query_parse(list {lname} = {fids}, parse_kw={st.get("pkw")} {case.get("pkw", {}).get(st.get("pkw"))}, labels={bool(st.get("labels"))})',
		            bad=bad, obs=obs, want=wants)
	raise ValueError(op)


def k_seq(ctx, cases):
	t0 = time.time()
	runs = []
	for n, case in enumerate(cases):
		recs = _run_seq(case, n)
		if any(str(r.get('obs', ''))[:60].find('BrokenProcessPool') >= 0 for r in recs):
			ctx.count('pool:broken-process-pool-retried')
			recs = _run_seq(case, n)
			if any(str(r.get('obs', ''))[:60].find('BrokenProcessPool') >= 0 for r in recs):
				raise RuntimeError('process pool keeps breaking in this environment (worker processes are being killed)')
		runs.append(recs)
	where, reqs = [], []
	for j, recs in enumerate(runs):
		for r in recs:
			if r.get('model') is not None:
				where.append((j, r['i']))
				reqs.append(r['model'])
	answers = {}
	if reqs and ctx.model_ok:
		answers = dict(zip(where, ctx.model(reqs)))
	failing = []
	for j, case in enumerate(cases):
		recs = runs[j]
		judged = [r for r in recs if r['judged']]
		lists_distinct = any(len({tuple(w[1]) for w in r.get('want', []) if w[0] == 'ok'}) >= 2 for r in judged)
		ctx.case(case, nontrivial=len(judged) >= 2 and lists_distinct)
		for r in judged:
			ctx.count('seq:step-' + r['op'])
			if r.get('known_progress_key'):
				ctx.count('seq:skipped-known-query_parse-adds-progress-key-to-the-callers-parse_kw')
			if r.get('may_refuse'):
				ctx.count('seq:steps-with-a-failing-caller-object')
			if r.get('obs', ('',))[0] in ('raised', 'failed'):
				ctx.count('seq:steps-that-failed')
		ctx.count('seq:steps-judged', len(judged))
		first = next((r for r in recs if r['bad'] is not None), None)
		trace = [f'step {r["i"]}: {r["what"]} -> ' + ('' if not r['judged'] else 'VIOLATED: ' + r['bad'] if r['bad'] else
		         f'{r["obs"][0]}' + (f' ({len(r["obs"][1])} items)' if r['obs'][0] in ('done', 'rows') else f' {r["obs"][1]}')) for r in recs]
		if first is not None:
			failing.append((case, first, trace, len(recs)))
			continue
		for r in judged:
			ans = answers.get((j, r['i']))
			if ans is None:
				continue
			obs, mobs = r['obs'], _model_obs(ans, [])
			if r['exact'] and obs[0] == 'raised' and mobs[0] == 'raised' and obs[1] != mobs[1]:
				ctx.count('note:exception-class-differs-from-model')
			if obs[0] != mobs[0] or (obs[0] == 'done' and obs[1] != mobs[1]):
				ctx.broke('correspondence seq (model outcome != implementation outcome, property predicate holds)',
				          f'case {case} step {r["i"]}: impl={str(obs)[:200]} model={str(mobs)[:200]}')
	# The cases of a run share one process, so a violation may depend on state left by EARLIER cases and its replay
	# (one case in a fresh process) may then show nothing.  The first few failing cases are therefore re-run alone in a
	# fresh interpreter; the ones that fail there too are reported first (their replay is self-contained).
	alone_of = {}
	confirmed = 0
	if not ctx.replaying:
		# a case whose FIRST step already fails was most likely hit by state from earlier cases: try the others first
		for x in sorted(range(len(failing)), key=lambda x: failing[x][1]['i'] == 0)[:6]:
			if confirmed >= 2:
				break
			alone_of[x] = _seq_confirm(failing[x][0])
			confirmed += bool(alone_of[x])
	front = 0
	for x, (case, first, trace, nsteps) in enumerate(failing):
		alone = alone_of.get(x)
		note = ''
		if alone:
			ctx.count('seq:violations-reproduced-alone-in-a-fresh-process')
			note = ' [reproduced by this case alone in a fresh process]'
		elif alone is not None:
			ctx.count('seq:violations-not-reproduced-alone')
			note = (' [NOT reproduced by this case alone in a fresh process: state left by earlier cases of the run is involved; '
			        'the replay of this file alone may show nothing]')
		ctx.violation('seq', case, f'step {first["i"]} of {nsteps} ({first["what"]}): {first["bad"]}{note}', impl=first.get('obs'),
		              spec=[(w[0], w[1] if w[0] == 'err' else f'{len(w[1])} k-mers') for w in first.get('want', [])], steps=trace)
		if alone:
			# the runner reports the first three violations: self-contained ones go to the front
			ctx.violations.insert(front, ctx.violations.pop())
			front += 1
	ctx.count('seq:wall-ms', int(1000 * (time.time() - t0)))


def _seq_confirm(case):
	"""run the case alone in a fresh interpreter (what a replay does) -> True if a step is violated there too, False if
	not, None if the child could not be run"""
	import json
	import subprocess
	import sys
	path = os.path.join(_S['dir'], f'confirm-{os.getpid()}-{len(os.listdir(_S["dir"]))}.json')
	with open(path, 'w') as f:
		json.dump(case, f)
	code = 'import sys\nfrom harness import c13\nc13._seq_child(sys.argv[1])\n'
	try:
		r = subprocess.run([sys.executable, '-c', code, path], capture_output=True, text=True, timeout=900)
	except Exception:     # noqa
		return None
	for line in r.stdout.splitlines():
		if line.startswith('SEQ-CHILD '):
			return json.loads(line[10:])['bad'] is not None
	return None


def _seq_child(path):
	import json
	from vf import impl
	impl.check_import()
	_file_table()
	with open(path) as f:
		case = json.load(f)
	recs = _run_seq(case, 0)
	first = next((r for r in recs if r['bad'] is not None), None)
	print('SEQ-CHILD ' + json.dumps(dict(bad=None if first is None else f'step {first["i"]}: {first["bad"]}')))


KINDS = {'sched': k_sched, 'pool': k_pool, 'cli': k_cli, 'var': k_var, 'entry': k_entry, 'seq': k_seq}

GOOD_SMALL = [f's{i}' for i in range(16)]


def generate(ctx):
	rng = ctx.rng
	ctx.rule(RULE)
	for a in ASSUMPTIONS:
		ctx.assume(a)

	# ---- 1. exhaustive: every completion order x every position of an unreadable file -------------
	nmax = ctx.pick(5, 6)
	total = 0
	for n in range(0, nmax + 1):
		base = GOOD_SMALL[:n]
		for sigma in itertools.permutations(range(n)):
			for badpos in [None] + list(range(n)):
				fids = list(base)
				if badpos is not None:
					fids[badpos] = ['missing', 'nohdr', 'binary', 'dir', 'notgz', 'truncgz'][(badpos + sum(sigma[:2])) % 6]
				total += 1
				yield 'sched', dict(files=fids, sigma=list(sigma), path='supplied')
	ctx.count('stream:exhaustive-supplied-executor', total)
	# the same through the executor-selection code (pool classes replaced by the controllable one)
	total = 0
	for path in ('threads', 'processes'):
		for n in range(0, 5):
			for sigma in itertools.permutations(range(n)):
				for badpos in [None] + list(range(n)):
					fids = GOOD_SMALL[4:4 + n]
					if badpos is not None:
						fids[badpos] = 'binary' if path == 'threads' else 'missing'
					total += 1
					yield 'sched', dict(files=fids, sigma=list(sigma), path=path, workers=[None, 1, 2, 3, 8][(n + len(fids) + sigma[0] if n else 0) % 5])
	ctx.count('stream:exhaustive-patched-pool-classes', total)
	ctx.exhaustive = True
	ctx.extra['exhaustive_scope'] = (f'caller-supplied executor: all completion orders of n<={nmax} files x (no bad file | bad file at each '
	                                 f'position); concurrency=threads/processes with the pool class replaced: all orders of n<=4 x the same')

	# ---- 2. random schedules on more files, several bad files, worker-pool schedules from the model ----
	nrand = ctx.pick(250, 2500)
	pool_reqs = []
	pool_cases = []
	for _ in range(nrand):
		n = rng.randint(2, 14)
		fids = rng.sample(GOOD_SMALL + ['z0', 'z1', 'm0', 'e0'], n)
		r = rng.random()
		if r < 0.45:
			for pos in rng.sample(range(n), rng.randint(1, min(3, n))):
				fids[pos] = rng.choice(list(BAD))
		path = rng.choice(['supplied', 'supplied', 'threads', 'processes'])
		case = dict(files=fids, path=path)
		if path != 'supplied':
			case['workers'] = rng.choice([None, 1, 2, 4, 7, 16])
		if rng.random() < 0.5:
			sigma = list(range(n))
			rng.shuffle(sigma)
			if rng.random() < 0.2:
				sigma = list(reversed(range(n)))
			case['sigma'] = sigma
			ctx.count('stream:random-schedules')
			yield 'sched', case
		else:
			# the order a w-worker pool produces for random job durations (Model pool_order)
			w = rng.randint(1, 8)
			durs = [rng.choice([1, 1, 2, 5, 40, 300]) for _ in range(n)]
			pool_reqs.append((1306, [w, durs, list(range(n))]))
			pool_cases.append(case)
	if pool_reqs and ctx.model_ok:
		for case, sigma in zip(pool_cases, ctx.model(pool_reqs)):
			case['sigma'] = sigma
			ctx.count('stream:model-worker-pool-schedules')
			yield 'sched', case

	# ---- 3. real pools ---------------------------------------------------------------------------------
	def skewed(n, big):
		"""first files large, later ones tiny: later files finish first on >=2 workers"""
		return [f'b{i % 3}' for i in range(big)] + rng.sample(GOOD_SMALL, n - big)

	# concurrency=None (sequential path), incl. bad file at every position
	for n in (0, 1, 3, 5):
		yield 'pool', dict(files=GOOD_SMALL[:n], conc=None, workers=None)
		for pos in range(n):
			fids = GOOD_SMALL[:n]
			fids[pos] = list(BAD)[(pos + n) % 6]
			yield 'pool', dict(files=fids, conc=None, workers=rng.choice([None, 3]))
	fids = GOOD_SMALL[:6]
	fids[1], fids[4] = 'nohdr', 'missing'
	yield 'pool', dict(files=fids, conc=None, workers=None)
	yield 'pool', dict(files=['s1', 's2', 's1', 's3', 's1'], conc=None, workers=None)
	ctx.count('stream:sequential', 14)
	wmax = 8
	for conc in ('threads', 'processes'):
		reps = ctx.pick(1, 4)
		for _ in range(reps):
			for w in list(range(1, wmax + 1)) + [None]:
				n = rng.randint(3, 7)
				# size skew, all readable; owned pool and caller-supplied pool
				yield 'pool', dict(files=skewed(n, 1), conc=conc, workers=w)
				ctx.count('stream:real-pool-skewed')
				if w is not None and (conc == 'threads' or w in (2, 3, 8) or not ctx.quick):
					yield 'pool', dict(files=skewed(n, 1 + (w % 2)), conc=conc, workers=w, supplied=True)
					ctx.count('stream:real-pool-skewed')
				# an unreadable file at a rotating position, with skew
				fids = skewed(n, 1)
				pos = (w or 0) % n
				fids[pos] = list(BAD)[((w or 0) + n) % 6]
				if conc == 'threads' or (w or 0) % 2 == 0 or not ctx.quick:
					yield 'pool', dict(files=fids, conc=conc, workers=w, supplied=bool((w or 0) % 3 == 0 and w))
					ctx.count('stream:real-pool-bad-file')
		# bad file at EVERY position of a skewed list, 2 and 4 workers
		for w in (2, 4):
			n = 5
			for pos in range(n):
				fids = ['b0'] + GOOD_SMALL[8:8 + n - 1]
				fids[pos] = list(BAD)[(pos + w) % 6]
				if conc == 'threads' or w == 2 or not ctx.quick:
					yield 'pool', dict(files=fids, conc=conc, workers=w)
					ctx.count('stream:real-pool-bad-file')
		# the same file listed more than once: still one signature per list entry, in order
		for fids in (['s1', 's2', 's1', 's3'], ['s4', 's1', 's2', 's4', 's3', 's1', 's4'], ['s5', 's5'], ['b0', 's6', 'b0', 's6', 's6']):
			for w, sup in ((2, False), (None, False), (3, True)):
				yield 'pool', dict(files=list(fids), conc=conc, workers=w, supplied=sup)
				ctx.count('stream:real-pool-repeated-file')
		# two bad files, empty list, single file
		yield 'pool', dict(files=['b1', 'binary', 's1', 'dir', 's2'], conc=conc, workers=3)
		yield 'pool', dict(files=[], conc=conc, workers=2)
		yield 'pool', dict(files=['s3'], conc=conc, workers=5)
		yield 'pool', dict(files=['truncgz'], conc=conc, workers=1)
	# an unknown concurrency string: ValueError, never a list (malformed stream)
	yield 'pool', dict(files=['s0', 's1'], conc='fibers', workers=2)
	ctx.count('stream:malformed')

	# ---- 4. command line ------------------------------------------------------------------------------
	cli_cases = [dict(files=skewed(4, 1), cores=2), dict(files=skewed(5, 2), cores=3), dict(files=GOOD_SMALL[:3], cores=1),
	             dict(files=['s0', 'z0', 's5', 'z1'], cores=None), dict(files=['b2', 's1', 'nohdr', 's2'], cores=2),
	             dict(files=['binary', 's7', 's8'], cores=4), dict(files=['s9', 's10', 'truncgz'], cores=2)]
	if not ctx.quick:
		cli_cases += [dict(files=skewed(rng.randint(3, 8), 1), cores=c) for c in range(1, 9)]
	for c in cli_cases:
		yield 'cli', c

	# ==== 5. coverage-audit streams (see the table in the module docstring) ==============================
	yield from _audit_streams(ctx, rng, skewed)

	# ==== 6. statefulness and aliasing: scripts of calls over shared objects (table "state and aliasing") ==
	yield from _seq_streams(ctx, rng)


#: readable files by class
GOOD_FASTA = GOOD_SMALL + ['z0', 'z1', 'm0', 'm1', 'e0', 'c0', 'u0', 'n0', 'x0', 'rel0', 'k0', 'k1'] + [f'f{i}' for i in range(8)]
GOOD_NEW = ['q0', 'g0', 'c0', 'u0', 'n0', 'x0', 'rel0', 'k0', 'k1', 'zb0', 'f3', 'f5']
KSPECS = [None, None, [12, 'ATG'], [17, 'AT'], [4, 'ATG'], [11, 'ATGAC']]


def _audit_streams(ctx, rng, skewed):
	q = ctx.quick

	def some(pool, lo, hi):
		n = rng.randint(lo, hi)
		return [rng.choice(pool) for _ in range(n)] if n > len(pool) else rng.sample(pool, n)

	def owned_mode():
		return rng.choice(['seq', 'threads', 'processes', 'default'])

	# ---- 5a. call forms / containers / progress meters / k-mer specs / compression='auto' / shared objects
	for _ in range(ctx.pick(56, 400)):
		mode = rng.choice(['seq', 'threads', 'threads', 'processes', 'default', 'sup-threads', 'sup-sync'])
		fids = some(GOOD_FASTA + ['q0', 'g0'] + (['b0', 'zb0'] if rng.random() < 0.3 else []), 0 if rng.random() < 0.1 else 2, 7)
		if fids and rng.random() < 0.35:
			fids += [rng.choice(fids) for _ in range(rng.randint(1, 3))]      # repeated entries
			rng.shuffle(fids)
		if rng.random() < 0.25 and fids:
			fids[rng.randrange(len(fids))] = rng.choice(list(BAD) + XBAD)
		case = dict(files=fids, mode=mode, container=rng.choice(['list', 'tuple', 'deque', 'seqclass', 'ndarray', 'generator', 'tuple', 'seqclass']),
		            form=rng.choice(['kw', 'kw', 'pos', 'allkw']), progress=rng.choice(PROGRESS_KINDS))
		if rng.random() < 0.5:
			case['kspec'] = rng.choice(KSPECS)
		if rng.random() < 0.4:
			case['auto'] = True
		if rng.random() < 0.5:
			case['same_obj'] = True
		if mode in ('threads', 'processes', 'default', 'seq') and rng.random() < 0.6:
			case['workers'] = rng.choice([1, 2, 3, 5])
		if rng.random() < 0.15:
			del case['progress']
		ctx.count('stream:var-call-forms')
		yield 'var', case

	# ---- 5b. file classes the original table did not have, in every mode; the new unreadable classes at every position
	for mode in ('seq', 'threads', 'processes', 'sup-threads', 'sup-processes'):
		for rep in range(ctx.pick(2, 8)):
			fids = some(GOOD_NEW, 3, 6) + some(GOOD_SMALL, 1, 2)
			rng.shuffle(fids)
			ctx.count('stream:var-new-readable-classes')
			yield 'var', dict(files=fids, mode=mode, workers=rng.choice([None, 2, 4]), **({'pool_workers': 3} if mode.startswith('sup-') else {}))
		for k, bad in enumerate(XBAD):
			n = rng.randint(3, 5)
			if q and ((mode == 'processes' and (k + ctx.seed) % 2) or (mode == 'sup-processes' and (k + ctx.seed) % 3)):
				continue      # quick tier: process pools see every other / every third class (rotating with the seed)
			for pos in (range(n) if mode == 'seq' or not q else [(k + len(mode)) % n]):      # (5c has every position x every order)
				fids = some(GOOD_SMALL + GOOD_NEW, n, n)
				fids[pos] = bad
				if bad == 'latebig' and pos < n - 1:
					fids[pos + 1:] = some(GOOD_SMALL, n - 1 - pos, n - 1 - pos)     # small files finish before the big one fails
				ctx.count('stream:var-new-unreadable-classes')
				yield 'var', dict(files=fids, mode=mode, workers=rng.choice([2, 3, 4]), **({'pool_workers': 2} if mode.startswith('sup-') else {}))
	# two or three unreadable files of different (old and new) classes
	for _ in range(ctx.pick(10, 60)):
		fids = some(GOOD_SMALL, 2, 5) + rng.sample(list(BAD) + XBAD, rng.randint(2, 3))
		rng.shuffle(fids)
		ctx.count('stream:var-new-unreadable-classes')
		yield 'var', dict(files=fids, mode=rng.choice(['seq', 'threads', 'processes', 'sup-sync', 'sup-threads']), workers=rng.choice([None, 2]))

	# ---- 5c. controlled schedules (exhaustive orders) with the new unreadable classes at every position, n = 3
	total = 0
	for k, bad in enumerate(XBAD):
		for sigma in itertools.permutations(range(3)):
			for pos in range(3):
				fids = [GOOD_SMALL[(k + i) % 16] for i in range(3)]
				fids[pos] = bad
				total += 1
				yield 'sched', dict(files=fids, sigma=list(sigma), path=('supplied', 'threads', 'processes')[(k + pos) % 3], workers=2)
	for _ in range(ctx.pick(30, 400)):
		n = rng.randint(2, 9)
		fids = some(GOOD_SMALL + GOOD_NEW, n, n)
		for pos in rng.sample(range(n), rng.randint(0, min(3, n))):
			fids[pos] = rng.choice(XBAD + ['missing'])
		sigma = list(range(n))
		rng.shuffle(sigma)
		total += 1
		yield 'sched', dict(files=fids, sigma=sigma, path=rng.choice(['supplied', 'threads', 'processes']), workers=rng.choice([None, 3]))
	ctx.count('stream:sched-new-file-classes', total)

	# ---- 5d. caller-supplied executors of other kinds; what is passed next to executor= must not matter
	for _ in range(ctx.pick(40, 300)):
		mode = rng.choice(['sup-sync', 'sup-burst', 'sup-burst', 'sup-busy', 'sup-shared', 'sup-threads', 'sup-processes'])
		n = rng.randint(0 if rng.random() < 0.1 else 2, 8)
		fids = some(GOOD_SMALL + ['m0', 'm1', 'z0'], n, n)
		r = rng.random()
		if n and r < 0.3:
			fids[rng.randrange(n)] = rng.choice(list(BAD) + XBAD)
		elif n and r < 0.5:
			fids[rng.randrange(n)] = rng.choice(fids)
		case = dict(files=fids, mode=mode, extra=rng.choice(['omit', 'none', 'threads', 'processes', 'fibers']), pool_workers=rng.randint(1, 5))
		if rng.random() < 0.5:
			case['workers'] = rng.choice([1, 3, 0, -2, 64])
		if mode == 'sup-burst':
			sigma = list(range(n))
			rng.shuffle(sigma)
			case.update(sigma=sigma, split=rng.choice([0, n, n, rng.randint(0, n)]))
		if mode == 'sup-shared':
			case['files2'] = some(GOOD_SMALL + ['m2', 'z1'] + (['nohdr'] if rng.random() < 0.25 else []), 2, 7)
		if rng.random() < 0.3:
			case['progress'] = rng.choice(PROGRESS_KINDS)
		ctx.count('stream:var-supplied-executor-kinds')
		yield 'var', case
	for method in ('spawn', 'forkserver') if not q else (('spawn',) if ctx.seed % 2 == 0 else ('forkserver',)):
		fids = ['b0'] + some(GOOD_SMALL, 3, 4)
		if rng.random() < 0.5:
			fids[rng.randint(1, 3)] = rng.choice(['missing', 'late', 'badcrc'])
		ctx.count('stream:var-supplied-executor-kinds')
		yield 'var', dict(files=fids, mode='sup-' + method, pool_workers=2)

	# ---- 5e. worker counts: NumPy integer scalars, more workers than files, values the pools reject
	for mode in ('threads', 'processes', 'seq', 'default'):
		for w, t in [(2, 'np.int64'), (3, 'np.intp'), (1, 'np.uint8'), (4, 'np.int32'), (13, 'int'), (32 if mode == 'threads' else 16, 'int'),
		             (0, 'int'), (-1, 'int'), (2, 'float'), (2, 'str'), (0, 'np.int64')]:
			if q and mode in ('processes', 'default') and (w, t) in [(3, 'np.intp'), (4, 'np.int32'), (13, 'int'), (2, 'str'), (0, 'np.int64')]:
				continue
			if q and mode == 'default' and (w, t) not in [(2, 'np.int64'), (16, 'int'), (0, 'int'), (1, 'np.uint8')]:
				continue
			fids = ['b1' if rng.random() < 0.5 else 'm3'] + some(GOOD_SMALL, 2, 5)
			if rng.random() < 0.3:
				fids[rng.randrange(len(fids))] = rng.choice(list(BAD))
			ctx.count('stream:var-worker-counts')
			yield 'var', dict(files=fids, mode=mode, workers=w, wtype=t)

	# ---- 5f. other size skews: big file in the middle / last but one / descending sizes / compressed big file / alternating
	for conc in ('threads', 'processes'):
		for rep in range(ctx.pick(1, 4)):
			smalls = some(GOOD_SMALL, 6, 6)
			shapes = [smalls[:2] + ['b0'] + smalls[2:4],
			          smalls[:3] + ['b1', smalls[3]],
			          ['b2', 'm0', 'm1', smalls[0], smalls[1], 'e0'],
			          ['zb0'] + smalls[:3],
			          ['b0', smalls[0], 'b1', smalls[1], 'b2', smalls[2]],
			          ['m2', 'b0', smalls[0], 'zb0', smalls[1], smalls[2], smalls[3]],
			          ['latebig'] + smalls[:3], [smalls[0], 'latebig', smalls[1], smalls[2]]]
			for sh in shapes:
				ctx.count('stream:var-skew-shapes')
				yield 'var', dict(files=sh, mode=conc, workers=rng.choice([2, 3, 4]))
			sh = rng.choice(shapes[:6])
			ctx.count('stream:var-skew-shapes')
			yield 'var', dict(files=sh, mode='sup-' + conc, pool_workers=rng.choice([2, 3]))

	# ---- 5g. command line: list files, --ldir, long option, progress bar on, default k-mer spec, more -c values, repeated files
	cli_pool = GOOD_FASTA + ['b0', 'zb0']
	for i in range(ctx.pick(12, 80)):
		fids = some(cli_pool, 2, 7)
		# features rotate with i so that every quick run has each combination (list file x repeated entry x unreadable file)
		if i % 4 == 3:
			fids[rng.randrange(len(fids))] = rng.choice(['nohdr', 'binary', 'truncgz', 'late', 'latebig', 'badcrc', 'gbasfa'])
		elif i % 4 == 1 or i % 8 == 2:
			fids.insert(rng.randrange(len(fids)), rng.choice(fids))
		if i % 4 == 0:
			fids = [rng.choice(['b0', 'b1', 'zb0'])] + fids
		case = dict(files=fids, cores=rng.choice([None, 1, 2, 3, 5, 8, 12]))
		if i % 8 in (1, 3, 4, 6):
			case['listfile'] = ('abs', 'ldir')[(i // 8 + i) % 2]
			case['blank_lines'] = rng.random() < 0.3
		if rng.random() < 0.4:
			case['progress'] = True
		if rng.random() < 0.4:
			case['long'] = True
		if rng.random() < 0.35:
			case['kspec'] = rng.choice(['default', [12, 'ATG'], [6, 'AT']])
		ctx.count('stream:cli-variants')
		yield 'cli', case

	# ---- 5h. the other entry points
	fam = [f'f{i}' for i in range(8)]
	for i in range(ctx.pick(8, 60)):
		qf = some(fam + ['s0', 'm0', 'z0'], 2, 6)
		refs = None if rng.random() < 0.3 else some(fam + ['s1', 'm1'], 2, 6)
		r = rng.random()
		if r < 0.2:
			qf[rng.randrange(len(qf))] = rng.choice(['nohdr', 'binary', 'late', 'badcrc'])
		elif r < 0.3 and refs:
			refs[rng.randrange(len(refs))] = rng.choice(['nohdr', 'truncgz', 'late'])
		if i % 3 == 0:
			qf = ['b0'] + qf       # skew
		case = dict(entry='dist', files=qf, refs=refs, cores=rng.choice([None, 1, 2, 4]))
		if rng.random() < 0.4:
			case['listfile'] = rng.choice(['abs', 'ldir'])
		if rng.random() < 0.3:
			case['progress'] = True
		ctx.count('stream:entry-dist')
		yield 'entry', case
	for i in range(ctx.pick(12, 80)):
		qf = some(fam + ['s0', 's2', 'm0', 'z1', 'c0'], 2, 7)
		if i % 3 == 0:
			qf = ['b1'] + qf
		if rng.random() < 0.2:
			qf[rng.randrange(len(qf))] = rng.choice(['nohdr', 'binary', 'late', 'missing'] if i % 2 else ['nohdr', 'binary', 'late'])
		if i % 2:
			kw = {}
			if rng.random() < 0.8:
				kw['concurrency'] = rng.choice(['threads', 'processes', 'none'])
			if rng.random() < 0.6:
				kw['max_workers'] = rng.choice([1, 2, 4])
			if rng.random() < 0.25:
				kw['executor'] = True
			case = dict(entry='qparse', files=qf, parse_kw=kw, labels=rng.random() < 0.5, auto=rng.random() < 0.5)
			ctx.count('stream:entry-query-parse')
		else:
			case = dict(entry='query', files=qf, cores=rng.choice([None, 1, 2, 3]))
			if rng.random() < 0.4:
				case['listfile'] = rng.choice(['abs', 'ldir'])
			ctx.count('stream:entry-query-cli')
		yield 'entry', case

	# ---- 5i. value of progress= x execution mode x position of an unreadable file.  The meter is entered as a context manager
	# around the loop that collects the results (sequential: the progress iterator; executors: the meter itself), so whether the
	# failure of a file still reaches the caller depends on all three.  Every kind of meter (also: progress left out) x every mode
	# x an unreadable file at every position (n=3; thorough also n=2,5), a single unreadable file, and the all-readable list.
	kinds = PROGRESS_KINDS + PROGRESS_MORE + ['omit'] + (['tqdm'] if _have_tqdm() else [])
	if not _have_tqdm():
		ctx.count('var:progress-tqdm-not-installed')
	bads = list(BAD)
	late = ['late', 'badcrc', 'truncgz', 'latebig']
	rot = ['processes', 'default', 'sup-threads', 'sup-processes']
	for ki, kind in enumerate(kinds):
		modes = ['seq', 'threads', 'sup-sync'] + ([rot[(ki + ctx.seed) % 4]] if q else rot)
		for mi, mode in enumerate(modes):
			heavy = mode in rot
			shapes = []                     # (n, position of the unreadable file | None, its class)
			for n in ((3,) if q or heavy else (2, 3, 5)):
				for pos in ([(ki + mi) % n] if q and heavy else range(n)):
					shapes.append((n, pos, bads[(ki + mi + pos + n + ctx.seed) % 6]))
					if not q and not heavy:
						shapes.append((n, pos, late[(ki + pos + n) % 4]))
			shapes.append((3, None, None))
			if not heavy:
				shapes.append((1, 0, bads[(ki + mi + ctx.seed) % 6]))
				shapes.append((4, rng.randrange(4), rng.choice(late)))      # fails part-way through the file
				shapes.append((0, None, None))
			for n, pos, bad in shapes:
				fids = some(GOOD_SMALL, n, n)
				if pos is not None:
					fids[pos] = bad
				case = dict(files=fids, mode=mode, form=('kw', 'allkw', 'pos')[(ki + mi + n) % 3] if kind != 'omit' else 'kw')
				if kind != 'omit':
					case['progress'] = kind
				if mode != 'seq':
					case['workers'] = 2
				if mode.startswith('sup-'):
					case['pool_workers'] = 2
				ctx.count('stream:var-progress-unreadable')
				yield 'var', case
	# the same through query_parse(progress=...), which hands the meter configuration on to calc_file_signatures
	for ki, kind in enumerate(kinds):
		if kind in ('omit', 'true'):
			continue
		for conc in ('none', 'threads'):
			for pos in ([(ki + ctx.seed) % 3, None] if q else [0, 1, 2, None]):
				qf = some(fam, 3, 3)
				if pos is not None:
					qf[pos] = bads[(ki + pos) % 6] if (ki + pos) % 2 else late[(ki + pos) % 3]
				ctx.count('stream:entry-query-parse-progress')
				yield 'entry', dict(entry='qparse', files=qf, parse_kw=dict(concurrency=conc, max_workers=2), progress=kind, labels=bool(ki % 2), auto=False)


# ---- 6. statefulness and aliasing: scripts of calls over shared objects (kind seq) ---------------------------------
SEQ_GOOD = GOOD_SMALL + ['z0', 'c0', 'k0', 'n0'] + [f'f{i}' for i in range(8)]
#: unreadable files whose single-file call fails PART-WAY (after records were parsed / at the end of the stream), and early ones
SEQ_BAD_LATE = ['late', 'badcrc', 'truncgz']
SEQ_BAD = SEQ_BAD_LATE + ['binary', 'nohdr', 'missing']
#: k >= 5: the command line refuses smaller k
SEQ_KSPECS = [[12, 'ATG'], [17, 'AT'], [5, 'ATG'], [11, 'ATGAC'], [8, 'ATG'], [7, 'AT']]
SEQ_CONTAINERS = ['list', 'list', 'tuple', 'deque', 'seqclass', 'seqclass']


def _seq_streams(ctx, rng):
	def some(pool, lo, hi):
		n = rng.randint(lo, hi)
		return [rng.choice(pool) for _ in range(n)] if n > len(pool) else rng.sample(pool, n)

	def lst(fids, container=None):
		return dict(files=list(fids), container=container or rng.choice(SEQ_CONTAINERS))

	def with_bad(fids, bad=None):
		"""an unreadable file in the middle of the batch"""
		fids = list(fids)
		fids.insert(rng.randint(1, max(1, len(fids) - 1)), bad or rng.choice(SEQ_BAD_LATE + SEQ_BAD))
		return fids

	def modes_of(case):
		out = ['seq', 'seq', 'threads', 'processes', 'default'] + ['sup'] * (3 if case.get('execs') else 0)
		return out

	def calc(case, lname, ksname='k0', mode=None, **kw):
		mode = mode or rng.choice(modes_of(case))
		st = dict(op='calc', list=lname, ks=ksname, mode=mode)
		if mode == 'sup':
			st['ex'] = rng.choice(sorted(case['execs']))
		elif mode in ('threads', 'processes') or rng.random() < 0.3:
			st['workers'] = rng.choice([1, 1, 2, 3])
		if rng.random() < 0.35:
			st['thread'] = rng.choice(['helper', 'helper', 'fresh'])
		if rng.random() < 0.3:
			st['progress'] = rng.choice(['shared', 'shared', 'config', 'callable', 'none'])
		st.update(kw)
		return st

	def execs():
		r = rng.random()
		if r < 0.45:
			return {'X': dict(type='threads', workers=rng.choice([1, 1, 2, 3]))}
		if r < 0.6:
			return {'X': dict(type='sync')}
		if r < 0.75:
			return {'X': dict(type='processes', workers=rng.choice([1, 2]))}
		if r < 0.85:
			return {'X': dict(type='threads', workers=1), 'Y': dict(type='sync')}
		return {}

	def base_case():
		a = some(SEQ_GOOD, 3, 5)
		b = a[::-1][:rng.randint(1, len(a) - 1)] + some(SEQ_GOOD, 1, 3)      # other size, shared elements, other order
		case = dict(lists={'A': lst(a), 'B': lst(b)}, kspecs={'k0': None, 'k1': rng.choice(SEQ_KSPECS)}, execs=execs(), steps=[])
		if rng.random() < 0.3:
			case['share_elems'] = False
		return case, a, b

	templates = []
	nth = [ctx.seed]

	def template(fn):
		templates.append(fn)
		return fn

	@template
	def failed_batch_then_good_batch():
		"""(c) a batch that fails part-way, then good batches by the same thread / the same executor / the same objects"""
		case, a, b = base_case()
		case['lists']['C'] = lst(with_bad(a, rng.choice(SEQ_BAD_LATE)))
		case['execs'] = {'X': dict(type=rng.choice(['threads', 'threads', 'sync']), workers=1)}
		mode = rng.choice(['seq', 'sup', 'sup'])
		th = rng.choice(['main', 'helper'])
		ks = rng.choice(['k0', 'k0', 'k1'])
		case['steps'] = [calc(case, 'C', ks, mode, thread=th), calc(case, 'A', ks, mode, thread=th), calc(case, 'B', ks, mode, thread=th),
		                 calc(case, 'C', ks, mode, thread=th), calc(case, 'B', ks)]
		return case

	@template
	def same_list_two_kspecs_both_orders():
		"""(a) one file list used with two k-mer specs, in both orders"""
		case, a, b = base_case()
		m = rng.choice(['seq', 'threads', 'sup' if case['execs'] else 'seq'])
		first = rng.choice(['k0', 'k1'])
		other = 'k1' if first == 'k0' else 'k0'
		case['steps'] = [calc(case, 'A', first, m), calc(case, 'A', other, m), calc(case, 'A', first), calc(case, 'B', other, m), calc(case, 'B', first, m)]
		return case

	@template
	def same_kspec_and_executor_two_lists_both_orders():
		"""(a) one KmerSpec / executor / progress configuration used with two lists of different size, in both orders"""
		case, a, b = base_case()
		if not case['execs']:
			case['execs'] = {'X': dict(type='threads', workers=2)}
		ks = rng.choice(['k0', 'k1'])
		case['steps'] = [calc(case, x, ks, 'sup', progress='shared') for x in rng.choice([['A', 'B', 'A'], ['B', 'A', 'B'], ['A', 'B', 'B', 'A']])]
		case['steps'].append(calc(case, 'A', ks, twice=True))
		return case

	@template
	def file_rewritten_between_calls():
		"""(a) one SequenceFile object / one path against files of different size and content, in both orders; incl. unreadable"""
		case, a, b = base_case()
		m0 = rng.choice(MUT)
		a2 = list(a)
		a2.insert(rng.randint(0, len(a2)), m0)
		case['lists']['A'] = lst(a2)
		case['lists']['B'] = lst(b + MUT)
		vs = rng.sample(MUT_VARIANTS[1:], 2)
		ks = rng.choice(['k0', 'k0', 'k1'])
		m = rng.choice(['seq', 'threads', 'processes', 'sup' if case['execs'] else 'seq'])
		case['steps'] = [calc(case, 'A', ks, m), dict(op='rewrite', file=m0, v=vs[0]), calc(case, 'A', ks, m), calc(case, 'B', ks),
		                 dict(op='rewrite', file=m0, v=vs[1]), calc(case, 'A', ks, m), dict(op='rewrite', file=m0, v=0), calc(case, 'A', ks, m)]
		return case

	@template
	def caller_object_fails_part_way():
		"""(c) the caller's container / executor / progress meter raises in the middle of the batch, then the good call is repeated"""
		case, a, b = base_case()
		kind = rng.choice(['container', 'submit', 'meter'])
		case['lists']['A'] = lst(a, 'seqclass')
		case['execs'] = {'X': dict(type=rng.choice(['threads', 'sync', 'threads', 'processes']), workers=rng.choice([1, 2]))}
		m = 'sup' if kind == 'submit' else rng.choice(['seq', 'sup', 'threads'])
		at = rng.randint(0 if kind != 'meter' else 0, len(a) - 2)
		th = rng.choice(['main', 'helper'])
		case['steps'] = [calc(case, 'A', 'k0', m, thread=th, fault=dict(kind=kind, at=at)), calc(case, 'A', 'k0', m, thread=th), calc(case, 'B', 'k0', m, thread=th),
		                 calc(case, 'B', 'k1', m, thread=th, fault=dict(kind=kind if kind != 'container' else 'meter', at=0)), calc(case, 'A', 'k1', m, thread=th)]
		for st in case['steps']:
			if st.get('fault') and st['fault']['kind'] == 'meter':
				st.pop('progress', None)
		return case

	@template
	def same_call_twice():
		"""(d) the identical call twice on the same objects, every mode"""
		case, a, b = base_case()
		case['lists']['C'] = lst(with_bad(b))
		case['steps'] = [calc(case, rng.choice('ABC'), rng.choice(['k0', 'k1']), twice=True) for _ in range(rng.randint(2, 4))]
		return case

	@template
	def query_parse_shared_parse_kw():
		"""(a)(b) one parse_kw dict / file_labels list / database object over several query_parse calls, lists of different size
		in both orders; the concurrency named in the dict rotates so that every run has each value"""
		case, a, b = base_case()
		nth[0] += 1
		case['kspecs'] = {'k0': None}
		case['execs'] = {'X': dict(type='threads', workers=2)}
		case['lists']['C'] = lst(with_bad(a))
		case['pkw'] = {'D': dict(concurrency=['threads', 'none', 'processes'][nth[0] % 3], max_workers=rng.choice([1, 2])),
		               'E': dict(executor='X')}
		if rng.random() < 0.3:
			del case['pkw']['D']['max_workers']
		order = [['A', 'B', 'A'], ['B', 'A', 'B'], ['A', 'C', 'B', 'A'], ['C', 'A', 'A']][nth[0] % 4]
		case['steps'] = [dict(op='qparse', list=x, pkw='D' if j < 2 else rng.choice(['D', 'E', None]), labels=rng.random() < 0.6) for j, x in enumerate(order)]
		case['steps'].insert(rng.randint(1, len(case['steps'])), calc(case, rng.choice('AB'), 'k0'))
		case['steps'].append(dict(op='qparse', list=rng.choice('AB'), pkw='E', labels=True))
		return case

	@template
	def command_line_between_api_calls():
		"""(a) the in-process command line commands interleaved with API calls (module-level state shared by both)"""
		case, a, b = base_case()
		case['lists']['C'] = lst(with_bad(a))
		m0 = rng.choice(MUT)
		case['lists']['B'] = lst(b + [m0])
		steps = [dict(op='cli', list=rng.choice('AB'), ks=rng.choice(['k0', 'k1']), cores=rng.choice([None, 1, 2])),
		         calc(case, rng.choice('AB'), rng.choice(['k0', 'k1'])),
		         dict(op=rng.choice(['dist', 'query', 'cli']), list=rng.choice('ABC'), cores=rng.choice([None, 2])),
		         dict(op='rewrite', file=m0, v=rng.choice(MUT_VARIANTS[1:5])),
		         dict(op=rng.choice(['cli', 'dist']), list='B', cores=rng.choice([1, 2])),
		         calc(case, 'B', 'k0')]
		case['steps'] = steps
		return case

	@template
	def single_file_calls_and_accumulators():
		"""(a)(b) calc_file_signature alone and into a caller-supplied accumulator (documented to collect), between batches"""
		case, a, b = base_case()
		case['accs'] = {'a0': 'k0', 'a1': 'k1'}
		case['lists']['C'] = lst(with_bad(b, rng.choice(SEQ_BAD_LATE)))
		steps = [dict(op='single', file=rng.choice(a), ks='k0', acc='a0'), calc(case, 'A', 'k0', rng.choice(['seq', 'threads'])),
		         dict(op='single', file=rng.choice(SEQ_BAD_LATE), ks=rng.choice(['k0', 'k1'])),
		         dict(op='single', file=rng.choice(b), ks='k0', acc='a0'), dict(op='single', file=rng.choice(a), ks='k1', acc='a1'),
		         calc(case, 'C', 'k1', 'seq'), dict(op='single', file=rng.choice(a), ks='k1'), calc(case, 'B', 'k1')]
		for st in steps:
			if rng.random() < 0.25:
				st['thread'] = 'helper'
		case['steps'] = steps
		return case

	def random_script():
		case, a, b = base_case()
		case['lists']['C'] = lst(with_bad(some(SEQ_GOOD, 2, 4)))
		muts = []
		if rng.random() < 0.5:
			muts = rng.sample(MUT, rng.randint(1, 2))
			case['lists']['B'] = lst(b + muts)
		if rng.random() < 0.3:
			case['pkw'] = {'D': dict(concurrency=rng.choice(['threads', 'none']))}
		steps = []
		for _ in range(rng.randint(2, 6)):
			r = rng.random()
			ln = rng.choice(['A', 'A', 'B', 'B', 'C'])
			if r < 0.62:
				st = calc(case, ln, rng.choice(['k0', 'k0', 'k1']))
				if rng.random() < 0.2:
					st['twice'] = True
				if rng.random() < 0.12 and (st['mode'] == 'sup' or case['lists'][ln]['container'] == 'seqclass'):
					st['fault'] = dict(kind='submit' if st['mode'] == 'sup' else 'container', at=rng.randint(0, 2))
			elif r < 0.72 and muts:
				st = dict(op='rewrite', file=rng.choice(muts), v=rng.choice(MUT_VARIANTS))
			elif r < 0.8:
				st = dict(op='single', file=rng.choice(a + b + SEQ_BAD_LATE), ks=rng.choice(['k0', 'k1']))
			elif r < 0.87:
				st = dict(op='cli', list=ln, ks=rng.choice(['k0', 'k1']), cores=rng.choice([None, 1, 2]))
			elif r < 0.94:
				st = dict(op='qparse', list=ln, pkw='D' if case.get('pkw') and rng.random() < 0.7 else None, labels=rng.random() < 0.5)
			else:
				st = dict(op=rng.choice(['dist', 'query']), list=ln, cores=rng.choice([None, 2]))
			steps.append(st)
		case['steps'] = steps
		return case

	for t in templates:
		for _ in range(ctx.pick(3, 12)):
			ctx.count('stream:seq-' + t.__name__.replace('_', '-'))
			yield 'seq', t()
	for _ in range(ctx.pick(45, 400)):
		ctx.count('stream:seq-random-scripts')
		yield 'seq', random_script()
