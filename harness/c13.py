"""C13 -- multi-file signature computation keeps file order under every completion order.

Tie: B.  `gambit.sigs.calc.calc_file_signatures` (imported in place) is run

  sched  with a harness-supplied `concurrent.futures.Executor` whose futures stay unfinished until a
         controller thread completes them in a CHOSEN order sigma.  The controller starts once all n
         jobs are submitted and steps on the progress meter (`meter.increment()` follows every
         `sigs[i] = future.result()`), so each wake-up of `as_completed` sees exactly one newly
         finished future and the order in which the code consumes the futures is exactly sigma.
         Either passed as `executor=` or patched in for `ThreadPoolExecutor`/`ProcessPoolExecutor`
         in gambit.sigs.calc (paths `threads`/`processes`, which also shows max_workers arriving).
  pool   with real thread / process pools (owned by the call, or caller-supplied and wrapped so the
         completion order is recorded), max_workers 1..8, size-skewed FASTA files that make later
         files finish first, unreadable / malformed files at every position, concurrency=None.
  cli    `gambit signatures create -c N` in process, reading the written signature file back.

The same case is given to the extracted model (Model/C13.v: ops 1301 run_executor, 1303
calc_file_signatures, 1304 specification, 1306 pool_order, 1307 err_codes).  Model inputs are the
harness's own structures: a pure-Python reference signature of the sequences it wrote and its own
table of what is wrong with each bad file; the futures' identities are the executor's own counter.

Property predicate (what is reported as a violation with the input as replay): the call returns a
list with one signature per file, in file order, each equal to `calc_file_signature` of that file
-- or, if a file is unreadable, raises (the exception of one of the unreadable files).  A
model/implementation difference that leaves this predicate true is reported as a broken tie."""
import gzip
import itertools
import os
import random
import threading
import time
from concurrent.futures import Executor, Future, ThreadPoolExecutor, ProcessPoolExecutor

PROP = 'C13'
RULE = ('sched: (files, chosen completion order sigma, path supplied|threads|processes) -> result list or exception; '
        'non-trivial: >=2 files with pairwise distinct signatures and sigma != submission order, or an unreadable '
        'file among >=2 files.  pool: real thread/process pool, max_workers, size-skewed files; non-trivial: >=2 '
        'distinct files and (observed completion order != submission order, or a bad file, or a skew with >=2 workers). '
        'cli: signatures create -c N; non-trivial: >=2 distinct files')
TRUSTED = ['concurrent.futures (Future, as_completed, ThreadPoolExecutor, ProcessPoolExecutor) is runtime: modelled as '
           '"submit returns a fresh future; future.result() returns/re-raises the job\'s outcome; as_completed yields every '
           'future once, in any order" -- the harness executor realises exactly this contract with a chosen order',
           'Biopython FASTA parsing / gzip / open(): which exception an unreadable file raises is taken from the '
           'harness table and cross-checked against calc_file_signature on that file alone',
           'harness-side controller thread + progress-meter stepping (makes the consumption order equal to sigma)']
ASSUMPTIONS = ['executor.submit returns a distinct Future per call (NoDup hypothesis of the theorems; asserted by the '
               'harness executor)',
               'as_completed yields each submitted future exactly once (Permutation hypothesis); for any other yield '
               'sequence C13_never_wrong_list still excludes a wrong list',
               'files are not modified while the call runs; jobs are independent (calc_file_signature has no shared state)']
BATCH = 400
SHRINK = False     # cases are generated smallest-first; generic list shrinking would break "sigma is a permutation"

K = 8
PREFIX = 'AT'
POOL_SEED = 130013

#: what is wrong with a bad file -> (model error code, exception class the single-file call raises)
BAD = {
	'missing': (1, 'FileNotFoundError'),
	'nohdr': (2, 'ValueError'),
	'binary': (3, 'UnicodeDecodeError'),
	'dir': (4, 'IsADirectoryError'),
	'notgz': (5, 'BadGzipFile'),
	'truncgz': (6, 'EOFError'),
}
CODE_OF_EXC = {v[1]: v[0] for v in BAD.values()}
OTHER = {(3, 1): 'AssertionError', (3, 2): 'KeyError', (3, 3): 'IndexError', (3, 4): 'ValueError(concurrency)'}

_COMP = str.maketrans('ACGTacgt', 'TGCAtgca')
_S = {}       # per-process state: scratch dir, file table


# ------------------------------------------------------------------------------------------------
# files
# ------------------------------------------------------------------------------------------------

def ref_signature(seqs):
	"""pure-Python reference: sorted k-mer indices following PREFIX on either strand"""
	found = set()
	plen = len(PREFIX)
	for s in seqs:
		s = s.upper()
		for strand in (s, s.translate(_COMP)[::-1]):
			p = strand.find(PREFIX)
			while p >= 0:
				km = strand[p + plen:p + plen + K]
				if len(km) == K and all(c in 'ACGT' for c in km):
					idx = 0
					for c in km:
						idx = idx * 4 + 'ACGT'.index(c)
					found.add(idx)
				p = strand.find(PREFIX, p + 1)
	return sorted(found)


def _write_fasta(path, seqs, gz=False):
	text = ''.join(f'>contig{i} test\n' + '\n'.join(s[j:j + 70] for j in range(0, len(s), 70)) + '\n' for i, s in enumerate(seqs))
	if gz:
		with gzip.open(path, 'wt') as f:
			f.write(text)
	else:
		with open(path, 'w') as f:
			f.write(text)


def _file_table():
	"""fid -> dict(path, compression, ref (list|None), code (int|None), size).  Deterministic (own seed),
	so a replayed case sees the same files."""
	if 'files' in _S:
		return _S['files']
	from vf import impl
	d = impl.scratch_dir('gambit-verif-c13-')
	rng = random.Random(POOL_SEED)
	files = {}

	def good(fid, lens, gz=False):
		seqs = [''.join(rng.choice('ACGT') for _ in range(n)) for n in lens]
		# a few lower-case / N characters, as real assemblies have
		if len(seqs[0]) > 50:
			s = seqs[0]
			seqs[0] = s[:20] + 'NNNN' + s[24:40].lower() + s[40:]
		path = os.path.join(d, fid + ('.fa.gz' if gz else '.fa'))
		_write_fasta(path, seqs, gz)
		files[fid] = dict(path=path, compression='gzip' if gz else None, ref=ref_signature(seqs), code=None, size=sum(lens))

	for i in range(16):
		good(f's{i}', [rng.randint(150, 400), rng.randint(60, 300)])
	for i in range(2):
		good(f'z{i}', [rng.randint(150, 400)], gz=True)
	for i in range(4):
		good(f'm{i}', [rng.randint(15000, 30000)])
	for i in range(3):
		good(f'b{i}', [rng.randint(120000, 160000), 5000])
	good('e0', [0])    # a FASTA record with an empty sequence: readable, empty signature

	def bad(fid, name, compression=None):
		files[fid] = dict(path=os.path.join(d, name), compression=compression, ref=None, code=BAD[fid][0], size=0)

	bad('missing', 'does-not-exist.fa')
	bad('nohdr', 'nohdr.fa')
	with open(files['nohdr']['path'], 'w') as f:
		f.write('ATGGGGGGGGGATCCCCCCCCCC\n')
	bad('binary', 'binary.fa')
	with open(files['binary']['path'], 'wb') as f:
		f.write(b'>x\n' + bytes(range(256)))
	bad('dir', 'dir.fa')
	os.makedirs(files['dir']['path'])
	bad('notgz', 'notgz.fa.gz', 'gzip')
	with open(files['notgz']['path'], 'w') as f:
		f.write('>a\nATGGGGGGGGGG\n')
	bad('truncgz', 'trunc.fa.gz', 'gzip')
	with open(files['truncgz']['path'], 'wb') as f:
		f.write(gzip.compress(b'>a\nATGGGGGGGGGGATCCCCCCCCCC\n' * 200)[:60])
	_S['files'] = files
	_S['dir'] = d
	return files


def _kspec():
	from gambit.kmers import KmerSpec
	return KmerSpec(K, PREFIX)


def _seqfile(fid):
	from gambit.seq import SequenceFile
	f = _file_table()[fid]
	return SequenceFile(f['path'], 'fasta', f['compression'])


def _canon_sig(a):
	return [int(x) for x in a]


def _single(fid):
	"""the single-file result of the implementation, cached: ('ok', sig) | ('err', class name)"""
	cache = _S.setdefault('single', {})
	if fid not in cache:
		from gambit.sigs.calc import calc_file_signature
		try:
			cache[fid] = ('ok', _canon_sig(calc_file_signature(_kspec(), _seqfile(fid))))
		except Exception as e:     # noqa: the class is the observable
			cache[fid] = ('err', type(e).__name__)
	return cache[fid]


def _model_fres(fid):
	f = _file_table()[fid]
	return [1, f['code']] if f['code'] is not None else [0, f['ref']]


def _tie_usable(fids):
	"""the model input (reference signature / error table) agrees with the single-file implementation
	result for every file of the case; otherwise only the property predicate is evaluated"""
	for fid in fids:
		f = _file_table()[fid]
		kind, val = _single(fid)
		if f['code'] is None:
			if kind != 'ok' or val != f['ref']:
				return False
		elif kind != 'err' or CODE_OF_EXC.get(val) != f['code']:
			return False
	return True


def _observe(call):
	"""-> ('done', [sig...]) | ('raised', class name)"""
	try:
		res = call()
	except Exception as e:     # noqa
		return ('raised', type(e).__name__)
	try:
		return ('done', [None if s is None else _canon_sig(s) for s in res])
	except Exception as e:     # noqa
		return ('done-unreadable', repr(e))


def _predicate(fids, obs, may_refuse=False):
	"""the property on this input; returns None if it holds, else a description.
	may_refuse: the call was made with arguments the function rejects (unknown concurrency string) --
	raising is then fine, only a wrong list would be a violation"""
	singles = [_single(f) for f in fids]
	bad_names = {v for k, v in singles if k == 'err'}
	if obs[0] == 'done':
		if bad_names:
			return f'returned a list of {len(obs[1])} signatures although {sorted(bad_names)} file(s) cannot be read'
		want = [v for _, v in singles]
		got = obs[1]
		if len(got) != len(want):
			return f'{len(got)} signatures returned for {len(want)} files'
		wrong = [i for i in range(len(want)) if got[i] != want[i]]
		if wrong:
			where = []
			for i in wrong[:4]:
				src = [j for j in range(len(want)) if want[j] == got[i]]
				where.append(f'position {i} holds ' + (f'the signature of file {src[0]}' if src else 'a signature of no input file' if got[i] is not None else 'None'))
			return 'signatures not in file order: ' + '; '.join(where)
		return None
	if obs[0] == 'raised':
		if not bad_names and not may_refuse:
			return f'raised {obs[1]} although every file is readable'
		return None
	return f'result is not a list of signatures: {obs[1]}'


def _describe(fids):
	"""what the file ids of a case stand for (the files are regenerated from POOL_SEED on every run)"""
	out = {}
	for f in fids:
		t = _file_table()[f]
		out[f] = (f'unreadable ({f}): single-file call raises {BAD[f][1]}' if t['code'] is not None
		          else f'FASTA{" (gzip)" if t["compression"] else ""}, {t["size"]} nt, {len(t["ref"])} k-mers (k={K}, prefix {PREFIX})')
	return out


def _model_obs(ans, fids):
	"""model answer -> same shape as _observe"""
	if ans[0] == 0:
		return ('done', ans[1])
	if ans[0] == 1:
		names = [n for n, c in CODE_OF_EXC.items() if c == ans[1]]
		return ('raised', names[0] if names else f'code{ans[1]}')
	return ('raised', OTHER.get(tuple(ans), str(ans)))


# ------------------------------------------------------------------------------------------------
# the controllable executor
# ------------------------------------------------------------------------------------------------

class Sync:
	def __init__(self):
		self.cv = threading.Condition()
		self.incs = 0
		self.closed = False
		self.meters = 0


class SyncMeter:
	"""progress meter whose increment() lets the controller take its next step"""

	def __init__(self, sync, total):
		self.sync = sync
		self.n = 0
		self.total = total
		self.closed = False
		with sync.cv:
			sync.meters += 1

	def increment(self, delta=1):
		self.n += delta
		with self.sync.cv:
			self.sync.incs += delta
			self.sync.cv.notify_all()

	def moveto(self, n):
		self.increment(n - self.n)

	def close(self):
		self.closed = True
		with self.sync.cv:
			self.sync.closed = True
			self.sync.cv.notify_all()

	def __enter__(self):
		return self

	def __exit__(self, *a):
		self.close()


def _meter_factory(sync):
	def create(total, initial=0, **kw):
		return SyncMeter(sync, total)
	return create


#: seconds the controller waits for the meter before moving on.  An implementation that does not step
#: the meter after each result (a harmless rewrite) must not stall the campaign: after three executors in a
#: row ran into the time-out the wait drops to a few milliseconds (the schedule is then not imposed, which
#: only costs detection power, never a false alarm).
_STEP_WAIT = [0.25]
_STALLED = [0]


class CtlExecutor(Executor):
	"""submit() returns an unfinished Future; a controller thread runs the jobs and finishes the futures
	in the order `sigma` (indices in submission order), one per progress-meter step."""

	def __init__(self, n, sigma, sync, max_workers=None):
		self.n = n
		self.sigma = list(sigma)
		self.sync = sync
		self.max_workers = max_workers
		self.tasks = []
		self.cv = threading.Condition()
		self.last_submit = time.time()
		self.consumed = []        # order in which futures were finished
		self.timeouts = 0
		self.shutdowns = 0
		self.thread = threading.Thread(target=self._control, daemon=True)
		self.thread.start()

	def submit(self, fn, /, *args, **kwargs):
		f = Future()
		with self.cv:
			assert all(f is not t[0] for t in self.tasks)
			self.tasks.append((f, fn, args, kwargs))
			self.last_submit = time.time()
			self.cv.notify_all()
		return f

	def shutdown(self, wait=True, *, cancel_futures=False):
		self.shutdowns += 1
		if wait and threading.current_thread() is not self.thread:
			self.thread.join(30)

	def _control(self):
		# wait until all n jobs are submitted (the meter exists before the submit loop, so "a meter was
		# created" is no signal); give up waiting when submissions stopped for a while
		t0 = time.time()
		with self.cv:
			while len(self.tasks) < self.n:
				self.cv.wait(0.05)
				idle = time.time() - max(self.last_submit, t0)
				if len(self.tasks) < self.n and idle > 1.0:
					break
			tasks = list(self.tasks)
		order = [i for i in self.sigma if i < len(tasks)] + [i for i in range(len(tasks)) if i not in self.sigma]
		for step, i in enumerate(order):
			f, fn, args, kwargs = tasks[i]
			if f.set_running_or_notify_cancel():
				try:
					r = fn(*args, **kwargs)
				except BaseException as e:     # noqa
					f.set_exception(e)
				else:
					f.set_result(r)
			self.consumed.append(i)
			with self.sync.cv:
				deadline = time.time() + (_STEP_WAIT[0] if not self.timeouts else 0.003)
				while self.sync.incs < step + 1 and not self.sync.closed:
					left = deadline - time.time()
					if left <= 0:
						self.timeouts += 1
						break
					self.sync.cv.wait(left)
		if self.timeouts:
			_STALLED[0] += 1
			if _STALLED[0] >= 3:
				_STEP_WAIT[0] = 0.004
		else:
			_STALLED[0] = 0
			_STEP_WAIT[0] = 0.25

	def finish(self):
		self.thread.join(30)


class RecordingExecutor(Executor):
	"""caller-supplied real pool, wrapped only to record the completion order"""

	def __init__(self, inner):
		self.inner = inner
		self.order = []
		self.count = 0
		self.lock = threading.Lock()
		self.shutdowns = 0

	def submit(self, fn, /, *args, **kwargs):
		i = self.count
		self.count += 1
		f = self.inner.submit(fn, *args, **kwargs)

		def done(_f, i=i):
			with self.lock:
				self.order.append(i)
		f.add_done_callback(done)
		return f

	def shutdown(self, wait=True, *, cancel_futures=False):
		# behave like the real pool: a call that shuts the caller's executor down makes it unusable
		self.shutdowns += 1
		self.inner.shutdown(wait=wait, cancel_futures=cancel_futures)


# ------------------------------------------------------------------------------------------------
# kinds
# ------------------------------------------------------------------------------------------------

def setup(ctx):
	from vf import impl
	impl.check_import()
	_file_table()


def _conc_code(path):
	return {'supplied': (1, True), 'threads': (1, False), 'processes': (2, False), 'none': (0, False)}[path]


def _distinct(fids):
	sigs = [tuple(_file_table()[f]['ref']) for f in fids if _file_table()[f]['ref'] is not None]
	return len(set(sigs)) == len(sigs)


def _judge(ctx, kind, case, fids, obs, model_ans, exact, nontrivial, may_refuse=False):
	"""common verdict.  model_ans: model outcome for this case (or None); exact: compare impl with
	model exactly (controlled schedule / single possible outcome) or only up to 'one of the files' errors'"""
	ctx.case(case, nontrivial=nontrivial)
	bad = _predicate(fids, obs, may_refuse)
	mobs = _model_obs(model_ans, fids) if model_ans is not None else None
	if may_refuse and mobs is not None and mobs[0] == 'raised' and obs[0] == 'raised':
		mobs = obs       # which exception reports the rejected argument is not the property's business
	if bad is not None:
		ctx.violation(kind, case, f'calc_file_signatures on {len(fids)} files ({kind}): {bad}',
		              impl=obs, spec=[_single(f) for f in fids], model=mobs, files=_describe(fids))
		return
	if mobs is None or not _tie_usable(fids):
		if mobs is not None:
			ctx.count('tie-skipped:reference-differs-from-single-file-result')
		return
	if exact and obs[0] == 'raised' and mobs[0] == 'raised' and obs[1] != mobs[1]:
		# the property says "the whole call fails", not which exception reports it: evidence only
		ctx.count('note:exception-class-differs-from-model')
	if obs[0] != mobs[0] or (obs[0] == 'done' and obs[1] != mobs[1]):
		ctx.broke(f'correspondence {kind} (model outcome != implementation outcome, property predicate holds)',
		          f'case {case}: impl={str(obs)[:200]} model={str(mobs)[:200]}')


def k_sched(ctx, cases):
	import gambit.sigs.calc as calc
	kspec = _kspec()
	runs = []
	for case in cases:
		fids, sigma, path = case['files'], case['sigma'], case['path']
		n = len(fids)
		files = [_seqfile(f) for f in fids]
		sync = Sync()
		made = []

		def factory(max_workers=None, *a, **kw):
			ex = CtlExecutor(n, sigma, sync, max_workers=max_workers)
			made.append(ex)
			return ex

		if path == 'supplied':
			ex = factory()
			obs = _observe(lambda: calc.calc_file_signatures(kspec, files, progress=_meter_factory(sync), executor=ex))
		else:
			name = 'ThreadPoolExecutor' if path == 'threads' else 'ProcessPoolExecutor'
			orig = getattr(calc, name)
			setattr(calc, name, factory)
			try:
				obs = _observe(lambda: calc.calc_file_signatures(kspec, files, progress=_meter_factory(sync),
				                                                 concurrency=path, max_workers=case.get('workers')))
			finally:
				setattr(calc, name, orig)
		for ex in made:
			ex.finish()
			ctx.count('sched:meter-step-timeouts', ex.timeouts) if ex.timeouts else None
		controlled = len(made) == 1 and made[0].consumed == [i for i in sigma] and len(made[0].tasks) == n and not made[0].timeouts
		if not made:
			ctx.count('sched:executor-not-routed-through-patch')
		runs.append((obs, controlled))
	ans = None
	if ctx.model_ok:
		reqs = []
		for case in cases:
			fids = case['files']
			tasks = [[1000 + 7 * i, _model_fres(f)] for i, f in enumerate(fids)]    # the futures' identities
			c, sup = _conc_code(case['path'])
			reqs.append((1303, [c, sup, tasks, [1000 + 7 * i for i in case['sigma']]]))
		ans = ctx.model(reqs)
	for j, case in enumerate(cases):
		fids, sigma = case['files'], case['sigma']
		obs, controlled = runs[j]
		nbad = sum(1 for f in fids if _file_table()[f]['code'] is not None)
		nontriv = len(fids) >= 2 and _distinct(fids) and (sigma != sorted(sigma) or nbad > 0) and controlled
		ctx.count('sched:path-' + case['path'])
		if sigma != sorted(sigma):
			ctx.count('sched:out-of-order-schedules')
		# which exception is raised is determined by sigma only if the schedule was really imposed
		_judge(ctx, 'sched', case, fids, obs, ans[j] if ans else None, exact=controlled or nbad <= 1, nontrivial=nontriv)


def _run_pool(case):
	import gambit.sigs.calc as calc
	kspec = _kspec()
	fids, conc, workers, supplied = case['files'], case['conc'], case.get('workers'), case.get('supplied', False)
	files = [_seqfile(f) for f in fids]
	order = None
	if supplied:
		inner = ThreadPoolExecutor(max_workers=workers) if conc == 'threads' else ProcessPoolExecutor(max_workers=workers)
		rec = RecordingExecutor(inner)
		try:
			# `concurrency` is overridden by the executor: pass the *other* value on purpose
			obs = _observe(lambda: calc.calc_file_signatures(kspec, files, executor=rec, concurrency=None, max_workers=1))
			order = list(rec.order)[:len(fids)] if len(rec.order) >= len(fids) else None
			still_open = True
			try:
				inner.submit(int, 0).result(30)
			except Exception:     # noqa
				still_open = False
			# the caller owns the executor: a second batch (reversed) through the same executor must behave
			# exactly like the first
			obs2 = _observe(lambda: calc.calc_file_signatures(kspec, files[::-1], executor=rec, concurrency=None, max_workers=1))
		finally:
			inner.shutdown(wait=True)
		return obs, order, (still_open, obs2)
	obs = _observe(lambda: calc.calc_file_signatures(kspec, files, concurrency=conc, max_workers=workers))
	return obs, None, None


def k_pool(ctx, cases):
	runs = []
	for c in cases:
		r = _run_pool(c)
		if r[0] == ('raised', 'BrokenProcessPool'):
			# a worker process killed by the environment (memory pressure) is not the code's doing: once more
			ctx.count('pool:broken-process-pool-retried')
			r = _run_pool(c)
			if r[0] == ('raised', 'BrokenProcessPool'):
				raise RuntimeError('process pool keeps breaking in this environment (worker processes are being killed)')
		runs.append(r)
	ans = None
	if ctx.model_ok:
		reqs = []
		for case, (obs, order, _) in zip(cases, runs):
			fids = case['files']
			tasks = [[i, _model_fres(f)] for i, f in enumerate(fids)]
			sigma = order if order is not None and sorted(order) == list(range(len(fids))) else list(range(len(fids)))
			c = {'threads': 1, 'processes': 2, None: 0}.get(case['conc'], 3)
			reqs.append((1303, [c, bool(case.get('supplied')), tasks, sigma]))
		ans = ctx.model(reqs)
	for j, case in enumerate(cases):
		fids = case['files']
		obs, order, still_open = runs[j]
		n = len(fids)
		nbad = sum(1 for f in fids if _file_table()[f]['code'] is not None)
		sizes = [_file_table()[f]['size'] for f in fids]
		skew = n >= 2 and (case.get('workers') or 2) >= 2 and case['conc'] is not None and max(sizes[:-1] or [0]) > 20 * min(sizes[1:] or [1])
		reordered = order is not None and order != sorted(order)
		if reordered:
			ctx.count('pool:observed-out-of-order-completions')
		ctx.count(f'pool:{case["conc"]}' + ('-supplied' if case.get('supplied') else ''))
		if still_open is not None:
			still_open, obs2 = still_open
			if not still_open:
				ctx.count('pool:caller-executor-was-shut-down')
			bad2 = _predicate(fids[::-1], obs2)
			if bad2 is not None:
				ctx.violation('pool', case, f'second call through the same caller-supplied executor (files reversed): {bad2}'
				              + ('' if still_open else ' -- the first call shut the caller\'s executor down'),
				              impl=obs2, spec=[_single(f) for f in fids[::-1]], files=_describe(fids))
				continue
		nontriv = n >= 2 and _distinct(fids) and (reordered or nbad > 0 or skew)
		refuse = case['conc'] not in (None, 'threads', 'processes') and not case.get('supplied')
		_judge(ctx, 'pool', case, fids, obs, ans[j] if ans else None, exact=nbad <= 1, nontrivial=nontriv, may_refuse=refuse)


def k_cli(ctx, cases):
	from click.testing import CliRunner
	import gambit.cli
	from gambit.sigs.base import load_signatures
	out_dir = os.path.join(_S['dir'], 'cli-out')
	os.makedirs(out_dir, exist_ok=True)
	runs = []
	for n, case in enumerate(cases):
		fids = case['files']
		out = os.path.join(out_dir, f'out-{os.getpid()}-{n}.gs')
		if os.path.exists(out):
			os.remove(out)
		args = ['signatures', 'create', '-k', str(K), '-p', PREFIX, '-o', out, '--no-progress']
		if case.get('cores') is not None:
			args += ['-c', str(case['cores'])]
		args += [_file_table()[f]['path'] for f in fids]
		res = CliRunner().invoke(gambit.cli.cli, args)
		if res.exit_code == 0 and res.exception is None:
			def read():
				with load_signatures(out) as sigs:
					return [sigs[i] for i in range(len(sigs))]
			obs = _observe(read)
			if obs[0] == 'raised':
				obs = ('output-unreadable', obs[1])
		else:
			obs = ('raised', type(res.exception).__name__ if res.exception is not None else f'exit{res.exit_code}')
		if os.path.exists(out):
			os.remove(out)
		runs.append(obs)
	ans = None
	if ctx.model_ok:
		reqs = [(1303, [2, False, [[i, _model_fres(f)] for i, f in enumerate(c['files'])], list(range(len(c['files'])))]) for c in cases]
		ans = ctx.model(reqs)
	for j, case in enumerate(cases):
		fids = case['files']
		nbad = sum(1 for f in fids if _file_table()[f]['code'] is not None)
		ctx.count('cli:cases')
		# the command line reports failures as SystemExit/exit status: only done-vs-failed is compared with the model
		obs = runs[j]
		ctx.case(case, nontrivial=len(fids) >= 2 and _distinct(fids))
		bad = _predicate(fids, obs)
		if bad is not None:
			ctx.violation('cli', case, f'gambit signatures create -c {case.get("cores")} on {len(fids)} files: {bad}',
			              impl=obs, spec=[_single(f) for f in fids], model=_model_obs(ans[j], fids) if ans else None,
			              files=_describe(fids))
		elif ans is not None and _tie_usable(fids):
			m = _model_obs(ans[j], fids)
			if m[0] != obs[0] or (m[0] == 'done' and m[1] != obs[1]):
				ctx.broke('correspondence cli (model outcome != implementation outcome, property predicate holds)',
				          f'case {case}: impl={str(obs)[:200]} model={str(m)[:200]}')


KINDS = {'sched': k_sched, 'pool': k_pool, 'cli': k_cli}

GOOD_SMALL = [f's{i}' for i in range(16)]


def generate(ctx):
	rng = ctx.rng
	ctx.rule(RULE)
	for a in ASSUMPTIONS:
		ctx.assume(a)

	# ---- 1. exhaustive: every completion order x every position of an unreadable file -------------
	nmax = ctx.pick(5, 6)
	total = 0
	for n in range(0, nmax + 1):
		base = GOOD_SMALL[:n]
		for sigma in itertools.permutations(range(n)):
			for badpos in [None] + list(range(n)):
				fids = list(base)
				if badpos is not None:
					fids[badpos] = ['missing', 'nohdr', 'binary', 'dir', 'notgz', 'truncgz'][(badpos + sum(sigma[:2])) % 6]
				total += 1
				yield 'sched', dict(files=fids, sigma=list(sigma), path='supplied')
	ctx.count('stream:exhaustive-supplied-executor', total)
	# the same through the executor-selection code (pool classes replaced by the controllable one)
	total = 0
	for path in ('threads', 'processes'):
		for n in range(0, 5):
			for sigma in itertools.permutations(range(n)):
				for badpos in [None] + list(range(n)):
					fids = GOOD_SMALL[4:4 + n]
					if badpos is not None:
						fids[badpos] = 'binary' if path == 'threads' else 'missing'
					total += 1
					yield 'sched', dict(files=fids, sigma=list(sigma), path=path, workers=[None, 1, 2, 3, 8][(n + len(fids) + sigma[0] if n else 0) % 5])
	ctx.count('stream:exhaustive-patched-pool-classes', total)
	ctx.exhaustive = True
	ctx.extra['exhaustive_scope'] = (f'caller-supplied executor: all completion orders of n<={nmax} files x (no bad file | bad file at each '
	                                 f'position); concurrency=threads/processes with the pool class replaced: all orders of n<=4 x the same')

	# ---- 2. random schedules on more files, several bad files, worker-pool schedules from the model ----
	nrand = ctx.pick(250, 2500)
	pool_reqs = []
	pool_cases = []
	for _ in range(nrand):
		n = rng.randint(2, 14)
		fids = rng.sample(GOOD_SMALL + ['z0', 'z1', 'm0', 'e0'], n)
		r = rng.random()
		if r < 0.45:
			for pos in rng.sample(range(n), rng.randint(1, min(3, n))):
				fids[pos] = rng.choice(list(BAD))
		path = rng.choice(['supplied', 'supplied', 'threads', 'processes'])
		case = dict(files=fids, path=path)
		if path != 'supplied':
			case['workers'] = rng.choice([None, 1, 2, 4, 7, 16])
		if rng.random() < 0.5:
			sigma = list(range(n))
			rng.shuffle(sigma)
			if rng.random() < 0.2:
				sigma = list(reversed(range(n)))
			case['sigma'] = sigma
			ctx.count('stream:random-schedules')
			yield 'sched', case
		else:
			# the order a w-worker pool produces for random job durations (Model pool_order)
			w = rng.randint(1, 8)
			durs = [rng.choice([1, 1, 2, 5, 40, 300]) for _ in range(n)]
			pool_reqs.append((1306, [w, durs, list(range(n))]))
			pool_cases.append(case)
	if pool_reqs and ctx.model_ok:
		for case, sigma in zip(pool_cases, ctx.model(pool_reqs)):
			case['sigma'] = sigma
			ctx.count('stream:model-worker-pool-schedules')
			yield 'sched', case

	# ---- 3. real pools ---------------------------------------------------------------------------------
	def skewed(n, big):
		"""first files large, later ones tiny: later files finish first on >=2 workers"""
		return [f'b{i % 3}' for i in range(big)] + rng.sample(GOOD_SMALL, n - big)

	# concurrency=None (sequential path), incl. bad file at every position
	for n in (0, 1, 3, 5):
		yield 'pool', dict(files=GOOD_SMALL[:n], conc=None, workers=None)
		for pos in range(n):
			fids = GOOD_SMALL[:n]
			fids[pos] = list(BAD)[(pos + n) % 6]
			yield 'pool', dict(files=fids, conc=None, workers=rng.choice([None, 3]))
	fids = GOOD_SMALL[:6]
	fids[1], fids[4] = 'nohdr', 'missing'
	yield 'pool', dict(files=fids, conc=None, workers=None)
	yield 'pool', dict(files=['s1', 's2', 's1', 's3', 's1'], conc=None, workers=None)
	ctx.count('stream:sequential', 14)
	wmax = 8
	for conc in ('threads', 'processes'):
		reps = ctx.pick(1, 4)
		for _ in range(reps):
			for w in list(range(1, wmax + 1)) + [None]:
				n = rng.randint(3, 7)
				# size skew, all readable; owned pool and caller-supplied pool
				yield 'pool', dict(files=skewed(n, 1), conc=conc, workers=w)
				ctx.count('stream:real-pool-skewed')
				if w is not None and (conc == 'threads' or w in (2, 3, 8) or not ctx.quick):
					yield 'pool', dict(files=skewed(n, 1 + (w % 2)), conc=conc, workers=w, supplied=True)
					ctx.count('stream:real-pool-skewed')
				# an unreadable file at a rotating position, with skew
				fids = skewed(n, 1)
				pos = (w or 0) % n
				fids[pos] = list(BAD)[((w or 0) + n) % 6]
				if conc == 'threads' or (w or 0) % 2 == 0 or not ctx.quick:
					yield 'pool', dict(files=fids, conc=conc, workers=w, supplied=bool((w or 0) % 3 == 0 and w))
					ctx.count('stream:real-pool-bad-file')
		# bad file at EVERY position of a skewed list, 2 and 4 workers
		for w in (2, 4):
			n = 5
			for pos in range(n):
				fids = ['b0'] + GOOD_SMALL[8:8 + n - 1]
				fids[pos] = list(BAD)[(pos + w) % 6]
				if conc == 'threads' or w == 2 or not ctx.quick:
					yield 'pool', dict(files=fids, conc=conc, workers=w)
					ctx.count('stream:real-pool-bad-file')
		# the same file listed more than once: still one signature per list entry, in order
		for fids in (['s1', 's2', 's1', 's3'], ['s4', 's1', 's2', 's4', 's3', 's1', 's4'], ['s5', 's5'], ['b0', 's6', 'b0', 's6', 's6']):
			for w, sup in ((2, False), (None, False), (3, True)):
				yield 'pool', dict(files=list(fids), conc=conc, workers=w, supplied=sup)
				ctx.count('stream:real-pool-repeated-file')
		# two bad files, empty list, single file
		yield 'pool', dict(files=['b1', 'binary', 's1', 'dir', 's2'], conc=conc, workers=3)
		yield 'pool', dict(files=[], conc=conc, workers=2)
		yield 'pool', dict(files=['s3'], conc=conc, workers=5)
		yield 'pool', dict(files=['truncgz'], conc=conc, workers=1)
	# an unknown concurrency string: ValueError, never a list (malformed stream)
	yield 'pool', dict(files=['s0', 's1'], conc='fibers', workers=2)
	ctx.count('stream:malformed')

	# ---- 4. command line ------------------------------------------------------------------------------
	cli_cases = [dict(files=skewed(4, 1), cores=2), dict(files=skewed(5, 2), cores=3), dict(files=GOOD_SMALL[:3], cores=1),
	             dict(files=['s0', 'z0', 's5', 'z1'], cores=None), dict(files=['b2', 's1', 'nohdr', 's2'], cores=2),
	             dict(files=['binary', 's7', 's8'], cores=4), dict(files=['s9', 's10', 'truncgz'], cores=2)]
	if not ctx.quick:
		cli_cases += [dict(files=skewed(rng.randint(3, 8), 1), cores=c) for c in range(1, 9)]
	for c in cli_cases:
		yield 'cli', c
