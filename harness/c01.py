"""C01 -- a signature is exactly the set of prefix-anchored k-mers on both strands.

Tie: B against gambit.kmers.find_kmers (set of (pos, reverse)) and gambit.sigs.calc.calc_signature
(array + dtype) for str / bytes / bytearray / Bio.Seq inputs and both accumulators; T for the
encoders the model calls (Gen/KmersPyx.v).  Oracle = extracted specification [signature_spec]."""
import itertools

import numpy as np

PROP = 'C01'
RULE = ('sig: (k, prefix, sequences) -> calc_signature for 4 input types x 2 accumulators vs model vs spec; find: '
        'find_kmers match set vs model; non-trivial: at least one k-mer found and (a match on each strand or two '
        'overlapping/adjacent occurrences or an occurrence dropped for an invalid byte)')
TRUSTED = ['tools/pyx2v.py for the encoders; hand model of bytes.find / bytes.upper / slicing (CPython) in Model/C01.v',
           'Biopython Seq slicing and bytes() agree with bytes']
ASSUMPTIONS = ['str inputs are ASCII (the code raises otherwise); prefix is non-empty upper-case ACGT (KmerSpec validates it)',
               'the dense accumulator is executed for k <= 11 in the implementation and k <= 6 in the model']

NUC = b'ACGT'


def setup(ctx):
	from vf import impl
	impl.check_import()


def _res(v):
	from vf.main import ERRNAMES
	return v[1] if v[0] == 0 else ERRNAMES.get(v[1], f'err{v[1]}')


def _as_type(b, kind):
	if kind == 'bytes':
		return bytes(b)
	if kind == 'bytearray':
		return bytearray(b)
	if kind == 'str':
		return bytes(b).decode('latin-1') if all(c < 128 for c in b) else None
	from Bio.Seq import Seq
	return Seq(bytes(b))


def k_sig(ctx, cases):
	from gambit.kmers import KmerSpec
	from gambit.sigs.calc import calc_signature, ArrayAccumulator, SetAccumulator
	reqs = []
	for c in cases:
		seqs = [bytes.fromhex(h) for h in c['seqs']]
		p = c['prefix'].encode()
		reqs.append((103, [c['k'], p, seqs]))
		reqs.append((102, [0, c['k'], p, seqs]))
		reqs.append((102, [1, c['k'], p, seqs]) if c['k'] <= 6 else (104, c['k']))
		reqs.append((104, c['k']))
	ans = ctx.model(reqs) if ctx.model_ok else None
	for i, c in enumerate(cases):
		seqs = [bytes.fromhex(h) for h in c['seqs']]
		k = c['k']
		kspec = KmerSpec(k, c['prefix'])
		results = {}
		for kind in ('bytes', 'bytearray', 'str', 'seq'):
			inp = [_as_type(s, kind) for s in seqs]
			if any(x is None for x in inp):
				continue
			for accname in ('set', 'array'):
				if accname == 'array' and k > 9:
					continue
				acc = SetAccumulator(k) if accname == 'set' else ArrayAccumulator(k)
				sig = calc_signature(kspec, inp, accumulator=acc)
				results[(kind, accname)] = (sig.tolist(), sig.dtype.itemsize if sig.dtype.kind == 'u' else -sig.dtype.itemsize)
			# default accumulator, single-sequence call form
			if len(inp) == 1:
				sig = calc_signature(kspec, inp[0])
				results[(kind, 'default-single')] = (sig.tolist(), sig.dtype.itemsize if sig.dtype.kind == 'u' else -sig.dtype.itemsize)
		first = results[('bytes', 'set')]
		if ans is None:
			spec, dts = None, None
		else:
			spec = ans[4 * i]
			dts = ans[4 * i + 3]
			dts = dts[0] if dts else None
		nontriv = len(first[0]) > 0 and c.get('nt', True)
		ctx.case(c if sum(len(s) for s in seqs) < 80 else dict(k=k, prefix=c['prefix'], nseqs=len(seqs), total=sum(len(s) for s in seqs)),
		         nontrivial=nontriv)
		bad = False
		for key, r in results.items():
			if r != first:
				ctx.violation('sig', c, f'signature differs between input type/accumulator {key} and (bytes,set)',
				              impl=r, other=first)
				bad = True
				break
		if bad or ans is None:
			continue
		if first[0] != spec:
			ctx.violation('sig', c, f'calc_signature = {first[0][:20]} but the set of prefix-anchored k-mers is {spec[:20]}',
			              impl=first[0], spec=spec, model=ans[4 * i + 1])
			continue
		if first[1] != dts:
			ctx.violation('sig', c, f'dtype item size {first[1]} but smallest unsigned type for k={k} has {dts} bytes',
			              impl=first[1], spec=dts)
			continue
		m = ans[4 * i + 1]
		if m[0] != 0 or m[1][0] != first[0] or (m[1][1][0] if m[1][1] else None) != first[1]:
			ctx.broke('correspondence sig (set accumulator)', f'{c}: impl {first} model {m}')
		if k <= 6:
			m = ans[4 * i + 2]
			if m[0] != 0 or m[1][0] != first[0]:
				ctx.broke('correspondence sig (dense accumulator)', f'{c}: impl {first} model {m}')


def k_find(ctx, cases):
	from gambit.kmers import KmerSpec, find_kmers
	reqs = [(101, [c['k'], c['prefix'].encode(), bytes.fromhex(c['seq'])]) for c in cases]
	ans = ctx.model(reqs) if ctx.model_ok else None
	for i, c in enumerate(cases):
		s = bytes.fromhex(c['seq'])
		kspec = KmerSpec(c['k'], c['prefix'])
		ms = [(m.pos, bool(m.reverse)) for m in find_kmers(kspec, s)]
		ctx.case(c if len(s) < 80 else dict(k=c['k'], prefix=c['prefix'], n=len(s)), nontrivial=len(ms) >= 2)
		if ans is None:
			continue
		mm = _res(ans[i])
		mm = [(a, bool(b)) for a, b in mm] if isinstance(mm, list) else mm
		if mm != ms:
			# the property constrains the set of matches, not the yield order
			if isinstance(mm, list) and sorted(mm) == sorted(ms):
				continue
			ctx.broke('correspondence find (find_kmers)', f'{c}: impl {ms[:10]} model {mm if not isinstance(mm, list) else mm[:10]}')


KINDS = {'sig': k_sig, 'find': k_find}
BATCH = 500


def _rc(b):
	return bytes(b).translate(bytes.maketrans(b'ACGTacgt', b'TGCAtgca'))[::-1]


def generate(ctx):
	rng = ctx.rng
	ctx.rule(RULE)
	prefixes = ['A', 'T', 'AT', 'AA', 'AC', 'GT', 'ACG']
	alpha = b'ACGTN'
	L = ctx.pick(6, 7)
	# exhaustive: every sequence over {A,C,G,T,N} up to length L x k in {1,2,3} x prefixes
	n = 0
	for ln in range(0, L + 1):
		for t in itertools.product(alpha, repeat=ln):
			s = bytes(t)
			for k in ((1, 2, 3) if (ln <= 5 or not ctx.quick) else (1, 2)):
				for p in (prefixes if ln <= 5 else (prefixes[:4] if not ctx.quick else ['A', 'AT'])):
					if ln < len(p):
						if ln > 2:
							continue
					n += 1
					yield 'sig', dict(k=k, prefix=p, seqs=[s.hex()])
			if ln <= 5:
				yield 'find', dict(k=1, prefix='AT', seq=s.hex())
				yield 'find', dict(k=2, prefix='A', seq=s.hex())
	ctx.count('stream:exhaustive-ACGTN', n)
	ctx.exhaustive = True
	ctx.extra['exhaustive_scope'] = (f'all sequences over ACGTN up to length 5 x k in 1..3 x prefixes {prefixes}; length 6'
	                                 f'{" x k in 1..2 x prefixes A, AT" if ctx.quick else ".." + str(L) + " x k in 1..3 x 4 prefixes"}; all sequences of length<=3 over 8 byte classes')
	# byte classes: upper, lower, N, NUL, 0xFF, '@', '['
	classes = [ord('A'), ord('c'), ord('N'), 0, 0xFF, ord('@'), ord('['), ord('t')]
	for ln in range(0, 4):
		for t in itertools.product(classes, repeat=ln):
			yield 'sig', dict(k=1, prefix='A', seqs=[bytes(t).hex()])
			yield 'sig', dict(k=2, prefix='C', seqs=[bytes(t).hex()])
	# random structured: planted occurrences on both strands, overlapping / adjacent / end-flush
	for _ in range(ctx.pick(400, 4000)):
		k = rng.choice([1, 2, 3, 4, 5, 6, 8, 9, 11, 12, 16, 17, 31, 32])
		plen = rng.randint(1, 7)
		p = bytes(rng.choice(NUC) for _ in range(plen))
		if rng.random() < 0.15:
			p = rng.choice([b'AT', b'AA', b'ACGT', b'TA', b'GC'])  # palindromic / self-overlapping
			plen = len(p)
		nseq = rng.choice([1, 1, 2, 3])
		seqs = []
		for _ in range(nseq):
			ln = rng.choice([0, 1, plen, plen + k - 1, plen + k, plen + k + 1, 40, 200, 1500 if not ctx.quick else 400])
			b = bytearray(rng.choice(b'ACGT' if rng.random() < 0.7 else b'ACGTacgtNn') for _ in range(ln))
			for _ in range(rng.randint(0, 6)):
				if ln >= plen:
					where = rng.choice([0, ln - plen, max(0, ln - plen - k), rng.randrange(ln - plen + 1), k if ln - plen >= k else 0])
					motif = p if rng.random() < 0.5 else _rc(p)
					if rng.random() < 0.3:
						motif = motif.lower()
					b[where:where + plen] = motif
			if rng.random() < 0.2 and ln:
				b[rng.randrange(ln)] = rng.choice([0, 255, ord('N'), ord('n'), ord('-'), 0xC1])
			seqs.append(bytes(b))
		ctx.count('stream:random-planted')
		yield 'sig', dict(k=k, prefix=p.decode(), seqs=[s.hex() for s in seqs])
		yield 'find', dict(k=k, prefix=p.decode(), seq=seqs[0].hex())
