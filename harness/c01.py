"""C01 -- a signature is exactly the set of prefix-anchored k-mers on both strands.

Tie: B against gambit.kmers.find_kmers (set of (pos, reverse)) and gambit.sigs.calc.calc_signature
(array + dtype) for str / bytes / bytearray / Bio.Seq inputs and both accumulators; T for the
encoders the model calls (Gen/KmersPyx.v).  Oracle = extracted specification [signature_spec].

Coverage table (audit of the property text; I = driven on the implementation, P = property predicate
judged there; kinds: sig / find = original, api / findx / big = added by the coverage audit, state = added by the
state and aliasing audit, see the second table):

  item                                              stream(s) -> kind                          I  P
  k = 1..32, every value                            all-k (each k, 6+ cases); before: 14 values  I  P  sig
  dtype = smallest unsigned type, all k, empty sig  all-k, empty-collection (k=1..32)           I  P  sig/api
  prefix length 1..7 / 8..24                        random-planted / long-prefix                I  P  sig
  prefix given as str / bytes / bytearray / Seq /   api (variants p:*; lower-case forms judged  I  P  api
    lower or mixed case / JSON / pickle / copy        only if KmerSpec accepts them)
  k given as Python int / NumPy signed scalar       api (variants k:int64/int32/intp)           I  P  api
  k given as NumPy UNSIGNED scalar                  api (variants k:uint*, counted only, see    I  -  api
                                                      ASSUMPTIONS: -k wraps, known boundary)
  sequences: any bytes                              exhaustive 8 classes; byte-sweep (all 256    I  P  sig
                                                      values at every window offset, both strands)
  length < prefix+k, 0, 1, flush with either end    exhaustive-ACGTN, random-planted, byte-sweep I  P  sig
  overlapping / adjacent / self-overlapping /       exhaustive, random-planted (15%), tandem     I  P  sig
    palindromic occurrences, homopolymers             (unit repeats up to 300 bytes)
  letter case: mixed / all lower / swapped          random-planted (mixed); case-variants        I  P  sig
  long sequences (to 1 MB quick, 4 MB thorough;     big (Python reference predicate only, model  I  P  big
    occurrences across 2^15 / 2^16 / 2^20 offsets)    skipped: the Coq spec is quadratic)
  long sequences, OFFSET of an occurrence: a whole   big-boundary (key `boundary`): B = 2^12, 2^16  I  P  big
    prefix+k-mer span beginning j bytes before an     (every j = 0..prefix_len+k), 2^20, 10^6 (j =
    offset B, for every alignment j of the span to    0,1,2, prefix_len-1..+1, k-1..k+1, w-2..w),
    B (B inside the prefix / at the junction /        2^21, 2^22 (j = 1, w-1), both strands, one
    inside the k-mer / span flush with B on either    sequence of B + <= 400 bytes per (j, strand)
    side), in sequences just longer than B, of        + lengths B+0,1,k,w-1,w + one of 3 B with
    exactly B + 0 / 1 / k / w bytes, and longer       spans across B, 2 B, 3 B; thorough: 2^10 ..
    than 3 B.  Before: the windows planted by `big`   2^24, 10^3 .. 10^7.  big-comb (key `comb`):
    around one offset overwrote each other, only      one 2 MB sequence (thorough: to 8 MB) with a
    the span BEGINNING at 2^15 / 2^16 / 2^20          span across every multiple of 2^12 and 10^4,
    survived, none straddled it (round-8 seed:        alignment / strand / case hashed from the
    sequences over 2^20 bytes searched in windows     multiple.  Every planted k-mer occurs once in
    overlapping by k instead of prefix_len+k-1)       the case; background N / n / random ACGT(acgt)
  collection: list of 1..3                          exhaustive, random-planted                   I  P  sig
  collection: empty, 10..60 items, repeats, empties empty-collection, many-seqs                  I  P  sig
  collection: tuple / iterator / generator / deque  api (variants c:*)                           I  P  api
    / dict keys / custom iterable / same object x2
  single bare sequence (not wrapped), 4 types       default-single in every sig case             I  P  sig
  element types str / bytes / bytearray / Seq       every sig case (x set, array)                I  P  sig
  Seq(str) / Seq(bytearray) / Seq slice / subclass  api (variants t:*), mixed types in one call  I  P  api
    of bytes, str / mixed types in one collection
  accumulator: set (all k), array (k <= 11; 12, 13  every sig case (before: array k <= 9, default I  P  sig
    in all-k dense cases), default for 1 and n seqs   only for a single sequence)
  accumulator reused after clear(); keyword call    api (variants a:*-reused, call:kw)           I  P  api
  accumulate_kmers + signature(); add_kmer route    api (variants a:accumulate*, a:add_kmer)     I  P  api
  calc_file_signature (FASTA, accumulator=...)      api (variants file:*; letters-only cases)    I  P  api
  find_kmers: bytes, model tie on (pos, reverse)    every find case                              I  -  find
  find_kmers: 4 types + keyword form; per strand    findx (k-mers per strand vs fwd_kmers spec;  I  P  findx
    k-mer sets, KmerMatch.kmer()/kmer_index()         kmer() consistent with kmer_index())
  not judged (not stated): yield order/multiplicity of matches, byte order of the dtype, accumulator
  state after a call of calc_signature, a pre-filled accumulator handed to calc_signature, non-ASCII
  text, MutableSeq/memoryview, k > 32.

State and aliasing (audit of what can outlive one call; kind `state` = a script of 2-6 calls over a pool of
shared objects, every call judged by the specification).  Columns: (a) the object is REUSED by calls whose
other arguments differ (other k / prefix / dtype / accumulator class / sequences / file content), in both
orders; (b) compared after every call with its value before the call; (c) a call that FAILS part-way is
followed by a good call on the same thread and objects; (d) every call is made twice, same result;
(e) the call is also made from a second thread (one worker thread kept for the whole script, or a new
thread) / in a forked worker process.  "before" = what the single-call kinds already did.

  entry point                    object that outlives a call                   a  b  c  d  e   before the audit
  KmerSpec(k, prefix)            the KmerSpec (frozen; 7 derived fields);      a  b  c  d  e   reused inside one case only,
                                   built from str / a bytearray the caller                      same sequences (sig, api)
                                   overwrites afterwards / numpy.int64 k
  gambit.kmers.DEFAULT_KMERSPEC, module-level objects (spec 'default' is the   a  b  c  d  e   never used
    gambit.seq.NUCLEOTIDES,        global itself; constants compared after
    SEQ_TYPES                      every call)
  find_kmers(kmerspec, seq)      seq object (bytes / bytearray / str / Seq /   a  b  -  d  e   fresh object per call
                                   subclass), the lazy generator (two searches
                                   advanced in turn), the KmerMatch objects
                                   (kept; kmer(), kmer_index(), pos re-read
                                   after every later call)
  KmerMatch.kmer / kmer_index    the match, its seq and kmerspec references    a  b  -  d  e   read once (findx)
  kmer_to_index(_rc), revcomp    const buffers (Cython): cannot be written;    -  b  -  -  e   -
                                   reached through find / acc steps
  calc_signature(kmerspec, seqs, seqs: the caller's LIST (one object per        a  b  c  d  e   fresh list per call; api
    accumulator=)                  selection and representation, reused),                        c:same-object-twice
                                   tuple / generator / iterator / deque /
                                   custom iterable / bare sequence; its
                                   elements; the returned array (kept, re-read
                                   after every later call)
                                 accumulator passed in (documented: added to;  a  b* c  d  e   api a:*-reused: one clear(),
                                   2 live objects per (k, class), cleared by                    same k, result of the decoy
                                   the script before each calc_signature)                       call dropped
  accumulate_kmers(acc, ks, seq) the accumulator: NOT cleared between steps,   a  b* c  d  e   one fresh accumulator, one
    + acc.signature() / clear()    signature() after every step = union of all                  signature() at the end
                                   sequences added so far; several live
                                   accumulators interleaved (class-level state)
  default_accumulator(k)         (made inside calc_signature) must start empty a  -  c  d  e   implicitly, never after a failure
  calc_file_signature(ks, file,  SequenceFile (frozen), the file on disk       a  b  c  d  e   new path per call, deleted after
    accumulator=)                  (bytes compared), REWRITTEN by the caller
                                   between calls (step rewrite: same object,
                                   same path, other records); failures: FASTQ
                                   quality line too short in the middle record,
                                   truncated gzip stream (both raise after some
                                   records were accumulated), missing file
  calc_file_signatures(ks, files, the caller's list of SequenceFile, the        a  b  c  d  e   not driven here (C13 drives
    concurrency=, executor=)       caller's Executor (kept for the script, must                  completion orders, fresh
                                   stay usable), result SignatureList +                          objects)
                                   kmerspec; concurrency None / threads /
                                   caller's executor / processes (fork)
  gambit signatures create       in-process CLI twice + once more with other   a  b  -  -  e   not driven here
    -k -p -o -c 1                  k / prefix / rewritten files (process pool)
  the CALLER changes an object   step mutate: a pool bytearray is overwritten  a  b  -  d  e   never
    between calls                  in place (same or other length), immutable
                                   forms replaced in the caller's list
  (big / big-boundary / big-comb cases are single calls: fresh sequence objects and accumulators for every call, one
  KmerSpec per case used by its 9 calls; nothing outlives a call there, so they add no row to this table.)
  b* = an accumulator is documented to be modified: its content is judged (union semantics) instead.
  (c) failing calls: a non-ASCII str, None, int or float in the middle of the collection, or the caller's
  generator raising after n items; what such a call returns or raises is NOT judged (counted in
  state-fail:raised / returned), only the calls after it.  Not judged: which exception, the content of a
  caller's accumulator after a failed call (cleared before its next use), open file handles, concurrent
  calls racing on one accumulator (never advertised)."""
import itertools
import json
import os

import numpy as np

PROP = 'C01'
RULE = ('sig: (k, prefix, sequences) -> calc_signature for 4 input types x 2 accumulators vs model vs spec; find: '
        'find_kmers match set vs model; non-trivial: at least one k-mer found and (a match on each strand or two '
        'overlapping/adjacent occurrences or an occurrence dropped for an invalid byte); api: (k, prefix, sequences) -> '
        'every call form (k / prefix / KmerSpec representation, container, element type, accumulator route, file) vs '
        'signature_spec + dtype_spec, non-trivial: non-empty signature; findx: find_kmers for 4 input types, k-mer sets '
        'per strand vs fwd_kmers spec and kmer() vs kmer_index(), non-trivial: >= 2 matches; big: generated long '
        'sequences (described by seed) vs the Python reference of the specification, non-trivial: >= 100 k-mers (boundary / comb '
        'descriptions, whose background mostly does not match: at least one k-mer per alignment listed); state: a '
        'script of 2-6 calls (calc_signature / accumulate_kmers+signature / find_kmers / calc_file_signature(s) / CLI create / '
        'a call failing part-way / the caller overwriting a bytearray or a file) over shared KmerSpec, sequence, list, '
        'accumulator, SequenceFile and executor objects, on the main, a worker or a new thread: every call made twice and judged '
        'by signature_spec + dtype_spec, every shared object, module constant and earlier result compared with its value before '
        'the call; non-trivial: >= 2 judged calls with a non-empty signature')
TRUSTED = ['tools/pyx2v.py for the encoders; hand model of bytes.find / bytes.upper / slicing (CPython) in Model/C01.v',
           'Biopython Seq slicing and bytes() agree with bytes',
           'kind state: Biopython FASTA/FASTQ parsing of letters-only records, gzip, h5py round trip of `signatures create` (judged '
           'elsewhere: C06, C19); CPython threading / concurrent.futures / fork start method of ProcessPoolExecutor']
ASSUMPTIONS = ['str inputs are ASCII (the code raises otherwise); prefix is non-empty upper-case ACGT (KmerSpec validates it)',
               'the dense accumulator is executed for k <= 11 (k <= 13 in a few all-k cases) in the implementation and k <= 6 in the model',
               'k is a Python int or a NumPy integer scalar, signed or unsigned (what h5py hands to KmerSpec when a signature '
               'file is loaded); with an UNSIGNED NumPy scalar the code as found computed -k with wrap-around in find_kmers '
               '(spurious truncated k-mers) or 4**k as a float (the call raised): genuine defect, repaired in /repo by a '
               'fix: commit (KmerSpec: k = int(k), repo_fixes/C14-uint8-k.diff); judged like every other form, counted in '
               'extra[unsigned_k]',
               'kind big is judged by the Python reference _py_sig of the specification (cross-checked against the '
               'extracted signature_spec on every api case), the Coq model is not run on those inputs; on texts of 4096 bytes '
               'or more the reference finds the prefix occurrences with NumPy (same predicate for all positions at once), '
               'compared with the position-by-position loop on every big case of at most 300000 bytes',
               'kind state: steps are judged by _py_sig and every judged (k, prefix, sequences) of at most 400 bytes is also sent to '
               'the extracted signature_spec; an accumulator handed to calc_signature is emptied by the caller first (a pre-filled '
               'one is not stated), accumulate_kmers is judged with union semantics (documented: adds to the accumulator); the '
               'outcome of a call that fails part-way is counted, not judged; calls on one script are sequential (threads are used '
               'one at a time, except inside calc_file_signatures itself)']

NUC = b'ACGT'


def setup(ctx):
	from vf import impl
	impl.check_import()


def _res(v):
	from vf.main import ERRNAMES
	return v[1] if v[0] == 0 else ERRNAMES.get(v[1], f'err{v[1]}')


def _as_type(b, kind):
	if kind == 'bytes':
		return bytes(b)
	if kind == 'bytearray':
		return bytearray(b)
	if kind == 'str':
		return bytes(b).decode('latin-1') if all(c < 128 for c in b) else None
	from Bio.Seq import Seq
	return Seq(bytes(b))


def k_sig(ctx, cases):
	from gambit.kmers import KmerSpec
	from gambit.sigs.calc import calc_signature, ArrayAccumulator, SetAccumulator
	reqs = []
	for c in cases:
		seqs = [bytes.fromhex(h) for h in c['seqs']]
		p = c['prefix'].encode()
		reqs.append((103, [c['k'], p, seqs]))
		reqs.append((102, [0, c['k'], p, seqs]))
		reqs.append((102, [1, c['k'], p, seqs]) if c['k'] <= 6 else (104, c['k']))
		reqs.append((104, c['k']))
	ans = ctx.model(reqs) if ctx.model_ok else None
	for i, c in enumerate(cases):
		seqs = [bytes.fromhex(h) for h in c['seqs']]
		k = c['k']
		kspec = KmerSpec(k, c['prefix'])
		results = {}
		for kind in ('bytes', 'bytearray', 'str', 'seq'):
			inp = [_as_type(s, kind) for s in seqs]
			if any(x is None for x in inp):
				continue
			for accname in ('set', 'array'):
				if accname == 'array' and k > 11 and not (c.get('dense') and kind == 'bytes' and k <= 13):
					continue
				acc = SetAccumulator(k) if accname == 'set' else ArrayAccumulator(k)
				sig = calc_signature(kspec, inp, accumulator=acc)
				results[(kind, accname)] = (sig.tolist(), sig.dtype.itemsize if sig.dtype.kind == 'u' else -sig.dtype.itemsize)
			# default accumulator, collection call form (dense up to k = 11, set above)
			if len(inp) != 1 and (kind == 'bytes' or k <= 9 or k > 11):
				sig = calc_signature(kspec, inp)
				results[(kind, 'default')] = (sig.tolist(), sig.dtype.itemsize if sig.dtype.kind == 'u' else -sig.dtype.itemsize)
			# default accumulator, single-sequence call form
			if len(inp) == 1:
				sig = calc_signature(kspec, inp[0])
				results[(kind, 'default-single')] = (sig.tolist(), sig.dtype.itemsize if sig.dtype.kind == 'u' else -sig.dtype.itemsize)
		first = results[('bytes', 'set')]
		if ans is None:
			spec, dts = None, None
		else:
			spec = ans[4 * i]
			dts = ans[4 * i + 3]
			dts = dts[0] if dts else None
		nontriv = len(first[0]) > 0 and c.get('nt', True)
		ctx.case(c if sum(len(s) for s in seqs) < 80 else dict(k=k, prefix=c['prefix'], nseqs=len(seqs), total=sum(len(s) for s in seqs)),
		         nontrivial=nontriv)
		bad = False
		for key, r in results.items():
			if r != first:
				ctx.violation('sig', c, f'signature differs between input type/accumulator {key} and (bytes,set)',
				              impl=r, other=first)
				bad = True
				break
		if bad or ans is None:
			continue
		if first[0] != spec:
			ctx.violation('sig', c, f'calc_signature = {first[0][:20]} but the set of prefix-anchored k-mers is {spec[:20]}',
			              impl=first[0], spec=spec, model=ans[4 * i + 1])
			continue
		if first[1] != dts:
			ctx.violation('sig', c, f'dtype item size {first[1]} but smallest unsigned type for k={k} has {dts} bytes',
			              impl=first[1], spec=dts)
			continue
		m = ans[4 * i + 1]
		if m[0] != 0 or m[1][0] != first[0] or (m[1][1][0] if m[1][1] else None) != first[1]:
			ctx.broke('correspondence sig (set accumulator)', f'{c}: impl {first} model {m}')
		if k <= 6:
			m = ans[4 * i + 2]
			if m[0] != 0 or m[1][0] != first[0]:
				ctx.broke('correspondence sig (dense accumulator)', f'{c}: impl {first} model {m}')


def k_find(ctx, cases):
	from gambit.kmers import KmerSpec, find_kmers
	reqs = [(101, [c['k'], c['prefix'].encode(), bytes.fromhex(c['seq'])]) for c in cases]
	ans = ctx.model(reqs) if ctx.model_ok else None
	for i, c in enumerate(cases):
		s = bytes.fromhex(c['seq'])
		kspec = KmerSpec(c['k'], c['prefix'])
		ms = [(m.pos, bool(m.reverse)) for m in find_kmers(kspec, s)]
		ctx.case(c if len(s) < 80 else dict(k=c['k'], prefix=c['prefix'], n=len(s)), nontrivial=len(ms) >= 2)
		if ans is None:
			continue
		mm = _res(ans[i])
		mm = [(a, bool(b)) for a, b in mm] if isinstance(mm, list) else mm
		if mm != ms:
			# the property constrains the set of matches, not the yield order
			if isinstance(mm, list) and sorted(mm) == sorted(ms):
				continue
			ctx.broke('correspondence find (find_kmers)', f'{c}: impl {ms[:10]} model {mm if not isinstance(mm, list) else mm[:10]}')


# ---------------------------------------------------------------------------------------------
# audit additions: Python reference of the specification, call-form / find_kmers / long-sequence kinds
# ---------------------------------------------------------------------------------------------
_CODE = {65: 0, 67: 1, 71: 2, 84: 3}
_RCTAB = bytes.maketrans(b'ACGTacgt', b'TGCAtgca')


def _occ(u, p, limit, plain=False):
	"""every q in [0, limit) with u[q:q+len(p)] == p, in order.  Long texts: the same predicate evaluated for all q at once
	with NumPy (one comparison per prefix letter); `plain` forces the position-by-position loop (the two are compared on
	every long-sequence case of at most 300000 bytes, see _big_one)"""
	if limit <= 0:
		return []
	if plain or len(u) < 4096:
		return [q for q in range(limit) if u.startswith(p, q)]
	a = np.frombuffer(u, dtype=np.uint8)
	mask = a[0:limit] == p[0]
	for i in range(1, len(p)):
		mask &= a[i:i + limit] == p[i]
	return np.flatnonzero(mask).tolist()


def _py_fwd(k, p, s, plain=False):
	"""indices of the valid k-mers that follow forward-strand occurrences of p in s, by position
	(direct transcription of Spec/C01.v fwd_kmers)"""
	u = bytes(s).upper()          # bytes.upper touches a-z only, like Spec.Kmers.upper
	out = []
	m = len(p)
	for q in _occ(u, p, len(u) - m - k + 1, plain):
		if True:
			v = 0
			for b in u[q + m:q + m + k]:
				d = _CODE.get(b)
				if d is None:
					v = None
					break
				v = v * 4 + d
			if v is not None:
				out.append(v)
	return out


def _py_rc(s):
	return bytes(s).translate(_RCTAB)[::-1]


def _py_sig(k, p, seqs, plain=False):
	acc = set()
	for s in seqs:
		acc.update(_py_fwd(k, p, s, plain))
		acc.update(_py_fwd(k, p, _py_rc(s), plain))
	return sorted(acc)


def _py_dts(k):
	return 1 if k <= 4 else 2 if k <= 8 else 4 if k <= 16 else 8 if k <= 32 else None


def _obs(sig):
	"""what the property constrains of a returned signature: values in order + unsigned item size"""
	if not isinstance(sig, np.ndarray) or sig.ndim != 1:
		return ('not a 1-d array', type(sig).__name__)
	return (sig.tolist(), sig.dtype.itemsize if sig.dtype.kind == 'u' else -sig.dtype.itemsize)


class _Skip(Exception):
	pass


class _MyBytes(bytes):
	pass


class _MyStr(str):
	pass


class _Iterable:
	"""an iterable that is neither a sequence nor an iterator"""
	def __init__(self, items):
		self._items = items

	def __iter__(self):
		return iter(list(self._items))


_SCRATCH = []
_FILENO = itertools.count()


def _scratch():
	if not _SCRATCH:
		from vf import impl
		_SCRATCH.append(impl.scratch_dir('gambit-verif-c01-'))
	return _SCRATCH[0]


def _elem(b, form):
	"""one sequence in the element representation `form`; _Skip when the bytes cannot be text"""
	from Bio.Seq import Seq
	b = bytes(b)
	ascii_ok = all(x < 128 for x in b)
	if form in ('str', 'seq-str', 'mystr') and not ascii_ok:
		raise _Skip()
	if form == 'bytes':
		return b
	if form == 'bytearray':
		return bytearray(b)
	if form == 'str':
		return b.decode('ascii')
	if form == 'seq':
		return Seq(b)
	if form == 'seq-str':
		return Seq(b.decode('ascii'))
	if form == 'seq-bytearray':
		return Seq(bytearray(b))
	if form == 'seq-slice':
		return Seq(b'TAC' + b + b'GAT')[3:3 + len(b)]
	if form == 'seq-seq':
		return Seq(Seq(b))
	if form == 'mybytes':
		return _MyBytes(b)
	if form == 'mystr':
		return _MyStr(b.decode('ascii'))
	raise KeyError(form)


ELEM_FORMS = ('bytes', 'bytearray', 'str', 'seq', 'seq-str', 'seq-bytearray', 'seq-slice', 'seq-seq', 'mybytes', 'mystr')
UNSIGNED_K = ('uint8', 'uint16', 'uint32', 'uint64')


def _api_variants(c, seqs):
	"""(name, thunk) for every call form; each thunk returns the signature array.  Everything is a
	function of the case (c['vseed'] drives the random choices)."""
	import collections
	import copy
	import pickle
	import random
	from Bio.Seq import Seq
	from gambit.kmers import KmerSpec, find_kmers
	from gambit.sigs.calc import (calc_signature, calc_file_signature, ArrayAccumulator, SetAccumulator,
	                              default_accumulator, accumulate_kmers)
	from gambit.seq import SequenceFile
	import gambit.util.json as gjson
	rnd = random.Random(c.get('vseed', 0))
	k, P = c['k'], c['prefix']
	ks = KmerSpec(k, P)
	blist = [bytes(s) for s in seqs]
	out = []

	def add(name, fn):
		out.append((name, fn))

	# -- k representation (signed NumPy scalars: what h5py hands to KmerSpec when a signature file is loaded)
	for nm in ('int64', 'int32', 'intp'):
		add('k:np.' + nm, lambda nm=nm: calc_signature(KmerSpec(getattr(np, nm)(k), P), list(blist)))
		add('k:np.' + nm + '+set', lambda nm=nm: calc_signature(KmerSpec(getattr(np, nm)(k), P), list(blist),
		                                                   accumulator=SetAccumulator(getattr(np, nm)(k))))
	# -- prefix / KmerSpec representation
	pb = P.encode()
	add('p:bytes', lambda: calc_signature(KmerSpec(k, pb), list(blist)))
	add('p:bytearray', lambda: calc_signature(KmerSpec(k, bytearray(pb)), list(blist)))
	add('p:seq', lambda: calc_signature(KmerSpec(k, Seq(pb)), [Seq(b) for b in blist]))

	def lower_form(pf):
		try:
			k2 = KmerSpec(k, pf)
		except ValueError:
			raise _Skip()    # refusing a lower-case prefix is not against the property
		return calc_signature(k2, list(blist))
	add('p:lower', lambda: lower_form(P.lower()))
	add('p:mixed', lambda: lower_form(''.join(ch.lower() if i % 2 else ch for i, ch in enumerate(P))))
	add('ks:json', lambda: calc_signature(KmerSpec.__from_json__(ks.__to_json__()), list(blist)))
	add('ks:json-text', lambda: calc_signature(gjson.loads(gjson.dumps(ks), KmerSpec), list(blist)))
	add('ks:pickle', lambda: calc_signature(pickle.loads(pickle.dumps(ks)), list(blist)))
	add('ks:pickle-np', lambda: calc_signature(pickle.loads(pickle.dumps(KmerSpec(np.int64(k), P))), list(blist)))
	add('ks:copy', lambda: calc_signature(copy.copy(ks), list(blist)))
	add('ks:deepcopy', lambda: calc_signature(copy.deepcopy(ks), list(blist)))
	# -- container
	add('c:tuple', lambda: calc_signature(ks, tuple(blist)))
	add('c:iter', lambda: calc_signature(ks, iter(blist)))
	add('c:generator', lambda: calc_signature(ks, (b for b in blist)))
	add('c:generator+set', lambda: calc_signature(ks, (bytearray(b) for b in blist), accumulator=SetAccumulator(k)))
	add('c:deque', lambda: calc_signature(ks, collections.deque(blist)))
	add('c:dictkeys', lambda: calc_signature(ks, dict.fromkeys(blist).keys()))
	add('c:iterable', lambda: calc_signature(ks, _Iterable(blist)))
	add('c:map', lambda: calc_signature(ks, map(bytes, blist)))

	def same_twice():
		objs = [bytearray(b) for b in blist]
		return calc_signature(ks, objs + objs[:1] + objs)
	add('c:same-object-twice', same_twice)
	# -- element types
	for form in ELEM_FORMS[4:]:
		add('t:' + form, lambda form=form: calc_signature(ks, [_elem(b, form) for b in blist]))
		if len(blist) == 1:
			add('t:' + form + '-bare', lambda form=form: calc_signature(ks, _elem(blist[0], form)))

	def mixed():
		forms = [rnd.choice(ELEM_FORMS) for _ in blist]
		els = []
		for b, f in zip(blist, forms):
			try:
				els.append(_elem(b, f))
			except _Skip:
				els.append(_elem(b, 'bytes'))
		return calc_signature(ks, els, accumulator=SetAccumulator(k) if rnd.random() < 0.5 else None)
	add('t:mixed', mixed)
	# -- accumulator routes
	decoy = [bytes(rnd.choice(NUC) for _ in range(rnd.randint(0, 40))) + pb + bytes(rnd.choice(NUC) for _ in range(k + 3))]

	def reused(cls):
		acc = cls(k)
		calc_signature(ks, decoy, accumulator=acc)
		acc.clear()
		return calc_signature(ks, list(blist), accumulator=acc)
	add('a:set-reused', lambda: reused(SetAccumulator))
	if k <= 9:
		add('a:array-reused', lambda: reused(ArrayAccumulator))
	add('a:none-keyword', lambda: calc_signature(ks, list(blist), accumulator=None))
	add('call:kw', lambda: calc_signature(kmerspec=ks, seqs=list(blist), accumulator=SetAccumulator(k)))
	add('call:kw-default', lambda: calc_signature(seqs=tuple(blist), kmerspec=ks))

	def accumulate(acc):
		for b in blist:
			accumulate_kmers(acc, ks, b if rnd.random() < 0.5 else Seq(b))
		return acc.signature()
	add('a:accumulate-set', lambda: accumulate(SetAccumulator(k)))
	add('a:accumulate-default', lambda: accumulate(default_accumulator(k)))

	def via_add_kmer(acc):
		for b in blist:
			for m in find_kmers(ks, b):
				acc.add_kmer(m.kmer())
		return acc.signature()
	add('a:add_kmer-set', lambda: via_add_kmer(SetAccumulator(k)))
	if k <= 9:
		add('a:add_kmer-array', lambda: via_add_kmer(ArrayAccumulator(k)))
	# -- files (only for letters-only, non-empty records: FASTA parsing itself belongs to C06)
	if c.get('file') and blist and all(b and b.isalpha() and all(x < 128 for x in b) for b in blist):
		import os
		path = os.path.join(_scratch(), f'api-{next(_FILENO)}.fasta')

		def write():
			with open(path, 'wb') as f:
				for i, b in enumerate(blist):
					f.write(b'>rec%d some description\n' % i)
					w = rnd.choice([60, 7, 10**9])
					for j in range(0, len(b), w):
						f.write(b[j:j + w] + b'\n')
			return SequenceFile(path, 'fasta')

		def file_sig(**kw):
			sf = write()
			try:
				return calc_file_signature(ks, sf, **kw)
			finally:
				os.unlink(path)
		add('file:default', lambda: file_sig())
		add('file:accumulator=set', lambda: file_sig(accumulator=SetAccumulator(k)))
		if k <= 9:
			add('file:accumulator=array', lambda: file_sig(accumulator=ArrayAccumulator(k)))
	return out


def k_api(ctx, cases):
	import warnings
	from gambit.kmers import KmerSpec
	from gambit.sigs.calc import calc_signature, SetAccumulator
	reqs = []
	for c in cases:
		seqs = [bytes.fromhex(h) for h in c['seqs']]
		reqs.append((103, [c['k'], c['prefix'].encode(), seqs]))
		reqs.append((104, c['k']))
	ans = ctx.model(reqs) if ctx.model_ok else None
	uk = ctx.extra.setdefault('unsigned_k', dict(calls=0, agree=0, differ=0, raised=0))
	for i, c in enumerate(cases):
		seqs = [bytes.fromhex(h) for h in c['seqs']]
		k, pb = c['k'], c['prefix'].encode()
		ref = _py_sig(k, pb, seqs)
		if ans is None:
			spec, dts = ref, _py_dts(k)
		else:
			spec = ans[2 * i]
			dts = ans[2 * i + 1]
			dts = dts[0] if dts else None
			if ref != spec:
				ctx.broke('harness reference (_py_sig) vs extracted signature_spec', f'{c}: python {ref[:10]} coq {spec[:10]}')
		want = (spec, dts)
		ctx.case(c if sum(len(s) for s in seqs) < 80 else dict(k=k, prefix=c['prefix'], nseqs=len(seqs), total=sum(len(s) for s in seqs),
		                                                       vseed=c.get('vseed', 0)), nontrivial=len(spec) > 0)
		for name, fn in _api_variants(c, seqs):
			try:
				got = _obs(fn())
			except _Skip:
				continue
			except Exception as e:
				ctx.violation('api', c, f'call form {name}: raised {type(e).__name__}: {e} (the signature is {spec[:20]})',
				              impl=repr(e), spec=spec, form=name)
				break
			ctx.count('api-form:' + name.split(':')[0])
			if got != want:
				ctx.violation('api', c, f'call form {name}: signature {str(got[0])[:200]} (item size {got[1]}) but the set of '
				              f'prefix-anchored k-mers is {spec[:20]} (item size {dts})', impl=got, spec=want, form=name)
				break
		# unsigned NumPy scalar k (see ASSUMPTIONS)
		nm = UNSIGNED_K[c.get('vseed', 0) % len(UNSIGNED_K)]
		uk['calls'] += 1
		try:
			with warnings.catch_warnings():
				warnings.simplefilter('ignore')
				kk = getattr(np, nm)(k)
				got = _obs(calc_signature(KmerSpec(kk, c['prefix']), [bytes(s) for s in seqs], accumulator=SetAccumulator(k)))
			uk['agree' if got == want else 'differ'] += 1
			if got != want:
				ctx.violation('api', c, f'k given as numpy.{nm}({k}): signature {str(got[0])[:200]} (item size {got[1]}) but the set of '
				              f'prefix-anchored k-mers is {spec[:20]} (item size {dts})', impl=got, spec=want, form='unsigned-k:' + nm)
		except Exception as e:
			uk['raised'] += 1
			ctx.violation('api', c, f'k given as numpy.{nm}({k}): raised {type(e).__name__}: {e} (the signature is {spec[:20]})',
			              impl=repr(e), spec=spec, form='unsigned-k:' + nm)


def _kidx(m):
	try:
		return int(m.kmer_index())
	except ValueError:
		return None


def k_findx(ctx, cases):
	from gambit.kmers import KmerSpec, find_kmers
	reqs = []
	for c in cases:
		s = bytes.fromhex(c['seq'])
		pb = c['prefix'].encode()
		reqs.append((105, [c['k'], pb, s]))
		reqs.append((105, [c['k'], pb, _py_rc(s)]))
	ans = ctx.model(reqs) if ctx.model_ok else None
	for i, c in enumerate(cases):
		s = bytes.fromhex(c['seq'])
		k, pb = c['k'], c['prefix'].encode()
		kspec = KmerSpec(k, c['prefix'])
		pf, pr = _py_fwd(k, pb, s), _py_fwd(k, pb, _py_rc(s))
		if ans is not None:
			sf, sr = ans[2 * i], ans[2 * i + 1]
			if (pf, pr) != (sf, sr):
				ctx.broke('harness reference (_py_fwd) vs extracted fwd_kmers', f'{c}: python {pf[:10]} {pr[:10]} coq {sf[:10]} {sr[:10]}')
		else:
			sf, sr = pf, pr
		want = (sorted(set(sf)), sorted(set(sr)))
		nm = 0
		bad = False
		for form in ('bytes', 'bytearray', 'str', 'seq', 'seq-str', 'seq-slice', 'kw'):
			try:
				obj = _elem(s, 'bytes' if form == 'kw' else form)
			except _Skip:
				continue
			try:
				ms = list(find_kmers(kmerspec=kspec, seq=obj)) if form == 'kw' else list(find_kmers(kspec, obj))
				nm = max(nm, len(ms))
				got = ([], [])
				for m in ms:
					idx = _kidx(m)
					km = bytes(m.kmer())
					ku = km.upper()
					valid = len(km) == k and all(b in _CODE for b in ku)
					if idx is not None:
						v = 0
						for b in ku:
							v = v * 4 + _CODE.get(b, 0)
						if not valid or v != idx:
							ctx.violation('findx', c, f'find_kmers on {form}: match at {m.pos} (reverse={bool(m.reverse)}) has kmer() = {km!r} '
							              f'but kmer_index() = {idx}', impl=[m.pos, bool(m.reverse), km.hex(), idx], form=form)
							bad = True
							break
						got[1 if m.reverse else 0].append(idx)
					elif valid:
						ctx.violation('findx', c, f'find_kmers on {form}: match at {m.pos} (reverse={bool(m.reverse)}) has the valid k-mer '
						              f'{km!r} but kmer_index() raises', impl=[m.pos, bool(m.reverse), km.hex()], form=form)
						bad = True
						break
			except Exception as e:
				ctx.violation('findx', c, f'find_kmers on {form}: raised {type(e).__name__}: {e}', impl=repr(e), form=form)
				bad = True
			if bad:
				break
			got = (sorted(set(got[0])), sorted(set(got[1])))
			if got != want:
				ctx.violation('findx', c, f'find_kmers on {form}: valid k-mers per strand (forward, reverse) = {str(got)[:300]} but the k-mers that '
				              f'follow an occurrence of the prefix are {str(want)[:300]}', impl=got, spec=want, form=form)
				bad = True
				break
		ctx.case(c if len(s) < 80 else dict(k=k, prefix=c['prefix'], n=len(s)), nontrivial=nm >= 2)


_TBL4 = bytes(b'ACGT'[i & 3] for i in range(256))
_TBL8 = bytes(b'ACGTacgt'[i & 7] for i in range(256))


def _filler(bg, n, seed):
	"""background of a boundary / comb sequence.  'N', 'n': a letter that never matches; 'aN': N's after one lower-case
	letter; 'rand' / 'randl': random ACGT / ACGTacgt (matches everywhere: used with k-mers long enough that a planted
	k-mer is not found in the background as well)"""
	import random
	if bg in ('rand', 'randl'):
		return bytearray(random.Random(seed).randbytes(n).translate(_TBL4 if bg == 'rand' else _TBL8))
	if bg == 'aN':
		return bytearray(b'a'[:n] + b'N' * max(0, n - 1))
	return bytearray(bg.encode()[:1] * n)


def _planter(p, k, r):
	"""plant(buf, s, strand, lower): write prefix + a k-mer not planted before in this case (strand 1: their reverse
	complement = an occurrence on the reverse strand) at offset s of buf, unless it does not fit or would overlap an
	earlier plant of the same buffer (plants never destroy each other)"""
	w = len(p) + k
	space = 4 ** k
	usedk = set()
	used = {}

	def plant(buf, s, strand, lower=False):
		if s < 0 or s + w > len(buf):
			return False
		mine = used.setdefault(id(buf), {})
		for q in (s // w - 1, s // w, s // w + 1):
			o = mine.get(q)
			if o is not None and abs(o - s) < w:
				return False
		mine[s // w] = s
		for _ in range(50):
			x = r.randrange(space)
			if x not in usedk:
				break
		usedk.add(x)
		win = p + bytes(NUC[(x >> (2 * (k - 1 - i))) & 3] for i in range(k))
		if strand:
			win = _py_rc(win)
		if lower:
			win = win.lower()
		buf[s:s + w] = win
		return True
	return plant


def _boundary_seqs(g):
	"""`big` case with key `boundary` = B: the SEQUENCE-LENGTH / OFFSET dimension of "every collection of input sequences".
	One sequence a little longer than B per (j in g['js'], strand): a complete prefix + k-mer span that begins j bytes
	before offset B (j = 0: begins at B, j = prefix_len + k: ends flush with B, otherwise it straddles B with the offset
	falling inside the prefix, between prefix and k-mer or inside the k-mer), between two touching spans of the other
	strand; `tails`: sequences of length B + t with spans flush with both ends; `multi`: one sequence longer than 3 B with
	spans straddling B, 2 B and 3 B; and one short sequence.  Every planted k-mer is planted once in the whole case, so
	losing a single occurrence changes the signature."""
	import random
	r = random.Random(g['seed'])
	p = g['prefix'].encode()
	k, B, bg = g['k'], g['boundary'], g.get('bg', 'N')
	w = len(p) + k
	plant = _planter(p, k, r)
	bufs = []
	short = _filler(bg, 3 * w + r.randint(0, 40), r.randrange(2 ** 31))
	plant(short, r.randrange(len(short) - w + 1), r.randrange(2))
	bufs.append(short)
	for j in g.get('js', []):
		for strand in (0, 1):
			buf = _filler(bg, B + 2 * w + r.randint(1, 300), r.randrange(2 ** 31))
			plant(buf, B - j, strand, r.random() < 0.25)
			plant(buf, B - j - w, 1 - strand, r.random() < 0.25)
			plant(buf, B - j + w, 1 - strand, r.random() < 0.25)
			bufs.append(buf)
	for n, t in enumerate(g.get('tails', [])):
		buf = _filler(bg, B + t, r.randrange(2 ** 31))
		plant(buf, 0, n & 1)
		plant(buf, len(buf) - w, 1 - (n & 1))
		plant(buf, len(buf) - 2 * w, n & 1)
		bufs.append(buf)
	if g.get('multi'):
		buf = _filler(bg, 3 * B + 2 * w + r.randint(1, 300), r.randrange(2 ** 31))
		for m, j in ((1, len(p)), (2, 1), (3, w - 1), (2, 1 + w), (3, w - 1 - w), (1, len(p) + w)):
			plant(buf, m * B - j, r.randrange(2), r.random() < 0.25)
		bufs.append(buf)
	return [bytes(b) for b in bufs]


def _comb_seqs(g):
	"""`big` case with key `comb` = [steps]: one sequence of g['lens'][0] bytes with a prefix + k-mer span across EVERY
	multiple of every step; how far before the multiple the span begins (one of g['js']), its strand and letter case are
	a hash of the multiple and the seed, so that the multiples of any larger unit (2^13 .. 2^20, 10^5 ...) see varied
	alignments"""
	import random
	r = random.Random(g['seed'])
	p = g['prefix'].encode()
	k, js = g['k'], g['js']
	n = g['lens'][0]
	plant = _planter(p, k, r)
	buf = _filler(g.get('bg', 'N'), n, r.randrange(2 ** 31))
	plant(buf, 0, 0)
	plant(buf, n - len(p) - k, 1)
	for step in g['comb']:
		for m in range(1, n // step + 1):
			h = (m * 2654435761 + g['seed'] * 40503 + step) & 0xFFFFFFFF
			h = ((h ^ (h >> 15)) * 2246822519) & 0xFFFFFFFF          # mix: multiples of 2^i must not share low bits
			h = ((h ^ (h >> 13)) * 3266489917) & 0xFFFFFFFF
			h ^= h >> 16
			plant(buf, m * step - js[h % len(js)], (h >> 12) & 1, (h >> 14) % 4 == 0)
	return [bytes(buf)]


def _big_seqs(g):
	"""the sequences of a `big` case, a deterministic function of its description g"""
	import random
	if 'boundary' in g:
		return _boundary_seqs(g)
	if 'comb' in g:
		return _comb_seqs(g)
	r = random.Random(g['seed'])
	nr = np.random.RandomState(g['seed'] % (2 ** 32))
	p = g['prefix'].encode()
	k = g['k']
	alpha = np.frombuffer({'upper': b'ACGT', 'mixed': b'ACGTacgt', 'n': b'ACGTACGTACGTACGTNacgtn'}[g['alpha']], dtype='u1')
	seqs = []
	for n in g['lens']:
		b = bytearray(alpha[nr.randint(0, len(alpha), n)].tobytes())
		w = len(p) + k
		marks = [0, n - w, 2 ** 15 - 1, 2 ** 15, 2 ** 16 - 1, 2 ** 16, 2 ** 16 + 1, 2 ** 17, 2 ** 20 - 1, 2 ** 20, 2 ** 21, n // 2, n * 7 // 10, n * 8 // 10, n * 9 // 10]
		for mk in marks:
			# windows that start just before, straddle and start at each mark, on both strands
			for off in (-w, -(w // 2), -1, 0):
				q = mk + off
				if 0 <= q and q + w <= n:
					kmer = bytes(r.choice(NUC) for _ in range(k))
					win = p + kmer
					if r.random() < 0.5:
						win = _py_rc(win)
					if r.random() < 0.3 and q >= g.get('lowfrom', 0) * n:
						win = win.lower()
					b[q:q + w] = win
		for _ in range(g.get('junk', 0) if n else 0):
			b[r.randrange(n)] = r.choice([0, 255, ord('N'), ord('-'), 0xC1, ord('\n')])
		seqs.append(bytes(b))
	return seqs


def _big_one(ctx, c):
	from gambit.kmers import KmerSpec
	from gambit.sigs.calc import calc_signature, SetAccumulator, ArrayAccumulator
	k, P = c['k'], c['prefix']
	seqs = _big_seqs(c)
	spec = _py_sig(k, P.encode(), seqs)
	if sum(len(s) for s in seqs) <= 300000:
		# the reference enumerates occurrences with NumPy on long texts: same answer as the position-by-position loop
		if spec != _py_sig(k, P.encode(), seqs, plain=True):
			ctx.broke('harness reference: _occ with NumPy vs the position-by-position loop', f'{c}')
	want = (spec, _py_dts(k))
	# boundary / comb cases: most of the planted k-mers present (background of non-matching letters: few others)
	ctx.case(c, nontrivial=len(spec) >= (100 if 'js' not in c else max(2, len(c['js']))))
	kspec = KmerSpec(k, P)
	for form in ('bytes', 'bytearray', 'str', 'seq'):
		try:
			inp = [_elem(s, form) for s in seqs]
		except _Skip:
			continue
		for accname in ('set', 'default', 'array'):
			if accname == 'array' and (k > 9 or form != 'bytearray'):
				continue
			acc = None if accname == 'default' else SetAccumulator(k) if accname == 'set' else ArrayAccumulator(k)
			try:
				got = _obs(calc_signature(kspec, inp[0] if len(inp) == 1 and accname == 'default' else inp, accumulator=acc))
			except Exception as e:
				ctx.violation('big', c, f'{form}/{accname}: raised {type(e).__name__}: {e}', impl=repr(e))
				return
			if got != want:
				a, b = set(got[0]) if isinstance(got[0], list) else set(), set(spec)
				ctx.violation('big', c, f'{form}/{accname}: signature of {len(seqs)} generated sequences (lengths {[len(s) for s in seqs][:40]}) has '
				              f'{len(got[0])} k-mers, item size {got[1]}; the specification gives {len(spec)}, item size {want[1]}; '
				              f'missing {sorted(b - a)[:10]} spurious {sorted(a - b)[:10]}',
				              impl=[len(got[0]), got[1]], spec=[len(spec), want[1]])
				return


def k_big(ctx, cases):
	for c in cases:
		_big_one(ctx, c)


# ---------------------------------------------------------------------------------------------
# state / aliasing audit: kind `state` = a short script of calls over a small pool of shared objects
# (see "state and aliasing" in the module docstring)
# ---------------------------------------------------------------------------------------------
STATE_FORMS = ('bytes', 'bytearray', 'str', 'seq', 'seq-str', 'mybytes')
_FORM_TYPES = {'bytes': 'bytes', 'bytearray': 'bytearray', 'str': 'str', 'seq': 'Seq', 'seq-str': 'Seq', 'mybytes': '_MyBytes'}
_DTNAME = {1: 'uint8', 2: 'uint16', 4: 'uint32', 8: 'uint64'}


class _Boom(Exception):
	"""raised by a caller-supplied iterator part-way through a collection"""


class _StateFail(Exception):
	def __init__(self, what, **values):
		Exception.__init__(self, what)
		self.what = what
		self.values = values


def _desc(items):
	"""printable description of a list of sequence objects (repr of a Seq raises on non-ASCII data)"""
	out = []
	for x in list(items)[:12]:
		try:
			out.append(type(x).__name__ + ':' + (x.encode('latin-1', 'replace') if isinstance(x, str) else bytes(x)).hex()[:60])
		except Exception:
			out.append(type(x).__name__)
	return out


def _spec_obs(ks):
	"""every public field of a KmerSpec, with the type of k (the type of .prefix is not compared: it is a bytearray, a
	private copy, when the prefix was given as one)"""
	return [type(ks.k).__name__, int(ks.k), bytes(ks.prefix).hex(), ks.prefix_str, ks.prefix_len, ks.total_len,
	        int(ks.nkmers), str(ks.index_dtype)]


def _spec_want(k, P):
	return ['int', k, P.encode().hex(), P, len(P), k + len(P), 4 ** k, _DTNAME[_py_dts(k)]]


def _write_seqfile(path, fmt, recs, bad, gz):
	"""a FASTA / FASTQ file of letters-only records; bad = 'qual': the quality line of the middle record is too short
	(the parser raises after it has handed over the records before it); 'trunc': gzip stream cut short; 'missing': no file"""
	import gzip
	out = []
	for i, r in enumerate(recs):
		if fmt == 'fastq':
			q = b'I' * len(r)
			if bad == 'qual' and i == len(recs) // 2:
				q = q[:max(0, len(r) - 2)]
			out.append(b'@rec%d some description\n%s\n+\n%s\n' % (i, r, q))
		else:
			w = (60, 7, 10 ** 9)[(len(r) + i) % 3]
			out.append(b'>rec%d some description\n' % i + b''.join(r[j:j + w] + b'\n' for j in range(0, len(r), w)))
	data = b''.join(out)
	if gz:
		data = gzip.compress(data, mtime=0)
		if bad == 'trunc':
			data = data[:max(12, len(data) - 9)]
	if bad == 'missing':
		if os.path.exists(path):
			os.unlink(path)
		return None
	with open(path, 'wb') as f:
		f.write(data)
	return data


def _state_validate(c):
	"""ValueError for a script that refers to objects its pool does not have (the shrinker drops list items: such a
	candidate is rejected, never reported)"""
	def chk(cond):
		if not cond:
			raise ValueError('malformed state case')
	specs, colls, files = c['specs'], c.get('colls', []), c.get('files', [])
	ns, nq, nf = len(specs), len(c['seqs']), len(files)
	for sp in specs:
		chk(isinstance(sp, list) and len(sp) in (2, 3) and isinstance(sp[0], int) and 1 <= sp[0] <= 32 and isinstance(sp[1], str)
		    and sp[1] and set(sp[1]) <= set('ACGT'))
		chk(len(sp) == 2 or sp[2] in ('bytearray', 'np') or sp == [11, 'ATGAC', 'default'])
	for sel in colls:
		chk(all(0 <= j < nq for j in sel))
	for f in files:
		chk(f['fmt'] in ('fasta', 'fastq') and f.get('bad') in (None, 'qual', 'trunc', 'missing'))
		chk(all(h and bytes.fromhex(h).isalpha() and max(bytes.fromhex(h)) < 128 for h in f['recs']))
	for s in c['steps']:
		op = s['op']
		chk(op in ('calc', 'acc', 'find', 'fail', 'file', 'files', 'cli', 'mutate', 'rewrite'))
		if op not in ('mutate', 'rewrite'):
			chk(0 <= s['spec'] < ns)
		if op in ('calc', 'fail'):
			chk(0 <= s['coll'] < len(colls))
		if op in ('acc', 'find', 'mutate'):
			chk(0 <= s['seq'] < nq)
		if op in ('file', 'rewrite'):
			chk(0 <= s['file'] < nf)
		if op == 'rewrite':
			chk(all(h and bytes.fromhex(h).isalpha() and max(bytes.fromhex(h)) < 128 for h in s['recs']))
		if op in ('files', 'cli'):
			chk(all(0 <= f < nf for f in s['files']))
		if op == 'cli':
			chk(s['files'] and specs[s['spec']][0] >= 5 and len(specs[s['spec']][1]) >= 2)
			chk(all(files[f]['fmt'] == 'fasta' for f in s['files']))
		fm = s.get('form')
		chk(fm is None or (fm in STATE_FORMS if isinstance(fm, str) else (len(fm) > 0 and all(x in STATE_FORMS for x in fm))))
		w = s.get('with')
		chk(not w or (len(w) == 3 and 0 <= w[0] < ns and 0 <= w[1] < nq and w[2] in STATE_FORMS))
		chk(not s.get('acc') or s['acc'][0] in ('set', 'array'))
		chk(s.get('bad') in (None, 'nonascii', 'none', 'int', 'float', 'boom', 'qual', 'trunc', 'missing'))
		chk(s.get('conc') in (None, 'none', 'threads', 'executor', 'processes'))
		chk(s.get('thread') in (None, 0, 1, 2))


def _state_one(ctx, c, modelreqs):
	"""run one script; raises _StateFail at the first step that breaks the property or leaves a caller object changed"""
	import collections
	import concurrent.futures as cf
	import threading
	import gambit.kmers as gk
	import gambit.seq as gseq
	from gambit.kmers import KmerSpec, find_kmers
	from gambit.sigs.calc import (calc_signature, calc_file_signature, calc_file_signatures, ArrayAccumulator, SetAccumulator,
	                              accumulate_kmers)
	from gambit.seq import SequenceFile

	_state_validate(c)
	content = [bytes.fromhex(h) for h in c['seqs']]
	lits = [(int(s[0]), str(s[1])) for s in c['specs']]
	specs = []
	for sp in c['specs']:
		src = sp[2] if len(sp) > 2 else None
		if src == 'default':
			specs.append(gk.DEFAULT_KMERSPEC)              # the module-level object itself
		elif src == 'bytearray':
			buf = bytearray(str(sp[1]).encode())
			specs.append(KmerSpec(int(sp[0]), buf))
			buf[:] = b'N' * len(buf)                       # the caller reuses its buffer afterwards
		elif src == 'np':
			specs.append(KmerSpec(np.int64(sp[0]), str(sp[1])))
		else:
			specs.append(KmerSpec(int(sp[0]), str(sp[1])))
	colls = c.get('colls', [])
	objs = [dict() for _ in content]       # pool: one object per (sequence, representation), created once, reused by every step
	lists = {}                             # pool: the caller's list objects, one per (selection, representation)
	accs = {}                              # pool: accumulators, [object, tracked content or None when unknown]
	held = []                              # arrays returned by earlier calls, with their value at return time
	heldm = []                             # KmerMatch objects of earlier find_kmers calls on immutable sequences
	st = {}                                # worker thread, executor
	files = []                             # pool: SequenceFile objects, [object, literal, bytes on disk, path]
	flists = {}
	stats = dict(judged=0, nonempty=0)
	base = os.path.join(_scratch(), f'state-{next(_FILENO)}')

	for n, f in enumerate(c.get('files', [])):
		ext = ('.fq' if f['fmt'] == 'fastq' else '.fasta') + ('.gz' if f.get('gz') else '')
		path = f'{base}-{n}{ext}'
		recs = [bytes.fromhex(h) for h in f['recs']]
		data = _write_seqfile(path, f['fmt'], recs, f.get('bad'), f.get('gz'))
		files.append([SequenceFile(path, f['fmt'], 'gzip' if f.get('gz') else None), dict(f, recs=recs), data, path])

	def fail(n, s, what, **values):
		raise _StateFail(f'step {n} {json.dumps(s)}: {what}', step=n, **values)

	def obj(j, form):
		d = objs[j]
		if form not in d:
			try:
				d[form] = _elem(content[j], form)
			except _Skip:
				return obj(j, 'bytes')
		return d[form]

	def form_at(s, i):
		fs = s.get('form', 'bytes')
		return fs[i % len(fs)] if isinstance(fs, list) else fs

	def elements(s):
		return [obj(j, form_at(s, i)) for i, j in enumerate(colls[s['coll']])]

	def container(s):
		"""the caller's list (one object per selection and representation, reused) or a fresh container of pool objects"""
		cont = s.get('cont', 'list')
		if cont == 'list':
			key = (s['coll'], json.dumps(s.get('form', 'bytes')))
			if key not in lists:
				els = elements(s)
				lists[key] = [els, list(els), s]
			return lists[key][0]
		els = elements(s)
		if cont == 'bare' and len(els) == 1:
			return els[0]
		if cont == 'tuple':
			return tuple(els)
		if cont == 'gen':
			return (x for x in els)
		if cont == 'iter':
			return iter(els)
		if cont == 'deque':
			return collections.deque(els)
		if cont == 'iterable':
			return _Iterable(els)
		return list(els)

	def acc_entry(s, i):
		"""pool accumulator named by the step (None = let the call make its own)"""
		a = s.get('acc')
		if not a:
			return None
		k = lits[i][0]
		cls = a[0] if k <= 11 else 'set'
		key = (k, cls, a[1] if len(a) > 1 else 0)
		if key not in accs:
			accs[key] = [ArrayAccumulator(k) if cls == 'array' else SetAccumulator(k), set()]
		return accs[key]

	def run(thread, fn):
		"""0: this thread; 1: the script's worker thread (the same one for every step); 2: a new thread"""
		if not thread:
			return fn()
		if thread == 1:
			if 'worker' not in st:
				st['worker'] = cf.ThreadPoolExecutor(max_workers=1)
			return st['worker'].submit(fn).result()
		box = {}

		def target():
			try:
				box['r'] = fn()
			except BaseException as e:
				box['e'] = e
		t = threading.Thread(target=target)
		t.start()
		t.join()
		if 'e' in box:
			raise box['e']
		return box['r']

	def judge(n, s, got, want, how=''):
		o = _obs(got)
		if isinstance(got, np.ndarray):
			held.append((got, o))
		stats['judged'] += 1
		stats['nonempty'] += bool(want[0])
		if o != want:
			fail(n, s, f'{how}signature {str(o[0])[:200]} (item size {o[1]}) but the set of prefix-anchored k-mers of these sequences is '
			     f'{want[0][:20]} (item size {want[1]})', impl=o, spec=want)

	def want_sig(i, seqs):
		k, P = lits[i]
		w = (_py_sig(k, P.encode(), seqs), _py_dts(k))
		if sum(len(x) for x in seqs) <= 400:
			modelreqs.append(([k, P.encode(), [bytes(x) for x in seqs]], w[0]))
		return w

	def invariants(n, s):
		for j, d in enumerate(objs):
			for form, o in d.items():
				val = o.encode('latin-1') if isinstance(o, str) else bytes(o)
				if type(o).__name__ != _FORM_TYPES[form] or val != content[j]:
					fail(n, s, f'the caller\'s sequence object {j} ({form}) was {content[j]!r} before the call and is {type(o).__name__} {val!r} after it',
					     impl=val.hex(), spec=content[j].hex())
		for key, (lst, snap, _) in lists.items():
			if len(lst) != len(snap) or any(x is not y for x, y in zip(lst, snap)):
				fail(n, s, f'the caller\'s list of sequences (selection {colls[key[0]]}, {key[1]}) was changed by the call: '
				     f'{len(snap)} items before, now {len(lst)} items / other objects', impl=_desc(lst), spec=_desc(snap))
		for i, ks in enumerate(specs):
			if _spec_obs(ks) != _spec_want(*lits[i]):
				fail(n, s, f'the caller\'s KmerSpec {lits[i]} now has the fields {_spec_obs(ks)}', impl=_spec_obs(ks), spec=_spec_want(*lits[i]))
		if _spec_obs(gk.DEFAULT_KMERSPEC) != _spec_want(11, 'ATGAC') or gseq.NUCLEOTIDES != b'ACGT' or gk.NUCLEOTIDES != b'ACGT' \
		   or tuple(t.__name__ for t in gseq.SEQ_TYPES) != ('str', 'bytes', 'bytearray', 'Seq'):
			fail(n, s, f'module-level constants changed: DEFAULT_KMERSPEC {_spec_obs(gk.DEFAULT_KMERSPEC)}, NUCLEOTIDES {gseq.NUCLEOTIDES!r}, '
			     f'SEQ_TYPES {gseq.SEQ_TYPES}', impl=_spec_obs(gk.DEFAULT_KMERSPEC))
		for arr, snap in held:
			if _obs(arr) != snap:
				fail(n, s, f'an array returned by an earlier call was {str(snap)[:200]} and now reads {str(_obs(arr))[:200]}', impl=_obs(arr), spec=snap)
		for m, idx, km, pos, rev in heldm:
			now = (_kidx(m), bytes(m.kmer()), m.pos, bool(m.reverse))
			if now != (idx, km, pos, rev):
				fail(n, s, f'a KmerMatch of an earlier find_kmers call was {(idx, km, pos, rev)} and now reads {now}', impl=list(map(str, now)))
		for sf, lit, data, path in files:
			if (str(sf.path), sf.format, sf.compression) != (path, lit['fmt'], 'gzip' if lit.get('gz') else None):
				fail(n, s, f'the caller\'s SequenceFile changed: {sf!r}', impl=repr(sf))
			now = open(path, 'rb').read() if os.path.exists(path) else None
			if now != data:
				fail(n, s, f'the sequence file {os.path.basename(path)} was changed on disk by a call that only reads it', impl=repr(now)[:200])
		for key, (lst, snap) in flists.items():
			if len(lst) != len(snap) or any(x is not y for x, y in zip(lst, snap)):
				fail(n, s, f'the caller\'s list of files {list(key)} was changed by the call', impl=[str(x) for x in lst][:10])

	def guarded(n, s, fn):
		try:
			return fn()
		except _StateFail:
			raise
		except Exception as e:
			fail(n, s, f'raised {type(e).__name__}: {e}', impl=repr(e))

	# ---- the steps -------------------------------------------------------------------------------------------
	def do_calc(n, s):
		i = s['spec']
		want = want_sig(i, [content[j] for j in colls[s['coll']]])
		a = acc_entry(s, i)
		for rep in range(2):
			if a is not None:
				a[0].clear()       # an accumulator the caller passes in is documented to be added to: start it empty
				a[1] = set()
			cont = container(s)
			if s.get('kw'):
				got = guarded(n, s, lambda: run(s.get('thread', 0), lambda: calc_signature(seqs=cont, kmerspec=specs[i], accumulator=a[0] if a else None)))
			elif a is None:
				got = guarded(n, s, lambda: run(s.get('thread', 0), lambda: calc_signature(specs[i], cont)))
			else:
				got = guarded(n, s, lambda: run(s.get('thread', 0), lambda: calc_signature(specs[i], cont, accumulator=a[0])))
			judge(n, s, got, want, 'second identical call: ' if rep else '')
			if a is not None:
				a[1] = set(want[0])
			invariants(n, s)

	def do_acc(n, s):
		i, j = s['spec'], s['seq']
		k, P = lits[i]
		a = acc_entry(dict(s, acc=s.get('acc') or ['set']), i)
		if a[1] is None or s.get('clear'):
			guarded(n, s, a[0].clear)
			a[1] = set()
			if s.get('clear'):
				judge(n, s, guarded(n, s, a[0].signature), ([], _py_dts(k)), 'after clear(): ')
		new = want_sig(i, [content[j]])
		want = (sorted(a[1] | set(new[0])), new[1])
		for rep in range(2):
			o = obj(j, s.get('form', 'bytes'))
			guarded(n, s, lambda: run(s.get('thread', 0), lambda: accumulate_kmers(a[0], specs[i], o)))
			a[1] = set(want[0])
			judge(n, s, guarded(n, s, a[0].signature), want, 'accumulate_kmers then signature() (the same sequence added again): ' if rep else
			      'accumulate_kmers then signature(): ')
			invariants(n, s)

	def do_find(n, s):
		todo = [(s['spec'], s['seq'], s.get('form', 'bytes'))] + ([tuple(s['with'])] if s.get('with') else [])
		for rep in range(2):
			def consume():
				gens = [find_kmers(specs[i], obj(j, f)) for i, j, f in todo]
				outs = [[] for _ in gens]
				live = list(range(len(gens)))
				while live:          # two searches advanced in turn
					for g in list(live):
						try:
							outs[g].append(next(gens[g]))
						except StopIteration:
							live.remove(g)
				return outs
			outs = guarded(n, s, lambda: run(s.get('thread', 0), consume))
			for (i, j, f), ms in zip(todo, outs):
				k, P = lits[i]
				want = (sorted(set(_py_fwd(k, P.encode(), content[j]))), sorted(set(_py_fwd(k, P.encode(), _py_rc(content[j])))))
				got = ([], [])
				for m in ms:
					idx = guarded(n, s, lambda: _kidx(m))
					if idx is not None:
						got[1 if m.reverse else 0].append(idx)
						if f != 'bytearray' and len(heldm) < 40:
							heldm.append((m, idx, bytes(m.kmer()), m.pos, bool(m.reverse)))
				got = (sorted(set(got[0])), sorted(set(got[1])))
				stats['judged'] += 1
				stats['nonempty'] += bool(want[0] or want[1])
				if got != want:
					fail(n, s, f'find_kmers({lits[i]}, sequence {j} as {f}): valid k-mers per strand (forward, reverse) = {str(got)[:300]} but the k-mers '
					     f'that follow an occurrence of the prefix are {str(want)[:300]}', impl=got, spec=want)
			invariants(n, s)

	def do_fail(n, s):
		"""a call that fails part-way: a bad element in the middle of the collection, or the caller's iterator raises"""
		i = s['spec']
		els = elements(s)
		at = min(s.get('at', 0), len(els))
		bad = s.get('bad', 'none')
		a = acc_entry(s, i)
		for rep in range(2):
			if bad == 'boom':
				def it():
					yield from els[:at]
					raise _Boom('caller iterator failed')
				cont = it()
				snap = None
			else:
				cont = els[:at] + [{'nonascii': 'ACéGT', 'none': None, 'int': 7, 'float': 2.5}[bad]] + els[at:]
				snap = list(cont)
			try:
				run(s.get('thread', 0), lambda: calc_signature(specs[i], cont, accumulator=a[0] if a else None))
				ctx.count('state-fail:returned')     # not stated by the property: counted, not judged
			except Exception:
				ctx.count('state-fail:raised')
			if a is not None:
				a[1] = None                          # content after a failed call: not stated; cleared before the next use
			if snap is not None and (len(cont) != len(snap) or any(x is not y for x, y in zip(cont, snap))):
				fail(n, s, 'the caller\'s list of sequences was changed by a call that failed', impl=_desc(cont))
			invariants(n, s)

	def file_want(i, f):
		return want_sig(i, files[f][1]['recs'])

	def do_file(n, s):
		i, f = s['spec'], s['file']
		a = acc_entry(s, i)
		isbad = files[f][1].get('bad')
		for rep in range(2):
			if a is not None:
				a[0].clear()
				a[1] = set()
			call = lambda: run(s.get('thread', 0), lambda: calc_file_signature(specs[i], files[f][0], **(dict(accumulator=a[0]) if a else {})))
			if isbad:
				try:
					call()
					ctx.count('state-fail:returned')
				except Exception:
					ctx.count('state-fail:raised')
				if a is not None:
					a[1] = None
			else:
				want = file_want(i, f)
				judge(n, s, guarded(n, s, call), want, f'calc_file_signature (file {f}{", second identical call" if rep else ""}): ')
				if a is not None:
					a[1] = set(want[0])
			invariants(n, s)

	def do_files(n, s):
		i = s['spec']
		key = tuple(s['files'])
		if key not in flists:
			lst = [files[f][0] for f in key]
			flists[key] = [lst, list(lst)]
		lst = flists[key][0]
		conc = s.get('conc', 'none')
		kw = dict(concurrency=None)
		if conc == 'threads':
			kw = dict(concurrency='threads', max_workers=2)
		elif conc == 'processes':
			kw = dict(concurrency='processes', max_workers=1)
		elif conc == 'executor':
			if 'executor' not in st:
				st['executor'] = cf.ThreadPoolExecutor(max_workers=2)
			kw = dict(executor=st['executor'])
		isbad = any(files[f][1].get('bad') for f in key)
		for rep in range(1 if conc == 'processes' else 2):
			call = lambda: run(s.get('thread', 0), lambda: calc_file_signatures(specs[i], lst, **kw))
			if isbad:
				try:
					call()
					ctx.count('state-fail:returned')
				except Exception:
					ctx.count('state-fail:raised')
			else:
				res = guarded(n, s, call)
				if len(res) != len(key):
					fail(n, s, f'calc_file_signatures returned {len(res)} signatures for {len(key)} files', impl=len(res))
				if _spec_obs(res.kmerspec) != _spec_want(*lits[i]):
					fail(n, s, f'calc_file_signatures: the result carries the KmerSpec {_spec_obs(res.kmerspec)}', impl=_spec_obs(res.kmerspec))
				for pos, f in enumerate(key):
					judge(n, s, np.asarray(res[pos]), file_want(i, f), f'calc_file_signatures ({conc}), file {f} at position {pos}: ')
			invariants(n, s)

	def do_cli(n, s):
		import click.testing
		import gambit.cli
		from gambit.sigs import load_signatures
		i = s['spec']
		k, P = lits[i]
		key = tuple(s['files'])
		out = f'{base}-out{n}.gs'
		args = ['signatures', 'create', '-k', str(k), '-p', P, '-o', out, '--no-progress', '-c', '1'] + [files[f][3] for f in key]
		r = guarded(n, s, lambda: click.testing.CliRunner().invoke(gambit.cli.cli, args))
		if r.exit_code != 0:
			fail(n, s, f'gambit signatures create: exit code {r.exit_code}: {r.output[-300:]} {r.exception!r}', impl=r.exit_code)
		try:
			with load_signatures(out) as res:
				if _spec_obs(res.kmerspec) != _spec_want(k, P) or len(res) != len(key):
					fail(n, s, f'gambit signatures create: file has {len(res)} signatures, KmerSpec {_spec_obs(res.kmerspec)}', impl=_spec_obs(res.kmerspec))
				for pos, f in enumerate(key):
					judge(n, s, np.asarray(res[pos]), file_want(i, f), f'gambit signatures create, file {f} at position {pos}: ')
		finally:
			if os.path.exists(out):
				os.unlink(out)
		invariants(n, s)

	def do_mutate(n, s):
		"""the CALLER changes one of its sequences: the bytearray in place, the immutable representations are replaced"""
		j = s['seq']
		new = bytes.fromhex(s['new'])
		content[j] = new
		d = objs[j]
		for form in list(d):
			if form == 'bytearray':
				d[form][:] = new
			else:
				del d[form]
		for key, ent in lists.items():
			for pos, jj in enumerate(colls[key[0]]):
				if jj == j:
					ent[0][pos] = ent[1][pos] = obj(j, form_at(ent[2], pos))

	def do_rewrite(n, s):
		"""the CALLER writes other records to the path of one of its SequenceFile objects"""
		ent = files[s['file']]
		recs = [bytes.fromhex(h) for h in s['recs']]
		ent[1] = dict(ent[1], recs=recs, bad=s.get('bad'))
		ent[2] = _write_seqfile(ent[3], ent[1]['fmt'], recs, s.get('bad'), ent[1].get('gz'))

	ops = dict(calc=do_calc, acc=do_acc, find=do_find, fail=do_fail, file=do_file, files=do_files, cli=do_cli, mutate=do_mutate,
	           rewrite=do_rewrite)
	try:
		for n, s in enumerate(c['steps']):
			ops[s['op']](n, s)
			ctx.count('state-step:' + s['op'])
	finally:
		for key in ('worker', 'executor'):
			if key in st:
				st[key].shutdown(wait=True)
		for ent in files:
			if os.path.exists(ent[3]):
				os.unlink(ent[3])
	return stats


def _state_merge(a, b):
	"""one script = the calls of script a followed by the calls of script b (pools concatenated, references shifted)"""
	ns, nq, nc, nf = len(a['specs']), len(a['seqs']), len(a.get('colls', [])), len(a.get('files', []))
	steps = [dict(s) for s in a['steps']]
	for s in b['steps']:
		s = dict(s)
		for key, off in (('spec', ns), ('coll', nc), ('seq', nq), ('file', nf)):
			if key in s:
				s[key] += off
		if 'files' in s:
			s['files'] = [f + nf for f in s['files']]
		if s.get('with'):
			s['with'] = [s['with'][0] + ns, s['with'][1] + nq, s['with'][2]]
		steps.append(s)
	out = dict(specs=a['specs'] + b['specs'], seqs=a['seqs'] + b['seqs'],
	           colls=a.get('colls', []) + [[j + nq for j in sel] for sel in b.get('colls', [])], steps=steps)
	if a.get('files') or b.get('files'):
		out['files'] = a.get('files', []) + b.get('files', [])
	return out


_STATE_REPORTED = {}      # campaign: script (as JSON) -> violation reported for it
_STATE_CAMPAIGN = []      # non-empty once generate() ran in this process
_STATE_PREV = []          # the last scripts run by this process
_STATE_BUDGET = [5]       # violations still to be re-run in a new interpreter
_STATE_CHILD = """
import json, sys
from vf.main import Ctx
import harness.c01 as h
ctx = Ctx('C01', 'quick', 0, sys.argv[1])
ctx.replaying = True
ctx.model_ok = False
h.k_state(ctx, [json.load(sys.stdin)])
print('STATE-CHILD ' + json.dumps([[v['what'], v['values']] for v in ctx.violations], default=str))
"""


def _state_fresh(ctx, case):
	"""run one script in a NEW interpreter (same implementation, no model): None, or (what, values) of its violation"""
	import subprocess
	import sys
	try:
		r = subprocess.run([sys.executable, '-c', _STATE_CHILD, ctx.repo], input=json.dumps(case), capture_output=True, text=True, timeout=300)
	except subprocess.TimeoutExpired:
		return None
	for line in r.stdout.splitlines():
		if line.startswith('STATE-CHILD '):
			vs = json.loads(line[len('STATE-CHILD '):])
			return tuple(vs[0]) if vs else None
	return None


def _state_selfcontained(ctx, c, e, prev):
	"""State left behind by an EARLIER script of this process (a module-level or per-thread cache) shows in a later one.
	Report a script that fails in a fresh interpreter: the failing one, else the failing one preceded by the 1, 2, 3, 6, 12
	or 24 scripts run before it."""
	merged = c
	back = prev[::-1]
	for n in (0, 1, 2, 3, 6, 12, 24):
		if n > len(back):
			break
		merged = c
		for p in back[:n]:
			merged = _state_merge(p, merged)
		r = _state_fresh(ctx, merged)
		if r is not None:
			return merged, _StateFail(r[0], **r[1])
	return c, _StateFail(e.what + ' [not reproduced by this script alone in a new process, nor preceded by the 24 scripts before it: it '
	                     'depends on calls made earlier in the campaign, re-run the campaign with the same VERIF_SEED]', **e.values)


def k_state(ctx, cases):
	if ctx.replaying and _STATE_CAMPAIGN:
		# the generic shrinker re-runs candidates in the process of the campaign, where state left by the campaign (or by the
		# previous candidate) decides the outcome: scripts are reported as found, only the reported script "fails"
		for c in cases:
			v = _STATE_REPORTED.get(json.dumps(c, sort_keys=True))
			if v is not None:
				ctx.violation('state', c, v[0], **v[1])
		return
	modelreqs = []
	prev = _STATE_PREV
	for c in cases:
		reqs = []
		del prev[:-24]
		try:
			stats = _state_one(ctx, c, reqs)
		except _StateFail as e:
			rc = c
			if not ctx.replaying:
				unverified = True
				if len(_STATE_REPORTED) < 3 and _STATE_BUDGET[0] > 0:
					_STATE_BUDGET[0] -= 1
					rc, e = _state_selfcontained(ctx, c, e, list(prev))
					unverified = 'not reproduced by this script alone' in e.what
				if unverified and _STATE_REPORTED:
					# a script was already reported for this run: count the ones that are not known to fail on their own in a new
					# process, do not add replay files that may not reproduce
					ctx.count('state-violation-not-verified-self-contained')
					prev.append(c)
					continue
			_STATE_REPORTED.setdefault(json.dumps(rc, sort_keys=True), (e.what, e.values))
			ctx.case(rc, nontrivial=True)
			ctx.violation('state', rc, e.what, **e.values)
			prev.append(c)
			continue
		prev.append(c)
		ctx.case(c, nontrivial=stats['nonempty'] >= 2)
		modelreqs += reqs
	# the Python reference that judged the steps against the extracted specification
	if ctx.model_ok and modelreqs:
		uniq = {}
		for arg, want in modelreqs:
			uniq.setdefault(json.dumps([arg[0], arg[1].hex(), [x.hex() for x in arg[2]]]), (arg, want))
		vals = list(uniq.values())
		ans = ctx.model([(103, arg) for arg, _ in vals])
		for (arg, want), got in zip(vals, ans):
			if got != want:
				ctx.broke('harness reference (_py_sig) vs extracted signature_spec', f'{arg}: python {want[:10]} coq {got[:10]}')


KINDS = {'sig': k_sig, 'find': k_find, 'api': k_api, 'findx': k_findx, 'big': k_big, 'state': k_state}
BATCH = 500


def _rc(b):
	return bytes(b).translate(bytes.maketrans(b'ACGTacgt', b'TGCAtgca'))[::-1]


def generate(ctx):
	rng = ctx.rng
	_STATE_CAMPAIGN.append(True)
	ctx.rule(RULE)
	prefixes = ['A', 'T', 'AT', 'AA', 'AC', 'GT', 'ACG']
	alpha = b'ACGTN'
	L = ctx.pick(6, 7)
	# exhaustive: every sequence over {A,C,G,T,N} up to length L x k in {1,2,3} x prefixes
	n = 0
	for ln in range(0, L + 1):
		for t in itertools.product(alpha, repeat=ln):
			s = bytes(t)
			for k in ((1, 2, 3) if (ln <= 5 or not ctx.quick) else (1, 2)):
				for p in (prefixes if ln <= 5 else (prefixes[:4] if not ctx.quick else ['A', 'AT'])):
					if ln < len(p):
						if ln > 2:
							continue
					n += 1
					yield 'sig', dict(k=k, prefix=p, seqs=[s.hex()])
			if ln <= 5:
				yield 'find', dict(k=1, prefix='AT', seq=s.hex())
				yield 'find', dict(k=2, prefix='A', seq=s.hex())
	ctx.count('stream:exhaustive-ACGTN', n)
	ctx.exhaustive = True
	ctx.extra['exhaustive_scope'] = (f'all sequences over ACGTN up to length 5 x k in 1..3 x prefixes {prefixes}; length 6'
	                                 f'{" x k in 1..2 x prefixes A, AT" if ctx.quick else ".." + str(L) + " x k in 1..3 x 4 prefixes"}; all sequences of length<=3 over 8 byte classes')
	# byte classes: upper, lower, N, NUL, 0xFF, '@', '['
	classes = [ord('A'), ord('c'), ord('N'), 0, 0xFF, ord('@'), ord('['), ord('t')]
	for ln in range(0, 4):
		for t in itertools.product(classes, repeat=ln):
			yield 'sig', dict(k=1, prefix='A', seqs=[bytes(t).hex()])
			yield 'sig', dict(k=2, prefix='C', seqs=[bytes(t).hex()])
	# random structured: planted occurrences on both strands, overlapping / adjacent / end-flush
	for _ in range(ctx.pick(400, 4000)):
		k = rng.choice([1, 2, 3, 4, 5, 6, 8, 9, 11, 12, 16, 17, 31, 32])
		plen = rng.randint(1, 7)
		p = bytes(rng.choice(NUC) for _ in range(plen))
		if rng.random() < 0.15:
			p = rng.choice([b'AT', b'AA', b'ACGT', b'TA', b'GC'])  # palindromic / self-overlapping
			plen = len(p)
		nseq = rng.choice([1, 1, 2, 3])
		seqs = []
		for _ in range(nseq):
			ln = rng.choice([0, 1, plen, plen + k - 1, plen + k, plen + k + 1, 40, 200, 1500 if not ctx.quick else 400])
			b = bytearray(rng.choice(b'ACGT' if rng.random() < 0.7 else b'ACGTacgtNn') for _ in range(ln))
			for _ in range(rng.randint(0, 6)):
				if ln >= plen:
					where = rng.choice([0, ln - plen, max(0, ln - plen - k), rng.randrange(ln - plen + 1), k if ln - plen >= k else 0])
					motif = p if rng.random() < 0.5 else _rc(p)
					if rng.random() < 0.3:
						motif = motif.lower()
					b[where:where + plen] = motif
			if rng.random() < 0.2 and ln:
				b[rng.randrange(ln)] = rng.choice([0, 255, ord('N'), ord('n'), ord('-'), 0xC1])
			seqs.append(bytes(b))
		ctx.count('stream:random-planted')
		yield 'sig', dict(k=k, prefix=p.decode(), seqs=[s.hex() for s in seqs])
		yield 'find', dict(k=k, prefix=p.decode(), seq=seqs[0].hex())

	# ------------------------------------------------------------------------------------------
	# streams added by the coverage audit (see the table in the module docstring)
	# ------------------------------------------------------------------------------------------
	def rand_prefix(lo=1, hi=7):
		if rng.random() < 0.15:
			return rng.choice([b'AT', b'AA', b'ACGT', b'TA', b'GC', b'ATAT', b'CCC', b'GATC'])
		return bytes(rng.choice(NUC) for _ in range(rng.randint(lo, hi)))

	def planted(k, p, ln, alphabet=None, nplant=None):
		"""random sequence of length ln with occurrences of p / rc(p) planted at the boundaries"""
		plen = len(p)
		if alphabet is None:
			alphabet = b'ACGT' if rng.random() < 0.7 else b'ACGTacgtNn'
		b = bytearray(rng.choice(alphabet) for _ in range(ln))
		for _ in range(rng.randint(0, 6) if nplant is None else nplant):
			if ln >= plen:
				where = rng.choice([0, ln - plen, max(0, ln - plen - k), rng.randrange(ln - plen + 1), k if ln - plen >= k else 0])
				motif = p if rng.random() < 0.5 else _rc(p)
				if rng.random() < 0.3:
					motif = motif.lower()
				b[where:where + plen] = motif
		if rng.random() < 0.2 and ln:
			b[rng.randrange(ln)] = rng.choice([0, 255, ord('N'), ord('n'), ord('-'), 0xC1])
		return bytes(b)

	def lens_for(k, plen):
		return [0, 1, plen, plen + k - 1, plen + k, plen + k + 1, 2 * (plen + k), 40, 200]

	# every k from 1 to 32 (dtype boundaries, dense accumulator up to 11, 12/13 once), prefixes up to 12
	for k in range(1, 33):
		for j in range(ctx.pick(6, 30)):
			p = rand_prefix(1, 12)
			seqs = [planted(k, p, rng.choice(lens_for(k, len(p)))) for _ in range(rng.choice([1, 1, 2, 3]))]
			case = dict(k=k, prefix=p.decode(), seqs=[s.hex() for s in seqs])
			if k in (12, 13) and j == 0:
				case['dense'] = True
			ctx.count('stream:all-k')
			yield 'sig', case
	# the empty collection and collections of empty sequences, every k (dtype of an empty signature)
	for k in range(1, 33):
		ctx.count('stream:empty-collection', 2)
		yield 'sig', dict(k=k, prefix=rand_prefix().decode(), seqs=[], nt=False)
		yield 'sig', dict(k=k, prefix=rand_prefix().decode(), seqs=[''] * rng.randint(1, 3), nt=False)
		yield 'api', dict(k=k, prefix=rand_prefix().decode(), seqs=[], vseed=rng.randrange(10 ** 6))
	# long prefixes
	for _ in range(ctx.pick(60, 600)):
		k = rng.randint(1, 32)
		p = bytes(rng.choice(NUC) for _ in range(rng.randint(8, 24)))
		seqs = [planted(k, p, rng.choice(lens_for(k, len(p)) + [len(p) + k + 2, 120]), nplant=rng.randint(1, 4)) for _ in range(rng.choice([1, 2]))]
		ctx.count('stream:long-prefix')
		yield 'sig', dict(k=k, prefix=p.decode(), seqs=[s.hex() for s in seqs])
	# every byte value at every offset of a prefix+k-mer window, on both strands, flush or not
	for k, p in ((3, b'AC'), (2, b'ATG'), (5, b'T')):
		kmer = bytes(rng.choice(NUC) for _ in range(k))
		for bval in range(256):
			for j in range(len(p) + k):
				for strand in (0, 1):
					w = bytearray(p + kmer if strand == 0 else _rc(p + kmer))
					if rng.random() < 0.3:
						w = bytearray(bytes(w).lower())
					w[j] = bval
					# neighbours: nothing (flush), a short flank, or an intact occurrence on either strand
					left, right = (rng.choice([b'', b'', bytes(rng.choice(NUC) for _ in range(rng.randint(1, 3))),
					                           p + kmer, _rc(p + kmer), (p + kmer).lower(), _rc(p + kmer).lower()]) for _ in range(2))
					ctx.count('stream:byte-sweep')
					yield 'sig', dict(k=k, prefix=p.decode(), seqs=[(left + bytes(w) + right).hex()], nt=bval in b'ACGTacgt')
					if not ctx.quick or (bval % 8 == j and strand == 0):
						yield 'findx', dict(k=k, prefix=p.decode(), seq=(left + bytes(w) + right).hex())
	# homopolymers / tandem repeats: maximal self-overlap of the prefix occurrences
	for _ in range(ctx.pick(100, 1000)):
		unit = bytes(rng.choice(NUC) for _ in range(rng.randint(1, 4)))
		reps = rng.choice([1, 2, 3, 5, 17, 60, 300 // len(unit)])
		body = bytearray(unit * reps)
		plen = rng.randint(1, 6)
		rot = rng.randrange(len(unit))
		p = ((unit * 8)[rot:rot + plen])
		if rng.random() < 0.3:
			p = _rc(p)
		if rng.random() < 0.3 and body:
			body[rng.randrange(len(body))] = rng.choice(b'ACGTNacgt')
		if rng.random() < 0.3:
			body = bytearray(bytes(body).swapcase())
		k = rng.choice([1, 2, 3, 4, 5, 7, 10, 15, 16, 17, 29, 32])
		ctx.count('stream:tandem')
		yield 'sig', dict(k=k, prefix=p.decode(), seqs=[bytes(body).hex()])
		yield 'findx', dict(k=k, prefix=p.decode(), seq=bytes(body).hex())
	# letter case: the same sequences all upper / all lower / swapped / randomly cased
	for _ in range(ctx.pick(60, 600)):
		k = rng.randint(1, 32)
		p = rand_prefix()
		base = [planted(k, p, rng.choice([len(p) + k, len(p) + k + 1, 40, 200]), alphabet=b'ACGTN', nplant=rng.randint(1, 5))
		        for _ in range(rng.choice([1, 2]))]
		for how in ('upper', 'lower', 'swapcase', 'random'):
			seqs = [getattr(s, how)() if how != 'random' else bytes(b | 0x20 if rng.random() < 0.5 else b for b in s.upper()) for s in base]
			ctx.count('stream:case-variants')
			yield 'sig', dict(k=k, prefix=p.decode(), seqs=[s.hex() for s in seqs])
	# large collections: 10..60 sequences with repeats and empties
	for _ in range(ctx.pick(20, 200)):
		k = rng.randint(1, 32)
		p = rand_prefix(1, 4)
		pool = [planted(k, p, rng.choice(lens_for(k, len(p)))) for _ in range(rng.randint(3, 12))]
		seqs = [rng.choice(pool) for _ in range(rng.randint(10, 60))]
		ctx.count('stream:many-seqs')
		yield 'sig', dict(k=k, prefix=p.decode(), seqs=[s.hex() for s in seqs])
	# call forms: every k twice, then random
	ks_api = list(range(1, 33)) * 2 + [rng.choice([1, 2, 3, 4, 5, 6, 7, 8, 9, 12, 16, 17, 24, 31, 32]) for _ in range(ctx.pick(500, 5000))]
	for n_api, k in enumerate(ks_api):
		p = rand_prefix()
		nseq = rng.choice([1, 1, 2, 3, 5])
		alphabet = rng.choice([b'ACGT', b'ACGT', b'ACGTacgtNn', b'ACGTN'])
		seqs = [planted(k, p, rng.choice(lens_for(k, len(p)) + ([400] if n_api % 10 == 0 else [])), alphabet=alphabet) for _ in range(nseq)]
		ctx.count('stream:api-forms')
		yield 'api', dict(k=k, prefix=p.decode(), seqs=[s.hex() for s in seqs], vseed=rng.randrange(10 ** 6), file=(n_api % 3 == 0))
	# find_kmers through every input type, judged per strand against the specification
	for _ in range(ctx.pick(400, 4000)):
		k = rng.randint(1, 32)
		p = rand_prefix(1, 9)
		ctx.count('stream:findx-random')
		yield 'findx', dict(k=k, prefix=p.decode(), seq=planted(k, p, rng.choice(lens_for(k, len(p)) + [400])).hex())
	# ------------------------------------------------------------------------------------------
	# state / aliasing scripts (kind `state`, see "state and aliasing" in the module docstring): 2-6 calls over a
	# pool of shared KmerSpec / sequence / list / accumulator / SequenceFile objects, every call judged by the
	# specification, every pool object compared with its value before the call, every call made twice
	# ------------------------------------------------------------------------------------------
	def state_specs():
		k = rng.choice([1, 2, 3, 4, 5, 6, 8, 9, 11, 12, 16, 17, 31, 32])
		p = rand_prefix(1, 5).decode()
		out = [[k, p]]
		for _ in range(rng.choice([1, 1, 2])):
			how = rng.randrange(5)
			if how == 0:        # same k, another prefix of the same length
				out.append([k, bytes(rng.choice(NUC) for _ in p).decode()])
			elif how == 1:      # same prefix, neighbouring k
				out.append([min(32, max(1, k + rng.choice([-1, 1, 1, 2]))), p])
			elif how == 2:      # same prefix, k on the other side of a dtype / default-accumulator boundary
				out.append([rng.choice([4, 5, 8, 9, 11, 12, 16, 17, 32]), p])
			elif how == 3:      # an equal but distinct KmerSpec object
				out.append([k, p])
			else:
				out.append([rng.randint(1, 32), rand_prefix(1, 5).decode()])
		if rng.random() < 0.06:
			out.append([11, 'ATGAC', 'default'])     # the module-level DEFAULT_KMERSPEC object itself
		for sp in out:
			if len(sp) == 2 and rng.random() < 0.15:
				sp.append(rng.choice(['bytearray', 'np']))   # built from a buffer the caller reuses / from a NumPy scalar
		rng.shuffle(out)
		return out

	def state_case(flavour):
		specs = state_specs()
		if flavour == 'cli':
			specs = [[rng.choice([5, 6, 8, 9, 11, 12, 16, 17, 32]), rand_prefix(2, 5).decode()] for _ in range(2)]
		ns = len(specs)

		def seq_for(letters=False):
			k, p = rng.choice(specs)[:2]
			return planted(k, p.encode(), rng.choice([0, 1] * (not letters) + [len(p) + k, len(p) + k + 1, 2 * (len(p) + k), 40, 90, 200]),
			               alphabet=rng.choice([b'ACGT', b'ACGTN', b'ACGTacgtNn']) if letters else None, nplant=rng.randint(1, 5))
		seqs = [seq_for() for _ in range(rng.randint(3, 5))]
		colls = [[rng.randrange(len(seqs)) for _ in range(rng.choice([0, 1, 1, 2, 2, 3, 4]))] for _ in range(rng.randint(2, 3))]
		if not any(colls):
			colls[0] = [0, 1]
		files = []
		if flavour in ('file', 'cli', 'mix'):
			for _ in range(rng.randint(2, 3)):
				recs = []
				while len(recs) < rng.randint(1, 3):
					r = seq_for(letters=True)
					if r and r.isalpha() and all(x < 128 for x in r):
						recs.append(r)
				fmt = 'fasta' if flavour == 'cli' or rng.random() < 0.7 else 'fastq'
				f = dict(fmt=fmt, recs=[r.hex() for r in recs])
				if rng.random() < 0.3:
					f['gz'] = True
				if flavour != 'cli' and rng.random() < 0.3:
					f['bad'] = 'qual' if fmt == 'fastq' else 'trunc' if f.get('gz') else 'missing'
				files.append(f)
			if all(f.get('bad') for f in files):
				del files[0]['bad']

		def put(d, **kw):
			d.update({a: b for a, b in kw.items() if b is not None and b is not False})
			return d

		def thread():
			return rng.choice([None, None, None, 1, 1, 2])

		def form():
			if rng.random() < 0.2:
				return [rng.choice(STATE_FORMS) for _ in range(rng.randint(2, 4))]
			return rng.choice(STATE_FORMS + ('bytearray', 'bytes'))

		def accsel(i):
			r = rng.random()
			if r < 0.45:
				return None
			k = specs[i][0]
			return ['array' if (k <= 9 or (k <= 11 and rng.random() < 0.2)) and r < 0.75 else 'set', rng.randrange(2)]

		def calc(i=None, **kw):
			i = rng.randrange(ns) if i is None else i
			s = put(dict(op='calc', spec=i, coll=rng.randrange(len(colls))), form=form(), acc=accsel(i), thread=thread(),
			        cont=rng.choice(['list', 'list', 'list', 'tuple', 'gen', 'iter', 'deque', 'bare', 'iterable']), kw=rng.random() < 0.1)
			return put(s, **kw)

		def acc(i=None):
			i = rng.randrange(ns) if i is None else i
			return put(dict(op='acc', spec=i, seq=rng.randrange(len(seqs))), form=form() if rng.random() < 0.0 else rng.choice(STATE_FORMS),
			           acc=accsel(i) or ['set', rng.randrange(2)], thread=thread(), clear=rng.random() < 0.15)

		def find():
			s = put(dict(op='find', spec=rng.randrange(ns), seq=rng.randrange(len(seqs))), form=rng.choice(STATE_FORMS), thread=thread())
			if rng.random() < 0.5:
				s['with'] = [rng.randrange(ns), rng.randrange(len(seqs)), rng.choice(STATE_FORMS)]
			return s

		def failing(i, a, th):
			return put(dict(op='fail', spec=i, coll=rng.randrange(len(colls))), form=form(), at=rng.randint(0, 3),
			           bad=rng.choice(['nonascii', 'none', 'int', 'float', 'boom', 'boom']), acc=a, thread=th)

		def mutate():
			j = rng.randrange(len(seqs))
			new = bytearray(seq_for())
			if rng.random() < 0.6 and len(seqs[j]):
				# same length, other content (an object that looks the same from outside)
				k, p = rng.choice(specs)[:2]
				new = bytearray(planted(k, p.encode(), len(seqs[j]), nplant=rng.randint(1, 5)))
				if rng.random() < 0.3:
					new = bytearray(seqs[j])
					for _ in range(rng.randint(1, 4)):
						new[rng.randrange(len(new))] = rng.choice(b'ACGTacgtN')
			seqs[j] = bytes(new)
			return dict(op='mutate', seq=j, new=bytes(new).hex())

		def goodfiles():
			return [n for n, f in enumerate(files) if not f.get('bad')]

		def filestep(i=None):
			i = rng.randrange(ns) if i is None else i
			return put(dict(op='file', spec=i, file=rng.randrange(len(files))), acc=accsel(i), thread=thread())

		def filesstep():
			pick_from = goodfiles() if rng.random() < 0.8 else list(range(len(files)))
			return put(dict(op='files', spec=rng.randrange(ns), files=[rng.choice(pick_from) for _ in range(rng.randint(1, 3))],
			                conc=rng.choice(['none', 'threads', 'executor', 'executor'])), thread=rng.choice([None, None, 1]))

		def rewrite():
			f = rng.randrange(len(files))
			recs = []
			while len(recs) < rng.randint(1, 3):
				r = seq_for(letters=True)
				if r and r.isalpha() and all(x < 128 for x in r):
					recs.append(r)
			files[f] = dict(files[f], bad=None)
			return dict(op='rewrite', file=f, recs=[r.hex() for r in recs])

		seqs0 = [s.hex() for s in seqs]
		files0 = [dict(f) for f in files]
		steps = []
		if flavour == 'calc':
			steps = [calc(cont='list' if rng.random() < 0.7 else 'tuple') for _ in range(rng.randint(3, 6))]
		elif flavour == 'fail':
			for _ in range(rng.randint(1, 2)):
				i, th = rng.randrange(ns), thread()
				a = accsel(i)
				if rng.random() < 0.4:
					steps.append(calc(i, thread=th))
				steps.append(failing(i, a, th))
				if rng.random() < 0.3:
					steps.append(calc(thread=th))
				# a good call with the same KmerSpec, on the same thread, with the same (or the default) accumulator
				s = calc(i)
				s.pop('acc', None)
				s.pop('thread', None)
				steps.append(put(s, acc=a, thread=th))
		elif flavour == 'acc':
			steps = [acc() if rng.random() < 0.8 else calc() for _ in range(rng.randint(3, 6))]
		elif flavour == 'find':
			steps = [find() if rng.random() < 0.7 else calc() for _ in range(rng.randint(2, 5))]
		elif flavour == 'mutate':
			f = rng.choice(['bytearray', 'bytearray', ['bytearray', 'bytes'], 'seq'])
			for _ in range(rng.randint(1, 2)):
				i = rng.randrange(ns)
				cidx = rng.randrange(len(colls))
				steps.append(calc(i, coll=cidx, form=f, cont='list'))
				m = mutate()
				if m['seq'] not in colls[cidx] and colls[cidx]:
					m['seq'] = colls[cidx][0]
					seqs[m['seq']] = bytes.fromhex(m['new'])
				steps.append(m)
				steps.append(rng.choice([calc(i, coll=cidx, form=f, cont='list'), dict(find(), seq=m['seq'], form='bytearray'),
				                         dict(acc(i), seq=m['seq'], form='bytearray')]))
				steps.append(calc(i, coll=cidx, form=f, cont='list'))
		elif flavour == 'file':
			if rng.random() < 0.6:
				# the same SequenceFile and KmerSpec before and after the caller rewrote the file
				i = rng.randrange(ns)
				first = filestep(i)
				first.pop('acc', None)
				steps.append(first)
				rw = rewrite()
				steps.append(dict(rw, file=first['file']))
				files[first['file']] = dict(files[first['file']], bad=None)
				steps.append(dict(first) if rng.random() < 0.5 else
				             put(dict(op='files', spec=i, files=[first['file']] + [rng.choice(goodfiles())], conc=rng.choice(['none', 'threads', 'executor']))))
			for _ in range(rng.randint(1, 4)):
				steps.append(rng.choice([filestep, filestep, filesstep, filesstep, rewrite, calc])())
		elif flavour == 'cli':
			steps = [dict(op='cli', spec=0, files=[rng.randrange(len(files)) for _ in range(rng.randint(1, 3))]),
			         put(dict(op='files', spec=1, files=[rng.randrange(len(files)) for _ in range(2)], conc='processes')),
			         rewrite(),
			         dict(op='cli', spec=1, files=[rng.randrange(len(files)) for _ in range(rng.randint(1, 3))]),
			         dict(op='cli', spec=0, files=list(range(len(files))))]
		else:
			for _ in range(rng.randint(2, 6)):
				r = rng.random()
				if r < 0.12:
					i, th = rng.randrange(ns), thread()
					a = accsel(i)
					steps.append(failing(i, a, th))
					s = calc(i)
					s.pop('acc', None)
					s.pop('thread', None)
					steps.append(put(s, acc=a, thread=th))
				else:
					steps.append(rng.choice([calc, calc, acc, find, mutate, filestep, filesstep, rewrite])())
		return dict(specs=specs, seqs=seqs0, colls=colls, **({'files': files0} if files0 else {}), steps=steps)

	def state_reversed(c):
		"""the same calls in the opposite order (caller-side changes keep their place between the calls around them)"""
		if any(s['op'] in ('mutate', 'rewrite') for s in c['steps']):
			return None
		return dict(c, steps=c['steps'][::-1])

	flavours = ['calc'] * 3 + ['fail'] * 3 + ['acc'] * 2 + ['find'] + ['mutate'] * 2 + ['file'] * 2 + ['mix'] * 3
	for n_state in range(ctx.pick(1120, 9600)):
		fl = flavours[n_state % len(flavours)]
		case = state_case(fl)
		ctx.count('stream:state-' + fl)
		yield 'state', case
		if n_state % 5 < 2:
			rev = state_reversed(case)
			if rev is not None:
				ctx.count('stream:state-reversed-order')
				yield 'state', rev
	for _ in range(ctx.pick(4, 40)):
		ctx.count('stream:state-cli')
		yield 'state', state_case('cli')
	# long sequences, described by a seed (Python reference only)
	# lowfrom: lower-case letters only in the last part of the sequence
	bigs = [dict(lens=[70000], alpha='upper'), dict(lens=[150000], alpha='upper', lowfrom=0.6), dict(lens=[2 ** 16 + 40, 2 ** 15 + 7, 0, 131100], alpha='mixed', junk=50),
	        dict(lens=[2 ** 20 + 300], alpha='n', junk=200)]
	if not ctx.quick:
		bigs += [dict(lens=[2 ** 22 + 11], alpha='upper'), dict(lens=[2 ** 21 + 5, 2 ** 20], alpha='mixed', junk=1000)] + \
		        [dict(lens=[rng.randint(30000, 600000) for _ in range(rng.randint(1, 4))], alpha=rng.choice(['upper', 'mixed', 'n']),
		              junk=rng.randint(0, 300)) for _ in range(10)]
	for g in bigs:
		k = rng.choice([4, 8, 9, 11, 16, 17, 32])
		g.update(k=k, prefix=bytes(rng.choice(NUC) for _ in range(rng.randint(3, 5))).decode(), seed=rng.randrange(2 ** 31))
		ctx.count('stream:big')
		yield 'big', g

	# long sequences, the offset dimension: a complete prefix + k-mer span at every alignment to an offset B that a
	# size-dependent code path could treat specially (powers of two and of ten), in sequences just longer than B, 3 B and
	# exactly B + 0, 1, k, ... bytes (see _boundary_seqs); and spans across every multiple of 2^12 and 10^4 of a sequence
	# of several megabytes (see _comb_seqs).  Judged like every `big` case: calc_signature for 4 input types and the
	# accumulators against the Python reference of the specification.
	def jsub(k, plen):
		w = plen + k
		return sorted({0, 1, 2, plen - 1, plen, plen + 1, k - 1, k, k + 1, w - 2, w - 1, w} & set(range(w + 1)))

	def spec_for(boundary, plo=1):
		k = rng.choice([4, 5, 8, 9, 11, 12, 16, 17, 31, 32])
		plen = rng.randint(plo, 7)
		p = bytes(rng.choice(NUC) for _ in range(plen)).decode()
		if k <= 9 or plen < (5 if boundary < 2 ** 20 else 6):
			# (a random background matches a short prefix every few bytes: megabytes of it cost too much; and a short k-mer
			# planted in it is found elsewhere as well)
			bg = rng.choice(['N', 'n', 'aN', 'aN'] if boundary <= 2 ** 20 and boundary != 10 ** 6 else ['aN'])
		else:
			# an all-upper-case text makes find_kmers look at every byte in a Python loop: kept for the smaller ones
			bg = rng.choice(['rand', 'randl', 'aN'] if boundary <= 2 ** 20 and boundary != 10 ** 6 else ['randl', 'aN'])
		return dict(k=k, prefix=p, bg=bg, seed=rng.randrange(2 ** 31)), k, plen

	full = [2 ** 12, 2 ** 16] + ([] if ctx.quick else [2 ** 10, 10 ** 3, 2 ** 13, 2 ** 14, 2 ** 15, 10 ** 4, 2 ** 16 - 1, 10 ** 5, 2 ** 17, 2 ** 18])
	sub = [2 ** 20, 10 ** 6] + ([] if ctx.quick else [2 ** 19, 2 ** 20, 2 ** 20, 2 ** 21])
	few = [2 ** 21, 2 ** 22] + ([] if ctx.quick else [2 ** 23, 10 ** 7, 2 ** 24])
	for B in full:
		g, k, plen = spec_for(B)
		g.update(boundary=B, js=list(range(plen + k + 1)), tails=[0, 1, k, plen + k - 1, plen + k], multi=True)
		ctx.count('stream:big-boundary')
		yield 'big', g
	for B in sub:
		g, k, plen = spec_for(B, 2)
		g.update(boundary=B, js=jsub(k, plen), tails=[0, 1, k, plen + k - 1, plen + k], multi=True)
		ctx.count('stream:big-boundary')
		yield 'big', g
	for B in few:
		g, k, plen = spec_for(B, 2)
		g.update(boundary=B, js=[1, plen + k - 1], tails=[1])
		ctx.count('stream:big-boundary')
		yield 'big', g
	for n in [2 ** 21 + rng.randint(50, 5000)] + ([] if ctx.quick else [2 ** 22 + rng.randint(50, 5000), 2 ** 23 + 77, 10 ** 6 + rng.randint(50, 5000)] + [rng.randint(2 ** 18, 2 ** 22) for _ in range(6)]):
		g, k, plen = spec_for(n, 2)
		g.update(lens=[n], comb=[2 ** 12, 10 ** 4], js=jsub(k, plen))
		ctx.count('stream:big-comb')
		yield 'big', g
