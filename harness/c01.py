"""C01 -- a signature is exactly the set of prefix-anchored k-mers on both strands.

Tie: B against gambit.kmers.find_kmers (set of (pos, reverse)) and gambit.sigs.calc.calc_signature
(array + dtype) for str / bytes / bytearray / Bio.Seq inputs and both accumulators; T for the
encoders the model calls (Gen/KmersPyx.v).  Oracle = extracted specification [signature_spec].

Coverage table (audit of the property text; I = driven on the implementation, P = property predicate
judged there; kinds: sig / find = original, api / findx / big = added by the audit):

  item                                              stream(s) -> kind                          I  P
  k = 1..32, every value                            all-k (each k, 6+ cases); before: 14 values  I  P  sig
  dtype = smallest unsigned type, all k, empty sig  all-k, empty-collection (k=1..32)           I  P  sig/api
  prefix length 1..7 / 8..24                        random-planted / long-prefix                I  P  sig
  prefix given as str / bytes / bytearray / Seq /   api (variants p:*; lower-case forms judged  I  P  api
    lower or mixed case / JSON / pickle / copy        only if KmerSpec accepts them)
  k given as Python int / NumPy signed scalar       api (variants k:int64/int32/intp)           I  P  api
  k given as NumPy UNSIGNED scalar                  api (variants k:uint*, counted only, see    I  -  api
                                                      ASSUMPTIONS: -k wraps, known boundary)
  sequences: any bytes                              exhaustive 8 classes; byte-sweep (all 256    I  P  sig
                                                      values at every window offset, both strands)
  length < prefix+k, 0, 1, flush with either end    exhaustive-ACGTN, random-planted, byte-sweep I  P  sig
  overlapping / adjacent / self-overlapping /       exhaustive, random-planted (15%), tandem     I  P  sig
    palindromic occurrences, homopolymers             (unit repeats up to 300 bytes)
  letter case: mixed / all lower / swapped          random-planted (mixed); case-variants        I  P  sig
  long sequences (to 1 MB quick, 4 MB thorough;     big (Python reference predicate only, model  I  P  big
    occurrences across 2^15 / 2^16 / 2^20 offsets)    skipped: the Coq spec is quadratic)
  collection: list of 1..3                          exhaustive, random-planted                   I  P  sig
  collection: empty, 10..60 items, repeats, empties empty-collection, many-seqs                  I  P  sig
  collection: tuple / iterator / generator / deque  api (variants c:*)                           I  P  api
    / dict keys / custom iterable / same object x2
  single bare sequence (not wrapped), 4 types       default-single in every sig case             I  P  sig
  element types str / bytes / bytearray / Seq       every sig case (x set, array)                I  P  sig
  Seq(str) / Seq(bytearray) / Seq slice / subclass  api (variants t:*), mixed types in one call  I  P  api
    of bytes, str / mixed types in one collection
  accumulator: set (all k), array (k <= 11; 12, 13  every sig case (before: array k <= 9, default I  P  sig
    in all-k dense cases), default for 1 and n seqs   only for a single sequence)
  accumulator reused after clear(); keyword call    api (variants a:*-reused, call:kw)           I  P  api
  accumulate_kmers + signature(); add_kmer route    api (variants a:accumulate*, a:add_kmer)     I  P  api
  calc_file_signature (FASTA, accumulator=...)      api (variants file:*; letters-only cases)    I  P  api
  find_kmers: bytes, model tie on (pos, reverse)    every find case                              I  -  find
  find_kmers: 4 types + keyword form; per strand    findx (k-mers per strand vs fwd_kmers spec;  I  P  findx
    k-mer sets, KmerMatch.kmer()/kmer_index()         kmer() consistent with kmer_index())
  not judged (not stated): yield order/multiplicity of matches, byte order of the dtype, accumulator
  state after the call, a pre-filled accumulator, non-ASCII text, MutableSeq/memoryview, k > 32."""
import itertools

import numpy as np

PROP = 'C01'
RULE = ('sig: (k, prefix, sequences) -> calc_signature for 4 input types x 2 accumulators vs model vs spec; find: '
        'find_kmers match set vs model; non-trivial: at least one k-mer found and (a match on each strand or two '
        'overlapping/adjacent occurrences or an occurrence dropped for an invalid byte); api: (k, prefix, sequences) -> '
        'every call form (k / prefix / KmerSpec representation, container, element type, accumulator route, file) vs '
        'signature_spec + dtype_spec, non-trivial: non-empty signature; findx: find_kmers for 4 input types, k-mer sets '
        'per strand vs fwd_kmers spec and kmer() vs kmer_index(), non-trivial: >= 2 matches; big: generated long '
        'sequences (described by seed) vs the Python reference of the specification, non-trivial: >= 100 k-mers')
TRUSTED = ['tools/pyx2v.py for the encoders; hand model of bytes.find / bytes.upper / slicing (CPython) in Model/C01.v',
           'Biopython Seq slicing and bytes() agree with bytes']
ASSUMPTIONS = ['str inputs are ASCII (the code raises otherwise); prefix is non-empty upper-case ACGT (KmerSpec validates it)',
               'the dense accumulator is executed for k <= 11 (k <= 13 in a few all-k cases) in the implementation and k <= 6 in the model',
               'k is a Python int or a NumPy integer scalar, signed or unsigned (what h5py hands to KmerSpec when a signature '
               'file is loaded); with an UNSIGNED NumPy scalar the code as found computed -k with wrap-around in find_kmers '
               '(spurious truncated k-mers) or 4**k as a float (the call raised): genuine defect, repaired in /repo by a '
               'fix: commit (KmerSpec: k = int(k), repo_fixes/C14-uint8-k.diff); judged like every other form, counted in '
               'extra[unsigned_k]',
               'kind big is judged by the Python reference _py_sig of the specification (cross-checked against the '
               'extracted signature_spec on every api case), the Coq model is not run on those inputs']

NUC = b'ACGT'


def setup(ctx):
	from vf import impl
	impl.check_import()


def _res(v):
	from vf.main import ERRNAMES
	return v[1] if v[0] == 0 else ERRNAMES.get(v[1], f'err{v[1]}')


def _as_type(b, kind):
	if kind == 'bytes':
		return bytes(b)
	if kind == 'bytearray':
		return bytearray(b)
	if kind == 'str':
		return bytes(b).decode('latin-1') if all(c < 128 for c in b) else None
	from Bio.Seq import Seq
	return Seq(bytes(b))


def k_sig(ctx, cases):
	from gambit.kmers import KmerSpec
	from gambit.sigs.calc import calc_signature, ArrayAccumulator, SetAccumulator
	reqs = []
	for c in cases:
		seqs = [bytes.fromhex(h) for h in c['seqs']]
		p = c['prefix'].encode()
		reqs.append((103, [c['k'], p, seqs]))
		reqs.append((102, [0, c['k'], p, seqs]))
		reqs.append((102, [1, c['k'], p, seqs]) if c['k'] <= 6 else (104, c['k']))
		reqs.append((104, c['k']))
	ans = ctx.model(reqs) if ctx.model_ok else None
	for i, c in enumerate(cases):
		seqs = [bytes.fromhex(h) for h in c['seqs']]
		k = c['k']
		kspec = KmerSpec(k, c['prefix'])
		results = {}
		for kind in ('bytes', 'bytearray', 'str', 'seq'):
			inp = [_as_type(s, kind) for s in seqs]
			if any(x is None for x in inp):
				continue
			for accname in ('set', 'array'):
				if accname == 'array' and k > 11 and not (c.get('dense') and kind == 'bytes' and k <= 13):
					continue
				acc = SetAccumulator(k) if accname == 'set' else ArrayAccumulator(k)
				sig = calc_signature(kspec, inp, accumulator=acc)
				results[(kind, accname)] = (sig.tolist(), sig.dtype.itemsize if sig.dtype.kind == 'u' else -sig.dtype.itemsize)
			# default accumulator, collection call form (dense up to k = 11, set above)
			if len(inp) != 1 and (kind == 'bytes' or k <= 9 or k > 11):
				sig = calc_signature(kspec, inp)
				results[(kind, 'default')] = (sig.tolist(), sig.dtype.itemsize if sig.dtype.kind == 'u' else -sig.dtype.itemsize)
			# default accumulator, single-sequence call form
			if len(inp) == 1:
				sig = calc_signature(kspec, inp[0])
				results[(kind, 'default-single')] = (sig.tolist(), sig.dtype.itemsize if sig.dtype.kind == 'u' else -sig.dtype.itemsize)
		first = results[('bytes', 'set')]
		if ans is None:
			spec, dts = None, None
		else:
			spec = ans[4 * i]
			dts = ans[4 * i + 3]
			dts = dts[0] if dts else None
		nontriv = len(first[0]) > 0 and c.get('nt', True)
		ctx.case(c if sum(len(s) for s in seqs) < 80 else dict(k=k, prefix=c['prefix'], nseqs=len(seqs), total=sum(len(s) for s in seqs)),
		         nontrivial=nontriv)
		bad = False
		for key, r in results.items():
			if r != first:
				ctx.violation('sig', c, f'signature differs between input type/accumulator {key} and (bytes,set)',
				              impl=r, other=first)
				bad = True
				break
		if bad or ans is None:
			continue
		if first[0] != spec:
			ctx.violation('sig', c, f'calc_signature = {first[0][:20]} but the set of prefix-anchored k-mers is {spec[:20]}',
			              impl=first[0], spec=spec, model=ans[4 * i + 1])
			continue
		if first[1] != dts:
			ctx.violation('sig', c, f'dtype item size {first[1]} but smallest unsigned type for k={k} has {dts} bytes',
			              impl=first[1], spec=dts)
			continue
		m = ans[4 * i + 1]
		if m[0] != 0 or m[1][0] != first[0] or (m[1][1][0] if m[1][1] else None) != first[1]:
			ctx.broke('correspondence sig (set accumulator)', f'{c}: impl {first} model {m}')
		if k <= 6:
			m = ans[4 * i + 2]
			if m[0] != 0 or m[1][0] != first[0]:
				ctx.broke('correspondence sig (dense accumulator)', f'{c}: impl {first} model {m}')


def k_find(ctx, cases):
	from gambit.kmers import KmerSpec, find_kmers
	reqs = [(101, [c['k'], c['prefix'].encode(), bytes.fromhex(c['seq'])]) for c in cases]
	ans = ctx.model(reqs) if ctx.model_ok else None
	for i, c in enumerate(cases):
		s = bytes.fromhex(c['seq'])
		kspec = KmerSpec(c['k'], c['prefix'])
		ms = [(m.pos, bool(m.reverse)) for m in find_kmers(kspec, s)]
		ctx.case(c if len(s) < 80 else dict(k=c['k'], prefix=c['prefix'], n=len(s)), nontrivial=len(ms) >= 2)
		if ans is None:
			continue
		mm = _res(ans[i])
		mm = [(a, bool(b)) for a, b in mm] if isinstance(mm, list) else mm
		if mm != ms:
			# the property constrains the set of matches, not the yield order
			if isinstance(mm, list) and sorted(mm) == sorted(ms):
				continue
			ctx.broke('correspondence find (find_kmers)', f'{c}: impl {ms[:10]} model {mm if not isinstance(mm, list) else mm[:10]}')


# ---------------------------------------------------------------------------------------------
# audit additions: Python reference of the specification, call-form / find_kmers / long-sequence kinds
# ---------------------------------------------------------------------------------------------
_CODE = {65: 0, 67: 1, 71: 2, 84: 3}
_RCTAB = bytes.maketrans(b'ACGTacgt', b'TGCAtgca')


def _py_fwd(k, p, s):
	"""indices of the valid k-mers that follow forward-strand occurrences of p in s, by position
	(direct transcription of Spec/C01.v fwd_kmers)"""
	u = bytes(s).upper()          # bytes.upper touches a-z only, like Spec.Kmers.upper
	out = []
	m = len(p)
	for q in range(0, len(u) - m - k + 1):
		if u.startswith(p, q):
			v = 0
			for b in u[q + m:q + m + k]:
				d = _CODE.get(b)
				if d is None:
					v = None
					break
				v = v * 4 + d
			if v is not None:
				out.append(v)
	return out


def _py_rc(s):
	return bytes(s).translate(_RCTAB)[::-1]


def _py_sig(k, p, seqs):
	acc = set()
	for s in seqs:
		acc.update(_py_fwd(k, p, s))
		acc.update(_py_fwd(k, p, _py_rc(s)))
	return sorted(acc)


def _py_dts(k):
	return 1 if k <= 4 else 2 if k <= 8 else 4 if k <= 16 else 8 if k <= 32 else None


def _obs(sig):
	"""what the property constrains of a returned signature: values in order + unsigned item size"""
	if not isinstance(sig, np.ndarray) or sig.ndim != 1:
		return ('not a 1-d array', type(sig).__name__)
	return (sig.tolist(), sig.dtype.itemsize if sig.dtype.kind == 'u' else -sig.dtype.itemsize)


class _Skip(Exception):
	pass


class _MyBytes(bytes):
	pass


class _MyStr(str):
	pass


class _Iterable:
	"""an iterable that is neither a sequence nor an iterator"""
	def __init__(self, items):
		self._items = items

	def __iter__(self):
		return iter(list(self._items))


_SCRATCH = []
_FILENO = itertools.count()


def _scratch():
	if not _SCRATCH:
		from vf import impl
		_SCRATCH.append(impl.scratch_dir('gambit-verif-c01-'))
	return _SCRATCH[0]


def _elem(b, form):
	"""one sequence in the element representation `form`; _Skip when the bytes cannot be text"""
	from Bio.Seq import Seq
	b = bytes(b)
	ascii_ok = all(x < 128 for x in b)
	if form in ('str', 'seq-str', 'mystr') and not ascii_ok:
		raise _Skip()
	if form == 'bytes':
		return b
	if form == 'bytearray':
		return bytearray(b)
	if form == 'str':
		return b.decode('ascii')
	if form == 'seq':
		return Seq(b)
	if form == 'seq-str':
		return Seq(b.decode('ascii'))
	if form == 'seq-bytearray':
		return Seq(bytearray(b))
	if form == 'seq-slice':
		return Seq(b'TAC' + b + b'GAT')[3:3 + len(b)]
	if form == 'seq-seq':
		return Seq(Seq(b))
	if form == 'mybytes':
		return _MyBytes(b)
	if form == 'mystr':
		return _MyStr(b.decode('ascii'))
	raise KeyError(form)


ELEM_FORMS = ('bytes', 'bytearray', 'str', 'seq', 'seq-str', 'seq-bytearray', 'seq-slice', 'seq-seq', 'mybytes', 'mystr')
UNSIGNED_K = ('uint8', 'uint16', 'uint32', 'uint64')


def _api_variants(c, seqs):
	"""(name, thunk) for every call form; each thunk returns the signature array.  Everything is a
	function of the case (c['vseed'] drives the random choices)."""
	import collections
	import copy
	import pickle
	import random
	from Bio.Seq import Seq
	from gambit.kmers import KmerSpec, find_kmers
	from gambit.sigs.calc import (calc_signature, calc_file_signature, ArrayAccumulator, SetAccumulator,
	                              default_accumulator, accumulate_kmers)
	from gambit.seq import SequenceFile
	import gambit.util.json as gjson
	rnd = random.Random(c.get('vseed', 0))
	k, P = c['k'], c['prefix']
	ks = KmerSpec(k, P)
	blist = [bytes(s) for s in seqs]
	out = []

	def add(name, fn):
		out.append((name, fn))

	# -- k representation (signed NumPy scalars: what h5py hands to KmerSpec when a signature file is loaded)
	for nm in ('int64', 'int32', 'intp'):
		add('k:np.' + nm, lambda nm=nm: calc_signature(KmerSpec(getattr(np, nm)(k), P), list(blist)))
		add('k:np.' + nm + '+set', lambda nm=nm: calc_signature(KmerSpec(getattr(np, nm)(k), P), list(blist),
		                                                   accumulator=SetAccumulator(getattr(np, nm)(k))))
	# -- prefix / KmerSpec representation
	pb = P.encode()
	add('p:bytes', lambda: calc_signature(KmerSpec(k, pb), list(blist)))
	add('p:bytearray', lambda: calc_signature(KmerSpec(k, bytearray(pb)), list(blist)))
	add('p:seq', lambda: calc_signature(KmerSpec(k, Seq(pb)), [Seq(b) for b in blist]))

	def lower_form(pf):
		try:
			k2 = KmerSpec(k, pf)
		except ValueError:
			raise _Skip()    # refusing a lower-case prefix is not against the property
		return calc_signature(k2, list(blist))
	add('p:lower', lambda: lower_form(P.lower()))
	add('p:mixed', lambda: lower_form(''.join(ch.lower() if i % 2 else ch for i, ch in enumerate(P))))
	add('ks:json', lambda: calc_signature(KmerSpec.__from_json__(ks.__to_json__()), list(blist)))
	add('ks:json-text', lambda: calc_signature(gjson.loads(gjson.dumps(ks), KmerSpec), list(blist)))
	add('ks:pickle', lambda: calc_signature(pickle.loads(pickle.dumps(ks)), list(blist)))
	add('ks:pickle-np', lambda: calc_signature(pickle.loads(pickle.dumps(KmerSpec(np.int64(k), P))), list(blist)))
	add('ks:copy', lambda: calc_signature(copy.copy(ks), list(blist)))
	add('ks:deepcopy', lambda: calc_signature(copy.deepcopy(ks), list(blist)))
	# -- container
	add('c:tuple', lambda: calc_signature(ks, tuple(blist)))
	add('c:iter', lambda: calc_signature(ks, iter(blist)))
	add('c:generator', lambda: calc_signature(ks, (b for b in blist)))
	add('c:generator+set', lambda: calc_signature(ks, (bytearray(b) for b in blist), accumulator=SetAccumulator(k)))
	add('c:deque', lambda: calc_signature(ks, collections.deque(blist)))
	add('c:dictkeys', lambda: calc_signature(ks, dict.fromkeys(blist).keys()))
	add('c:iterable', lambda: calc_signature(ks, _Iterable(blist)))
	add('c:map', lambda: calc_signature(ks, map(bytes, blist)))

	def same_twice():
		objs = [bytearray(b) for b in blist]
		return calc_signature(ks, objs + objs[:1] + objs)
	add('c:same-object-twice', same_twice)
	# -- element types
	for form in ELEM_FORMS[4:]:
		add('t:' + form, lambda form=form: calc_signature(ks, [_elem(b, form) for b in blist]))
		if len(blist) == 1:
			add('t:' + form + '-bare', lambda form=form: calc_signature(ks, _elem(blist[0], form)))

	def mixed():
		forms = [rnd.choice(ELEM_FORMS) for _ in blist]
		els = []
		for b, f in zip(blist, forms):
			try:
				els.append(_elem(b, f))
			except _Skip:
				els.append(_elem(b, 'bytes'))
		return calc_signature(ks, els, accumulator=SetAccumulator(k) if rnd.random() < 0.5 else None)
	add('t:mixed', mixed)
	# -- accumulator routes
	decoy = [bytes(rnd.choice(NUC) for _ in range(rnd.randint(0, 40))) + pb + bytes(rnd.choice(NUC) for _ in range(k + 3))]

	def reused(cls):
		acc = cls(k)
		calc_signature(ks, decoy, accumulator=acc)
		acc.clear()
		return calc_signature(ks, list(blist), accumulator=acc)
	add('a:set-reused', lambda: reused(SetAccumulator))
	if k <= 9:
		add('a:array-reused', lambda: reused(ArrayAccumulator))
	add('a:none-keyword', lambda: calc_signature(ks, list(blist), accumulator=None))
	add('call:kw', lambda: calc_signature(kmerspec=ks, seqs=list(blist), accumulator=SetAccumulator(k)))
	add('call:kw-default', lambda: calc_signature(seqs=tuple(blist), kmerspec=ks))

	def accumulate(acc):
		for b in blist:
			accumulate_kmers(acc, ks, b if rnd.random() < 0.5 else Seq(b))
		return acc.signature()
	add('a:accumulate-set', lambda: accumulate(SetAccumulator(k)))
	add('a:accumulate-default', lambda: accumulate(default_accumulator(k)))

	def via_add_kmer(acc):
		for b in blist:
			for m in find_kmers(ks, b):
				acc.add_kmer(m.kmer())
		return acc.signature()
	add('a:add_kmer-set', lambda: via_add_kmer(SetAccumulator(k)))
	if k <= 9:
		add('a:add_kmer-array', lambda: via_add_kmer(ArrayAccumulator(k)))
	# -- files (only for letters-only, non-empty records: FASTA parsing itself belongs to C06)
	if c.get('file') and blist and all(b and b.isalpha() and all(x < 128 for x in b) for b in blist):
		import os
		path = os.path.join(_scratch(), f'api-{next(_FILENO)}.fasta')

		def write():
			with open(path, 'wb') as f:
				for i, b in enumerate(blist):
					f.write(b'>rec%d some description\n' % i)
					w = rnd.choice([60, 7, 10**9])
					for j in range(0, len(b), w):
						f.write(b[j:j + w] + b'\n')
			return SequenceFile(path, 'fasta')

		def file_sig(**kw):
			sf = write()
			try:
				return calc_file_signature(ks, sf, **kw)
			finally:
				os.unlink(path)
		add('file:default', lambda: file_sig())
		add('file:accumulator=set', lambda: file_sig(accumulator=SetAccumulator(k)))
		if k <= 9:
			add('file:accumulator=array', lambda: file_sig(accumulator=ArrayAccumulator(k)))
	return out


def k_api(ctx, cases):
	import warnings
	from gambit.kmers import KmerSpec
	from gambit.sigs.calc import calc_signature, SetAccumulator
	reqs = []
	for c in cases:
		seqs = [bytes.fromhex(h) for h in c['seqs']]
		reqs.append((103, [c['k'], c['prefix'].encode(), seqs]))
		reqs.append((104, c['k']))
	ans = ctx.model(reqs) if ctx.model_ok else None
	uk = ctx.extra.setdefault('unsigned_k', dict(calls=0, agree=0, differ=0, raised=0))
	for i, c in enumerate(cases):
		seqs = [bytes.fromhex(h) for h in c['seqs']]
		k, pb = c['k'], c['prefix'].encode()
		ref = _py_sig(k, pb, seqs)
		if ans is None:
			spec, dts = ref, _py_dts(k)
		else:
			spec = ans[2 * i]
			dts = ans[2 * i + 1]
			dts = dts[0] if dts else None
			if ref != spec:
				ctx.broke('harness reference (_py_sig) vs extracted signature_spec', f'{c}: python {ref[:10]} coq {spec[:10]}')
		want = (spec, dts)
		ctx.case(c if sum(len(s) for s in seqs) < 80 else dict(k=k, prefix=c['prefix'], nseqs=len(seqs), total=sum(len(s) for s in seqs),
		                                                       vseed=c.get('vseed', 0)), nontrivial=len(spec) > 0)
		for name, fn in _api_variants(c, seqs):
			try:
				got = _obs(fn())
			except _Skip:
				continue
			except Exception as e:
				ctx.violation('api', c, f'call form {name}: raised {type(e).__name__}: {e} (the signature is {spec[:20]})',
				              impl=repr(e), spec=spec, form=name)
				break
			ctx.count('api-form:' + name.split(':')[0])
			if got != want:
				ctx.violation('api', c, f'call form {name}: signature {str(got[0])[:200]} (item size {got[1]}) but the set of '
				              f'prefix-anchored k-mers is {spec[:20]} (item size {dts})', impl=got, spec=want, form=name)
				break
		# unsigned NumPy scalar k (see ASSUMPTIONS)
		nm = UNSIGNED_K[c.get('vseed', 0) % len(UNSIGNED_K)]
		uk['calls'] += 1
		try:
			with warnings.catch_warnings():
				warnings.simplefilter('ignore')
				kk = getattr(np, nm)(k)
				got = _obs(calc_signature(KmerSpec(kk, c['prefix']), [bytes(s) for s in seqs], accumulator=SetAccumulator(k)))
			uk['agree' if got == want else 'differ'] += 1
			if got != want:
				ctx.violation('api', c, f'k given as numpy.{nm}({k}): signature {str(got[0])[:200]} (item size {got[1]}) but the set of '
				              f'prefix-anchored k-mers is {spec[:20]} (item size {dts})', impl=got, spec=want, form='unsigned-k:' + nm)
		except Exception as e:
			uk['raised'] += 1
			ctx.violation('api', c, f'k given as numpy.{nm}({k}): raised {type(e).__name__}: {e} (the signature is {spec[:20]})',
			              impl=repr(e), spec=spec, form='unsigned-k:' + nm)


def _kidx(m):
	try:
		return int(m.kmer_index())
	except ValueError:
		return None


def k_findx(ctx, cases):
	from gambit.kmers import KmerSpec, find_kmers
	reqs = []
	for c in cases:
		s = bytes.fromhex(c['seq'])
		pb = c['prefix'].encode()
		reqs.append((105, [c['k'], pb, s]))
		reqs.append((105, [c['k'], pb, _py_rc(s)]))
	ans = ctx.model(reqs) if ctx.model_ok else None
	for i, c in enumerate(cases):
		s = bytes.fromhex(c['seq'])
		k, pb = c['k'], c['prefix'].encode()
		kspec = KmerSpec(k, c['prefix'])
		pf, pr = _py_fwd(k, pb, s), _py_fwd(k, pb, _py_rc(s))
		if ans is not None:
			sf, sr = ans[2 * i], ans[2 * i + 1]
			if (pf, pr) != (sf, sr):
				ctx.broke('harness reference (_py_fwd) vs extracted fwd_kmers', f'{c}: python {pf[:10]} {pr[:10]} coq {sf[:10]} {sr[:10]}')
		else:
			sf, sr = pf, pr
		want = (sorted(set(sf)), sorted(set(sr)))
		nm = 0
		bad = False
		for form in ('bytes', 'bytearray', 'str', 'seq', 'seq-str', 'seq-slice', 'kw'):
			try:
				obj = _elem(s, 'bytes' if form == 'kw' else form)
			except _Skip:
				continue
			try:
				ms = list(find_kmers(kmerspec=kspec, seq=obj)) if form == 'kw' else list(find_kmers(kspec, obj))
				nm = max(nm, len(ms))
				got = ([], [])
				for m in ms:
					idx = _kidx(m)
					km = bytes(m.kmer())
					ku = km.upper()
					valid = len(km) == k and all(b in _CODE for b in ku)
					if idx is not None:
						v = 0
						for b in ku:
							v = v * 4 + _CODE.get(b, 0)
						if not valid or v != idx:
							ctx.violation('findx', c, f'find_kmers on {form}: match at {m.pos} (reverse={bool(m.reverse)}) has kmer() = {km!r} '
							              f'but kmer_index() = {idx}', impl=[m.pos, bool(m.reverse), km.hex(), idx], form=form)
							bad = True
							break
						got[1 if m.reverse else 0].append(idx)
					elif valid:
						ctx.violation('findx', c, f'find_kmers on {form}: match at {m.pos} (reverse={bool(m.reverse)}) has the valid k-mer '
						              f'{km!r} but kmer_index() raises', impl=[m.pos, bool(m.reverse), km.hex()], form=form)
						bad = True
						break
			except Exception as e:
				ctx.violation('findx', c, f'find_kmers on {form}: raised {type(e).__name__}: {e}', impl=repr(e), form=form)
				bad = True
			if bad:
				break
			got = (sorted(set(got[0])), sorted(set(got[1])))
			if got != want:
				ctx.violation('findx', c, f'find_kmers on {form}: valid k-mers per strand (forward, reverse) = {str(got)[:300]} but the k-mers that '
				              f'follow an occurrence of the prefix are {str(want)[:300]}', impl=got, spec=want, form=form)
				bad = True
				break
		ctx.case(c if len(s) < 80 else dict(k=k, prefix=c['prefix'], n=len(s)), nontrivial=nm >= 2)


def _big_seqs(g):
	"""the sequences of a `big` case, a deterministic function of its description g"""
	import random
	r = random.Random(g['seed'])
	nr = np.random.RandomState(g['seed'] % (2 ** 32))
	p = g['prefix'].encode()
	k = g['k']
	alpha = np.frombuffer({'upper': b'ACGT', 'mixed': b'ACGTacgt', 'n': b'ACGTACGTACGTACGTNacgtn'}[g['alpha']], dtype='u1')
	seqs = []
	for n in g['lens']:
		b = bytearray(alpha[nr.randint(0, len(alpha), n)].tobytes())
		w = len(p) + k
		marks = [0, n - w, 2 ** 15 - 1, 2 ** 15, 2 ** 16 - 1, 2 ** 16, 2 ** 16 + 1, 2 ** 17, 2 ** 20 - 1, 2 ** 20, 2 ** 21, n // 2, n * 7 // 10, n * 8 // 10, n * 9 // 10]
		for mk in marks:
			# windows that start just before, straddle and start at each mark, on both strands
			for off in (-w, -(w // 2), -1, 0):
				q = mk + off
				if 0 <= q and q + w <= n:
					kmer = bytes(r.choice(NUC) for _ in range(k))
					win = p + kmer
					if r.random() < 0.5:
						win = _py_rc(win)
					if r.random() < 0.3 and q >= g.get('lowfrom', 0) * n:
						win = win.lower()
					b[q:q + w] = win
		for _ in range(g.get('junk', 0) if n else 0):
			b[r.randrange(n)] = r.choice([0, 255, ord('N'), ord('-'), 0xC1, ord('\n')])
		seqs.append(bytes(b))
	return seqs


def _big_one(ctx, c):
	from gambit.kmers import KmerSpec
	from gambit.sigs.calc import calc_signature, SetAccumulator, ArrayAccumulator
	k, P = c['k'], c['prefix']
	seqs = _big_seqs(c)
	spec = _py_sig(k, P.encode(), seqs)
	want = (spec, _py_dts(k))
	ctx.case(c, nontrivial=len(spec) >= 100)
	kspec = KmerSpec(k, P)
	for form in ('bytes', 'bytearray', 'str', 'seq'):
		try:
			inp = [_elem(s, form) for s in seqs]
		except _Skip:
			continue
		for accname in ('set', 'default', 'array'):
			if accname == 'array' and (k > 9 or form != 'bytearray'):
				continue
			acc = None if accname == 'default' else SetAccumulator(k) if accname == 'set' else ArrayAccumulator(k)
			try:
				got = _obs(calc_signature(kspec, inp[0] if len(inp) == 1 and accname == 'default' else inp, accumulator=acc))
			except Exception as e:
				ctx.violation('big', c, f'{form}/{accname}: raised {type(e).__name__}: {e}', impl=repr(e))
				return
			if got != want:
				a, b = set(got[0]) if isinstance(got[0], list) else set(), set(spec)
				ctx.violation('big', c, f'{form}/{accname}: signature of {len(seqs)} generated sequences (lengths {c["lens"]}) has '
				              f'{len(got[0])} k-mers, item size {got[1]}; the specification gives {len(spec)}, item size {want[1]}; '
				              f'missing {sorted(b - a)[:10]} spurious {sorted(a - b)[:10]}',
				              impl=[len(got[0]), got[1]], spec=[len(spec), want[1]])
				return


def k_big(ctx, cases):
	for c in cases:
		_big_one(ctx, c)


KINDS = {'sig': k_sig, 'find': k_find, 'api': k_api, 'findx': k_findx, 'big': k_big}
BATCH = 500


def _rc(b):
	return bytes(b).translate(bytes.maketrans(b'ACGTacgt', b'TGCAtgca'))[::-1]


def generate(ctx):
	rng = ctx.rng
	ctx.rule(RULE)
	prefixes = ['A', 'T', 'AT', 'AA', 'AC', 'GT', 'ACG']
	alpha = b'ACGTN'
	L = ctx.pick(6, 7)
	# exhaustive: every sequence over {A,C,G,T,N} up to length L x k in {1,2,3} x prefixes
	n = 0
	for ln in range(0, L + 1):
		for t in itertools.product(alpha, repeat=ln):
			s = bytes(t)
			for k in ((1, 2, 3) if (ln <= 5 or not ctx.quick) else (1, 2)):
				for p in (prefixes if ln <= 5 else (prefixes[:4] if not ctx.quick else ['A', 'AT'])):
					if ln < len(p):
						if ln > 2:
							continue
					n += 1
					yield 'sig', dict(k=k, prefix=p, seqs=[s.hex()])
			if ln <= 5:
				yield 'find', dict(k=1, prefix='AT', seq=s.hex())
				yield 'find', dict(k=2, prefix='A', seq=s.hex())
	ctx.count('stream:exhaustive-ACGTN', n)
	ctx.exhaustive = True
	ctx.extra['exhaustive_scope'] = (f'all sequences over ACGTN up to length 5 x k in 1..3 x prefixes {prefixes}; length 6'
	                                 f'{" x k in 1..2 x prefixes A, AT" if ctx.quick else ".." + str(L) + " x k in 1..3 x 4 prefixes"}; all sequences of length<=3 over 8 byte classes')
	# byte classes: upper, lower, N, NUL, 0xFF, '@', '['
	classes = [ord('A'), ord('c'), ord('N'), 0, 0xFF, ord('@'), ord('['), ord('t')]
	for ln in range(0, 4):
		for t in itertools.product(classes, repeat=ln):
			yield 'sig', dict(k=1, prefix='A', seqs=[bytes(t).hex()])
			yield 'sig', dict(k=2, prefix='C', seqs=[bytes(t).hex()])
	# random structured: planted occurrences on both strands, overlapping / adjacent / end-flush
	for _ in range(ctx.pick(400, 4000)):
		k = rng.choice([1, 2, 3, 4, 5, 6, 8, 9, 11, 12, 16, 17, 31, 32])
		plen = rng.randint(1, 7)
		p = bytes(rng.choice(NUC) for _ in range(plen))
		if rng.random() < 0.15:
			p = rng.choice([b'AT', b'AA', b'ACGT', b'TA', b'GC'])  # palindromic / self-overlapping
			plen = len(p)
		nseq = rng.choice([1, 1, 2, 3])
		seqs = []
		for _ in range(nseq):
			ln = rng.choice([0, 1, plen, plen + k - 1, plen + k, plen + k + 1, 40, 200, 1500 if not ctx.quick else 400])
			b = bytearray(rng.choice(b'ACGT' if rng.random() < 0.7 else b'ACGTacgtNn') for _ in range(ln))
			for _ in range(rng.randint(0, 6)):
				if ln >= plen:
					where = rng.choice([0, ln - plen, max(0, ln - plen - k), rng.randrange(ln - plen + 1), k if ln - plen >= k else 0])
					motif = p if rng.random() < 0.5 else _rc(p)
					if rng.random() < 0.3:
						motif = motif.lower()
					b[where:where + plen] = motif
			if rng.random() < 0.2 and ln:
				b[rng.randrange(ln)] = rng.choice([0, 255, ord('N'), ord('n'), ord('-'), 0xC1])
			seqs.append(bytes(b))
		ctx.count('stream:random-planted')
		yield 'sig', dict(k=k, prefix=p.decode(), seqs=[s.hex() for s in seqs])
		yield 'find', dict(k=k, prefix=p.decode(), seq=seqs[0].hex())

	# ------------------------------------------------------------------------------------------
	# streams added by the coverage audit (see the table in the module docstring)
	# ------------------------------------------------------------------------------------------
	def rand_prefix(lo=1, hi=7):
		if rng.random() < 0.15:
			return rng.choice([b'AT', b'AA', b'ACGT', b'TA', b'GC', b'ATAT', b'CCC', b'GATC'])
		return bytes(rng.choice(NUC) for _ in range(rng.randint(lo, hi)))

	def planted(k, p, ln, alphabet=None, nplant=None):
		"""random sequence of length ln with occurrences of p / rc(p) planted at the boundaries"""
		plen = len(p)
		if alphabet is None:
			alphabet = b'ACGT' if rng.random() < 0.7 else b'ACGTacgtNn'
		b = bytearray(rng.choice(alphabet) for _ in range(ln))
		for _ in range(rng.randint(0, 6) if nplant is None else nplant):
			if ln >= plen:
				where = rng.choice([0, ln - plen, max(0, ln - plen - k), rng.randrange(ln - plen + 1), k if ln - plen >= k else 0])
				motif = p if rng.random() < 0.5 else _rc(p)
				if rng.random() < 0.3:
					motif = motif.lower()
				b[where:where + plen] = motif
		if rng.random() < 0.2 and ln:
			b[rng.randrange(ln)] = rng.choice([0, 255, ord('N'), ord('n'), ord('-'), 0xC1])
		return bytes(b)

	def lens_for(k, plen):
		return [0, 1, plen, plen + k - 1, plen + k, plen + k + 1, 2 * (plen + k), 40, 200]

	# every k from 1 to 32 (dtype boundaries, dense accumulator up to 11, 12/13 once), prefixes up to 12
	for k in range(1, 33):
		for j in range(ctx.pick(6, 30)):
			p = rand_prefix(1, 12)
			seqs = [planted(k, p, rng.choice(lens_for(k, len(p)))) for _ in range(rng.choice([1, 1, 2, 3]))]
			case = dict(k=k, prefix=p.decode(), seqs=[s.hex() for s in seqs])
			if k in (12, 13) and j == 0:
				case['dense'] = True
			ctx.count('stream:all-k')
			yield 'sig', case
	# the empty collection and collections of empty sequences, every k (dtype of an empty signature)
	for k in range(1, 33):
		ctx.count('stream:empty-collection', 2)
		yield 'sig', dict(k=k, prefix=rand_prefix().decode(), seqs=[], nt=False)
		yield 'sig', dict(k=k, prefix=rand_prefix().decode(), seqs=[''] * rng.randint(1, 3), nt=False)
		yield 'api', dict(k=k, prefix=rand_prefix().decode(), seqs=[], vseed=rng.randrange(10 ** 6))
	# long prefixes
	for _ in range(ctx.pick(60, 600)):
		k = rng.randint(1, 32)
		p = bytes(rng.choice(NUC) for _ in range(rng.randint(8, 24)))
		seqs = [planted(k, p, rng.choice(lens_for(k, len(p)) + [len(p) + k + 2, 120]), nplant=rng.randint(1, 4)) for _ in range(rng.choice([1, 2]))]
		ctx.count('stream:long-prefix')
		yield 'sig', dict(k=k, prefix=p.decode(), seqs=[s.hex() for s in seqs])
	# every byte value at every offset of a prefix+k-mer window, on both strands, flush or not
	for k, p in ((3, b'AC'), (2, b'ATG'), (5, b'T')):
		kmer = bytes(rng.choice(NUC) for _ in range(k))
		for bval in range(256):
			for j in range(len(p) + k):
				for strand in (0, 1):
					w = bytearray(p + kmer if strand == 0 else _rc(p + kmer))
					if rng.random() < 0.3:
						w = bytearray(bytes(w).lower())
					w[j] = bval
					# neighbours: nothing (flush), a short flank, or an intact occurrence on either strand
					left, right = (rng.choice([b'', b'', bytes(rng.choice(NUC) for _ in range(rng.randint(1, 3))),
					                           p + kmer, _rc(p + kmer), (p + kmer).lower(), _rc(p + kmer).lower()]) for _ in range(2))
					ctx.count('stream:byte-sweep')
					yield 'sig', dict(k=k, prefix=p.decode(), seqs=[(left + bytes(w) + right).hex()], nt=bval in b'ACGTacgt')
					if not ctx.quick or (bval % 8 == j and strand == 0):
						yield 'findx', dict(k=k, prefix=p.decode(), seq=(left + bytes(w) + right).hex())
	# homopolymers / tandem repeats: maximal self-overlap of the prefix occurrences
	for _ in range(ctx.pick(100, 1000)):
		unit = bytes(rng.choice(NUC) for _ in range(rng.randint(1, 4)))
		reps = rng.choice([1, 2, 3, 5, 17, 60, 300 // len(unit)])
		body = bytearray(unit * reps)
		plen = rng.randint(1, 6)
		rot = rng.randrange(len(unit))
		p = ((unit * 8)[rot:rot + plen])
		if rng.random() < 0.3:
			p = _rc(p)
		if rng.random() < 0.3 and body:
			body[rng.randrange(len(body))] = rng.choice(b'ACGTNacgt')
		if rng.random() < 0.3:
			body = bytearray(bytes(body).swapcase())
		k = rng.choice([1, 2, 3, 4, 5, 7, 10, 15, 16, 17, 29, 32])
		ctx.count('stream:tandem')
		yield 'sig', dict(k=k, prefix=p.decode(), seqs=[bytes(body).hex()])
		yield 'findx', dict(k=k, prefix=p.decode(), seq=bytes(body).hex())
	# letter case: the same sequences all upper / all lower / swapped / randomly cased
	for _ in range(ctx.pick(60, 600)):
		k = rng.randint(1, 32)
		p = rand_prefix()
		base = [planted(k, p, rng.choice([len(p) + k, len(p) + k + 1, 40, 200]), alphabet=b'ACGTN', nplant=rng.randint(1, 5))
		        for _ in range(rng.choice([1, 2]))]
		for how in ('upper', 'lower', 'swapcase', 'random'):
			seqs = [getattr(s, how)() if how != 'random' else bytes(b | 0x20 if rng.random() < 0.5 else b for b in s.upper()) for s in base]
			ctx.count('stream:case-variants')
			yield 'sig', dict(k=k, prefix=p.decode(), seqs=[s.hex() for s in seqs])
	# large collections: 10..60 sequences with repeats and empties
	for _ in range(ctx.pick(20, 200)):
		k = rng.randint(1, 32)
		p = rand_prefix(1, 4)
		pool = [planted(k, p, rng.choice(lens_for(k, len(p)))) for _ in range(rng.randint(3, 12))]
		seqs = [rng.choice(pool) for _ in range(rng.randint(10, 60))]
		ctx.count('stream:many-seqs')
		yield 'sig', dict(k=k, prefix=p.decode(), seqs=[s.hex() for s in seqs])
	# call forms: every k twice, then random
	ks_api = list(range(1, 33)) * 2 + [rng.choice([1, 2, 3, 4, 5, 6, 7, 8, 9, 12, 16, 17, 24, 31, 32]) for _ in range(ctx.pick(500, 5000))]
	for n_api, k in enumerate(ks_api):
		p = rand_prefix()
		nseq = rng.choice([1, 1, 2, 3, 5])
		alphabet = rng.choice([b'ACGT', b'ACGT', b'ACGTacgtNn', b'ACGTN'])
		seqs = [planted(k, p, rng.choice(lens_for(k, len(p)) + ([400] if n_api % 10 == 0 else [])), alphabet=alphabet) for _ in range(nseq)]
		ctx.count('stream:api-forms')
		yield 'api', dict(k=k, prefix=p.decode(), seqs=[s.hex() for s in seqs], vseed=rng.randrange(10 ** 6), file=(n_api % 3 == 0))
	# find_kmers through every input type, judged per strand against the specification
	for _ in range(ctx.pick(400, 4000)):
		k = rng.randint(1, 32)
		p = rand_prefix(1, 9)
		ctx.count('stream:findx-random')
		yield 'findx', dict(k=k, prefix=p.decode(), seq=planted(k, p, rng.choice(lens_for(k, len(p)) + [400])).hex())
	# long sequences, described by a seed (Python reference only)
	# lowfrom: lower-case letters only in the last part of the sequence
	bigs = [dict(lens=[70000], alpha='upper'), dict(lens=[150000], alpha='upper', lowfrom=0.6), dict(lens=[2 ** 16 + 40, 2 ** 15 + 7, 0, 131100], alpha='mixed', junk=50),
	        dict(lens=[2 ** 20 + 300], alpha='n', junk=200)]
	if not ctx.quick:
		bigs += [dict(lens=[2 ** 22 + 11], alpha='upper'), dict(lens=[2 ** 21 + 5, 2 ** 20], alpha='mixed', junk=1000)] + \
		        [dict(lens=[rng.randint(30000, 600000) for _ in range(rng.randint(1, 4))], alpha=rng.choice(['upper', 'mixed', 'n']),
		              junk=rng.randint(0, 300)) for _ in range(10)]
	for g in bigs:
		k = rng.choice([4, 8, 9, 11, 16, 17, 32])
		g.update(k=k, prefix=bytes(rng.choice(NUC) for _ in range(rng.randint(3, 5))).decode(), seed=rng.randrange(2 ** 31))
		ctx.count('stream:big')
		yield 'big', g
