"""C19 -- an interrupted signature-file write never yields a loadable wrong file.

Tie B by fault enumeration.  For a collection x and a boundary n the writer runs in a forked child
in which the three storage-library entry points the code uses (h5py AttributeManager.__setitem__,
Group.create_dataset, Dataset.__setitem__) are counted (patched by this harness inside the child only --
no repository hook); the child dies with os._exit when n calls have completed (n = number of calls:
all calls made, file not yet closed; n = null: the write completes).  Checked per case:
  (b) property: the file left by a dead writer does not load (if it loads as something different from
      x: violation); the file of a completed write loads as x;
  (a1) the calls observed before the death are exactly the first n elements of the model's dump_ops x
       (Model/Store.v: attributes, datasets, the format marker LAST -- the order of repo_fixes/C19-marker-last.diff;
       a writer that still issues the order as found, dump_ops_v0 = marker first, is named as such);
  (a2) the error class agrees with the model's load_file / load_file_cur under the AtClose policy
       (Model/Store.v crash_disk) for a killed writer, which is thereby validated on every run, and with
       load_file (raised_disk (first m calls)) for a writer that died by an exception.

Dimension DEATH MODE (all three kinds) -- HOW the writer dies.  A process does not only die by kill -9: Ctrl-C
(KeyboardInterrupt), sys.exit() from a signal handler (SystemExit), MemoryError, an I/O error of one dataset write
(OSError ENOSPC), an exception of the object the signatures come from.  Such a death UNWINDS: the exception leaves
dump_signatures through `with h5.File(path, 'w')`, h5py closes the file cleanly, and everything done so far -- attributes,
datasets, the zero-filled space of signatures not yet written -- is in a well-formed HDF5 file (policy Eager / raised_disk
of the model, not AtClose).  With the marker written first that file LOADS, zero-filled (Props/C19.v
C19_marker_first_raised_refuted; the defect found in the code as found); with the marker written last it is refused at
every point (C19_marker_last_any_policy, C19_exception_death, C19_complete_any_policy).  Modes:
  exit / sigkill   os._exit / SIGKILL at the boundary (no unwinding; the streams that existed before)
  raise            the hook of storage call j raises the exception (KeyboardInterrupt, SystemExit, MemoryError, OSError(ENOSPC),
                   RuntimeError -- the type rotates), which then propagates out of dump_signatures / the command normally
  sigint, sigterm  (over_kill, cli_kill) a real SIGINT / SIGTERM is delivered to the child at store call j: Python raises
                   KeyboardInterrupt there (click turns it into Abort); SIGTERM kills at once unless the writer installed a handler
  source           the signature SOURCE raises at its i-th access by the writer: the class of the container that holds the
                   signatures is replaced by a subclass whose integer __getitem__ / sizes() (values / bounds of a SignatureArray
                   on the whole-array path) count and raise
Judged exactly as the property says: whatever is at the path after the writer died is refused by load_signatures or loads as
exactly the requested collection.  A point that is never reached (beyond the last call / access) is a completed write.

Kind `cli_kill` -- the same question asked of the WRITER PROCESS the property's anchors name, the command
`gambit signatures create -k K -p PREFIX -o OUT [-i IDS] [-m META] FILES...` as a whole (property only, no
model tie: the theorems speak about one dump_signatures call, the command may do anything with OUT before
it).  The real click command runs in a forked child (own process group) on FASTA files the harness wrote;
the child counts two classes of events in its main process and dies (os._exit or SIGKILL to itself, then
the whole group is killed; or by an exception / signal, see DEATH MODE) immediately BEFORE the j-th event of one class:
  calc   entry of calc_file_signatures, every progress-meter increment (= one more signature computed),
         return of calc_file_signatures                      -> kills before / during / after the calculation
  store  h5py File.__init__, AttributeManager.__setitem__, Group.create_dataset, Dataset.__setitem__,
         File.__exit__, counted from the START of the command  -> kills at every storage-call boundary of
         whatever the command writes, whenever it writes it
Checked per case, on OUT only: if OUT exists after the kill and load_signatures(OUT) succeeds, it holds
exactly the k-mer spec, signatures (harness's own naive_signature of the FASTA text), ids and metadata
requested; a refusal or a missing file is fine.  A run whose kill point is never reached completes and
must load as requested.

Dimension `pre` (kind `over_kill` for dump_signatures, field `pre` of `cli_kill` for the command) -- WHAT THE
OUTPUT PATH HOLDS BEFORE THE WRITER STARTS.  The theorems take what is on disk before close as `junk` with the
hypothesis `unparsable junk`; on a fresh path that is what libhdf5 leaves, on a path that already holds a file
it is true only because the writer truncates the file when it opens it (mode 'w').  A writer that updates an
existing HDF5 file in place leaves the OLD superblock and object headers (metadata is cached until close)
pointing at raw data it has partly overwritten: a file that loads as the old collection or as a mixture.
So the kill points are enumerated again with the path holding, before the write,
  none        nothing (the fresh path of the streams above)
  coll        the complete signature file of ANOTHER collection: fewer / as many / more signatures, integer /
              string / default ids, other metadata, any container and filter, same or another k-mer spec
  same        the complete file of the collection that is going to be written
  truncated   a byte prefix of a signature file
  raw         a non-HDF5 file (empty, text, FASTA, magic number + garbage, random bytes)
  hdf         another kind of HDF5 file (unrelated content; ids/values/bounds without the marker; a signature
              set in a sub-group; the marker without datasets)
The writer runs in a forked child that counts its storage-library calls from the open of the file (File.__init__,
attribute set/delete, create_dataset, create_group, dataset write, resize, delete, flush, File.__exit__) and dies
(any DEATH MODE) immediately before the j-th.  Judged exactly as the property says: once the writer HAS
STARTED ON THE PATH (one of its completed calls opened that path for writing, or the bytes at the path are no
longer those of the old file) what is at the path is absent, refused by load_signatures, or loads as exactly the
REQUESTED collection -- the old collection, or a mixture of old and new, being accepted is the violation (an
accepted file whose content cannot be read counts as a different collection).  A writer that died BEFORE it
touched the path (old file byte-identical, no write-open completed) has left no partial file: counted, not
judged.  A completed overwrite loads as requested.  Tie: after a KILL the remains are not a readable HDF5 file
(hypothesis `unparsable junk` of C19_atclose / C19_complete, reported as a broken obligation).

Dimension SOURCE CONTAINER (field `src` of a collection; kinds `crash` and `over_kill`) -- WHAT KIND OF OBJECT THE WRITER TAKES THE
SIGNATURES FROM.  dump_signatures accepts any AbstractSignatureArray, and HDF5Signatures.create looks at the type of what it is given (a
SignatureArray is written whole, a ReferenceSignatures brings its ids and metadata): a writer may treat one kind of source differently -- copy
the attributes of a source that is itself an open signature file, the marker among them, BEFORE the datasets -- and then the order of the
storage calls, and with it what an interrupted write leaves, depends on the source.  So every death mode is enumerated again with the requested
collection held by (build_source):
  view     a slice (for a SignatureArray a VIEW into the values of a larger array), an integer-array index, a mask of a larger SignatureArray /
           SignatureList, plain or under AnnotatedSignatures
  hdf5     an OPEN signature file: load_signatures(file), or HDF5Signatures(group) of the root group / of a sub-group; integer, string or
           default ids; the file filtered (gzip, lzf) or not, independently of the filter of the write (re-compressing); FOREIGN attributes
           (strings, integers, arrays, names next to the format's own), datasets and sub-groups in its group; directly, or under one or two
           AnnotatedSignatures that carry OTHER ids and metadata than the file
  custom   a user subclass of AbstractSignatureArray (only __len__ / __getitem__ / kmerspec / dtype), one that is a ReferenceSignatures itself,
           AnnotatedSignatures around one
The case describes the REQUESTED collection (what the model is asked about, what a loadable file must hold); the source file is made from that
description by the harness process (source_file) and opened in the child before the hooks are installed.  Checked as for every other case: (b) what is left is refused or is exactly the
requested collection; (a1) the observed calls are the model's dump_ops (marker LAST) whatever the source -- a writer that copies anything else
from the source breaks this tie even where no death point exposes it.  (`gambit signatures create` always writes the SignatureList it has
just computed: kind cli_kill has no such dimension.)

Coverage (streams of generate; quick / thorough):
  stream                              kind       writer            path before      death mode       death points                    payload
  every-boundary                      crash      dump_signatures   fresh            exit             every boundary + completed      small, 35 / 135 collections
  every-call-raise                    crash      dump_signatures   fresh            raise (5 types)  every storage call              small, 19 / all collections, both write paths
  source-exception                    crash      dump_signatures   fresh            source (5 types) every access of the source + 1  small, 15 / all collections, both write paths
  large-payload                       crash      dump_signatures   fresh            exit             4 / every boundary              multi-megabyte
  large-payload-raise                 crash      dump_signatures   fresh            raise            2 in the loop / every call      multi-megabyte
  cli-kill-every-point                cli_kill   signatures create fresh            exit, sigkill    every calc + store point        small
  cli-{raise,sigint,sigterm}-every-point  cli_kill  signatures create  fresh        raise, SIGINT, SIGTERM   every calc + store point (quick: all three for the first command, SIGINT for the second)
  cli-kill-random                     cli_kill   signatures create fresh            any of the five  4 / 10 per command              small
  overwrite-every-point               over_kill  dump_signatures   coll x3, same    exit             every store point + completed   small, both write paths
  overwrite-every-point-raise         over_kill  dump_signatures   coll, same, none / + the other two colls   raise (5 types)   every store point (open .. close)   small, both write paths
  overwrite-every-point-signal        over_kill  dump_signatures   coll / all five  SIGINT, SIGTERM alternating   every store point              small, both write paths
  overwrite-source-exception          over_kill  dump_signatures   coll, same, none / all five   source      every access of the source + 1  small, both write paths
  overwrite-random                    over_kill  dump_signatures   all six forms    any of the five  3 / 8 per collection            small
  overwrite-large-payload             over_kill  dump_signatures   coll (smaller, equal, larger), multi-megabyte
                                                                                    sigkill          3 in the per-signature phase / every point
                                                                                                                                     multi-megabyte
  overwrite-large-payload-raise       over_kill  dump_signatures   the same         raise MemoryError, SIGINT   1 in the per-signature phase / every point   multi-megabyte
  cli-kill-overwrite-every-point      cli_kill   signatures create coll             sigkill          every calc + store point        small
  cli-{sigint,raise}-overwrite-every-point  cli_kill  signatures create  coll      SIGINT, raise (thorough: + SIGTERM)   every store point (thorough: + calc points)
  cli-kill-overwrite-random           cli_kill   signatures create all but none     any of the five  3 per command                   small
  source-container-every-call-raise   crash      dump_signatures   fresh            raise (5 types)  every storage call of the longer write path + 1   small; 17 SOURCE CONTAINERS (5 view, 9 hdf5, 3 custom)
  source-container-source-exception   crash      dump_signatures   fresh            source (5 types) every 3rd + the last two / every access + 1    the same 17 sources
  source-container-every-boundary     crash      dump_signatures   fresh            exit             completed + every 5th / every boundary   the same 17 sources
  overwrite-source-container-every-point  over_kill  dump_signatures  1 of / each of: coll x3, same   raise (5 types), SIGINT, SIGTERM, exit, sigkill: rotating / each
                                                                                                     every 3rd / every store point   the same 17 sources
  overwrite-source-container-source-exception  over_kill  dump_signatures  the same  source           every 3rd / every access + 1    the same 17 sources
  source-container-random             crash, over_kill  dump_signatures  fresh; coll, same, truncated, raw, hdf   any    7 per collection, 10 / 200 random collections in random sources
  source-container-large-payload      over_kill / + crash  dump_signatures  fresh, coll   raise, SIGINT  3 in the per-signature phase / every point   multi-megabyte open signature file re-compressed
  corpus                              (runs first) cli kills during/after the calculation, the Eager witness, an overwrite of an
                                      integer-id collection killed in the per-signature phase (dump_signatures and the command);
                                      EXCEPTION DEATHS in the per-signature loop: the Coq witness of C19_marker_first_raised_refuted
                                      (Ctrl-C before the last per-signature write), disk full one call earlier, Ctrl-C raised by the
                                      signature source (the reproduction /var/tmp/c19probe of the defect), MemoryError of the source on
                                      the whole-array path, SystemExit / SIGINT while overwriting a previous version, Ctrl-C and
                                      SystemExit in the final write of the command; SOURCE CONTAINER: an open signature file (string ids, foreign
                                      attributes and a foreign dataset) re-compressed, Ctrl-C in the per-signature loop; a gzip-filtered open
                                      signature file re-saved over the previous version of the set, SIGINT in the per-signature phase"""
import json
import os
import shutil
import signal

from harness import c12

PROP = 'C19'
RULE = ('crash: (collection, boundary n, death mode) -> writer killed after n storage-library calls, or raising an exception '
        '(KeyboardInterrupt, SystemExit, MemoryError, OSError ENOSPC, RuntimeError) inside storage call n, or interrupted by such an '
        'exception of the signature source at its i-th access -> load_signatures on the '
        'remains; non-trivial: the writer died after >= 10 completed calls (all metadata attributes and the ids dataset written, i.e. '
        'with the format marker written first the file would be accepted once its metadata is on the disk) or the completed write of '
        'a collection with >= 2 signatures of different lengths'
        ' | cli_kill: (k, prefix, FASTA genomes, ids/metadata options, cores, progress, file-list channel, kill point) -> '
        '`gambit signatures create -o OUT` in a child process killed before the j-th calc event (before/during/after the '
        'signature calculation) or before the j-th storage-library call of the whole command -> OUT absent, refused by '
        'load_signatures, or loaded exactly as requested; non-trivial: >= 2 genomes with different non-empty signatures and '
        'the kill came after the command entered the signature calculation or made a storage call (or the run completed)'
        ' | over_kill / cli_kill with pre: (what the output path holds before the write: nothing, the complete file of another '
        'collection, of the same collection, a truncated signature file, a non-HDF5 file, another HDF5 file; collection; kill point) '
        '-> dump_signatures(path) / `gambit signatures create -o path` in a child process killed before its j-th storage-library call '
        '(counted from the open of the file) -> once the writer has started on the path (a completed call opened it for writing, or its '
        'bytes changed) the path is absent, refused by load_signatures, or loads exactly as requested -- never as the old collection or a '
        'mixture; a writer that died before touching the path is counted, not judged; non-trivial: the path held the complete file of '
        'a different collection and the writer had started on it when it was killed (or completed)'
        ' | source container (field src of the collection; crash and over_kill, every death mode, fresh and occupied path): the requested collection is '
        'handed to dump_signatures as a slice / integer-array index / mask of a larger SignatureArray or SignatureList, as an OPEN signature file '
        '(load_signatures(file) or HDF5Signatures(group), root or sub-group, integer / string / default ids, filtered or not, with foreign attributes, '
        'datasets and groups), as AnnotatedSignatures (one or two) over any of these carrying other ids and metadata than the file, or as a user subclass '
        'of AbstractSignatureArray / ReferenceSignatures -> same judgement (refused, or exactly the requested collection) and the same model call '
        'sequence (marker last) whatever the source'
        ' | death modes of over_kill / cli_kill: os._exit, SIGKILL, an exception raised inside the hook of the j-th event, a real SIGINT, a real '
        'SIGTERM, (over_kill) an exception of the signature source')
TRUSTED = ['libhdf5 / OS durability: nothing parseable reaches the disk before close (policy AtClose of '
           'Model/Store.v) -- an assumption of the theorems, observed by this enumeration at every boundary',
           'h5py call interception in the child process (AttributeManager.__setitem__, Group.create_dataset, '
           'Dataset.__setitem__, File.__exit__) sees every storage call HDF5Signatures.create makes',
           'os._exit models process death (no atexit handlers, no libhdf5 shutdown flush)',
           'exception deaths: the exception is raised by the harness\'s hook immediately BEFORE storage call j is made (the call itself is not '
           'made), or by a subclass the harness substitutes for the class of the signature container; once it has left dump_signatures / the '
           'click command the child is ended with os._exit (what the interpreter would still do at exit -- the file is already closed by the '
           '`with` block -- is not run); real SIGINT / SIGTERM are sent by the child to itself at the hook, with the dispositions of a fresh '
           'Python process (default_int_handler, SIG_DFL) restored first',
           'cli_kill: os._exit / SIGKILL of the command\'s main process followed by SIGKILL of its process group models the death '
           'of the writer (worker processes of the pool never touch OUT); the hooks (wrapper around every binding of '
           'gambit.sigs.calc.calc_file_signatures, increment of the progress-meter classes, the h5py entry points) are installed '
           'by the harness inside the child only and observe, they do not change what the command does; the expected content is '
           'the harness\'s own naive_signature of the FASTA text it wrote (C06/C12 cli establish that the completed command '
           'writes it)',
           'over_kill / pre: the pre-existing signature files are written by the implementation\'s own dump_signatures to a FRESH path in '
           'the harness process (the fresh-path round trip is C12\'s and the crash stream\'s subject); "the writer has started on the path" '
           'is read off the completed h5py.File(path, mode != r) calls of the child and a byte comparison (SHA-1) of the path before '
           'and after; the added h5py hooks (Group.__delitem__, AttributeManager.__delitem__, Group.create_group, Dataset.resize, '
           'File.flush) only add kill points for writers that use them',
           'source containers: a signature file that serves as the SOURCE of a write is produced in the harness process (no hooks there; the child '
           'opens it before it installs the counting hooks) by the implementation\'s own dump_signatures / HDF5Signatures.create on a fresh path (the fresh-path round trip is C12\'s '
           'subject) from the harness\'s description, then given foreign attributes / datasets / groups with h5py and opened read-only; what the '
           'output must hold is the harness\'s description, never something read back from that file; slices / indexes are made with the '
           'containers\' own __getitem__; the user subclasses are defined by the harness (user_classes); arm_source replaces the class of the '
           'innermost wrapper-or-container by a counting subclass of itself (isinstance relations are unchanged)'] + c12.TRUSTED[:1]
ASSUMPTIONS = ['the writer dies between two storage-library calls (a kill inside libhdf5 while it writes raw '
               'chunk data, and an exception raised half-way through one h5py call, are not enumerated)',
               'no explicit flush and no SWMR mode: HDF5Signatures.create / dump_signatures_hdf5 as in the repository',
               'cli_kill / over_kill: an older file left in place, byte for byte, by a writer that died before touching the output path '
               'is not a partial file (such kill points are counted, not judged); kills are placed at calc events and storage-library '
               'call boundaries of the writer\'s main process, not at arbitrary instructions; the pre-existing contents are the six '
               'forms listed in the module docstring (no symbolic links, no read-only or concurrently open files)',
               'source containers: the forms listed under SOURCE CONTAINER in the module docstring (an open signature file as the source is a '
               'different file from the output path; writing a file onto itself is not enumerated); `gambit signatures create` always writes '
               'the SignatureList it computed, so cli_kill has no source dimension'] + c12.ASSUMPTIONS[:2]
BATCH = 40
SHRINK = False


def setup(ctx):
	c12.setup(ctx)


def render_call(kind, name, info):
	"""a storage call in the wire format of Entry/E19.v (vop), or its short form"""
	return [kind, name] + info


# ---- death by an exception (mode `raise`, `source`; kills `raise`, `sigint`, `sigterm`) ---------------------------------

EXCS = ('KeyboardInterrupt', 'SystemExit', 'MemoryError', 'ENOSPC', 'RuntimeError')
RAISE_EXIT = 18


def make_exc(name):
	"""the exception a dying writer raises: Ctrl-C, sys.exit() of a signal handler, out of memory, disk full, anything else"""
	import errno
	if name == 'ENOSPC':
		return OSError(errno.ENOSPC, os.strerror(errno.ENOSPC))
	if name == 'SystemExit':
		return SystemExit(1)
	return {'KeyboardInterrupt': KeyboardInterrupt, 'MemoryError': MemoryError, 'RuntimeError': RuntimeError}[name]('injected by the C19 harness')


def arm_source(obj, at, exc, fired):
	"""makes the signature SOURCE raise at its `at`-th access by the writer (counted from 0): an integer __getitem__ or a sizes()
	call of the container that holds the signatures (for a SignatureArray written through the whole-array path: a read of its
	`values` / `bounds`).  The class of the container is replaced by a subclass of itself; nothing else changes."""
	import numpy as np
	from gambit.sigs import AnnotatedSignatures, SignatureArray
	inner = obj.signatures if isinstance(obj, AnnotatedSignatures) else obj
	cls = type(inner)
	whole = isinstance(obj, SignatureArray)
	seen = [0]

	def tick():
		seen[0] += 1
		if seen[0] - 1 == at and not fired[0]:
			fired[0] = True
			raise make_exc(exc)

	class Source(cls):
		def __getitem__(self, i):
			if isinstance(i, (int, np.integer)):
				tick()
			return cls.__getitem__(self, i)

		def sizes(self):
			tick()
			return cls.sizes(self)

		def __getattribute__(self, name):
			if whole and name in ('values', 'bounds'):
				tick()
			return cls.__getattribute__(self, name)

	Source.__name__, Source.__qualname__ = cls.__name__, cls.__qualname__
	inner.__class__ = Source


# ---- the SOURCE of the write (dimension SOURCE CONTAINER: field `src` of a collection) ---------------------------------------

SRC_FORMS = ('view', 'hdf5', 'custom')
_user_classes = []


def user_classes():
	"""a user's own signature containers: a minimal subclass of AbstractSignatureArray (only what the abstract class demands: __len__,
	__getitem__, kmerspec, dtype; sizes() / sizeof() are the inherited defaults) and one that is a ReferenceSignatures as well"""
	if not _user_classes:
		import numpy as np
		from gambit.sigs.base import AbstractSignatureArray, ReferenceSignatures

		class UserSignatures(AbstractSignatureArray):
			def __init__(self, arrs, kmerspec, dtype):
				self._arrs, self.kmerspec, self.dtype = list(arrs), kmerspec, np.dtype(dtype)

			def __len__(self):
				return len(self._arrs)

			def __getitem__(self, i):
				if isinstance(i, (int, np.integer)):
					return self._arrs[i]
				if isinstance(i, slice):
					return UserSignatures(self._arrs[i], self.kmerspec, self.dtype)
				return UserSignatures([self._arrs[int(j)] for j in np.arange(len(self))[i]], self.kmerspec, self.dtype)

		class UserReference(UserSignatures, ReferenceSignatures):
			def __init__(self, arrs, kmerspec, dtype, ids, meta):
				UserSignatures.__init__(self, arrs, kmerspec, dtype)
				self.ids, self.meta = ids, meta

		_user_classes.extend([UserSignatures, UserReference])
	return _user_classes


def build_source(coll, srcfile=None):
	"""the object handed to dump_signatures (srcfile: the signature file made by source_file for an hdf5 source).  `coll` describes the
	REQUESTED collection (k, prefix, dtype, sigs, ids, meta; `container` = the plain container with the same write path and the same carrying
	of ids / metadata: what the model is asked about); its optional field `src` says in what kind of container the writer finds it:
	  view    {lead, trail, how}   the base SignatureArray / SignatureList holds lead + sigs + trail and is sliced (how = slice: for a
	                               SignatureArray a VIEW of the larger values array), indexed with an integer array or a mask
	  hdf5    {comp, group, open, foreign, wrap, file_ids, file_meta}
	                               an OPEN signature file: written first (source_file: by the implementation's own dump_signatures /
	                               HDF5Signatures.create to a fresh path, with filter `comp`, in the root group or the sub-group `group`), given
	                               foreign attributes / datasets / groups (h5py), opened by load_signatures (open = load) or HDF5Signatures(group)
	                               (open = class).  wrap = null: the file holds the requested ids and metadata; wrap = annot / annot_annot:
	                               the file holds OTHER ids and metadata (file_ids, file_meta) and AnnotatedSignatures wrappers around the
	                               open file carry the requested ones
	  custom  {ref, wrap}          a user subclass of AbstractSignatureArray; ref: it is a ReferenceSignatures itself (carries ids / metadata);
	                               wrap = annot: AnnotatedSignatures around it
	No src: c12.build (SignatureArray, SignatureList, AnnotatedSignatures over either)."""
	import numpy as np
	src = coll.get('src')
	plain = {f: v for f, v in coll.items() if f != 'src'}
	if not src:
		return c12.build(plain)
	from gambit.sigs import AnnotatedSignatures, load_signatures
	cont, form = coll['container'], src['form']
	annot = cont.startswith('annot')

	def wrapped(inner, levels=1):
		"""AnnotatedSignatures with the requested ids / metadata (as c12.build makes them) around `inner`"""
		w = c12.build(dict(plain, container='annot_list'))
		w.signatures = inner
		for _ in range(levels - 1):
			w = AnnotatedSignatures(w, w.ids, w.meta)
		return w

	if form == 'view':
		lead, trail, n = src.get('lead', []), src.get('trail', []), len(coll['sigs'])
		big = c12.build(dict(plain, sigs=lead + coll['sigs'] + trail, container='array' if cont.endswith('array') else 'list'))
		a, how = len(lead), src.get('how', 'slice')
		if how == 'slice':
			inner = big[a:a + n]
		elif how == 'index':
			inner = big[np.arange(a, a + n)]
		else:
			inner = big[np.array([a <= i < a + n for i in range(len(big))], dtype=bool)]
		return wrapped(inner) if annot else inner
	if form == 'custom':
		UserSignatures, UserReference = user_classes()
		ks, dt = c12.build(dict(plain, container='list')).kmerspec, np.dtype(coll['dtype'])
		arrs = [np.array(s, dtype=dt) for s in coll['sigs']]
		if src.get('ref'):
			w = c12.build(dict(plain, container='annot_list'))
			return UserReference(arrs, ks, dt, w.ids, w.meta)
		inner = UserSignatures(arrs, ks, dt)
		return wrapped(inner) if annot else inner
	if form != 'hdf5' or not annot:
		raise ValueError(f'source {src} of a {cont}')
	import h5py
	from gambit.sigs.hdf5 import HDF5Signatures
	wrap, group = src.get('wrap'), src.get('group')
	if src.get('open', 'load') == 'load' and not group:
		inner = load_signatures(srcfile)
	else:
		f = h5py.File(srcfile, 'r')
		inner = HDF5Signatures(f[group] if group else f)
	return wrapped(inner, 2 if wrap == 'annot_annot' else 1) if wrap else inner


def source_file(coll, key, cache):
	"""the signature file an hdf5 source is the open form of (None for the other sources): made in the harness process -- no counting hooks
	here -- once per distinct collection of a batch (`key`), from the harness's description of the requested collection (wrap: of the OTHER
	ids / metadata the file holds); the children open it read-only; the batch function removes it"""
	src = coll.get('src')
	if not src or src['form'] != 'hdf5':
		return None
	if key in cache:
		return cache[key]
	import numpy as np
	import h5py
	from gambit.sigs import dump_signatures
	from gambit.sigs.hdf5 import HDF5Signatures
	path = c12.tmp('src') + '.gs'
	content = dict({f: v for f, v in coll.items() if f != 'src'}, container='annot_list', compression=None)
	if src.get('wrap'):
		content.update(ids=src.get('file_ids'), meta=src.get('file_meta'))
	kw = {} if src.get('comp') is None else dict(compression=src['comp'])
	group = src.get('group')
	if group:
		with h5py.File(path, 'w') as f:
			HDF5Signatures.create(f.create_group(group), c12.build(content), **kw)
	else:
		dump_signatures(path, c12.build(content), **kw)
	foreign = src.get('foreign') or {}
	if foreign:
		with h5py.File(path, 'r+') as f:
			g = f[group] if group else f
			for name, v in foreign.get('attrs', {}).items():
				g.attrs[name] = np.array(v) if isinstance(v, list) else v
			for name, v in foreign.get('dsets', {}).items():
				if v and isinstance(v[0], str):
					g.create_dataset(name, data=np.array(v, dtype=object), dtype=h5py.string_dtype())
				else:
					g.create_dataset(name, data=np.array(v, dtype='i8'))
			for name in foreign.get('groups', []):
				g.create_group(name).attrs['gambit_signatures_version'] = 1
	cache[key] = path
	return path


def child_main(case, path, n, logfd, short, death=None, srcfile=None):
	"""runs in the forked child: patch, write, die at boundary n -- by os._exit, or (death = {mode: raise, exc}) by raising
	exc inside the hook of storage call n, or (death = {mode: source, at, exc}) by an exception of the signature source"""
	import numpy as np
	import h5py
	from gambit.sigs import dump_signatures
	done = [0]
	fired = [False]
	mode = death['mode'] if death else 'exit'
	# the source is made BEFORE the hooks are installed (an open signature file as the source is opened here: not a call of the write)
	obj = build_source(case, srcfile)
	oa, oc, od, ox = (h5py.AttributeManager.__setitem__, h5py.Group.create_dataset, h5py.Dataset.__setitem__, h5py.File.__exit__)
	other = {}

	def gate():
		if n is not None and done[0] == n and not fired[0]:
			if mode == 'raise':
				fired[0] = True
				raise make_exc(death['exc'])
			os._exit(17)

	def log(rec):
		os.write(logfd, (json.dumps(rec) + '\n').encode())
		done[0] += 1

	def ints(a, t=None):
		a = np.asarray(a)
		code = c12.DT.get((np.dtype(t) if t is not None else a.dtype).str[1:], -1)
		return code, [int(x) for x in a.reshape(-1)]

	def pa(self, name, value):
		gate()
		r = oa(self, name, value)
		if isinstance(value, h5py.Empty):
			v = [2]
		elif isinstance(value, str):
			v = [1, c12.S(value)]
		else:
			try:
				v = [0, int(value)]
			except (TypeError, ValueError):
				v = [9, repr(value)[:80]]   # not a value the writer of the unchanged code stores (the call sequence then differs from the model's)
		log([0, c12.key(c12.AK, name, other), v])
		return r

	def pc(self, name, shape=None, dtype=None, data=None, **kw):
		gate()
		r = oc(self, name, shape=shape, dtype=dtype, data=data, **kw)
		k = c12.key(c12.DK, name, other)
		if data is not None:
			a = np.asarray(data)
			if a.dtype.kind == 'O' or (dtype is not None and np.dtype(dtype).kind == 'O'):
				strs = [x.decode() if isinstance(x, bytes) else str(x) for x in a]
				log([1, k, -1, len(strs)] if short else [1, k, [1, [c12.S(x) for x in strs]]])
			else:
				code, vals = ints(a, dtype)
				log([1, k, code, len(vals)] if short else [1, k, [0, code, vals]])
		else:
			code = c12.DT.get(np.dtype(dtype).str[1:], -1)
			log([2, k, code, int(shape if not isinstance(shape, tuple) else shape[0])])
		return r

	def pd(self, args, val):
		gate()
		r = od(self, args, val)
		k = c12.key(c12.DK, self.name.lstrip('/'), other)
		if isinstance(args, slice):
			a = 0 if args.start is None else int(args.start)
			b = int(self.shape[0]) if args.stop is None else int(args.stop)
		else:
			a, b = int(args), int(args) + 1
		vals = [int(x) for x in np.asarray(val).reshape(-1)]
		log([3, k, a, b, len(vals)] if short else [3, k, a, b, vals])
		return r

	def px(self, *a):
		if mode == 'exit':
			# a writer that raises leaves the `with` block through this very call: the exception deaths are placed at the storage calls
			gate()
		return ox(self, *a)

	h5py.AttributeManager.__setitem__ = pa
	h5py.Group.create_dataset = pc
	h5py.Dataset.__setitem__ = pd
	h5py.File.__exit__ = px
	if mode == 'source':
		arm_source(obj, death['at'], death['exc'], fired)
	kw = {} if case.get('compression') is None else dict(compression=case['compression'])
	try:
		dump_signatures(path, obj, **kw)
	except BaseException as e:
		if not fired[0]:
			raise
		# the injected exception came out of dump_signatures (the `with h5.File` block has closed the file): the writer is dead
		os.write(logfd, (json.dumps(['RAISED', type(e).__name__]) + '\n').encode())
		os._exit(RAISE_EXIT)
	os._exit(0)


def run_writer(case, path, n, short, death=None, srcfile=None):
	"""-> (exit code of the child, list of observed calls)"""
	logpath = path + '.log'
	logfd = os.open(logpath, os.O_WRONLY | os.O_CREAT | os.O_TRUNC, 0o600)
	pid = os.fork()
	if pid == 0:
		try:
			child_main(case, path, n, logfd, short, death, srcfile)
		except BaseException as e:
			try:
				os.write(logfd, (json.dumps(['EXC', repr(e)]) + '\n').encode())
			finally:
				os._exit(3)
		os._exit(4)
	os.close(logfd)
	_, st = os.waitpid(pid, 0)
	code = os.waitstatus_to_exitcode(st)
	with open(logpath) as f:
		calls = [json.loads(l) for l in f if l.strip()]
	os.unlink(logpath)
	return code, calls


def k_crash(ctx, cases):
	import numpy as np
	from gambit.sigs import load_signatures
	# model: the call list of every collection in this batch (once per distinct collection), in the repaired order (dump_ops,
	# marker last) and in the order as found (dump_ops_v0, marker first; only to name the difference)
	colls = {}
	for c in cases:
		key = json.dumps(c['coll'], sort_keys=True)
		if key not in colls:
			colls[key] = c
	full = {key: expand(c['coll']) for key, c in colls.items()}
	reqs = []
	for key, c in colls.items():
		arg = [c12.path_of(full[key]), c12.mcoll(full[key])]
		reqs += [((1902 if c.get('short') else 1901), arg), ((1908 if c.get('short') else 1907), arg)]
	ops_ans = ctx.model(reqs) if ctx.model_ok else None
	ops = {key: ops_ans[2 * i] for i, key in enumerate(colls)} if ops_ans else {}
	ops_v0 = {key: ops_ans[2 * i + 1] for i, key in enumerate(colls)} if ops_ans else {}
	results = []
	srcs = {}
	for c in cases:
		coll, n, short = full[json.dumps(c['coll'], sort_keys=True)], c.get('n'), bool(c.get('short'))
		path = c12.tmp('cr') + '.gs'
		key = json.dumps(c['coll'], sort_keys=True)
		code, calls = run_writer(coll, path, n, short, c.get('death'), source_file(coll, key, srcs))
		raised = calls.pop()[1] if calls and calls[-1][0] == 'RAISED' else None
		exists = os.path.exists(path)
		head = b''
		if exists:
			with open(path, 'rb') as f:
				head = f.read(64)
		cl = c12.classify_raw(path, head) if exists else 0
		got = load_remains(load_signatures, path, coll, None, None, None)[0]
		results.append((c, code, calls, cl, head, got, raised))
		c12._rm(path)
	for p in srcs.values():
		c12._rm(p)
	reqs, at = [], []
	tiny = dict(k=5, prefix='AT', dtype='u2', sigs=[[1]], container='list', compression=None, ids=None, meta=None)
	for c, code, calls, cl, head, got, raised in results:
		at.append(len(reqs))
		coll = full[json.dumps(c['coll'], sort_keys=True)]
		p, mc = c12.path_of(coll), c12.mcoll(coll)
		if c.get('death') and code == RAISE_EXIT:
			# the writer raised after len(calls) completed calls and the file was closed: Raised (firstn m dump_ops) of Proofs/C19.v
			m = len(calls)
			if c.get('short'):
				p, mc, m = 1, c12.mcoll(tiny), min(m, 3)
			reqs += [(1909, [p, mc, m]), (1910, [p, mc, m])]
		elif c.get('n') is None or c.get('death'):
			reqs += [(1904, [p, mc]), (1904, [p, mc])]
		else:
			if c.get('short'):
				# the model's answer under AtClose does not depend on the payload (C19_atclose is stated for every
				# collection); a multi-megabyte collection is not shipped to the model once per boundary
				p, mc = 1, c12.mcoll(tiny)
			junk = [cl if cl is not None else 0, list(head)]
			# what libhdf5 left decides the policy the model is asked about: remains it cannot read = AtClose;
			# a readable HDF5 file = some of the completed calls are on the disk although the file was never closed (a writer that
			# flushes, SWMR, ...): FlushedAt k for some k <= n, asked for k = n (Eager) and for a k < n.
			# With the marker last ALL of these are proved safe (C19_marker_last_any_policy), so none is an assumption of the verdict.
			nn = min(c['n'], 3) if c.get('short') else c['n']
			for pol in ([0] if cl is not None else [1, 2 + max(nn - 1, 0)]):
				reqs += [(1903, [pol, p, mc, nn, junk]), (1906, [pol, p, mc, nn, junk])]
	ans = ctx.model(reqs) if ctx.model_ok else None
	canon = lambda l: [[o[0], o[1], c12.canon_extra(o[2])] if o[:2] == [0, 8] else o for o in l]

	def same_calls(calls, want, key, coll, what):
		"""(a1) the observed calls are the model's; False (and a broken obligation) otherwise"""
		if canon(calls) == canon(want):
			return True
		v0 = ops_v0.get(key)
		j = next((j for j in range(min(len(calls), len(want))) if calls[j] != want[j]), min(len(calls), len(want)))
		if v0 is not None and canon(calls) == canon(v0[:len(calls)]):
			ctx.broke('correspondence crash (the storage calls come in the order as found, dump_ops_v0: format marker FIRST -- unsafe when the '
			          'writer dies by an exception, Props/C19.v C19_marker_first_raised_refuted; the model of the repaired code writes it LAST)',
			          f'{what}: call {j} is {calls[j:j + 1]}, dump_ops has {want[j:j + 1]} on {coll}')
		else:
			ctx.broke('correspondence crash (sequence of storage calls != dump_ops)',
			          f'{what}: first difference at call {j}: impl {calls[j:j + 1]} model {want[j:j + 1]} (impl {len(calls)} calls, model {len(want)}) on {coll}')
		return False

	for i, (c, code, calls, cl, head, got, raised) in enumerate(results):
		key = json.dumps(c['coll'], sort_keys=True)
		coll, n, death = full[key], c.get('n'), c.get('death')
		mops = ops.get(key)
		total = len(mops) if mops is not None else None
		lens = {len(x) for x in coll['sigs']}
		if death:
			# non-trivial: the writer died by the exception after the ids dataset was created (all attributes of the order as found
			# written), or the exception point was never reached and the write of >= 2 different signatures completed
			ctx.case(c, nontrivial=(code == RAISE_EXIT and len(calls) >= 10) or (code == 0 and len(lens) >= 2))
		else:
			ctx.case(c, nontrivial=(n is not None and n >= 10) or (n is None and len(lens) >= 2))
		if code == 3 and calls and calls[-1][0] == 'EXC':
			ctx.broke('fault injection (writer raised in the child)', f'{calls[-1]} at boundary {n}, death {death}')
			continue
		completed = n is None and not death
		if death:
			# ---- death by an exception: raised inside the hook of storage call n, or by the signature source at its at-th access
			where = (f'raised {death["exc"]} at storage call {n}' if death['mode'] == 'raise' else
			         f'was interrupted by {death["exc"]} raised by the signature source at its access {death["at"]}')
			if code == 0:
				completed = True   # the point lies beyond the last call / access: an undisturbed write, judged as such below
			elif code != RAISE_EXIT or raised is None:
				ctx.broke('fault injection (exception death)', f'child exit {code}, {where}: {calls[-1:]}')
				continue
			else:
				m = len(calls)
				if got[0] == 'ok' and got[1]:
					ctx.violation('crash', c, f'a writer that {where} ({raised} left dump_signatures after {m} completed storage calls; the `with h5.File` '
					              f'block closed the file) left a file that is ACCEPTED and loads as a different collection: {"; ".join(got[1][:3])}',
					              impl=got[2], spec='refused', model=ans and c12.mres(ans[at[i]][0]),
					              model_of_the_order_as_found=ans and c12.mres(ans[at[i] + 1][2]))
					continue
				if ans is None or mops is None:
					continue
				if not same_calls(calls, mops[:m], key, coll, f'writer that {where}'):
					continue
				if cl is not None:
					ctx.broke('model raised_disk (a writer that raises leaves a well-formed HDF5 file: clean close)',
					          f'writer that {where} left a file libhdf5 cannot read (class {cl})')
					continue
				mfix, mcur = c12.mres(ans[at[i]][0]), c12.mres(ans[at[i]][1])
				if got[0] == 'ok':
					# accepted and identical to the requested collection: only when the model says so too (all calls done)
					if mfix[0] != 'ok' and not c.get('short'):
						ctx.broke('correspondence crash (exception death: the model refuses the file, load_signatures accepts it -- as the requested collection)',
						          f'writer that {where} after {m} calls; model {mfix} on {coll}')
				elif got not in (mfix, mcur):
					ctx.broke('correspondence crash (error class of the refusal after an exception death)', f'writer that {where}: impl {got} model repaired {mfix} / unrepaired {mcur}')
				continue
		# ---- the writer itself
		if completed:
			if code != 0:
				ctx.violation('crash', c, f'uninterrupted write failed (child exit {code}): {calls[-1:] }', impl=code, spec=0)
				continue
		elif code == 0 and total is not None and n > total:
			ctx.broke('correspondence crash (number of storage calls)', f'writer finished after {len(calls)} calls, model has {total}: {coll}')
			continue
		elif code != 17:
			ctx.broke('fault injection', f'child exit {code} at boundary {n}: {calls[-1:]}')
			continue
		# ---- (b) the property
		if completed:
			if got[0] != 'ok' or got[1]:
				ctx.violation('crash', c, f'the file of a completed write does not load as what was written: {got[1] if got[0] == "ok" else got}',
				              impl=got, spec='loads as the written collection')
				continue
		else:
			if got[0] == 'ok' and got[1]:
				ctx.violation('crash', c, f'writer killed after {n} storage calls left a file that is ACCEPTED and loads as a different '
				              f'collection: {"; ".join(got[1][:3])}', impl=got[2], spec='refused', model=ans and c12.mres(ans[at[i]]))
				continue
		if ans is None or mops is None:
			continue
		# ---- (a1) observed calls = model prefix
		if not same_calls(calls, mops if completed else mops[:n], key, coll, 'completed write' if completed else f'writer killed at boundary {n}'):
			continue
		if not completed and total is not None and n > total:
			ctx.broke('correspondence crash (boundary beyond the model call list)', f'n={n} total={total}')
			continue
		# ---- (a2) error class under AtClose (repaired or unrepaired reader)
		mfix, mcur = c12.mres(ans[at[i]]), c12.mres(ans[at[i] + 1])
		if completed:
			if mfix[0] != 'ok' or (mfix[1][5], mfix[1][6]) != ([v for s in coll['sigs'] for v in s], _bounds(coll['sigs'])):
				ctx.broke('model closed_disk/load_file != written collection', f'{mfix} on {coll}')
		else:
			ctx.count('crash:remains-unreadable-for-libhdf5(policy AtClose)' if cl is not None else 'crash:completed-calls-on-disk-before-close(policy FlushedAt k)')
			answers = [mfix, mcur] + ([c12.mres(ans[at[i] + 2]), c12.mres(ans[at[i] + 3])] if cl is None else [])
			if got[0] == 'ok':
				# accepted, and identical to the requested collection: only when the model says so too (every call done and on the disk)
				if mfix[0] != 'ok' and not c.get('short'):
					ctx.broke('correspondence crash (a killed writer left a file that load_signatures accepts -- as the requested collection -- and the model refuses)',
					          f'killed after {n} calls, policy {"AtClose" if cl is not None else "Eager"}: model {mfix} on {coll}')
			elif got not in answers:
				ctx.broke('correspondence crash (error class of the refusal)', f'killed after {n} calls, policy {"AtClose" if cl is not None else "FlushedAt k, k = n or n - 1"}: '
				          f'impl {got} model {answers}')


_expanded = {}


def expand(coll):
	"""collections with a large payload are described by a seed (cases stay small and replayable)"""
	if 'sigs_np' in coll:
		# the same through NumPy's legacy generator (a fixed stream for a seed), memoised: [seed, number, max length, top]
		import numpy as np
		key = json.dumps(coll['sigs_np'])
		if key not in _expanded:
			if len(_expanded) >= 8:
				_expanded.clear()
			seed, nsig, per, top = coll['sigs_np']
			r = np.random.RandomState(seed)
			_expanded[key] = [np.unique(r.randint(0, top, size=r.randint(per // 2, per + 1))).tolist() for _ in range(nsig)]
		out = {k: v for k, v in coll.items() if k != 'sigs_np'}
		out['sigs'] = _expanded[key]
		return out
	if 'sigs_gen' not in coll:
		return coll
	import random
	seed, nsig, per, top = coll['sigs_gen']
	r = random.Random(seed)
	out = {k: v for k, v in coll.items() if k != 'sigs_gen'}
	out['sigs'] = [sorted(r.sample(range(top), r.randint(per // 2, per))) for _ in range(nsig)]
	return out


def _bounds(sigs):
	b = [0]
	for s in sigs:
		b.append(b[-1] + len(s))
	return b


# ---- the command `gambit signatures create` as the writer ---------------------------------------------------------

KILL_EXIT = 17


KILLS = ('exit', 'sigkill', 'raise', 'sigint', 'sigterm')


def event_hooks(at, kill, logfd, classes, exc=None):
	"""the counting hooks of a forked writer: gate(cls) is called immediately before an event of class cls in the writer's main
	process and makes it die there when that is the chosen point `at` = [cls, j]; log(cls, what) records a completed event.
	Kinds of death (`kill`):
	  exit     os._exit                         sigkill  SIGKILL to itself
	  raise    the exception `exc` (EXCS) is raised inside the hook, i.e. it comes out of the storage-library call / the progress
	           meter like an I/O error, a MemoryError or a KeyboardInterrupt would, and propagates through the writer normally
	  sigint   a real SIGINT is delivered to the process (Python's handler raises KeyboardInterrupt at that point)
	  sigterm  a real SIGTERM is delivered (default disposition: the process dies at once; a handler installed by the writer --
	           e.g. one that calls sys.exit() -- runs instead)
	fired[0] tells the caller that the death point was reached (an exception that leaves the writer afterwards is the death)."""
	import time
	main = os.getpid()
	seen = {c: 0 for c in classes}
	fired = [False]

	def gate(cls):
		if os.getpid() != main:
			return False
		if at is not None and at[0] == cls and seen[cls] == at[1] and not fired[0]:
			fired[0] = True
			if kill == 'raise':
				raise make_exc(exc or 'KeyboardInterrupt')
			if kill in ('sigint', 'sigterm'):
				os.kill(main, signal.SIGINT if kill == 'sigint' else signal.SIGTERM)
				# the signal is handled here: the default SIGTERM kills, Python's SIGINT handler (or a handler of the writer) raises
				for _ in range(1000):
					time.sleep(0.01)
				os._exit(19)   # the signal was ignored
			if kill == 'sigkill':
				os.kill(main, signal.SIGKILL)
				while True:
					signal.pause()
			os._exit(KILL_EXIT)
		return True

	def log(cls, what):
		os.write(logfd, (json.dumps([cls] + (what if isinstance(what, list) else [what])) + '\n').encode())
		seen[cls] += 1

	def hooked(cls, what, fn):
		def w(*a, **kw):
			mine = gate(cls)
			r = fn(*a, **kw)
			if mine:
				log(cls, what if isinstance(what, str) else what(*a, **kw))
			return r
		return w

	return gate, log, hooked, fired


def died_as_told(code, kill, events):
	"""did the child die the way the case says?  exit / sigkill: that exit status; raise / sigint: the exception left the writer
	(RAISE_EXIT, logged as DIED); sigterm: killed by the signal, or -- a writer with a SIGTERM handler -- an exception left it"""
	if kill == 'exit':
		return code == KILL_EXIT
	if kill == 'sigkill':
		return code == -signal.SIGKILL
	if kill == 'sigterm' and code == -signal.SIGTERM:
		return True
	return code == RAISE_EXIT and any(e[0] == 'DIED' for e in events)


def wait_child(pid, limit=300):
	"""waitpid with a limit (a writer that hangs after a signal is killed and reported)"""
	import time
	t0 = time.time()
	while True:
		r, st = os.waitpid(pid, os.WNOHANG)
		if r == pid:
			return st
		if time.time() - t0 > limit:
			for f in (lambda: os.killpg(pid, signal.SIGKILL), lambda: os.kill(pid, signal.SIGKILL)):
				try:
					f()
				except (ProcessLookupError, PermissionError):
					pass
			return os.waitpid(pid, 0)[1]
		time.sleep(0.002)


def _opened(self, name, mode='r', *a, **kw):
	"""label of a completed h5py.File(...): the mode and the path (h5py also makes File objects for handles it already has)"""
	try:
		p = os.fspath(name)
	except TypeError:
		return 'open-handle'
	return [f'open {mode}', p.decode(errors='surrogateescape') if isinstance(p, bytes) else p]


def install_store_hooks(hooked):
	"""store events: the h5py entry points through which a writer changes a file (the unchanged code uses the first five)"""
	import h5py
	h5py.File.__init__ = hooked('store', _opened, h5py.File.__init__)
	h5py.AttributeManager.__setitem__ = hooked('store', lambda self, name, value: f'attr {name}', h5py.AttributeManager.__setitem__)
	h5py.Group.create_dataset = hooked('store', lambda self, name, *a, **kw: f'create {name}', h5py.Group.create_dataset)
	h5py.Dataset.__setitem__ = hooked('store', lambda self, *a: f'write {self.name}', h5py.Dataset.__setitem__)
	h5py.File.__exit__ = hooked('store', 'close', h5py.File.__exit__)
	h5py.Group.__delitem__ = hooked('store', lambda self, name: f'delete {name}', h5py.Group.__delitem__)
	h5py.AttributeManager.__delitem__ = hooked('store', lambda self, name: f'attr-delete {name}', h5py.AttributeManager.__delitem__)
	h5py.Group.create_group = hooked('store', lambda self, name, *a, **kw: f'create-group {name}', h5py.Group.create_group)
	h5py.Dataset.resize = hooked('store', lambda self, *a, **kw: f'resize {self.name}', h5py.Dataset.resize)
	h5py.File.flush = hooked('store', 'flush', h5py.File.flush)


def cli_child_main(args, at, kill, logfd, exc=None):
	"""runs in the forked child: install the counting hooks, run the click command, die before the j-th event of a class"""
	import sys
	import gambit.cli
	import gambit.sigs.calc as calc
	import gambit.util.progress as gprog
	os.setpgid(0, 0)
	null = os.open(os.devnull, os.O_RDWR)
	for fd in (0, 1, 2):
		os.dup2(null, fd)
	# the dispositions a freshly started `gambit` process has (whatever the harness process had installed)
	signal.signal(signal.SIGINT, signal.default_int_handler)
	signal.signal(signal.SIGTERM, signal.SIG_DFL)
	gate, log, hooked, fired = event_hooks(at, kill, logfd, ('calc', 'store'), exc)

	# calc events: entry / return of calc_file_signatures (every binding of the function in a gambit module) ...
	real = calc.calc_file_signatures

	def calc_file_signatures(*a, **kw):
		if gate('calc'):
			log('calc', 'enter')
		r = real(*a, **kw)
		if gate('calc'):
			log('calc', 'return')
		return r

	for name, mod in list(sys.modules.items()):
		if (name == 'gambit' or name.startswith('gambit.')) and mod is not None:
			for attr, val in list(vars(mod).items()):
				if val is real:
					setattr(mod, attr, calc_file_signatures)
	# ... and every increment of a progress meter (one more signature is there)
	for cls in [c for c in vars(gprog).values() if isinstance(c, type) and issubclass(c, gprog.AbstractProgressMeter)
	            and 'increment' in vars(c) and not getattr(c.increment, '__isabstractmethod__', False)]:
		cls.increment = hooked('calc', 'signature', cls.increment)
	install_store_hooks(hooked)
	try:
		gambit.cli.cli.main(args=args, prog_name='gambit', standalone_mode=False)
	except BaseException as e:
		if fired[0]:
			# the exception of the death point (or what click made of it: Abort for a KeyboardInterrupt) has left the command
			os.write(logfd, (json.dumps(['DIED', type(e).__name__]) + '\n').encode())
			os._exit(RAISE_EXIT)
		if isinstance(e, SystemExit):
			os._exit(0 if e.code in (None, 0) else 5)
		raise
	os._exit(0)


def run_cli_writer(args, at, kill, logpath, exc=None):
	"""-> (exit code of the child (negative: signal), events that completed in its main process)"""
	logfd = os.open(logpath, os.O_WRONLY | os.O_CREAT | os.O_TRUNC, 0o600)
	pid = os.fork()
	if pid == 0:
		try:
			cli_child_main(args, at, kill, logfd, exc)
		except BaseException as e:
			try:
				os.write(logfd, (json.dumps(['EXC', repr(e)]) + '\n').encode())
			finally:
				os._exit(3)
		os._exit(4)
	os.close(logfd)
	st = wait_child(pid)
	try:
		# the pool workers die with the command (own process group, see cli_child_main)
		os.killpg(pid, signal.SIGKILL)
	except (ProcessLookupError, PermissionError):
		pass
	with open(logpath) as f:
		events = [json.loads(l) for l in f if l.strip()]
	return os.waitstatus_to_exitcode(st), events


def cli_setup(c, d):
	"""writes the input files of one case under d -> (args, out, what OUT must hold if it loads)"""
	width = c.get('width')
	names = []
	for i, contigs in enumerate(c['genomes']):
		names.append(f'g{i}.fasta')
		with open(os.path.join(d, names[-1]), 'w') as f:
			for j, s in enumerate(contigs):
				f.write(f'>c{j} contig {j}\n')
				for p in range(0, len(s), width or max(len(s), 1)):
					f.write(s[p:p + (width or len(s))] + '\n')
	out = os.path.join(d, 'out.gs')
	args = ['signatures', 'create', '-k', str(c['k']), '-p', c['prefix'], '-o', out, '-c', str(c.get('cores', 1)),
	        '--progress' if c.get('progress') else '--no-progress']
	if c.get('ids') is not None:
		with open(os.path.join(d, 'ids.txt'), 'w') as f:
			f.write(''.join(x + '\n' for x in c['ids']))
		args += ['-i', os.path.join(d, 'ids.txt')]
	if c.get('meta') is not None:
		with open(os.path.join(d, 'meta.json'), 'w') as f:
			json.dump(c['meta'], f)
		args += ['-m', os.path.join(d, 'meta.json')]
	if c.get('via') == 'listfile':
		with open(os.path.join(d, 'files.txt'), 'w') as f:
			f.write(''.join(x + '\n' for x in names))
		args += ['-l', os.path.join(d, 'files.txt'), '--ldir', d]
	else:
		args += [os.path.join(d, x) for x in names]
	meta = dict(id=None, name=None, id_attr=None, version=None, description=None, extra={})
	meta.update(c.get('meta') or {})
	want = dict(kspec=[c['k'], c['prefix']], sigs=[c12.naive_signature(c['k'], c['prefix'], g) for g in c['genomes']],
	            ids=list(c['ids']) if c.get('ids') is not None else [f'g{i}' for i in range(len(names))], meta=meta)
	return args, out, want


def cli_differences(got, want):
	"""the observables the property constrains: k-mer spec, signatures, ids, metadata"""
	bad = []
	if got['kspec'] != want['kspec']:
		bad.append(f'k-mer spec {got["kspec"]} instead of {want["kspec"]}')
	if len(got['sigs']) != len(want['sigs']):
		bad.append(f'holds {len(got["sigs"])} signatures instead of {len(want["sigs"])}')
	else:
		bad += [f'signature {i} is {g[:20]} ({len(g)} values) instead of {w[:20]} ({len(w)} values)'
		        for i, (g, w) in enumerate(zip(got['sigs'], want['sigs'])) if g != w][:3]
	if got['ids'] != want['ids']:
		bad.append(f'ids {got["ids"]!r} instead of {want["ids"]!r}')
	bad += [f'meta.{f} = {got["meta"][f]!r} instead of {want["meta"][f]!r}' for f in want['meta'] if got['meta'][f] != want['meta'][f]]
	return bad


def k_cli_kill(ctx, cases):
	# imported here so that every forked child inherits the loaded modules instead of importing them again
	import gambit.cli
	import gambit.sigs.calc
	import gambit.util.progress
	import Bio.SeqIO
	from gambit.sigs import load_signatures
	for c in cases:
		d = c12.tmp('clikill')
		os.makedirs(d)
		try:
			args, out, want = cli_setup(c, d)
			at, kill = c.get('at'), c.get('kill', 'exit')
			# what OUT holds before the command starts (see make_pre); `same` = the requested collection as a file
			pre = c.get('pre') or dict(form='none')
			same = dict(k=c['k'], prefix=c['prefix'], dtype=c12.index_dtype(c['k']), sigs=want['sigs'], container='annot_list', compression=None,
			            ids=dict(kind='str', vals=want['ids'], **{'as': 'list'}), meta=want['meta'])
			old = pre_coll(pre, same)
			make_pre(out, pre, same)
			before = path_state(out)
			code, events = run_cli_writer(args, at, kill, os.path.join(d, 'events.log'), c.get('exc'))
			after = path_state(out)
			size = after[0] if after else None
			note = None
			if after is not None:
				try:
					s = load_signatures(out)
				except Exception as e:
					got = ('err', c12.errname(e))
				else:
					with s:
						try:
							got = ('ok', dict(kspec=[int(s.kmerspec.k), s.kmerspec.prefix_str], sigs=[[int(v) for v in x] for x in s],
							                  ids=[x if isinstance(x, str) else int(x) for x in s.ids], meta={f: getattr(s.meta, f) for f in want['meta']}))
						except Exception as e:
							got = ('unreadable', f'load_signatures accepted the file, but reading the collection raises {c12.errname(e)}: {str(e)[:200]}')
						if old is not None and (got[0] == 'unreadable' or cli_differences(got[1], want)):
							try:
								note = remains_note(s, old, before, after)
							except Exception:
								note = 'it is neither the requested nor the old collection (reading it raises)'
			else:
				got = ('absent',)
		finally:
			shutil.rmtree(d, ignore_errors=True)
		killed = died_as_told(code, kill, events)
		how = kill if kill != 'raise' else f'raise {c.get("exc") or "KeyboardInterrupt"}'
		done = [e for e in events if e[0] in ('calc', 'store')]
		started = bool(done)
		touched = writer_touched(events, out, before, after)
		distinct = {tuple(x) for x in want['sigs'] if x}
		ctx.case(c, nontrivial=len(distinct) >= 2 and (code == 0 or (killed and started and (before is None or touched))))
		trail = ', '.join(f'{e[0]}:{e[1]}' for e in done[-4:]) or 'nothing'
		if events and events[-1][0] == 'EXC':
			ctx.broke('fault injection cli_kill (the command raised in the child)', f'{events[-1]} at {at}: {c}')
			continue
		if code == 0:
			# the kill point was never reached (at = null, or beyond the last event of its class): a completed write
			if got[0] not in ('ok', 'unreadable'):
				ctx.broke('cli_kill control (a completed `gambit signatures create` left no loadable file)', f'{got} after {len(done)} events: {c}')
				continue
			bad = [got[1]] if got[0] == 'unreadable' else cli_differences(got[1], want)
			if bad:
				ctx.violation('cli_kill', c, f'the file of a completed `gambit signatures create` (OUT held before: {pre["form"]}) loads, but not as what '
				              f'was requested: {"; ".join(bad)}' + (f' -- {note}' if note else ''), impl=got[1], spec=want)
			continue
		if not killed or at is None:
			ctx.broke('fault injection cli_kill', f'child exit {code} at {at} after [{trail}]: {c}')
			continue
		if before is not None and not touched:
			# the command died before it touched OUT: what is there is the untouched older file, not a partial file
			ctx.count('cli_kill:died-before-touching-OUT(not judged)')
			continue
		# ---- the property: what a killed writer leaves is absent, refused, or exactly what was requested
		if got[0] in ('ok', 'unreadable'):
			bad = [got[1]] if got[0] == 'unreadable' else cli_differences(got[1], want)
			if bad:
				ctx.violation('cli_kill', c, f'`gambit signatures create` (OUT held before: {pre["form"]}) died ({how}) before {at[0]} event {at[1]} '
				              f'(completed before the kill: {len(done)} events, last [{trail}]) left an output file ({size} bytes) that '
				              f'load_signatures ACCEPTS as a different collection: {"; ".join(bad)}' + (f' -- {note}' if note else ''),
				              impl=got[1], spec=dict(want, note='or absent / refused'), events=[f'{e[0]}:{e[1]}' for e in done])


# ---- the output path already holds something (kind over_kill, dimension `pre` of cli_kill) -----------------------------

RAW_FORMS = ('empty', 'text', 'fasta', 'magic_garbage', 'random')


def raw_bytes(pre):
	"""content of a non-HDF5 file, from the case alone"""
	import random
	r = random.Random(pre.get('seed', 0))
	n = pre.get('size', 300)
	what = pre['what']
	if what == 'empty':
		return b''
	if what == 'text':
		return ''.join(r.choice('signature file\n é漢') for _ in range(n)).encode()
	if what == 'fasta':
		return ('>c0 contig\n' + ''.join(r.choice('ACGT') for _ in range(n)) + '\n').encode()
	if what == 'magic_garbage':
		return c12.MAGIC + bytes(r.randrange(256) for _ in range(n))
	return bytes(r.randrange(256) for _ in range(n))


def pre_coll(pre, same):
	"""the collection a complete pre-existing signature file holds (None: the path holds no complete signature file)"""
	if pre['form'] == 'same':
		return same
	if pre['form'] == 'coll':
		return expand(pre['coll'])
	return None


def make_pre(path, pre, same, cache=None):
	"""puts at `path` what the output path holds BEFORE the writer starts:
	  none       nothing
	  coll       the complete signature file of another collection (written to a fresh path by the implementation's dump_signatures)
	  same       the complete signature file of the collection that is going to be written
	  truncated  the first keep/1000 of the bytes of such a file
	  raw        a non-HDF5 file (RAW_FORMS)
	  hdf        another kind of HDF5 file (root attributes / datasets / a sub-group as in c12.write_hdf)"""
	from gambit.sigs import dump_signatures
	form = pre['form']
	if form == 'none':
		return
	key = json.dumps([pre, same if form == 'same' else None], sort_keys=True)
	if cache is not None and key in cache:
		shutil.copyfile(cache[key], path)
		return
	if form in ('coll', 'same', 'truncated'):
		coll = same if form == 'same' else expand(pre['coll'])
		dump_signatures(path, c12.build(coll), **({} if coll.get('compression') is None else dict(compression=coll['compression'])))
		if form == 'truncated':
			os.truncate(path, os.path.getsize(path) * pre['keep'] // 1000)
	elif form == 'raw':
		with open(path, 'wb') as f:
			f.write(raw_bytes(pre))
	elif form == 'hdf':
		c12.write_hdf(path, pre)
	else:
		raise ValueError(form)
	if cache is not None:
		cache[key] = path + '.master'
		shutil.copyfile(path, cache[key])


def path_state(path):
	"""None: nothing there; else (size, digest of the bytes)"""
	import hashlib
	if not os.path.lexists(path):
		return None
	h = hashlib.sha1()
	with open(path, 'rb') as f:
		for block in iter(lambda: f.read(1 << 20), b''):
			h.update(block)
	return [os.path.getsize(path), h.hexdigest()]


def writer_touched(events, path, before, after):
	"""has the writer started on the output path?  yes if one of its completed storage calls opened that path for writing, or if
	what is at the path is no longer byte-identical to what was there before the writer started"""
	if before != after:
		return True
	real = os.path.realpath(path)
	return any(e[0] == 'store' and len(e) > 2 and e[1].startswith('open ') and e[1] != 'open r' and os.path.realpath(e[2]) == real
	           for e in events)


def remains_note(s, old, before, after):
	"""for the message of a violation: is what loads the OLD collection, or something else"""
	if old is None:
		return 'the path held no complete signature file before'
	same_bytes = 'the bytes at the path are unchanged' if before == after else 'the bytes at the path have changed'
	try:
		differs = c12.observe(s, old)
	except (ValueError, TypeError):
		differs = ['its ids are not of the kind of the old ids']   # observe converts the ids to the type of the expected ones
	if not differs:
		return f'it is exactly the OLD collection that was at the path before ({same_bytes})'
	return f'it is neither the requested nor the old collection: a mixture ({same_bytes})'


def load_remains(load_signatures, path, coll, old, before, after):
	"""-> (('err', class) | ('ok', differences from the requested collection, first values), note).  A file is ACCEPTED when
	load_signatures returns; an accepted file whose signatures, ids or metadata then cannot be read is a different collection"""
	try:
		s = load_signatures(path)
	except Exception as e:
		return ('err', c12.errname(e)), None
	with s:
		note = None
		try:
			bad = c12.observe(s, coll)
			first = [[int(v) for v in x[:50]] for x in s][:20]
		except Exception as e:
			bad, first = [f'load_signatures accepted the file, but reading the collection raises {c12.errname(e)}: {str(e)[:200]}'], None
		if bad:
			try:
				note = remains_note(s, old, before, after)
			except Exception:
				note = 'it is neither the requested nor the old collection (reading it raises)'
		return ('ok', bad, first), note


def over_child_main(coll, path, at, kill, logfd, exc=None, source=None, srcfile=None):
	"""runs in the forked child: count the storage-library calls of one dump_signatures(path, x), die before the j-th
	(or, source = [i, exc]: the signature source raises exc at its i-th access)"""
	from gambit.sigs import dump_signatures
	signal.signal(signal.SIGINT, signal.default_int_handler)
	signal.signal(signal.SIGTERM, signal.SIG_DFL)
	obj = build_source(coll, srcfile)   # before the hooks: an open signature file as the source is opened here, not by the write
	gate, log, hooked, fired = event_hooks(at, kill, logfd, ('store',), exc)
	install_store_hooks(hooked)
	if source is not None:
		arm_source(obj, source[0], source[1], fired)
	try:
		dump_signatures(path, obj, **({} if coll.get('compression') is None else dict(compression=coll['compression'])))
	except BaseException as e:
		if not fired[0]:
			raise
		os.write(logfd, (json.dumps(['DIED', type(e).__name__]) + '\n').encode())
		os._exit(RAISE_EXIT)
	os._exit(0)


def run_over_writer(coll, path, at, kill, exc=None, source=None, srcfile=None):
	logpath = path + '.log'
	logfd = os.open(logpath, os.O_WRONLY | os.O_CREAT | os.O_TRUNC, 0o600)
	pid = os.fork()
	if pid == 0:
		try:
			over_child_main(coll, path, at, kill, logfd, exc, source, srcfile)
		except BaseException as e:
			try:
				os.write(logfd, (json.dumps(['EXC', repr(e)]) + '\n').encode())
			finally:
				os._exit(3)
		os._exit(4)
	os.close(logfd)
	st = wait_child(pid)
	with open(logpath) as f:
		events = [json.loads(l) for l in f if l.strip()]
	os.unlink(logpath)
	return os.waitstatus_to_exitcode(st), events


def k_over_kill(ctx, cases):
	from gambit.sigs import load_signatures
	cache = {}
	try:
		for c in cases:
			coll, pre = expand(c['coll']), c.get('pre') or dict(form='none')
			at, kill = c.get('at'), c.get('kill', 'exit')
			old = pre_coll(pre, coll)
			path = c12.tmp('ov') + '.gs'
			make_pre(path, pre, coll, cache)
			before = path_state(path)
			source = c.get('source')
			srcfile = source_file(coll, 'src:' + json.dumps(c['coll'], sort_keys=True), cache)
			code, events = run_over_writer(coll, path, None if at is None else ['store', at], kill, c.get('exc'), source, srcfile)
			after = path_state(path)
			killed = died_as_told(code, 'raise' if source else kill, events)
			how = (f'interrupted by {source[1]} raised by the signature source at its access {source[0]}' if source else
			       f'died ({kill if kill != "raise" else "raise " + (c.get("exc") or "KeyboardInterrupt")}) before storage call {at}')
			touched = writer_touched(events, path, before, after)
			note = None
			if after is None:
				got = ('absent',)
			elif killed and not touched:
				got = ('untouched',)   # not judged below, not loaded
			else:
				with open(path, 'rb') as f:
					head = f.read(64)
				cl = c12.classify_raw(path, head)
				got, note = load_remains(load_signatures, path, coll, old, before, after)
			c12._rm(path)
			differs = old is not None and pre['form'] == 'coll' and c12.mcoll(old) != c12.mcoll(coll)
			ctx.case(c, nontrivial=differs and (code == 0 or (killed and touched)))
			done = [e for e in events if e[0] == 'store']
			trail = ', '.join(e[1] for e in done[-4:]) or 'nothing'
			if events and events[-1][0] == 'EXC':
				ctx.broke('fault injection over_kill (the writer raised in the child)', f'{events[-1]} at {at}: {c}')
				continue
			if code == 0:
				# at = null, or a point beyond the last storage call: a completed write over whatever was there
				if got[0] != 'ok' or got[1]:
					ctx.violation('over_kill', c, f'a completed dump_signatures over a pre-existing file ({pre["form"]}) does not load as what was '
					              f'written: {"; ".join(got[1][:3]) if got[0] == "ok" else got}' + (f' -- {note}' if note else ''),
					              impl=got, spec='loads as the written collection')
				continue
			if not killed or (at is None and not source):
				ctx.broke('fault injection over_kill', f'child exit {code} at {at} after [{trail}]: {c}')
				continue
			if not touched:
				# the writer died before it touched the output path: what is there is the untouched older file, not a partial file
				ctx.count('over_kill:died-before-touching-the-path(not judged)')
				continue
			# ---- the property: what a killed writer leaves at the path is absent, refused, or exactly what was being written
			if got[0] == 'ok' and got[1]:
				ctx.violation('over_kill', c, f'dump_signatures over a pre-existing file ({pre["form"]}) {how} '
				              f'(completed: {len(done)} calls, last [{trail}]) left a file that load_signatures ACCEPTS and that is not the '
				              f'collection being written: {"; ".join(got[1][:3])} -- {note}', impl=got[2], spec='refused, absent, or exactly the written collection',
				              events=[' '.join(e[1:2]) for e in done])
				continue
			if got[0] == 'err' and code != RAISE_EXIT:
				# what a KILLED writer left: remains libhdf5 cannot read (policy AtClose) or a readable HDF5 file (its completed calls are on
				# the disk: policy Eager); refused either way, as C19_overwrite_truncate_any_policy says -- observed, not assumed
				ctx.count('over_kill:remains-unreadable-for-libhdf5(policy AtClose)' if cl is not None else 'over_kill:readable-hdf5-refused(policy Eager)')
	finally:
		for m in cache.values():
			c12._rm(m)


KINDS = {'crash': k_crash, 'cli_kill': k_cli_kill, 'over_kill': k_over_kill}


def n_accesses(coll):
	"""number of accesses the writer makes to the signature source (arm_source): bounds (for len()), values, bounds of a SignatureArray;
	for the per-signature path each signature is read once for sizes() and once in the loop, a plain SignatureList is also asked
	sizes() (the generators add one point beyond: a point that is never reached is a completed write, and is judged as one)"""
	n = len(coll['sigs'])
	src = coll.get('src') or {}
	if src.get('form') == 'hdf5' and not src.get('wrap'):
		return n + 1   # sizes() of an open signature file is one read of its bounds
	if src.get('form') == 'custom' and (src.get('ref') or not coll['container'].startswith('annot')):
		return 2 * n + 1
	return {'array': 3, 'list': 2 * n + 1}.get(coll['container'], 2 * n)


def n_calls(coll):
	"""number of storage calls of one write (from the harness's own reading of the two paths;
	cross-checked against the model's call list in k_crash)"""
	return 12 if c12.path_of(coll) == 0 else 14 + len(coll['sigs'])


def generate(ctx):
	rng = ctx.rng
	ctx.rule(RULE)
	base = dict(k=5, prefix='AT', dtype='u2')
	six = [[1, 5, 900], [], [7], [2, 3], [], [1023]]
	meta = dict(id='db', name='é漢', id_attr='key', version='1.0', description=None, extra={'a': [1, {'b': None}]})
	colls = []
	for cont in c12.CONTAINERS:
		for comp in c12.COMPRESSIONS:
			colls.append(dict(base, sigs=six, container=cont, compression=comp,
			                  ids=dict(kind='str', vals=[f'g{i}' for i in range(6)], **{'as': 'list'}) if cont == 'annot_array' else None,
			                  meta=meta if cont.startswith('annot') else None))
	colls.append(dict(base, sigs=[[]], container='list', compression=None, ids=None, meta=None))
	colls.append(dict(base, sigs=[[], []], container='annot_list', compression='lzf', ids=None, meta=None))
	colls.append(dict(k=32, prefix='A', dtype='u8', sigs=[[0, 2 ** 63, 2 ** 64 - 1], [5]], container='list', compression=None, ids=None, meta=None))
	for _ in range(ctx.pick(20, 120)):
		n = rng.randint(1, 8)
		colls.append(dict(k=9, prefix='ACG', dtype='u4', sigs=[c12.rsig(rng, 9, 12, 'u4') for _ in range(n)], container=rng.choice(c12.CONTAINERS),
		                  compression=rng.choice(c12.COMPRESSIONS), ids=c12.rids(rng, n), meta=c12.rmeta(rng)))
	for coll in colls:
		total = n_calls(coll)
		for n in list(range(0, total + 1)) + [None]:
			ctx.count('stream:every-boundary')
			yield 'crash', dict(coll=coll, n=n)
	ctx.exhaustive = True
	ctx.extra['exhaustive_scope'] = ('for each of the listed collections (both write paths, 4 container types, filters, empty signatures, '
	                                 'u64 values): every boundary 0..N between storage-library calls, N = all calls done but file not closed, '
	                                 'plus the uninterrupted write')
	# ---- death by an exception: at EVERY storage call the hook raises (the exception type rotates over EXCS), the exception leaves
	# dump_signatures through the `with h5.File` block, which closes the file cleanly
	for ci, coll in enumerate(colls[:ctx.pick(19, len(colls))]):
		for n in range(n_calls(coll)):
			ctx.count('stream:every-call-raise')
			yield 'crash', dict(coll=coll, n=n, death=dict(mode='raise', exc=EXCS[(ci + n) % len(EXCS)]))
	# ---- ... and an exception raised by the signature SOURCE while the writer reads it: every access (sizes(), each __getitem__;
	# values / bounds of a SignatureArray) and one beyond the last (the write completes)
	for ci, coll in enumerate(colls[:ctx.pick(15, len(colls))]):
		for i in range(n_accesses(coll) + 1):
			ctx.count('stream:source-exception')
			yield 'crash', dict(coll=coll, death=dict(mode='source', at=i, exc=EXCS[(ci + i) % len(EXCS)]))
	ctx.extra['exhaustive_scope'] += ('; exception deaths: for the first 19 / 15 (quick) or all (thorough) of those collections an exception raised '
	                                 'inside the hook of every storage-library call, and by the signature source at every one of its accesses')
	# multi-megabyte payloads (chunk data is written to the file long before close; the metadata is not)
	# quick: one collection, a few boundaries in the per-signature phase; thorough: three, every boundary
	for cont, comp in ((('list', None),) if ctx.quick else (('list', None), ('array', None), ('annot_list', 'gzip'))):
		nsig, per = 12, 120000
		coll = dict(k=11, prefix='ATGAC', dtype='u4', sigs_gen=[rng.randrange(2 ** 30), nsig, per, 4 ** 11],
		            container=cont, compression=comp, ids=None, meta=None)
		total = 12 if cont == 'array' else 14 + nsig
		points = [total // 2, total - 3, total - 1, total] if ctx.quick else list(range(0, total + 1)) + [None]
		for n in points:
			ctx.count('stream:large-payload')
			yield 'crash', dict(coll=coll, n=n, short=True)
		# the same payload, the writer raises in the per-signature loop: the chunks written so far and zero-filled space are in the
		# file, which is closed cleanly
		for n in ([total // 2, total - 2] if ctx.quick else range(total)):
			ctx.count('stream:large-payload-raise')
			yield 'crash', dict(coll=coll, n=n, short=True, death=dict(mode='raise', exc=EXCS[n % len(EXCS)]))
	yield from gen_sources(ctx, rng)
	yield from gen_cli_kill(ctx, rng)
	yield from gen_over_kill(ctx, rng)
	yield from gen_cli_over(ctx, rng)


# ---- the container the writer takes the signatures from ---------------------------------------------------------------

def rforeign(rng):
	"""foreign content of the group of a signature file: attributes (strings, integers, arrays; names next to the format's own),
	datasets, sub-groups (one of them carrying a marker of its own)"""
	attrs = {'annotated_by': c12.rstr(rng) or 'tool', 'revision': rng.randrange(100), 'weights': [rng.randrange(9) for _ in range(rng.randint(1, 4))],
	         'gambit_signatures_checked': 1, 'kmerspec_note': 'k', 'Extra': '{}', 'ID': 'x'}
	names = rng.sample(sorted(attrs), rng.randint(1, len(attrs)))
	return dict(attrs={a: attrs[a] for a in names},
	            dsets=rng.choice([{}, {'taxa': [rng.randrange(50) for _ in range(rng.randint(1, 6))]}, {'labels': ['a', 'é'], 'ids_old': [1, 2, 3]}]),
	            groups=rng.choice([[], [], ['backup'], ['previous', 'notes']]))


def rsource(rng, annot, n):
	"""a random source container for a collection of n signatures -> (container, src)"""
	pad = lambda: [sorted(rng.sample(range(1024), rng.randint(0, 4))) for _ in range(rng.randint(0, 2))]
	form = rng.choices(SRC_FORMS, (3, 5, 3))[0] if annot else rng.choice(('view', 'custom'))
	if form == 'view':
		return (rng.choice(('annot_array', 'annot_list')) if annot else rng.choice(('array', 'list')),
		        dict(form='view', lead=pad(), trail=pad(), how=rng.choice(('slice', 'slice', 'index', 'mask'))))
	if form == 'custom':
		ref = annot and rng.random() < 0.5
		return 'annot_list' if annot else 'list', dict(form='custom', ref=ref)
	group = rng.choice([None, None, 'sigs', 'a/b'])
	wrap = rng.choice([None, None, 'annot', 'annot_annot'])
	src = dict(form='hdf5', comp=rng.choice(c12.COMPRESSIONS), group=group, open='class' if group else rng.choice(('load', 'load', 'class')),
	           foreign=rforeign(rng) if rng.random() < 0.6 else None, wrap=wrap)
	if wrap:
		src.update(file_ids=c12.rids(rng, n), file_meta=c12.rmeta(rng))
	return 'annot_list', src


def gen_sources(ctx, rng):
	"""dimension SOURCE CONTAINER: every death mode of dump_signatures (crash: exit at every boundary, an exception inside every storage
	call, an exception of the source at every access; over_kill: the same plus real signals, over an occupied path) with the signatures
	coming from each kind of container a caller can hand to dump_signatures"""
	sigs = [[1, 5, 900], [], [7], [2, 3], [11, 12, 13, 14], [1023]]
	n = len(sigs)
	base = dict(k=5, prefix='AT', dtype='u2', sigs=sigs)
	sid = dict(kind='str', vals=['g0', 'g1', 'é2', '漢3', 'g4', 'g5'], **{'as': 'list'})
	iid = dict(kind='int', dtype='i8', vals=[200 + 3 * i for i in range(n)])
	i4 = dict(kind='int', dtype='i4', vals=[7 - i for i in range(n)])
	meta = dict(id='refs/é', name='Reference set', id_attr='key', version='1.1', description=None, extra={'author': 'x', 'n': [1, None]})
	fmeta = dict(id='in-the-file', name='what the file says', id_attr=None, version='0.9', description='two\nlines', extra={'made': 'before'})
	foreign = dict(attrs={'annotated_by': 'another tool', 'revision': 3, 'weights': [1, 2, 3], 'gambit_signatures_checked': 1},
	               dsets={'taxa': [5, 6, 7, 8, 9, 10], 'labels': ['a', 'é']}, groups=['previous'])
	lead, trail = [[3, 4], []], [[9]]
	A = lambda **kw: dict(base, **kw)
	sources = [
		A(container='array', compression=None, ids=None, meta=None, src=dict(form='view', lead=lead, trail=trail, how='slice')),
		A(container='annot_array', compression='gzip', ids=sid, meta=meta, src=dict(form='view', lead=lead, trail=[], how='slice')),
		A(container='list', compression='lzf', ids=None, meta=None, src=dict(form='view', lead=[], trail=trail, how='slice')),
		A(container='annot_list', compression=None, ids=iid, meta=meta, src=dict(form='view', lead=lead, trail=trail, how='index')),
		A(container='annot_array', compression=None, ids=i4, meta=None, src=dict(form='view', lead=lead, trail=trail, how='mask')),
		A(container='annot_list', compression=None, ids=iid, meta=meta, src=dict(form='hdf5', comp=None, open='load')),
		A(container='annot_list', compression='gzip', ids=sid, meta=meta, src=dict(form='hdf5', comp=None, open='load', foreign=foreign)),
		A(container='annot_list', compression=None, ids=sid, meta=None, src=dict(form='hdf5', comp='gzip', open='load', foreign=dict(attrs={'note': 'n'}))),
		A(container='annot_list', compression='lzf', ids=None, meta=meta, src=dict(form='hdf5', comp='lzf', open='class')),
		A(container='annot_list', compression=None, ids=i4, meta=meta, src=dict(form='hdf5', comp=None, group='sigs', open='class', foreign=foreign)),
		A(container='annot_list', compression='gzip', ids=sid, meta=meta, src=dict(form='hdf5', comp='gzip', group='sets/2024', open='class')),
		A(container='annot_list', compression=None, ids=sid, meta=meta, src=dict(form='hdf5', comp=None, open='load', wrap='annot', file_ids=iid, file_meta=fmeta)),
		A(container='annot_list', compression='gzip', ids=iid, meta=None, src=dict(form='hdf5', comp='lzf', group='sigs', open='class', foreign=foreign,
		                                                                             wrap='annot', file_ids=sid, file_meta=fmeta)),
		A(container='annot_list', compression=None, ids=None, meta=meta, src=dict(form='hdf5', comp=None, open='load', foreign=foreign,
		                                                                          wrap='annot_annot', file_ids=None, file_meta=None)),
		A(container='list', compression=None, ids=None, meta=None, src=dict(form='custom')),
		A(container='annot_list', compression='gzip', ids=sid, meta=meta, src=dict(form='custom', ref=True)),
		A(container='annot_list', compression=None, ids=iid, meta=fmeta, src=dict(form='custom')),
	]
	# ---- fresh path: an exception inside EVERY storage call (types rotate), the source raising at EVERY access (quick: every third and the last two), os._exit at every
	# boundary (quick: the completed write -- the whole call sequence against the model -- and every fifth boundary, offset by source)
	# (a writer may choose ANOTHER write path for a source than the model expects -- a view written signature by signature: the points run
	# up to the length of the longer path; a point beyond the last call of the write is a completed write, judged as one)
	longest = 14 + n
	for si, coll in enumerate(sources):
		total = n_calls(coll)
		for j in range(max(total, longest) + 1):
			ctx.count('stream:source-container-every-call-raise')
			yield 'crash', dict(coll=coll, n=j, death=dict(mode='raise', exc=EXCS[(si + j) % len(EXCS)]))
		for i in range(n_accesses(coll) + 1):
			if not ctx.quick or i % 3 == si % 3 or i >= n_accesses(coll) - 1:
				ctx.count('stream:source-container-source-exception')
				yield 'crash', dict(coll=coll, death=dict(mode='source', at=i, exc=EXCS[(si + i) % len(EXCS)]))
		for j in [None] + [j for j in range(total + 1) if not ctx.quick or j % 5 == si % 5]:
			ctx.count('stream:source-container-every-boundary')
			yield 'crash', dict(coll=coll, n=j)
	# ---- occupied path (the previous version of the set: another collection; the same collection): every store point from the open to the
	# close; thorough: every kind of death at every point over every one of the four; quick: one of the four per source, every third point
	# (offset by source: every point is met by five or six sources), the kind of death rotating over points and sources (raise of each
	# type / SIGINT / SIGTERM / os._exit / SIGKILL)
	rs = lambda m: [sorted(rng.sample(range(1024), rng.randint(1, 6))) for _ in range(m)]
	pres = [dict(form='coll', coll=dict(base, sigs=rs(4), container='annot_list', compression=None, ids=dict(kind='int', dtype='i8', vals=[100, 101, 102, 103]), meta=fmeta)),
	        dict(form='same'),
	        dict(form='coll', coll=dict(base, sigs=rs(9), container='annot_array', compression='gzip', ids=dict(kind='str', vals=[f'old{i}' for i in range(9)], **{'as': 'list'}), meta=fmeta)),
	        dict(form='coll', coll=dict(base, sigs=rs(6), container='list', compression=None, ids=None, meta=None))]
	kinds = ('raise', 'sigint', 'raise', 'sigterm', 'raise', 'exit', 'raise', 'sigkill')
	for si, coll in enumerate(sources):
		pts = [at for at in over_points(coll, 1 + max(0, longest - n_calls(coll))) if at is not None]
		for pi, pre in enumerate(pres if not ctx.quick else [pres[si % len(pres)]]):
			for at in pts:
				if ctx.quick and at % 3 != si % 3:
					continue
				for kill in (sorted(set(kinds)) if not ctx.quick else [kinds[(at // 3 + si) % len(kinds)]]):
					ctx.count('stream:overwrite-source-container-every-point')
					yield 'over_kill', dict(pre=pre, coll=coll, at=at, kill=kill, **(dict(exc=EXCS[(si + pi + at // 2) % len(EXCS)]) if kill == 'raise' else {}))
			for i in range(n_accesses(coll) + 1):
				if not ctx.quick or i % 3 == si % 3:
					ctx.count('stream:overwrite-source-container-source-exception')
					yield 'over_kill', dict(pre=pre, coll=coll, at=None, kill='raise', source=[i, EXCS[(si + pi + i) % len(EXCS)]])
	ctx.extra['exhaustive_scope'] += ('; source containers: for each of the listed sources (slice / index / mask of a SignatureArray and a SignatureList, an open '
	                                 'signature file: loaded or in a sub-group, with foreign attributes / datasets, filtered or not, under one or two '
	                                 'AnnotatedSignatures; user subclasses of AbstractSignatureArray) an exception inside every storage call of the write to a '
	                                 'fresh path, and every store point of the write over an occupied path')
	# ---- random collections in random source containers, a few death points of a random kind each, fresh and occupied paths
	for _ in range(ctx.pick(10, 200)):
		m = rng.randint(1, 8)
		annot = rng.random() < 0.75
		cont, src = rsource(rng, annot, m)
		coll = dict(k=9, prefix='ACG', dtype='u4', sigs=[c12.rsig(rng, 9, 12, 'u4') for _ in range(m)], container=cont, compression=rng.choice(c12.COMPRESSIONS),
		            ids=c12.rids(rng, m) if annot else None, meta=c12.rmeta(rng) if annot else None, src=src)
		total = n_calls(coll)
		for j in {rng.randrange(total), total - 1, rng.randint(max(total - m, 0), total - 1)}:
			ctx.count('stream:source-container-random')
			yield 'crash', dict(coll=coll, n=j, death=dict(mode='raise', exc=rng.choice(EXCS)))
		ctx.count('stream:source-container-random')
		yield 'crash', dict(coll=coll, death=dict(mode='source', at=rng.randrange(n_accesses(coll)), exc=rng.choice(EXCS)))
		ctx.count('stream:source-container-random')
		yield 'crash', dict(coll=coll, n=rng.choice([None, rng.randrange(total + 1)]))
		pre = rpre(rng, 9, 'ACG', 'u4', m, weights=(0, 50, 20, 10, 10, 10))
		for at in (rng.randint(1, total), total):
			kill = rng.choice(KILLS)
			ctx.count('stream:source-container-random')
			yield 'over_kill', dict(pre=pre, coll=coll, at=at, kill=kill, **(dict(exc=rng.choice(EXCS)) if kill == 'raise' else {}))
	# ---- a multi-megabyte signature file re-saved (re-compressed): the writer raises in the per-signature loop, fresh and occupied path
	nsig, per = 12, 120000
	for comp_in, comp_out in (((None, 'gzip'),) if ctx.quick else ((None, 'gzip'), ('gzip', None), ('lzf', 'lzf'))):
		coll = dict(k=11, prefix='ATGAC', dtype='u4', sigs_np=[rng.randrange(2 ** 30), nsig, per, 4 ** 11], container='annot_list', compression=comp_out,
		            ids=dict(kind='int', dtype='i8', vals=[500 + i for i in range(nsig)]), meta=meta, src=dict(form='hdf5', comp=comp_in, open='load', foreign=foreign))
		total = 14 + nsig
		# (kind crash ships the payload to the model once per batch, seconds: thorough only; quick asks the same of a fresh path through over_kill)
		for j in ([] if ctx.quick else range(total)):
			ctx.count('stream:source-container-large-payload')
			yield 'crash', dict(coll=coll, n=j, short=True, death=dict(mode='raise', exc=EXCS[j % len(EXCS)]))
		for at in ([1 + total - nsig // 2, total] if ctx.quick else []):
			ctx.count('stream:source-container-large-payload')
			yield 'over_kill', dict(pre=dict(form='none'), coll=coll, at=at, kill='raise', exc=EXCS[at % len(EXCS)])
		pre = dict(form='coll', coll=dict(k=11, prefix='ATGAC', dtype='u4', sigs_np=[rng.randrange(2 ** 30), 9, per, 4 ** 11], container='annot_list',
		                                 compression=None, ids=dict(kind='int', dtype='i8', vals=[100 + i for i in range(9)]), meta=fmeta))
		for at in ([1 + total - nsig // 3] if ctx.quick else range(1, total + 2)):
			ctx.count('stream:source-container-large-payload')
			yield 'over_kill', dict(pre=pre, coll=coll, at=at, kill='sigint' if at % 2 else 'raise', exc='ENOSPC')


# ---- what the output path holds before the write ----------------------------------------------------------------------

def rpre(rng, k, prefix, dtype, n, weights=(4, 40, 10, 16, 15, 15)):
	"""a random pre-existing content of the output path: none / another collection (smaller, equal-sized, larger; int, str or
	default ids; any container and filter; same or another k-mer spec) / the same collection / a truncated signature file /
	a non-HDF5 file / another kind of HDF5 file"""
	form = rng.choices(('none', 'coll', 'same', 'truncated', 'raw', 'hdf'), weights)[0]
	if form in ('none', 'same'):
		return dict(form=form)
	if form in ('coll', 'truncated'):
		m = rng.choice([max(1, n - rng.randint(1, 3)), n, n, n + rng.randint(1, 4)])
		if rng.random() < 0.25:
			k, prefix, dtype = rng.choice([(5, 'AT', 'u2'), (11, 'ATGAC', 'u4'), (17, 'A', 'u8')])
		coll = dict(k=k, prefix=prefix, dtype=dtype, sigs=[c12.rsig(rng, k, 12, dtype) for _ in range(m)], container=rng.choice(c12.CONTAINERS),
		            compression=rng.choice(c12.COMPRESSIONS), ids=c12.rids(rng, m), meta=c12.rmeta(rng))
		return dict(form='coll', coll=coll) if form == 'coll' else dict(form='truncated', coll=coll, keep=rng.choice([0, 1, 8, 500, 900, 999]))
	if form == 'raw':
		return dict(form='raw', what=rng.choice(RAW_FORMS), seed=rng.randrange(1000), size=rng.choice([1, 8, 300, 5000]))
	ints = lambda m, dt='i8': dict(ints=[rng.randrange(100) for _ in range(m)], dtype=dt)
	return dict(form='hdf', **rng.choice([
		dict(attrs={'title': 'table'}, dsets={'data': ints(20)}),                                                     # unrelated content
		dict(attrs={}, dsets={'ids': ints(n), 'values': ints(3 * n, dtype), 'bounds': ints(n + 1)}),             # the three datasets, no marker
		dict(attrs={'kmerspec_k': k, 'kmerspec_prefix': prefix}, dsets={'ids': dict(strs=[f'x{i}' for i in range(n)])}),
		dict(subgroup=True, attrs={'gambit_signatures_version': 1, 'kmerspec_k': k, 'kmerspec_prefix': prefix},
		     dsets={'ids': ints(2), 'values': ints(4, dtype), 'bounds': dict(ints=[0, 2, 4])}),                          # a signature set in a sub-group
		dict(attrs={'gambit_signatures_version': 1, 'kmerspec_k': k, 'kmerspec_prefix': prefix}, dsets={})]))           # marker, no datasets


def over_points(coll, slack):
	"""every kill point of one dump_signatures: before the open (0, the writer has not touched the path), before each of the
	storage calls of the write, before / inside the close (3 File objects h5py makes for open handles); `slack` more for whatever
	else a writer does; points beyond the last call are completed writes"""
	return list(range(0, 1 + n_calls(coll) + 4 + slack)) + [None]


def gen_over_kill(ctx, rng):
	metaA = dict(id='setA', name='Set A', id_attr=None, version='1.0', description=None, extra={'made': 'before'})
	metaB = dict(id='setB', name='é漢 B', id_attr='key', version='2.0', description='two\nlines', extra={'a': [1, {'b': None}]})
	base = dict(k=9, prefix='ACG', dtype='u4')
	sigs = [sorted(rng.sample(range(4 ** 9), rng.choice([0, 1, 3, 9]))) for _ in range(4)] + [[7], [2, 3]]
	rs = lambda m, ln=None: [sorted(rng.sample(range(4 ** 9), rng.randint(1, 9) if ln is None else ln[i])) for i in range(m)]
	# ---- every kill point of an overwrite, both write paths x what was there: a smaller / equal-sized / larger collection
	# (integer, string and default ids; annotated and plain containers), the same collection
	news = [dict(base, sigs=sigs, container='annot_array', compression=None, ids=dict(kind='str', vals=[f'new{i}' for i in range(6)], **{'as': 'list'}), meta=metaB),
	        dict(base, sigs=sigs, container='annot_list', compression='gzip', ids=dict(kind='int', dtype='i8', vals=[200 + i for i in range(6)]), meta=metaB)]
	pres = [dict(form='coll', coll=dict(base, sigs=rs(3), container='annot_list', compression=None, ids=dict(kind='int', dtype='i8', vals=[100, 101, 102]), meta=metaA)),
	        dict(form='coll', coll=dict(base, sigs=rs(6, [len(x) for x in sigs]), container='annot_array', compression=None,
	                                    ids=dict(kind='str', vals=[f'old{i}' for i in range(6)], **{'as': 'list'}), meta=metaA)),
	        dict(form='coll', coll=dict(base, sigs=rs(9), container='list', compression='lzf', ids=None, meta=None)),
	        dict(form='same')]
	for new in news:
		for pre in pres:
			for at in over_points(new, ctx.pick(2, 12)):
				ctx.count('stream:overwrite-every-point')
				yield 'over_kill', dict(pre=pre, coll=new, at=at, kill='exit')
	# ---- the same overwrites, the writer dies by an exception: raised inside the hook of every store call (open, each storage call,
	# close; the type rotates), a real SIGINT / SIGTERM at every store call, the signature source raising at every access
	for ni, new in enumerate(news):
		for pi, pre in enumerate([pres[0], pres[3], dict(form='none')] if ctx.quick else pres + [dict(form='none')]):
			pts = [at for at in over_points(new, 1) if at is not None]
			for at in pts:
				ctx.count('stream:overwrite-every-point-raise')
				yield 'over_kill', dict(pre=pre, coll=new, at=at, kill='raise', exc=EXCS[(ni + pi + at) % len(EXCS)])
			if pi == 0 or not ctx.quick:
				for at in pts:
					ctx.count('stream:overwrite-every-point-signal')
					yield 'over_kill', dict(pre=pre, coll=new, at=at, kill='sigint' if (at + ni) % 2 else 'sigterm')
			for i in range(n_accesses(new) + 1):
				ctx.count('stream:overwrite-source-exception')
				yield 'over_kill', dict(pre=pre, coll=new, at=None, kill='raise', source=[i, EXCS[(ni + pi + i) % len(EXCS)]])
	ctx.extra['exhaustive_scope'] += ('; over_kill: for two collections (both write paths) written over a smaller / equal-sized / larger other '
	                                 'collection and over the same collection: every kill point between two storage-library calls of '
	                                 'dump_signatures from before the open to inside the close')
	# ---- random collections over random pre-existing contents (all six forms), a few kill points each
	for _ in range(ctx.pick(16, 200)):
		n = rng.randint(1, 8)
		new = dict(base, sigs=[c12.rsig(rng, 9, 12, 'u4') for _ in range(n)], container=rng.choice(c12.CONTAINERS),
		           compression=rng.choice(c12.COMPRESSIONS), ids=c12.rids(rng, n), meta=c12.rmeta(rng))
		pre = rpre(rng, 9, 'ACG', 'u4', n)
		pts = over_points(new, 0)
		for at in [rng.randint(1, n_calls(new)), n_calls(new)] + rng.sample(pts, ctx.pick(1, 6)):
			ctx.count('stream:overwrite-random')
			kill = rng.choice(KILLS)
			yield 'over_kill', dict(pre=pre, coll=new, at=at, kill=kill, **(dict(exc=rng.choice(EXCS)) if kill == 'raise' else {}))
	# ---- multi-megabyte payloads over multi-megabyte files (raw data goes to the disk at once, metadata at close): the old file
	# is smaller / about as large / larger; kill points in the per-signature phase (thorough: every point, both paths)
	nsig, per = 12, 120000
	for cont in (('list',) if ctx.quick else ('list', 'annot_array')):
		new = dict(k=11, prefix='ATGAC', dtype='u4', sigs_np=[rng.randrange(2 ** 30), nsig, per, 4 ** 11], container=cont, compression=None,
		           ids=None if cont == 'list' else dict(kind='int', dtype='i8', vals=[200 + i for i in range(nsig)]), meta=None if cont == 'list' else metaB)
		total = 1 + (12 if cont == 'annot_array' else 14 + nsig)
		for m in (6, 12, 18):
			pre = dict(form='coll', coll=dict(k=11, prefix='ATGAC', dtype='u4', sigs_np=[rng.randrange(2 ** 30), m, per, 4 ** 11], container='annot_list',
			                                 compression=None, ids=dict(kind='int', dtype='i8', vals=[100 + i for i in range(m)]), meta=metaA))
			for at in ([total - nsig + 1, total - nsig // 2, total] if ctx.quick else list(range(0, total + 5)) + [None]):
				ctx.count('stream:overwrite-large-payload')
				yield 'over_kill', dict(pre=pre, coll=new, at=at, kill='sigkill')
			for at in ([total - nsig // 2] if ctx.quick else range(1, total + 1)):
				ctx.count('stream:overwrite-large-payload-raise')
				yield 'over_kill', dict(pre=pre, coll=new, at=at, kill='raise' if m != 12 else 'sigint', exc='MemoryError')


def gen_cli_over(ctx, rng):
	"""`gambit signatures create -o OUT` where OUT already holds something"""
	metaA = dict(id='setA', name='Set A', id_attr=None, version='1.0', description=None, extra={'made': 'before'})
	metaB = dict(id='db/é', name='漢 set', version='2.0', id_attr='key', description='two\nlines', extra={'author': 'x'})
	# ---- every kill point of one command over the previous version of the set (other genomes, other ids, other metadata)
	k, prefix, n = 7, 'AT', 3
	base = dict(k=k, prefix=prefix, genomes=[rgenome(rng, prefix, k) for _ in range(n)], ids=['n-0', 'n-1', 'n-2'], meta=metaB, cores=1, progress=False,
	            via='args', kill='sigkill', width=60)
	oldsigs = [c12.naive_signature(k, prefix, rgenome(rng, prefix, k)) for _ in range(rng.choice([2, 3, 5]))]
	pre = dict(form='coll', coll=dict(k=k, prefix=prefix, dtype='u2', sigs=oldsigs, container='annot_list', compression=None,
	                                 ids=dict(kind='str', vals=[f'old-{i}' for i in range(len(oldsigs))], **{'as': 'list'}), meta=metaA))
	for at in cli_points(n, ctx.pick(3, 20)):
		ctx.count('stream:cli-kill-overwrite-every-point')
		yield 'cli_kill', dict(base, pre=pre, at=at)
	for ki, kill in enumerate(('sigint', 'raise') if ctx.quick else ('sigint', 'raise', 'sigterm')):
		for at in cli_points(n, 1):
			if at is not None and (at[0] == 'store' or not ctx.quick):
				ctx.count(f'stream:cli-{kill}-overwrite-every-point')
				yield 'cli_kill', dict(base, pre=pre, at=at, kill=kill, **(dict(exc=EXCS[(at[1] + ki) % len(EXCS)]) if kill == 'raise' else {}))
	ctx.extra['exhaustive_scope'] += '; cli_kill: every kill point of one command whose OUT already holds the complete file of another collection'
	# ---- random commands over random pre-existing contents
	for _ in range(ctx.pick(8, 100)):
		k = rng.choice([5, 6, 8, 9, 11, 12, 16])
		prefix = ''.join(rng.choice('ACGT') for _ in range(rng.randint(2, 4)))
		n = rng.randint(1, 4)
		base = dict(k=k, prefix=prefix, genomes=[rgenome(rng, prefix, k) for _ in range(n)],
		            ids=None if rng.random() < 0.4 else [f'{rng.choice(["id", "é", "G"])}{i}' for i in range(n)],
		            meta=None if rng.random() < 0.4 else dict(id=c12.rstr(rng), name='n', version='1.0', id_attr='key', description=c12.rstr(rng), extra={'n': [1, None]}),
		            cores=rng.choice([1, 2]), progress=rng.random() < 0.5, via=rng.choice(['args', 'listfile']), kill=rng.choice(KILLS),
		            width=rng.choice([None, 70]), pre=rpre(rng, k, prefix, c12.index_dtype(k), n, weights=(0, 50, 10, 14, 13, 13)))
		if base['kill'] == 'raise':
			base['exc'] = rng.choice(EXCS)
		for at in [['calc', n + 1], ['store', rng.randint(1, 14 + n)], rng.choice(cli_points(n, 0))]:
			ctx.count('stream:cli-kill-overwrite-random')
			yield 'cli_kill', dict(base, at=at)


def rgenome(rng, prefix, k):
	"""1..3 contigs of a few hundred bases (mixed case, some N), the prefix planted a few times"""
	contigs = []
	for _ in range(rng.randint(1, 3)):
		s = [rng.choice('ACGTacgt' * 6 + 'N') for _ in range(rng.randint(60, 320))]
		for _ in range(rng.randint(1, 4)):
			p = rng.randrange(0, len(s) - len(prefix) - k)
			s[p:p + len(prefix)] = prefix
		contigs.append(''.join(s))
	return contigs


def cli_points(ngenomes, slack):
	"""every kill point of one command: before each calc event (enter, one per genome, return) and before each storage-library
	call of the command (open, 14 + n calls of the per-signature write path, 3 File objects h5py makes for open handles, close
	= 19 + n on the unchanged code; `slack` further ones for whatever else the command stores; points beyond the last event
	are completed writes), and none"""
	return [['calc', j] for j in range(ngenomes + 2)] + [['store', j] for j in range(19 + ngenomes + slack)] + [None]


def gen_cli_kill(ctx, rng):
	meta = dict(id='db/é', name='漢 set', version='1.0', id_attr='key', description='two\nlines', extra={'author': 'x', 'nested': {'a': [1, None]}})
	# ---- every kill point of two fixed-shape commands (genomes drawn from the seed)
	shapes = [dict(k=7, prefix='AT', n=3, ids=['s-00', 'é1', '漢 2'], meta=meta, cores=1, progress=False, via='args', kill='exit', width=60),
	          dict(k=11, prefix='ATG', n=2, ids=None, meta=None, cores=2, progress=True, via='listfile', kill='sigkill', width=None)]
	for sh in shapes:
		base = {f: v for f, v in sh.items() if f != 'n'}
		base['genomes'] = [rgenome(rng, sh['prefix'], sh['k']) for _ in range(sh['n'])]
		for at in cli_points(sh['n'], ctx.pick(3, 20)):
			ctx.count('stream:cli-kill-every-point')
			yield 'cli_kill', dict(base, at=at)
		# the same command, every point again, the command dying by an exception: raised inside the hook (types rotate), a real SIGINT
		# (Ctrl-C: KeyboardInterrupt, click turns it into Abort), a real SIGTERM
		for ki, kill in enumerate(('raise', 'sigint', 'sigterm')):
			if ctx.quick and sh is not shapes[0] and kill != 'sigint':
				continue
			for at in cli_points(sh['n'], 1):
				if at is not None:
					ctx.count(f'stream:cli-{kill}-every-point')
					yield 'cli_kill', dict(base, at=at, kill=kill, **(dict(exc=EXCS[(at[1] + ki) % len(EXCS)]) if kill == 'raise' else {}))
	ctx.extra['exhaustive_scope'] += ('; cli_kill: for two `gambit signatures create` commands every kill point of the command\'s main process: '
	                                 'before each calc event (entry, one per genome, return) and before each storage-library call from the '
	                                 'start of the command up to the close of the final write')
	# ---- random commands (k, prefix, 1..4 genomes incl. empty ones, ids / metadata / cores / progress / file-list channel / kind
	# of death), a few kill points each: always one inside the calculation and one right after it
	for _ in range(ctx.pick(10, 120)):
		k = rng.choice([5, 6, 8, 9, 11, 12, 16])   # the command refuses k < 5
		prefix = ''.join(rng.choice('ACGT') for _ in range(rng.randint(2, 4)))   # the command refuses a prefix shorter than 2
		n = rng.randint(1, 4)
		genomes = [rgenome(rng, prefix, k) if rng.random() < 0.9 else [''] for _ in range(n)]
		base = dict(k=k, prefix=prefix, genomes=genomes,
		            ids=None if rng.random() < 0.4 else [f'{rng.choice(["id", "é", "漢", "G"])}{i}' for i in range(n)],
		            meta=None if rng.random() < 0.4 else dict(id=c12.rstr(rng), name='n', version='1.0', id_attr='key', description=c12.rstr(rng),
		                                                      extra={'author': c12.rstr(rng), 'n': [1, None]}),
		            cores=rng.choice([1, 2, 3]), progress=rng.random() < 0.5, via=rng.choice(['args', 'listfile']),
		            kill=rng.choice(KILLS), width=rng.choice([None, 1, 70]))
		if base['kill'] == 'raise':
			base['exc'] = rng.choice(EXCS)
		pts = cli_points(n, 0)
		for at in [['calc', rng.randint(1, n)], ['calc', n + 1]] + rng.sample(pts, ctx.pick(2, 8)):
			ctx.count('stream:cli-kill-random')
			yield 'cli_kill', dict(base, at=at)
