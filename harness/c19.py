"""C19 -- an interrupted signature-file write never yields a loadable wrong file.

Tie B by fault enumeration.  For a collection x and a boundary n the writer runs in a forked child
in which the three storage-library entry points the code uses (h5py AttributeManager.__setitem__,
Group.create_dataset, Dataset.__setitem__) are counted (patched by this harness inside the child only --
no repository hook); the child dies with os._exit when n calls have completed (n = number of calls:
all calls made, file not yet closed; n = null: the write completes).  Checked per case:
  (b) property: the file left by a killed writer does not load (if it loads as something different from
      x: violation); the file of a completed write loads as x;
  (a1) the calls observed before the kill are exactly the first n elements of the model's dump_ops x;
  (a2) the error class agrees with the model's load_file / load_file_cur under the AtClose policy
       (Model/Store.v crash_disk), which is thereby validated on every run.
Under an eager-flush policy the marker-first order is unsafe (Props/C19.v: C19_eager_refuted); the
model's Eager prediction was checked by hand against a writer that flushes after every dataset write.

Kind `cli_kill` -- the same question asked of the WRITER PROCESS the property's anchors name, the command
`gambit signatures create -k K -p PREFIX -o OUT [-i IDS] [-m META] FILES...` as a whole (property only, no
model tie: the theorems speak about one dump_signatures call, the command may do anything with OUT before
it).  The real click command runs in a forked child (own process group) on FASTA files the harness wrote;
the child counts two classes of events in its main process and dies (os._exit or SIGKILL to itself, then
the whole group is killed) immediately BEFORE the j-th event of one class:
  calc   entry of calc_file_signatures, every progress-meter increment (= one more signature computed),
         return of calc_file_signatures                      -> kills before / during / after the calculation
  store  h5py File.__init__, AttributeManager.__setitem__, Group.create_dataset, Dataset.__setitem__,
         File.__exit__, counted from the START of the command  -> kills at every storage-call boundary of
         whatever the command writes, whenever it writes it
Checked per case, on OUT only: if OUT exists after the kill and load_signatures(OUT) succeeds, it holds
exactly the k-mer spec, signatures (harness's own naive_signature of the FASTA text), ids and metadata
requested; a refusal or a missing file is fine.  A run whose kill point is never reached completes and
must load as requested."""
import json
import os
import shutil
import signal

from harness import c12

PROP = 'C19'
RULE = ('crash: (collection, boundary n) -> writer killed after n storage-library calls -> load_signatures on the '
        'remains; non-trivial: n >= 10 (marker and metadata attributes already written, i.e. the file would be '
        'accepted if its metadata had reached the disk) or the completed write of a collection with >= 2 '
        'signatures of different lengths'
        ' | cli_kill: (k, prefix, FASTA genomes, ids/metadata options, cores, progress, file-list channel, kill point) -> '
        '`gambit signatures create -o OUT` in a child process killed before the j-th calc event (before/during/after the '
        'signature calculation) or before the j-th storage-library call of the whole command -> OUT absent, refused by '
        'load_signatures, or loaded exactly as requested; non-trivial: >= 2 genomes with different non-empty signatures and '
        'the kill came after the command entered the signature calculation or made a storage call (or the run completed)')
TRUSTED = ['libhdf5 / OS durability: nothing parseable reaches the disk before close (policy AtClose of '
           'Model/Store.v) -- an assumption of the theorems, observed by this enumeration at every boundary',
           'h5py call interception in the child process (AttributeManager.__setitem__, Group.create_dataset, '
           'Dataset.__setitem__, File.__exit__) sees every storage call HDF5Signatures.create makes',
           'os._exit models process death (no atexit handlers, no libhdf5 shutdown flush)',
           'cli_kill: os._exit / SIGKILL of the command\'s main process followed by SIGKILL of its process group models the death '
           'of the writer (worker processes of the pool never touch OUT); the hooks (wrapper around every binding of '
           'gambit.sigs.calc.calc_file_signatures, increment of the progress-meter classes, the h5py entry points) are installed '
           'by the harness inside the child only and observe, they do not change what the command does; the expected content is '
           'the harness\'s own naive_signature of the FASTA text it wrote (C06/C12 cli establish that the completed command '
           'writes it)'] + c12.TRUSTED[:1]
ASSUMPTIONS = ['the writer is killed between two storage-library calls (a kill inside libhdf5 while it writes raw '
               'chunk data is not enumerated)',
               'no explicit flush and no SWMR mode: HDF5Signatures.create / dump_signatures_hdf5 as in the repository',
               'cli_kill: OUT does not exist before the command starts (an older file left in place by a writer that died before '
               'touching OUT is not a partial file); kills are placed at calc events and storage-library call boundaries of the '
               'command\'s main process, not at arbitrary instructions'] + c12.ASSUMPTIONS[:2]
BATCH = 40
SHRINK = False


def setup(ctx):
	c12.setup(ctx)


def render_call(kind, name, info):
	"""a storage call in the wire format of Entry/E19.v (vop), or its short form"""
	return [kind, name] + info


def child_main(case, path, n, logfd, short):
	"""runs in the forked child: patch, write, die at boundary n"""
	import numpy as np
	import h5py
	from gambit.sigs import dump_signatures
	done = [0]
	oa, oc, od, ox = (h5py.AttributeManager.__setitem__, h5py.Group.create_dataset, h5py.Dataset.__setitem__, h5py.File.__exit__)
	other = {}

	def gate():
		if n is not None and done[0] == n:
			os._exit(17)

	def log(rec):
		os.write(logfd, (json.dumps(rec) + '\n').encode())
		done[0] += 1

	def ints(a, t=None):
		a = np.asarray(a)
		code = c12.DT.get((np.dtype(t) if t is not None else a.dtype).str[1:], -1)
		return code, [int(x) for x in a.reshape(-1)]

	def pa(self, name, value):
		gate()
		r = oa(self, name, value)
		if isinstance(value, h5py.Empty):
			v = [2]
		elif isinstance(value, str):
			v = [1, c12.S(value)]
		else:
			v = [0, int(value)]
		log([0, c12.key(c12.AK, name, other), v])
		return r

	def pc(self, name, shape=None, dtype=None, data=None, **kw):
		gate()
		r = oc(self, name, shape=shape, dtype=dtype, data=data, **kw)
		k = c12.key(c12.DK, name, other)
		if data is not None:
			a = np.asarray(data)
			if a.dtype.kind == 'O' or (dtype is not None and np.dtype(dtype).kind == 'O'):
				strs = [x.decode() if isinstance(x, bytes) else str(x) for x in a]
				log([1, k, -1, len(strs)] if short else [1, k, [1, [c12.S(x) for x in strs]]])
			else:
				code, vals = ints(a, dtype)
				log([1, k, code, len(vals)] if short else [1, k, [0, code, vals]])
		else:
			code = c12.DT.get(np.dtype(dtype).str[1:], -1)
			log([2, k, code, int(shape if not isinstance(shape, tuple) else shape[0])])
		return r

	def pd(self, args, val):
		gate()
		r = od(self, args, val)
		k = c12.key(c12.DK, self.name.lstrip('/'), other)
		if isinstance(args, slice):
			a = 0 if args.start is None else int(args.start)
			b = int(self.shape[0]) if args.stop is None else int(args.stop)
		else:
			a, b = int(args), int(args) + 1
		vals = [int(x) for x in np.asarray(val).reshape(-1)]
		log([3, k, a, b, len(vals)] if short else [3, k, a, b, vals])
		return r

	def px(self, *a):
		gate()
		return ox(self, *a)

	h5py.AttributeManager.__setitem__ = pa
	h5py.Group.create_dataset = pc
	h5py.Dataset.__setitem__ = pd
	h5py.File.__exit__ = px
	obj = c12.build(case)
	kw = {} if case.get('compression') is None else dict(compression=case['compression'])
	dump_signatures(path, obj, **kw)
	os._exit(0)


def run_writer(case, path, n, short):
	"""-> (exit code of the child, list of observed calls)"""
	logpath = path + '.log'
	logfd = os.open(logpath, os.O_WRONLY | os.O_CREAT | os.O_TRUNC, 0o600)
	pid = os.fork()
	if pid == 0:
		try:
			child_main(case, path, n, logfd, short)
		except BaseException as e:
			try:
				os.write(logfd, (json.dumps(['EXC', repr(e)]) + '\n').encode())
			finally:
				os._exit(3)
		os._exit(4)
	os.close(logfd)
	_, st = os.waitpid(pid, 0)
	code = os.waitstatus_to_exitcode(st)
	with open(logpath) as f:
		calls = [json.loads(l) for l in f if l.strip()]
	os.unlink(logpath)
	return code, calls


def k_crash(ctx, cases):
	import numpy as np
	from gambit.sigs import load_signatures
	# model: the call list of every collection in this batch (once per distinct collection)
	colls = {}
	for c in cases:
		key = json.dumps(c['coll'], sort_keys=True)
		if key not in colls:
			colls[key] = c
	full = {key: expand(c['coll']) for key, c in colls.items()}
	reqs = [((1902 if c.get('short') else 1901), [c12.path_of(full[key]), c12.mcoll(full[key])]) for key, c in colls.items()]
	ops_ans = ctx.model(reqs) if ctx.model_ok else None
	ops = dict(zip(colls.keys(), ops_ans)) if ops_ans else {}
	results = []
	for c in cases:
		coll, n, short = full[json.dumps(c['coll'], sort_keys=True)], c['n'], bool(c.get('short'))
		path = c12.tmp('cr') + '.gs'
		code, calls = run_writer(coll, path, n, short)
		exists = os.path.exists(path)
		head = b''
		if exists:
			with open(path, 'rb') as f:
				head = f.read(64)
		cl = c12.classify_raw(path, head) if exists else 0
		try:
			with load_signatures(path) as s:
				bad = c12.observe(s, coll)
				got = ('ok', bad, [[int(v) for v in x] for x in s][:50])
		except Exception as e:
			got = ('err', c12.errname(e))
		results.append((c, code, calls, cl, head, got))
		c12._rm(path)
	reqs = []
	tiny = dict(k=5, prefix='AT', dtype='u2', sigs=[[1]], container='list', compression=None, ids=None, meta=None)
	for c, code, calls, cl, head, got in results:
		coll = full[json.dumps(c['coll'], sort_keys=True)]
		p, mc = c12.path_of(coll), c12.mcoll(coll)
		if c['n'] is None:
			reqs += [(1904, [p, mc]), (1904, [p, mc])]
		else:
			if c.get('short'):
				# the model's answer under AtClose does not depend on the payload (C19_atclose is stated for every
				# collection); a multi-megabyte collection is not shipped to the model once per boundary
				p, mc = 1, c12.mcoll(tiny)
			junk = [cl if cl is not None else 0, list(head)]
			reqs += [(1903, [0, p, mc, min(c['n'], 3) if c.get('short') else c['n'], junk]), (1906, [0, p, mc, min(c['n'], 3) if c.get('short') else c['n'], junk])]
	ans = ctx.model(reqs) if ctx.model_ok else None
	for i, (c, code, calls, cl, head, got) in enumerate(results):
		key = json.dumps(c['coll'], sort_keys=True)
		coll, n = full[key], c['n']
		mops = ops.get(key)
		total = len(mops) if mops is not None else None
		lens = {len(x) for x in coll['sigs']}
		ctx.case(c, nontrivial=(n is not None and n >= 10) or (n is None and len(lens) >= 2))
		if code == 3 and calls and calls[-1][0] == 'EXC':
			ctx.broke('fault injection (writer raised in the child)', f'{calls[-1]} at boundary {n}')
			continue
		# ---- the writer itself
		if n is None:
			if code != 0:
				ctx.violation('crash', c, f'uninterrupted write failed (child exit {code}): {calls[-1:] }', impl=code, spec=0)
				continue
		elif code == 0 and total is not None and n > total:
			ctx.broke('correspondence crash (number of storage calls)', f'writer finished after {len(calls)} calls, model has {total}: {coll}')
			continue
		elif code != 17:
			ctx.broke('fault injection', f'child exit {code} at boundary {n}: {calls[-1:]}')
			continue
		# ---- (b) the property
		if n is None:
			if got[0] != 'ok' or got[1]:
				ctx.violation('crash', c, f'the file of a completed write does not load as what was written: {got[1] if got[0] == "ok" else got}',
				              impl=got, spec='loads as the written collection')
				continue
		else:
			if got[0] == 'ok' and got[1]:
				ctx.violation('crash', c, f'writer killed after {n} storage calls left a file that is ACCEPTED and loads as a different '
				              f'collection: {"; ".join(got[1][:3])}', impl=got[2], spec='refused', model=ans and c12.mres(ans[2 * i]))
				continue
			if got[0] == 'ok':
				ctx.broke('durability assumption AtClose', f'writer killed after {n} calls (before close) left a file that loads (as the '
				          f'written collection): {coll}')
				continue
		if ans is None or mops is None:
			continue
		# ---- (a1) observed calls = model prefix
		want = mops if n is None else mops[:n]
		canon = lambda l: [[o[0], o[1], c12.canon_extra(o[2])] if o[:2] == [0, 8] else o for o in l]
		if canon(calls) != canon(want):
			j = next((j for j in range(min(len(calls), len(want))) if calls[j] != want[j]), min(len(calls), len(want)))
			ctx.broke('correspondence crash (sequence of storage calls != dump_ops)',
			          f'first difference at call {j}: impl {calls[j:j + 1]} model {want[j:j + 1]} (impl {len(calls)} calls, model {len(want)}) on {coll}')
			continue
		if n is not None and total is not None and n > total:
			ctx.broke('correspondence crash (boundary beyond the model call list)', f'n={n} total={total}')
			continue
		# ---- (a2) error class under AtClose (repaired or unrepaired reader)
		mfix, mcur = c12.mres(ans[2 * i]), c12.mres(ans[2 * i + 1])
		if n is None:
			if mfix[0] != 'ok' or (mfix[1][5], mfix[1][6]) != ([v for s in coll['sigs'] for v in s], _bounds(coll['sigs'])):
				ctx.broke('model closed_disk/load_file != written collection', f'{mfix} on {coll}')
		else:
			if cl is None:
				ctx.broke('durability assumption AtClose', f'file left after {n} calls is a readable HDF5 file (refused later: {got})')
			elif got not in (mfix, mcur):
				ctx.broke('correspondence crash (error class of the refusal)', f'impl {got} model repaired {mfix} / unrepaired {mcur}')


def expand(coll):
	"""collections with a large payload are described by a seed (cases stay small and replayable)"""
	if 'sigs_gen' not in coll:
		return coll
	import random
	seed, nsig, per, top = coll['sigs_gen']
	r = random.Random(seed)
	out = {k: v for k, v in coll.items() if k != 'sigs_gen'}
	out['sigs'] = [sorted(r.sample(range(top), r.randint(per // 2, per))) for _ in range(nsig)]
	return out


def _bounds(sigs):
	b = [0]
	for s in sigs:
		b.append(b[-1] + len(s))
	return b


# ---- the command `gambit signatures create` as the writer ---------------------------------------------------------

KILL_EXIT = 17


def cli_child_main(args, at, kill, logfd):
	"""runs in the forked child: install the counting hooks, run the click command, die before the j-th event of a class"""
	import sys
	import h5py
	import gambit.cli
	import gambit.sigs.calc as calc
	import gambit.util.progress as gprog
	os.setpgid(0, 0)
	null = os.open(os.devnull, os.O_RDWR)
	for fd in (0, 1, 2):
		os.dup2(null, fd)
	main = os.getpid()
	seen = {'calc': 0, 'store': 0}

	def gate(cls):
		"""called immediately before an event of class cls (main process of the command only)"""
		if os.getpid() != main:
			return False
		if at is not None and at[0] == cls and seen[cls] == at[1]:
			if kill == 'sigkill':
				os.kill(main, signal.SIGKILL)
				while True:
					signal.pause()
			os._exit(KILL_EXIT)
		return True

	def log(cls, what):
		os.write(logfd, (json.dumps([cls, what]) + '\n').encode())
		seen[cls] += 1

	def hooked(cls, what, fn):
		def w(*a, **kw):
			mine = gate(cls)
			r = fn(*a, **kw)
			if mine:
				log(cls, what if isinstance(what, str) else what(*a, **kw))
			return r
		return w

	# calc events: entry / return of calc_file_signatures (every binding of the function in a gambit module) ...
	real = calc.calc_file_signatures

	def calc_file_signatures(*a, **kw):
		if gate('calc'):
			log('calc', 'enter')
		r = real(*a, **kw)
		if gate('calc'):
			log('calc', 'return')
		return r

	for name, mod in list(sys.modules.items()):
		if (name == 'gambit' or name.startswith('gambit.')) and mod is not None:
			for attr, val in list(vars(mod).items()):
				if val is real:
					setattr(mod, attr, calc_file_signatures)
	# ... and every increment of a progress meter (one more signature is there)
	for cls in [c for c in vars(gprog).values() if isinstance(c, type) and issubclass(c, gprog.AbstractProgressMeter)
	            and 'increment' in vars(c) and not getattr(c.increment, '__isabstractmethod__', False)]:
		cls.increment = hooked('calc', 'signature', cls.increment)
	# store events
	h5py.File.__init__ = hooked('store', lambda self, name, mode='r', *a, **kw: f'open {mode}', h5py.File.__init__)
	h5py.AttributeManager.__setitem__ = hooked('store', lambda self, name, value: f'attr {name}', h5py.AttributeManager.__setitem__)
	h5py.Group.create_dataset = hooked('store', lambda self, name, *a, **kw: f'create {name}', h5py.Group.create_dataset)
	h5py.Dataset.__setitem__ = hooked('store', lambda self, *a: f'write {self.name}', h5py.Dataset.__setitem__)
	h5py.File.__exit__ = hooked('store', 'close', h5py.File.__exit__)
	try:
		gambit.cli.cli.main(args=args, prog_name='gambit', standalone_mode=False)
	except SystemExit as e:
		os._exit(0 if e.code in (None, 0) else 5)
	os._exit(0)


def run_cli_writer(args, at, kill, logpath):
	"""-> (exit code of the child (negative: signal), events that completed in its main process)"""
	logfd = os.open(logpath, os.O_WRONLY | os.O_CREAT | os.O_TRUNC, 0o600)
	pid = os.fork()
	if pid == 0:
		try:
			cli_child_main(args, at, kill, logfd)
		except BaseException as e:
			try:
				os.write(logfd, (json.dumps(['EXC', repr(e)]) + '\n').encode())
			finally:
				os._exit(3)
		os._exit(4)
	os.close(logfd)
	_, st = os.waitpid(pid, 0)
	try:
		# the pool workers die with the command (own process group, see cli_child_main)
		os.killpg(pid, signal.SIGKILL)
	except (ProcessLookupError, PermissionError):
		pass
	with open(logpath) as f:
		events = [json.loads(l) for l in f if l.strip()]
	return os.waitstatus_to_exitcode(st), events


def cli_setup(c, d):
	"""writes the input files of one case under d -> (args, out, what OUT must hold if it loads)"""
	width = c.get('width')
	names = []
	for i, contigs in enumerate(c['genomes']):
		names.append(f'g{i}.fasta')
		with open(os.path.join(d, names[-1]), 'w') as f:
			for j, s in enumerate(contigs):
				f.write(f'>c{j} contig {j}\n')
				for p in range(0, len(s), width or max(len(s), 1)):
					f.write(s[p:p + (width or len(s))] + '\n')
	out = os.path.join(d, 'out.gs')
	args = ['signatures', 'create', '-k', str(c['k']), '-p', c['prefix'], '-o', out, '-c', str(c.get('cores', 1)),
	        '--progress' if c.get('progress') else '--no-progress']
	if c.get('ids') is not None:
		with open(os.path.join(d, 'ids.txt'), 'w') as f:
			f.write(''.join(x + '\n' for x in c['ids']))
		args += ['-i', os.path.join(d, 'ids.txt')]
	if c.get('meta') is not None:
		with open(os.path.join(d, 'meta.json'), 'w') as f:
			json.dump(c['meta'], f)
		args += ['-m', os.path.join(d, 'meta.json')]
	if c.get('via') == 'listfile':
		with open(os.path.join(d, 'files.txt'), 'w') as f:
			f.write(''.join(x + '\n' for x in names))
		args += ['-l', os.path.join(d, 'files.txt'), '--ldir', d]
	else:
		args += [os.path.join(d, x) for x in names]
	meta = dict(id=None, name=None, id_attr=None, version=None, description=None, extra={})
	meta.update(c.get('meta') or {})
	want = dict(kspec=[c['k'], c['prefix']], sigs=[c12.naive_signature(c['k'], c['prefix'], g) for g in c['genomes']],
	            ids=list(c['ids']) if c.get('ids') is not None else [f'g{i}' for i in range(len(names))], meta=meta)
	return args, out, want


def cli_differences(got, want):
	"""the observables the property constrains: k-mer spec, signatures, ids, metadata"""
	bad = []
	if got['kspec'] != want['kspec']:
		bad.append(f'k-mer spec {got["kspec"]} instead of {want["kspec"]}')
	if len(got['sigs']) != len(want['sigs']):
		bad.append(f'holds {len(got["sigs"])} signatures instead of {len(want["sigs"])}')
	else:
		bad += [f'signature {i} is {g[:20]} ({len(g)} values) instead of {w[:20]} ({len(w)} values)'
		        for i, (g, w) in enumerate(zip(got['sigs'], want['sigs'])) if g != w][:3]
	if got['ids'] != want['ids']:
		bad.append(f'ids {got["ids"]!r} instead of {want["ids"]!r}')
	bad += [f'meta.{f} = {got["meta"][f]!r} instead of {want["meta"][f]!r}' for f in want['meta'] if got['meta'][f] != want['meta'][f]]
	return bad


def k_cli_kill(ctx, cases):
	# imported here so that every forked child inherits the loaded modules instead of importing them again
	import gambit.cli
	import gambit.sigs.calc
	import gambit.util.progress
	import Bio.SeqIO
	from gambit.sigs import load_signatures
	for c in cases:
		d = c12.tmp('clikill')
		os.makedirs(d)
		try:
			args, out, want = cli_setup(c, d)
			at, kill = c.get('at'), c.get('kill', 'exit')
			code, events = run_cli_writer(args, at, kill, os.path.join(d, 'events.log'))
			exists = os.path.exists(out)
			size = os.path.getsize(out) if exists else None
			if exists:
				try:
					with load_signatures(out) as s:
						got = ('ok', dict(kspec=[int(s.kmerspec.k), s.kmerspec.prefix_str], sigs=[[int(v) for v in x] for x in s],
						                  ids=[x if isinstance(x, str) else int(x) for x in s.ids], meta={f: getattr(s.meta, f) for f in want['meta']}))
				except Exception as e:
					got = ('err', c12.errname(e))
			else:
				got = ('absent',)
		finally:
			shutil.rmtree(d, ignore_errors=True)
		killed = code == (-signal.SIGKILL if kill == 'sigkill' else KILL_EXIT)
		done = [e for e in events if e[0] in ('calc', 'store')]
		started = bool(done)
		distinct = {tuple(x) for x in want['sigs'] if x}
		ctx.case(c, nontrivial=len(distinct) >= 2 and (code == 0 or (killed and started)))
		trail = ', '.join(f'{e[0]}:{e[1]}' for e in done[-4:]) or 'nothing'
		if events and events[-1][0] == 'EXC':
			ctx.broke('fault injection cli_kill (the command raised in the child)', f'{events[-1]} at {at}: {c}')
			continue
		if code == 0:
			# the kill point was never reached (at = null, or beyond the last event of its class): a completed write
			if got[0] != 'ok':
				ctx.broke('cli_kill control (a completed `gambit signatures create` left no loadable file)', f'{got} after {len(done)} events: {c}')
				continue
			bad = cli_differences(got[1], want)
			if bad:
				ctx.violation('cli_kill', c, f'the file of a completed `gambit signatures create` loads, but not as what was requested: {"; ".join(bad)}',
				              impl=got[1], spec=want)
			continue
		if not killed or at is None:
			ctx.broke('fault injection cli_kill', f'child exit {code} at {at} after [{trail}]: {c}')
			continue
		# ---- the property: what a killed writer leaves is absent, refused, or exactly what was requested
		if got[0] == 'ok':
			bad = cli_differences(got[1], want)
			if bad:
				ctx.violation('cli_kill', c, f'`gambit signatures create` killed ({kill}) before {at[0]} event {at[1]} (completed before the kill: '
				              f'{len(done)} events, last [{trail}]) left an output file ({size} bytes) that load_signatures ACCEPTS as a '
				              f'different collection: {"; ".join(bad)}', impl=got[1], spec=dict(want, note='or absent / refused'),
				              events=[f'{e[0]}:{e[1]}' for e in done])


KINDS = {'crash': k_crash, 'cli_kill': k_cli_kill}


def n_calls(coll):
	"""number of storage calls of one write (from the harness's own reading of the two paths;
	cross-checked against the model's call list in k_crash)"""
	return 12 if c12.path_of(coll) == 0 else 14 + len(coll['sigs'])


def generate(ctx):
	rng = ctx.rng
	ctx.rule(RULE)
	base = dict(k=5, prefix='AT', dtype='u2')
	six = [[1, 5, 900], [], [7], [2, 3], [], [1023]]
	meta = dict(id='db', name='é漢', id_attr='key', version='1.0', description=None, extra={'a': [1, {'b': None}]})
	colls = []
	for cont in c12.CONTAINERS:
		for comp in c12.COMPRESSIONS:
			colls.append(dict(base, sigs=six, container=cont, compression=comp,
			                  ids=dict(kind='str', vals=[f'g{i}' for i in range(6)], **{'as': 'list'}) if cont == 'annot_array' else None,
			                  meta=meta if cont.startswith('annot') else None))
	colls.append(dict(base, sigs=[[]], container='list', compression=None, ids=None, meta=None))
	colls.append(dict(base, sigs=[[], []], container='annot_list', compression='lzf', ids=None, meta=None))
	colls.append(dict(k=32, prefix='A', dtype='u8', sigs=[[0, 2 ** 63, 2 ** 64 - 1], [5]], container='list', compression=None, ids=None, meta=None))
	for _ in range(ctx.pick(20, 120)):
		n = rng.randint(1, 8)
		colls.append(dict(k=9, prefix='ACG', dtype='u4', sigs=[c12.rsig(rng, 9, 12, 'u4') for _ in range(n)], container=rng.choice(c12.CONTAINERS),
		                  compression=rng.choice(c12.COMPRESSIONS), ids=c12.rids(rng, n), meta=c12.rmeta(rng)))
	for coll in colls:
		total = n_calls(coll)
		for n in list(range(0, total + 1)) + [None]:
			ctx.count('stream:every-boundary')
			yield 'crash', dict(coll=coll, n=n)
	ctx.exhaustive = True
	ctx.extra['exhaustive_scope'] = ('for each of the listed collections (both write paths, 4 container types, filters, empty signatures, '
	                                 'u64 values): every boundary 0..N between storage-library calls, N = all calls done but file not closed, '
	                                 'plus the uninterrupted write')
	# multi-megabyte payloads (chunk data is written to the file long before close; the metadata is not)
	# quick: one collection, a few boundaries in the per-signature phase; thorough: three, every boundary
	for cont, comp in ((('list', None),) if ctx.quick else (('list', None), ('array', None), ('annot_list', 'gzip'))):
		nsig, per = 12, 120000
		coll = dict(k=11, prefix='ATGAC', dtype='u4', sigs_gen=[rng.randrange(2 ** 30), nsig, per, 4 ** 11],
		            container=cont, compression=comp, ids=None, meta=None)
		total = 12 if cont == 'array' else 14 + nsig
		points = [total // 2, total - 3, total - 1, total] if ctx.quick else list(range(0, total + 1)) + [None]
		for n in points:
			ctx.count('stream:large-payload')
			yield 'crash', dict(coll=coll, n=n, short=True)
	yield from gen_cli_kill(ctx, rng)


def rgenome(rng, prefix, k):
	"""1..3 contigs of a few hundred bases (mixed case, some N), the prefix planted a few times"""
	contigs = []
	for _ in range(rng.randint(1, 3)):
		s = [rng.choice('ACGTacgt' * 6 + 'N') for _ in range(rng.randint(60, 320))]
		for _ in range(rng.randint(1, 4)):
			p = rng.randrange(0, len(s) - len(prefix) - k)
			s[p:p + len(prefix)] = prefix
		contigs.append(''.join(s))
	return contigs


def cli_points(ngenomes, slack):
	"""every kill point of one command: before each calc event (enter, one per genome, return) and before each storage-library
	call of the command (open, 14 + n calls of the per-signature write path, 3 File objects h5py makes for open handles, close
	= 19 + n on the unchanged code; `slack` further ones for whatever else the command stores; points beyond the last event
	are completed writes), and none"""
	return [['calc', j] for j in range(ngenomes + 2)] + [['store', j] for j in range(19 + ngenomes + slack)] + [None]


def gen_cli_kill(ctx, rng):
	meta = dict(id='db/é', name='漢 set', version='1.0', id_attr='key', description='two\nlines', extra={'author': 'x', 'nested': {'a': [1, None]}})
	# ---- every kill point of two fixed-shape commands (genomes drawn from the seed)
	shapes = [dict(k=7, prefix='AT', n=3, ids=['s-00', 'é1', '漢 2'], meta=meta, cores=1, progress=False, via='args', kill='exit', width=60),
	          dict(k=11, prefix='ATG', n=2, ids=None, meta=None, cores=2, progress=True, via='listfile', kill='sigkill', width=None)]
	for sh in shapes:
		base = {f: v for f, v in sh.items() if f != 'n'}
		base['genomes'] = [rgenome(rng, sh['prefix'], sh['k']) for _ in range(sh['n'])]
		for at in cli_points(sh['n'], ctx.pick(3, 20)):
			ctx.count('stream:cli-kill-every-point')
			yield 'cli_kill', dict(base, at=at)
	ctx.extra['exhaustive_scope'] += ('; cli_kill: for two `gambit signatures create` commands every kill point of the command\'s main process: '
	                                 'before each calc event (entry, one per genome, return) and before each storage-library call from the '
	                                 'start of the command up to the close of the final write')
	# ---- random commands (k, prefix, 1..4 genomes incl. empty ones, ids / metadata / cores / progress / file-list channel / kind
	# of death), a few kill points each: always one inside the calculation and one right after it
	for _ in range(ctx.pick(10, 120)):
		k = rng.choice([5, 6, 8, 9, 11, 12, 16])   # the command refuses k < 5
		prefix = ''.join(rng.choice('ACGT') for _ in range(rng.randint(2, 4)))   # the command refuses a prefix shorter than 2
		n = rng.randint(1, 4)
		genomes = [rgenome(rng, prefix, k) if rng.random() < 0.9 else [''] for _ in range(n)]
		base = dict(k=k, prefix=prefix, genomes=genomes,
		            ids=None if rng.random() < 0.4 else [f'{rng.choice(["id", "é", "漢", "G"])}{i}' for i in range(n)],
		            meta=None if rng.random() < 0.4 else dict(id=c12.rstr(rng), name='n', version='1.0', id_attr='key', description=c12.rstr(rng),
		                                                      extra={'author': c12.rstr(rng), 'n': [1, None]}),
		            cores=rng.choice([1, 2, 3]), progress=rng.random() < 0.5, via=rng.choice(['args', 'listfile']),
		            kill=rng.choice(['exit', 'sigkill']), width=rng.choice([None, 1, 70]))
		pts = cli_points(n, 0)
		for at in [['calc', rng.randint(1, n)], ['calc', n + 1]] + rng.sample(pts, ctx.pick(2, 8)):
			ctx.count('stream:cli-kill-random')
			yield 'cli_kill', dict(base, at=at)
