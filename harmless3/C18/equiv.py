#!/usr/bin/env python
"""Differential test for the C18 harmless rewrite.

Usage: python equiv.py <clean-src-dir> <patched-src-dir>

Runs the same seeded inputs through gambit.db.sqla (ReadOnlySession, file_sessionmaker),
gambit.cli.common.CLIContext, gambit.sigs.hdf5.load_signatures_hdf5 / load_signatures and a few
CLI commands in two subprocesses (one per source tree) and compares the recorded results exactly.
Prints SAME / DIFFERENT, exit status 0 / 1.
"""
import sys, os, json, subprocess, tempfile, shutil


def main():
	clean, patched = map(os.path.abspath, sys.argv[1:3])
	outs = []
	for src in (clean, patched):
		fd, out = tempfile.mkstemp(suffix='.json', prefix='equivC18-')
		os.close(fd)
		env = dict(os.environ)
		env['PYTHONPATH'] = src
		env['OMP_WAIT_POLICY'] = 'PASSIVE'
		env.pop('GAMBIT_DB_PATH', None)
		p = subprocess.run([sys.executable, os.path.abspath(__file__), '--worker', src, out], env=env)
		if p.returncode != 0:
			print('worker failed for', src)
			print('DIFFERENT')
			sys.exit(1)
		with open(out) as f:
			outs.append(json.load(f))
		os.unlink(out)

	a, b = outs
	ndiff = 0
	keys = list(a)
	if list(b) != keys:
		print('record key lists differ')
		print('   only clean  :', [k for k in keys if k not in b][:10])
		print('   only patched:', [k for k in b if k not in a][:10])
		ndiff += 1
	for k in keys:
		if k in b and a[k] != b[k]:
			ndiff += 1
			if ndiff < 20:
				print('DIFF at', k)
				print('   clean  :', json.dumps(a[k])[:600])
				print('   patched:', json.dumps(b[k])[:600])
	print(f'{len(keys)} records compared, {ndiff} differences')
	print('SAME' if ndiff == 0 else 'DIFFERENT')
	sys.exit(0 if ndiff == 0 else 1)


################################################################################
# Worker
################################################################################

def worker(src, outfile):
	import random, hashlib, threading, types, sqlite3, warnings, io, gc
	from pathlib import Path
	import numpy as np
	import h5py
	import click
	from click.testing import CliRunner
	from sqlalchemy.orm import Session, sessionmaker

	import gambit
	assert os.path.abspath(gambit.__file__).startswith(src), (gambit.__file__, src)
	from gambit.db import sqla as gsqla
	from gambit.db import ReadOnlySession, file_sessionmaker, only_genomeset, ReferenceDatabase, load_genomeset
	from gambit.db.models import Genome
	from gambit.cli import common as ccommon
	from gambit.cli import cli
	from gambit.sigs.hdf5 import load_signatures_hdf5, HDF5Signatures, FMT_VERSION_ATTR
	from gambit.sigs.base import load_signatures, SignaturesFileError
	from gambit.sigs import hdf5 as ghdf5

	testdb = Path(src).parent / 'tests' / 'data' / 'testdb_210818'
	assert testdb.is_dir(), testdb

	tmp = Path(tempfile.mkdtemp(prefix='equivC18-work-'))
	records = {}
	counter = [0]

	def norm(x):
		"""Make JSON-able, replacing the temporary directory name."""
		if isinstance(x, dict):
			return {str(k): norm(v) for k, v in x.items()}
		if isinstance(x, (list, tuple)):
			return [norm(v) for v in x]
		if isinstance(x, (bytes, bytearray)):
			x = 'bytes:' + x.decode('latin-1')
		if isinstance(x, (np.generic,)):
			return [type(x).__name__, x.item()]
		if isinstance(x, np.ndarray):
			return ['ndarray', str(x.dtype), list(x.shape), norm(x.tolist())]
		if isinstance(x, Path):
			x = 'Path:' + str(x)
		if isinstance(x, str):
			return x.replace(str(tmp), '<TMP>').replace(str(testdb), '<TESTDB>').replace(src, '<SRC>')
		if x is None or isinstance(x, (bool, int, float)):
			return x
		return norm(repr(x))

	def excinfo(e):
		d = dict(type=type(e).__module__ + '.' + type(e).__qualname__, str=str(e), args=repr(e.args))
		for attr in ('message', 'filename', 'format'):
			if isinstance(e, SignaturesFileError):
				d[attr] = getattr(e, attr, '<missing>')
		c = e.__cause__
		d['cause'] = None if c is None else [type(c).__qualname__, str(c)]
		d['context'] = None if e.__context__ is None else type(e.__context__).__qualname__
		d['suppress'] = e.__suppress_context__
		return d

	def rec(name, func):
		counter[0] += 1
		key = f'{counter[0]:04d} {name}'
		gc.collect()   # deterministic finalization of leaked handles / connections
		with warnings.catch_warnings(record=True) as w:
			warnings.simplefilter('always')
			try:
				val = ['ok', func()]
			except BaseException as e:
				val = ['exc', excinfo(e)]
		val.append(sorted((wi.category.__name__, str(wi.message)) for wi in w
		                  if 'click' not in str(wi.message).lower() and 'fork()' not in str(wi.message)))
		gc.collect()
		records[norm(key)] = norm(val)

	def sha(path):
		with open(path, 'rb') as f:
			return hashlib.sha256(f.read()).hexdigest()

	# --- Database copies -------------------------------------------------------
	def copydb(name):
		d = tmp / name
		d.mkdir()
		shutil.copy(testdb / 'ref-genomes.gdb', d / 'ref-genomes.gdb')
		shutil.copy(testdb / 'ref-signatures.gs', d / 'ref-signatures.gs')
		return d

	db1 = copydb('db1')
	db2 = copydb('db2')
	# Make db2's genome set distinguishable
	con = sqlite3.connect(db2 / 'ref-genomes.gdb')
	con.execute("UPDATE genome_sets SET key = key || '-second', name = 'second'")
	con.commit()
	con.close()

	def dbhashes():
		return [sha(d / f) for d in (db1, db2) for f in ('ref-genomes.gdb', 'ref-signatures.gs')]

	hashes0 = dbhashes()
	records['0000 initial hashes'] = hashes0

	rng = random.Random(181818)

	# --- ReadOnlySession ------------------------------------------------------
	def describe_maker(maker):
		cls = maker.class_
		engine = maker.kw['bind']
		kw = {k: v for k, v in maker.kw.items() if k != 'bind'}
		return dict(
			mro=[c.__module__ + '.' + c.__qualname__ for c in cls.__mro__],
			name=cls.__name__,
			url=str(engine.url),
			url_repr=repr(engine.url),
			db_type=type(engine.url.database).__name__,
			drivername=engine.url.drivername,
			dialect=engine.dialect.name,
			kw=kw,
			maker_type=type(maker).__name__,
		)

	def use_maker(maker, mutate=True):
		"""Query through a session, try to modify, flush and commit."""
		out = dict()
		s = maker()
		out['session_type_mro'] = [c.__qualname__ for c in type(s).__mro__][:3]
		gset = only_genomeset(s)
		out['gset'] = [gset.key, gset.name, gset.version]
		out['ngenomes'] = gset.genomes.count()
		out['ntaxa'] = gset.taxa.count()
		if mutate:
			gset.name = 'modified!'
			s.add(Genome(key='equiv/new', description='new', ncbi_db='assembly', ncbi_id=123456789))
			out['flush'] = s.flush()
			out['flush_args'] = s.flush(None)
			out['flush_kw'] = s.flush(objects=[gset])
			out['new'] = len(s.new)
			out['dirty'] = len(s.dirty)
			try:
				s.commit()
				out['commit'] = 'ok'
			except Exception as e:
				out['commit'] = excinfo(e)
			s.rollback()
		s.close()
		maker.kw['bind'].dispose()
		return out

	rec('ROS doc', lambda: [ReadOnlySession.__doc__, ReadOnlySession.__mro__[1].__name__,
	                        sorted(k for k in vars(ReadOnlySession) if not k.startswith('__'))])

	def ros_direct():
		s = ReadOnlySession()
		out = [s.flush(), s.flush(1, 2, x=3)]
		for i in range(3):
			try:
				s.commit()
			except Exception as e:
				out.append(excinfo(e))
				out.append(e.__traceback__.tb_next is not None)
		return out
	rec('ROS direct', ros_direct)

	gdb1 = db1 / 'ref-genomes.gdb'
	gdb2 = db2 / 'ref-genomes.gdb'

	class MyStr(str):
		pass

	class MySession(Session):
		pass

	class PathLike:
		def __init__(self, p):
			self.p = p
		def __fspath__(self):
			return self.p

	path_variants = {
		'str1': str(gdb1), 'path1': gdb1, 'bytes1': os.fsencode(str(gdb1)), 'mystr1': MyStr(gdb1),
		'pathlike1': PathLike(str(gdb1)), 'pathlikebytes1': PathLike(os.fsencode(str(gdb1))),
		'str2': str(gdb2), 'path2': gdb2,
	}
	readonly_variants = {
		'True': True, 'False': False, '1': 1, '0': 0, 'npTrue': np.bool_(True), 'npFalse': np.bool_(False),
		'None': None, 'emptystr': '', 'str': 'no', 'list': [0], 'npint0': np.int64(0),
	}
	cls_variants = {'None': None, 'Session': Session, 'ROS': ReadOnlySession, 'My': MySession}

	for pn, p in path_variants.items():
		rec(f'fsm default {pn}', lambda: describe_maker(file_sessionmaker(p)))
		if 'bytes' not in pn:
			rec(f'fsm use {pn}', lambda: use_maker(file_sessionmaker(p)))
		rec(f'hashes after {pn}', lambda: dbhashes() == hashes0)

	for rn, r in readonly_variants.items():
		for cn, c in cls_variants.items():
			rec(f'fsm readonly={rn} cls={cn}', lambda: describe_maker(file_sessionmaker(gdb1, r, c)))
			rec(f'fsm kw readonly={rn} cls={cn}', lambda: describe_maker(
				file_sessionmaker(path=str(gdb1), readonly=r, cls=c, autoflush=False, expire_on_commit=False)))

	# Bad arguments
	bad = {
		'None': None, 'int': 5, 'float': 1.5, 'list': ['a'], 'tuple': ('a',), 'nparr': np.array([1, 2]),
		'badfspath': PathLike(5), 'empty': '', 'nul': 'a\0b',
	}
	for bn, b in bad.items():
		rec(f'fsm bad path {bn}', lambda: describe_maker(file_sessionmaker(b)))
	rec('fsm bad readonly array', lambda: describe_maker(file_sessionmaker(gdb1, np.array([1, 2]))))
	rec('fsm bad cls', lambda: describe_maker(file_sessionmaker(gdb1, cls=5)))
	rec('fsm bad kw', lambda: describe_maker(file_sessionmaker(gdb1, nonsense=5)))
	rec('fsm bad kw use', lambda: file_sessionmaker(gdb1, nonsense=5)())
	rec('fsm bind kw', lambda: describe_maker(file_sessionmaker(gdb1, bind=None)))
	rec('fsm class_ kw', lambda: describe_maker(file_sessionmaker(gdb1, class_=Session)))
	rec('fsm missing file', lambda: describe_maker(file_sessionmaker(tmp / 'missing.gdb')))
	rec('fsm missing file use', lambda: use_maker(file_sessionmaker(tmp / 'nodir' / 'missing.gdb'), False))
	rec('fsm odd names', lambda: [describe_maker(file_sessionmaker(n)) for n in
	                              ['a b.db', 'x?y=1.db', 'per%cent.db', '{brace}.db', ':memory:', 'ünï.db', '/abs/../x.db']])

	# Random sequence of calls (exercises any memoization): 250 calls
	pkeys = [k for k in path_variants if 'bytes' not in k]
	for i in range(250):
		pn = rng.choice(pkeys)
		rn = rng.choice(list(readonly_variants))
		cn = rng.choice(list(cls_variants))
		action = rng.choice(['describe', 'describe', 'use', 'use_nomut', 'bad'])
		if action == 'describe':
			rec(f'rand {i} describe {pn} {rn} {cn}',
			    lambda: describe_maker(file_sessionmaker(path_variants[pn], readonly_variants[rn], cls_variants[cn])))
		elif action == 'bad':
			bn = rng.choice(list(bad))
			rec(f'rand {i} bad {bn}', lambda: describe_maker(file_sessionmaker(bad[bn])))
		else:
			rec(f'rand {i} {action} {pn} {rn} {cn}',
			    lambda: use_maker(file_sessionmaker(path_variants[pn], readonly_variants[rn]), action == 'use'))
	rec('hashes after random fsm (non-readonly sessions may have committed)', dbhashes)
	# restore db copies if the non-readonly sessions changed anything (same on both sides)
	shutil.copy(testdb / 'ref-genomes.gdb', gdb1)
	shutil.copy(testdb / 'ref-genomes.gdb', gdb2)
	con = sqlite3.connect(gdb2)
	con.execute("UPDATE genome_sets SET key = key || '-second', name = 'second'")
	con.commit()
	con.close()
	hashes0 = dbhashes()
	records['0000b hashes after restore'] = hashes0

	# Relative file names + chdir: the same string must refer to different files
	def relative():
		out = []
		cwd = os.getcwd()
		try:
			for d in (db1, db2, db1, db2):
				os.chdir(d)
				for name in ('ref-genomes.gdb', Path('ref-genomes.gdb'), './ref-genomes.gdb'):
					m = file_sessionmaker(name)
					out.append([describe_maker(m)['url'], use_maker(m, False)['gset']])
					s, gset = load_genomeset(name)
					out.append([type(s).__mro__[1].__name__, gset.key])
					s.close()
		finally:
			os.chdir(cwd)
		return out
	rec('relative chdir', relative)

	# Threads
	def threaded():
		results = [None] * 8
		def run(i):
			p = [str(gdb1), str(gdb2)][i % 2]
			out = []
			for j in range(20):
				m = file_sessionmaker(p, readonly=bool(j % 3))
				out.append([describe_maker(m)['url'], describe_maker(m)['mro'][1], use_maker(m, False)['gset'][0]])
			results[i] = out
		ts = [threading.Thread(target=run, args=(i,)) for i in range(8)]
		for t in ts: t.start()
		for t in ts: t.join()
		return results
	rec('threads fsm', threaded)

	# Distinct engines per call (no sharing of engines / makers)
	def distinct():
		m1 = file_sessionmaker(gdb1)
		m2 = file_sessionmaker(gdb1)
		return [m1 is m2, m1.kw['bind'] is m2.kw['bind'], m1.class_ is m2.class_, m1.kw['bind'].url == m2.kw['bind'].url]
	rec('distinct engines', distinct)

	# --- CLIContext -------------------------------------------------------------
	emptydir = tmp / 'emptydir'; emptydir.mkdir()
	multidir = copydb('multi')
	shutil.copy(multidir / 'ref-genomes.gdb', multidir / 'other.db')
	nosigs = copydb('nosigs'); (nosigs / 'ref-signatures.gs').unlink()
	badsigs = copydb('badsigs'); (badsigs / 'ref-signatures.gs').write_bytes(b'not an hdf5 file at all')
	badgdb = copydb('badgdb'); (badgdb / 'ref-genomes.gdb').write_bytes(b'not sqlite')
	afile = tmp / 'afile'; afile.write_text('x')

	ctx_dirs = {
		'none': None, 'db1': db1, 'db1str': str(db1), 'db2': db2, 'empty': emptydir, 'multi': multidir,
		'nosigs': nosigs, 'badsigs': badsigs, 'badgdb': badgdb, 'missing': tmp / 'nope', 'file': afile,
	}

	def mkctx(d):
		return ccommon.CLIContext(types.SimpleNamespace(params=dict(db_path=d)))

	def ctx_state(c):
		return {k: (v if not isinstance(v, (sessionmaker,)) else 'maker') for k, v in sorted(vars(c).items())
		        if k != 'root_context' and k not in ('_engine', '_signatures')} | dict(
			engine_set=c._engine is not None, sigs_set=c._signatures is not None)

	def ctx_op(c, op):
		if op == 'has_genomes': return c.has_genomes
		if op == 'has_signatures': return c.has_signatures
		if op == 'has_database': return c.has_database
		if op == 'require_database': return c.require_database()
		if op == 'require_genomes': return c.require_genomes()
		if op == 'require_signatures': return c.require_signatures()
		if op == 'engine':
			e = c.engine
			return None if e is None else [str(e.url), e is c.engine, type(e).__name__]
		if op == 'Session':
			S = c.Session
			if S is None: return None
			d = describe_maker(S)
			return [d, S is c.Session, S.kw['bind'] is c.engine, use_maker(S)]
		if op == 'signatures':
			sg = c.signatures
			if sg is None: return None
			return [type(sg).__name__, len(sg), list(sg.ids[:3]), sg is c.signatures, bool(sg), sg.group.file.mode,
			        str(sg.kmerspec), sg.meta.id]
		if op == 'get_database':
			db = c.get_database()
			db2_ = c.get_database()
			from sqlalchemy.orm import object_session
			s = object_session(db.genomeset)
			s2 = object_session(db2_.genomeset)
			res = [db.genomeset.key, len(db.genomes), db.signatures is c.signatures, db.sig_indices[:5],
			       type(s).__mro__[1].__name__, s is s2, s.bind is c.engine,
			       db.genomes[0].key, db.genomes[-1].key]
			s.close(); s2.close()
			return res
		if op == '_find_db': return c._find_db()
		if op == '_init_genomes': return c._init_genomes()
		raise AssertionError(op)

	ops = ['has_genomes', 'has_signatures', 'has_database', 'require_database', 'require_genomes',
	       'require_signatures', 'engine', 'Session', 'signatures', 'get_database', '_find_db', '_init_genomes']

	def close_ctx(c):
		if c._signatures is not None:
			c._signatures.close()
		if c._engine is not None:
			c._engine.dispose()

	# every op first on a fresh context, for every directory
	for dn, d in ctx_dirs.items():
		for op in ops:
			c = mkctx(d)
			rec(f'ctx {dn} first {op}', lambda: ctx_op(c, op))
			rec(f'ctx {dn} first {op} state', lambda: ctx_state(c))
			rec(f'ctx {dn} again {op}', lambda: ctx_op(c, op))
			close_ctx(c)

	# random op sequences on shared contexts, failing ones interleaved
	for i in range(40):
		names = [rng.choice(list(ctx_dirs)) for _ in range(3)]
		ctxs = [mkctx(ctx_dirs[n]) for n in names]
		for j in range(8):
			k = rng.randrange(3)
			op = rng.choice(ops)
			rec(f'ctxseq {i}.{j} {names[k]} {op}', lambda: ctx_op(ctxs[k], op))
		for k in range(3):
			rec(f'ctxseq {i} final state {k}', lambda: ctx_state(ctxs[k]))
			close_ctx(ctxs[k])
	rec('hashes after ctx', lambda: dbhashes() == hashes0)

	# A search that fails is retried: fix the directory afterwards
	def retry():
		d = tmp / 'retry'; d.mkdir()
		c = mkctx(d)
		out = []
		for step in range(2):
			for op in ('has_genomes', 'signatures', 'engine', 'get_database'):
				try:
					r = ctx_op(c, op)
				except Exception as e:
					r = excinfo(e)
				out.append(r)
			out.append(ctx_state(c))
			shutil.copy(gdb1, d / 'g.db'); shutil.copy(db1 / 'ref-signatures.gs', d / 's.h5')
		close_ctx(c)
		return out
	rec('ctx retry', retry)

	# context from several threads
	def ctx_threads():
		c = mkctx(db1)
		res = [None] * 6
		def run(i):
			out = []
			for op in rng_ops[i]:
				try:
					out.append(ctx_op(c, op))
				except Exception as e:
					out.append(excinfo(e))
			res[i] = out
		rng_ops = [[rng.choice(['has_database', 'engine', 'signatures', 'require_database', 'has_genomes'])
		            for _ in range(10)] for _ in range(6)]
		ts = [threading.Thread(target=run, args=(i,)) for i in range(6)]
		for t in ts: t.start()
		for t in ts: t.join()
		# identity results of 'engine is c.engine' may race in principle in both versions; keep only stable parts
		st = ctx_state(c)
		close_ctx(c)
		return [[(r if not isinstance(r, list) else [r[0], r[2]] if len(r) == 3 else [r[0], r[1], r[2]]) for r in out] for out in res], st
	rec('ctx threads', ctx_threads)

	# --- load_signatures_hdf5 -------------------------------------------------------
	sigfile = db1 / 'ref-signatures.gs'
	qsig = testdb / 'queries' / 'query-signatures.gs'

	def describe_sigs(sg, close=True):
		try:
			return dict(type=type(sg).__name__, n=len(sg), ids=list(sg.ids), kspec=str(sg.kmerspec),
			            meta=repr(sg.meta), mode=sg.group.file.mode, fmt=sg.format_version,
			            fmt_type=type(sg.format_version).__name__, first=np.asarray(sg[0])[:5],
			            sizes=np.asarray(sg.sizes())[:5], bounds_dtype=str(sg.bounds.dtype), bool=bool(sg),
			            filename=sg.group.file.filename)
		finally:
			if close:
				sg.close()

	rw_copy = tmp / 'rw.gs'; shutil.copy(sigfile, rw_copy)
	h5_noattr = tmp / 'noattr.h5'
	with h5py.File(h5_noattr, 'w') as f:
		f.create_dataset('x', data=np.arange(3))
	h5_badver = tmp / 'badver.h5'
	with h5py.File(h5_badver, 'w') as f:
		f.attrs[FMT_VERSION_ATTR] = 99
	h5_nodata = tmp / 'nodata.h5'
	with h5py.File(h5_nodata, 'w') as f:
		f.attrs[FMT_VERSION_ATTR] = 1
	h5_partial = tmp / 'partial.h5'
	with h5py.File(h5_partial, 'w') as f:
		f.attrs[FMT_VERSION_ATTR] = 1
		f.attrs['kmerspec_k'] = 11
		f.attrs['kmerspec_prefix'] = 'ATGAC'
	magic_only = tmp / 'magic.h5'; magic_only.write_bytes(b'\x89HDF\r\n\x1a\n')
	magic_junk = tmp / 'magicjunk.h5'; magic_junk.write_bytes(b'\x89HDF\r\n\x1a\n' + bytes(range(256)) * 8)
	short = tmp / 'short.h5'; short.write_bytes(b'\x89HDF')
	emptyf = tmp / 'empty.h5'; emptyf.write_bytes(b'')
	text = tmp / 'text {x} %s.gs'; text.write_text('hello world, this is not hdf5\n')
	almost = tmp / 'almost.h5'; almost.write_bytes(b'\x89HDF\r\n\x1a\x0b' + b'\0' * 100)

	sig_inputs = {
		'valid str': str(sigfile), 'valid path': sigfile, 'valid bytes': os.fsencode(str(sigfile)),
		'valid pathlike': PathLike(str(sigfile)), 'query sigs': qsig,
		'noattr': h5_noattr, 'badver': h5_badver, 'nodata': h5_nodata, 'partial': h5_partial,
		'magic only': magic_only, 'magic junk': magic_junk, 'short': short, 'empty': emptyf, 'text': text,
		'almost': almost, 'missing': tmp / 'missing.gs', 'dir': db1, 'None': None, 'float': 1.5,
		'sqlite': gdb1, 'str noattr': str(h5_noattr), 'list': [str(sigfile)],
	}
	for loader_name, loader in [('hdf5', load_signatures_hdf5), ('generic', load_signatures)]:
		for n, p in sig_inputs.items():
			rec(f'sigs {loader_name} {n}', lambda: describe_sigs(loader(p)))
			if loader_name == 'hdf5':
				rec(f'sigs {loader_name} {n} again', lambda: describe_sigs(loader(p)))

	kws = {
		'mode r': dict(mode='r'), 'mode r+': dict(mode='r+'), 'mode a': dict(mode='a'), 'bad mode': dict(mode='zz'),
		'driver core': dict(driver='core', backing_store=False), 'swmr': dict(mode='r', swmr=True),
		'libver': dict(libver='latest'), 'unknown kw': dict(nonsense=1), 'name kw': dict(name='x'),
		'rdcc': dict(rdcc_nbytes=1024), 'open_kw': dict(open_kw={}), 'not_sigfile': dict(not_sigfile=None),
	}
	for n, kw in kws.items():
		for target_name, target in [('valid', rw_copy), ('noattr', h5_noattr), ('text', text), ('badver', h5_badver)]:
			rec(f'sigs kw {n} {target_name}', lambda: describe_sigs(load_signatures_hdf5(target, **kw)))
			rec(f'sigs generic kw {n} {target_name}', lambda: describe_sigs(load_signatures(target, **kw)))
	rec('sigs path kw', lambda: load_signatures_hdf5(rw_copy, path=rw_copy))
	rec('sigs no args', lambda: load_signatures_hdf5())
	rec('sigs positional mode', lambda: load_signatures_hdf5(rw_copy, 'r'))
	rec('rw copy unchanged', lambda: sha(rw_copy) == sha(sigfile))

	# context manager use, repeated opens of the same file at once
	def multi_open():
		a = load_signatures_hdf5(sigfile); b = load_signatures_hdf5(str(sigfile))
		out = [a is b, a.group.file.mode, b.group.file.mode, np.array_equal(a.ids, b.ids), bool(a), bool(b)]
		with a as a2:
			out.append(a2 is a)
		out += [bool(a), bool(b)]
		b.close(); b.close()
		out += [bool(b)]
		return out
	rec('sigs multi open', multi_open)

	# writing through default-mode handle must fail
	def write_attempt():
		sg = load_signatures_hdf5(sigfile)
		try:
			sg.group.attrs['x'] = 1
		finally:
			sg.close()
	rec('sigs write attempt', write_attempt)

	# seeded truncations of a valid file
	data = sigfile.read_bytes()
	trunc = tmp / 'trunc.gs'
	lengths = sorted({rng.randrange(0, len(data)) for _ in range(60)} | {0, 1, 7, 8, 9, 16, 512, len(data) - 1})
	for L in lengths:
		trunc.write_bytes(data[:L])
		def f():
			try:
				return describe_sigs(load_signatures_hdf5(trunc))['n']
			except SignaturesFileError as e:
				d = excinfo(e)
				# h5py's own message text is not the project's: keep only the type of the cause
				d['cause'] = d['cause'] and d['cause'][0]
				return d
		rec(f'sigs trunc {L}', f)
	# corrupted magic
	for i in range(8):
		b = bytearray(data[:4096])
		b[i] ^= 0xff
		trunc.write_bytes(bytes(b))
		rec(f'sigs corrupt magic {i}', lambda: describe_sigs(load_signatures_hdf5(trunc)))

	rec('hdf5 module public names', lambda: sorted(n for n in vars(ghdf5) if not n.startswith('_')))
	rec('sqla module public names', lambda: sorted(n for n in vars(gsqla) if not n.startswith('_')))
	rec('common module public names', lambda: sorted(n for n in vars(ccommon) if not n.startswith('_')))
	import inspect
	rec('signatures', lambda: [str(inspect.signature(f)) for f in
	                           (file_sessionmaker, load_signatures_hdf5, ReadOnlySession.flush, ReadOnlySession.commit,
	                            ccommon.CLIContext.__init__, ccommon.CLIContext.get_database)])
	rec('docs', lambda: [f.__doc__ for f in (file_sessionmaker, load_signatures_hdf5, ccommon.CLIContext,
	                                         ccommon.CLIContext.get_database)])

	rec('hashes after sigs', lambda: dbhashes() == hashes0)

	# --- ReferenceDatabase loading ----------------------------------------------------
	def refdb(d):
		db = ReferenceDatabase.load_from_dir(d)
		from sqlalchemy.orm import object_session
		s = object_session(db.genomeset)
		out = [db.genomeset.key, len(db.genomes), type(s).__mro__[1].__name__, db.signatures.group.file.mode,
		       str(s.bind.url)]
		db.genomeset.name = 'changed'
		out.append(s.flush())
		try:
			s.commit()
		except Exception as e:
			out.append(excinfo(e))
		s.close(); db.signatures.close(); s.bind.dispose()
		return out
	for dn, d in ctx_dirs.items():
		if d is not None:
			rec(f'refdb load_from_dir {dn}', lambda: refdb(d))
	rec('refdb load', lambda: [ReferenceDatabase.load(gdb1, sigfile).genomeset.key])
	rec('hashes after refdb', lambda: dbhashes() == hashes0)

	# --- CLI ---------------------------------------------------------------------------
	qdir = testdb / 'queries' / 'genomes'
	qfiles = sorted(str(p) for p in qdir.iterdir() if p.suffix == '.fasta')
	listfile = tmp / 'list.txt'
	listfile.write_text('\n'.join(os.path.basename(q) for q in qfiles[:4]) + '\n')

	ncli = [0]
	def run_cli(args, outname=None, env=None):
		ncli[0] += 1
		runner = CliRunner()
		args = [str(a) for a in args]
		out = None
		if outname is not None:
			out = tmp / f'cliout-{ncli[0]}-{outname}'
			args = args + ['-o', str(out)]
		e = dict(GAMBIT_DB_PATH=None)
		e.update(env or {})
		r = runner.invoke(cli, args, env=e)
		res = dict(exit=r.exit_code, output=r.output,
		           exc=None if r.exception is None or isinstance(r.exception, SystemExit) else excinfo(r.exception))
		try:
			res['stderr'] = r.stderr
		except Exception:
			res['stderr'] = None
		if out is not None:
			res['file'] = out.read_text() if out.exists() else None
			if res['file'] is not None and 'json' in outname:
				# timestamps
				import re
				res['file'] = re.sub(r'"timestamp": "[^"]*"', '"timestamp": "T"', res['file'])
		return res

	cli_cmds = [
		(['-d', db1, 'query', '--no-progress'] + qfiles[:3], 'q.csv'),
		(['-d', db1, 'query', '--no-progress', '-f', 'json'] + qfiles[:2], 'q.json'),
		(['-d', db1, 'query', '--no-progress', '-f', 'archive'] + qfiles[:2], 'q.archive.json'),
		(['-d', db1, 'query', '--no-progress', '-s', qsig], 'qs.csv'),
		(['-d', db1, 'query', '--no-progress', '-l', listfile, '--ldir', qdir], 'ql.csv'),
		(['-d', db2, 'query', '--no-progress', '--strict'] + qfiles[:2], 'q2.csv'),
		(['query', '--no-progress'] + qfiles[:1], 'nodb.csv'),
		(['-d', emptydir, 'query', '--no-progress'] + qfiles[:1], 'emptydb.csv'),
		(['-d', multidir, 'query', '--no-progress'] + qfiles[:1], 'multidb.csv'),
		(['-d', badsigs, 'query', '--no-progress'] + qfiles[:1], 'badsigs.csv'),
		(['-d', badgdb, 'query', '--no-progress'] + qfiles[:1], 'badgdb.csv'),
		(['-d', nosigs, 'query', '--no-progress'] + qfiles[:1], 'nosigs.csv'),
		(['-d', tmp / 'nope', 'query', '--no-progress'] + qfiles[:1], 'missingdb.csv'),
		(['-d', db1, 'query', '--no-progress'], 'noinput.csv'),
		(['-d', db1, 'dist', '--no-progress', '-d', '-q', qfiles[0], '-q', qfiles[1]], 'dist-db.csv'),
		(['-d', db1, 'dist', '--no-progress', '--qs', qsig, '--use-db'], 'dist-qs-db.csv'),
		(['-d', db1, 'dist', '--no-progress', '--qs', qsig, '--rs', sigfile], 'dist-qs-rs.csv'),
		(['-d', db1, 'dist', '--no-progress', '--qs', qsig, '-s'], 'dist-sq.csv'),
		(['dist', '--no-progress', '--qs', qsig, '--use-db'], 'dist-nodb.csv'),
		(['-d', emptydir, 'dist', '--no-progress', '--qs', qsig, '--use-db'], 'dist-emptydb.csv'),
		(['-d', db1, 'signatures', 'info', '-d'], None),
		(['-d', db1, 'signatures', 'info', '-d', '-j'], None),
		(['-d', db1, 'signatures', 'info', '-d', '-j', '-p'], None),
		(['-d', db1, 'signatures', 'info', '-d', '-i'], None),
		(['-d', db2, 'signatures', 'info', sigfile], None),
		(['signatures', 'info', '-d'], None),
		(['signatures', 'info', text], None),
		(['signatures', 'info', h5_noattr], None),
		(['signatures', 'info', h5_badver], None),
		(['signatures', 'info', magic_junk], None),
		(['-d', badsigs, 'signatures', 'info', '-d'], None),
		(['-d', db1, 'signatures', 'create', '--no-progress', '--db-params'] + qfiles[:2], 'created.gs.bin'),
		(['-d', db1, 'tree', '--no-progress', '-s', qsig], None),
		(['-d', db1, 'tree', '--no-progress', '-k', '11', '-p', 'ATGAC'] + qfiles[:4], None),
		(['--help'], None),
		(['-d', db1, 'debug', '--help'], None),
	]

	def run_entry(entry):
		args, outname = entry
		if outname is not None and outname.endswith('.bin'):
			# binary output file: only record success and the ids stored
			ncli[0] += 1
			out = tmp / f'cliout-{ncli[0]}-{outname}'
			r = CliRunner().invoke(cli, [str(a) for a in args] + ['-o', str(out)], env=dict(GAMBIT_DB_PATH=None))
			res = dict(exit=r.exit_code, output=r.output)
			if out.exists():
				res['sigs'] = {k: v for k, v in describe_sigs(load_signatures(out)).items() if k != 'filename'}
			return res
		return run_cli(args, outname)

	for i, entry in enumerate(cli_cmds):
		rec(f'cli {i} {" ".join(map(str, entry[0][:6]))}', lambda: run_entry(entry))
		rec(f'cli {i} hashes', lambda: dbhashes() == hashes0)

	# random order, repeated, failing ones interleaved
	order = [rng.randrange(len(cli_cmds)) for _ in range(40)]
	for j, i in enumerate(order):
		rec(f'clirand {j} -> {i}', lambda: run_entry(cli_cmds[i]))
	rec('cli env db', lambda: run_cli(['signatures', 'info', '-d', '-i'], env=dict(GAMBIT_DB_PATH=str(db1))))
	rec('final hashes', lambda: dbhashes() == hashes0)
	rec('final hashes values', dbhashes)

	shutil.rmtree(tmp, ignore_errors=True)
	with open(outfile, 'w') as f:
		json.dump(records, f)
	sys.stdout.flush()
	os._exit(0)   # do not hang on leaked (intentionally unclosed) HDF5 handles


if __name__ == '__main__':
	if len(sys.argv) == 4 and sys.argv[1] == '--worker':
		worker(os.path.abspath(sys.argv[2]), sys.argv[3])
	elif len(sys.argv) == 3:
		main()
	else:
		print(__doc__)
		sys.exit(2)
