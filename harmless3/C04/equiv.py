#!/usr/bin/env python
"""Differential test for the C04 rewrite (gambit.db.refdb / gambit.metric.jaccarddist_matrix).

Usage: python equiv.py <clean-src-dir> <patched-src-dir>

Runs the same seeded inputs through the touched public functions / CLI in two subprocesses (one per
PYTHONPATH), pickles a normalised record per case, and compares the two record lists exactly.
Prints SAME (exit 0) or DIFFERENT (exit 1).
"""

import os
import sys
import pickle
import subprocess
import tempfile
from pathlib import Path


# --------------------------------------------------------------------------------------------------
# Worker
# --------------------------------------------------------------------------------------------------

def worker(outfile, testdb_dir):
	import io
	import random
	import re
	import shutil
	import threading
	import warnings

	import numpy as np
	from sqlalchemy import create_engine
	from sqlalchemy.orm import sessionmaker

	from gambit.db import refdb
	from gambit.db import Genome, ReferenceGenomeSet, AnnotatedGenome, Taxon, ReferenceDatabase
	from gambit.db.models import Base
	from gambit.sigs.base import SignatureArray, SignatureList, AnnotatedSignatures, SignaturesMeta, load_signatures
	from gambit.sigs.hdf5 import dump_signatures_hdf5
	from gambit.kmers import KmerSpec
	from gambit.metric import jaccarddist_matrix
	from gambit.query import query, QueryParams
	from gambit.util.progress import TestProgressMeter

	tmproot = Path(tempfile.mkdtemp(prefix='equivC04_'))
	records = []

	def fixstr(s):
		return s.replace(str(tmproot), '<TMP>')

	def norm(x):
		if isinstance(x, AnnotatedGenome):
			return ('AG', x.genome.key)
		if isinstance(x, np.ndarray):
			if x.dtype == object:
				return ('ndobj', x.shape, [norm(v) for v in x.ravel().tolist()])
			return ('nd', x.dtype.str, x.shape, np.ascontiguousarray(x).tobytes(), x.flags.c_contiguous)
		if isinstance(x, np.generic):
			return ('npscalar', type(x).__name__, repr(x))
		if isinstance(x, (list, tuple)):
			return (type(x).__name__, [norm(v) for v in x])
		if isinstance(x, dict):
			return ('dict', [(norm(k), norm(v)) for k, v in x.items()])
		if isinstance(x, Path):
			return ('Path', type(x).__name__, fixstr(str(x)))
		if isinstance(x, str):
			return ('str', fixstr(x))
		if x is None or isinstance(x, (bool, int, float, bytes)):
			return (type(x).__name__, repr(x))
		return ('obj', type(x).__name__)

	def run(label, fn):
		with warnings.catch_warnings(record=True) as wlist:
			warnings.simplefilter('always')
			try:
				res = ('ok', norm(fn()))
			except BaseException as e:
				extra = {k: norm(v) for k, v in sorted(vars(e).items())} if hasattr(e, '__dict__') else {}
				res = ('exc', type(e).__name__, fixstr(str(e)), fixstr(repr(e.args)), extra)
		wrec = [(w.category.__name__, fixstr(str(w.message))) for w in wlist
		        if 'gambit' in (w.filename or '')]
		records.append((label, res, wrec))
		return res

	# ---------------------------------------------------------------------------------------------
	# Helpers to build genome sets
	# ---------------------------------------------------------------------------------------------

	def make_gset(n, tag='', null_attr=None, null_idxs=()):
		engine = create_engine('sqlite:///:memory:')
		Base.metadata.create_all(engine)
		session = sessionmaker(engine)()
		gset = ReferenceGenomeSet(key='gset' + tag, version='1.0', name='Test genome set')
		session.add(gset)
		root = Taxon(key='root' + tag, name='root', genome_set=gset)
		session.add(root)
		for i in range(n):
			kw = dict(
				key=f'genome{tag}_{i}',
				description=f'Test genome {i}',
				ncbi_db='assembly',
				ncbi_id=1000 + i,
				genbank_acc=f'GCA_{i:09d}.1',
				refseq_acc=f'GCF_{i:09d}.1',
			)
			if null_attr is not None and i in null_idxs:
				kw[null_attr] = None
			session.add(AnnotatedGenome(genome_set=gset, genome=Genome(**kw), taxon=root))
		session.commit()
		return session, gset

	ATTRS = list(Genome.ID_ATTRS)

	def valid_ids(gset, attr):
		return [getattr(g.genome, attr) for g in gset.genomes.order_by(AnnotatedGenome.genome_id)]

	def wrap_ids(ids, kind):
		if kind == 'list':
			return list(ids)
		if kind == 'tuple':
			return tuple(ids)
		if kind == 'iter':
			return iter(list(ids))
		if kind == 'gen':
			return (x for x in list(ids))
		if kind == 'ndobj':
			a = np.empty(len(ids), dtype=object)
			for i, v in enumerate(ids):
				a[i] = v
			return a
		if kind == 'nd':
			try:
				return np.asarray(list(ids))
			except Exception:
				return list(ids)
		if kind == 'dictkeys':
			return dict.fromkeys(ids).keys()
		raise ValueError(kind)

	KINDS = ['list', 'tuple', 'iter', 'gen', 'ndobj', 'nd', 'dictkeys']
	STRICTS = [True, False, 0, 1, None, np.bool_(True), np.bool_(False), 'yes', '']

	# ---------------------------------------------------------------------------------------------
	# 1. ID attribute argument checking
	# ---------------------------------------------------------------------------------------------
	session0, gset0 = make_gset(5, 'a')
	bad_attr_args = ['description', '', 'KEY', 'id', None, 3, b'key', Genome.description, Genome.id,
	                 AnnotatedGenome.organism, AnnotatedGenome.genome_id, ('key',), ['key'], np.str_('key')]
	for rep in range(2):   # twice: lazily built lookup table must behave the same on reuse
		for name in ATTRS:
			for arg in (name, getattr(Genome, name)):
				run(f'attr/{rep}/{name}/{type(arg).__name__}', lambda: refdb.genomes_by_id(gset0, arg, valid_ids(gset0, name)))
				run(f'attr-id/{rep}/{name}/{type(arg).__name__}', lambda: refdb._check_genome_id_attr(arg) is getattr(Genome, name))
		for i, arg in enumerate(bad_attr_args):
			run(f'attr-bad/{rep}/{i}/by_id', lambda: refdb.genomes_by_id(gset0, arg, []))
			run(f'attr-bad/{rep}/{i}/subset', lambda: refdb.genomes_by_id_subset(gset0, arg, []))

	# From threads
	thread_out = [None] * 4
	def tfunc(i):
		thread_out[i] = [refdb._check_genome_id_attr(n) is getattr(Genome, n) for n in ATTRS]
	threads = [threading.Thread(target=tfunc, args=(i,)) for i in range(4)]
	for t in threads: t.start()
	for t in threads: t.join()
	run('attr-threads', lambda: thread_out)

	# ---------------------------------------------------------------------------------------------
	# 2. genomes_by_id / genomes_by_id_subset
	# ---------------------------------------------------------------------------------------------
	rng = random.Random(1234)
	gsets = [make_gset(n, f'b{n}') for n in (0, 1, 2, 7, 15)]

	for case in range(220):
		session, gset = rng.choice(gsets)
		name = rng.choice(ATTRS)
		attr_arg = name if rng.random() < .5 else getattr(Genome, name)
		pool = valid_ids(gset, name)
		invalid = ['!INVALID!', -1, None, 'genome_x', 10 ** 12, 1000.0, np.int64(1001), np.str_('GCA_000000001.1'), True, (1, 2)]
		k = rng.randint(0, 20)
		ids = []
		p_valid = rng.choice([1.0, 1.0, .93, .65])
		for _ in range(k):
			r = rng.random()
			if not pool and p_valid == 1.0:
				break
			if pool and r < p_valid:
				ids.append(rng.choice(pool))
			else:
				ids.append(rng.choice(invalid))
		if rng.random() < .08:
			ids.insert(rng.randint(0, len(ids)), [1])   # unhashable
		kind = rng.choice(KINDS)
		strict = rng.choice(STRICTS)
		run(f'byid/{case}/strict', lambda: refdb.genomes_by_id(gset, attr_arg, wrap_ids(ids, kind), strict=strict))
		run(f'byid/{case}/default', lambda: refdb.genomes_by_id(gset, attr_arg, wrap_ids(ids, kind)))
		run(f'byid/{case}/subset', lambda: refdb.genomes_by_id_subset(gset, attr_arg, wrap_ids(ids, kind)))

		# Iterator consumption on failure
		it = iter(list(ids))
		run(f'byid/{case}/iter-strict', lambda: refdb.genomes_by_id(gset, attr_arg, it, strict=True))
		run(f'byid/{case}/iter-rest', lambda: list(map(repr, it)))

	run('byid/notiterable', lambda: refdb.genomes_by_id(gset0, 'key', 5))
	run('byid/notiterable-subset', lambda: refdb.genomes_by_id_subset(gset0, 'key', None))
	run('byid/str-ids', lambda: refdb.genomes_by_id_subset(gset0, 'key', 'genomea_0'))

	# Genomes missing ID values
	for name in ATTRS[1:]:
		for nulls in [(0,), (1, 3), (0, 1, 2, 3)]:
			s, g = make_gset(4, 'n', null_attr=name, null_idxs=nulls)
			for other in ATTRS:
				run(f'nullids/{name}/{nulls}/{other}', lambda: refdb.genomes_by_id(g, other, [], strict=False))
				run(f'nullids-sub/{name}/{nulls}/{other}', lambda: refdb.genomes_by_id_subset(g, other, valid_ids(g, 'key')))
			s.close()

	# Database mutated between calls (no stale state allowed), same ids against several genome sets
	s, g = make_gset(6, 'm')
	s2, g2 = make_gset(6, 'm')
	ids = valid_ids(g, 'key') + ['genomem_new', 'renamed']
	run('mut/0', lambda: refdb.genomes_by_id_subset(g, 'key', ids))
	run('mut/0-other', lambda: refdb.genomes_by_id_subset(g2, 'key', ids))
	root = s.query(Taxon).one()
	s.add(AnnotatedGenome(genome_set=g, taxon=root, genome=Genome(key='genomem_new', description='x', ncbi_db='assembly', ncbi_id=5, genbank_acc='GCA_X', refseq_acc='GCF_X')))
	s.commit()
	run('mut/1', lambda: refdb.genomes_by_id_subset(g, 'key', ids))
	run('mut/1-strict', lambda: refdb.genomes_by_id(g, 'key', ids))
	s.query(Genome).filter_by(key='genomem_0').one().key = 'renamed'
	run('mut/2-uncommitted', lambda: refdb.genomes_by_id_subset(g, 'key', ids))
	s.commit()
	run('mut/2', lambda: refdb.genomes_by_id_subset(g, 'key', ids))
	run('mut/2-nonstrict', lambda: refdb.genomes_by_id(g, Genome.key, ids, strict=False))
	s.query(Genome).filter_by(key='genomem_1').one().refseq_acc = None
	s.commit()
	run('mut/3-null', lambda: refdb.genomes_by_id_subset(g, 'refseq_acc', ids))
	run('mut/3-key', lambda: refdb.genomes_by_id_subset(g, 'key', ids))
	run('mut/3-other', lambda: refdb.genomes_by_id_subset(g2, 'key', ids))

	# ---------------------------------------------------------------------------------------------
	# 3. ReferenceDatabase construction + distances
	# ---------------------------------------------------------------------------------------------
	kspec = KmerSpec(5, 'ATG')
	rng = random.Random(99)
	nprng = np.random.RandomState(7)

	def rand_sig(maxlen=40):
		n = nprng.randint(0, maxlen)
		return np.sort(nprng.choice(kspec.nkmers, size=n, replace=False)).astype(kspec.index_dtype)

	def describe_db(db):
		return dict(
			genomes=[g.genome.key for g in db.genomes],
			genomes_type=type(db.genomes).__name__,
			idx=list(db.sig_indices),
			idx_type=type(db.sig_indices).__name__,
			idx_el=[type(i).__name__ for i in db.sig_indices],
			session=db.session is not None,
			sigs_same=True,
		)

	def describe_results(results):
		out = []
		for item in results.items:
			cr = item.classifier_result
			out.append((
				item.input.label,
				cr.success,
				cr.predicted_taxon.key if cr.predicted_taxon is not None else None,
				cr.primary_match.genome.genome.key if cr.primary_match is not None else None,
				float(cr.primary_match.distance).hex() if cr.primary_match is not None else None,
				sorted(cr.warnings),
				cr.error,
				item.report_taxon.key if item.report_taxon is not None else None,
				[(m.genome.genome.key, type(m.distance).__name__, float(m.distance).hex()) for m in item.closest_genomes],
			))
		return out

	for case in range(120):
		n = rng.randint(0, 12)
		session, gset = make_gset(n, f'c{case}')
		name = rng.choice(ATTRS)
		ids = valid_ids(gset, name)
		extras = [f'extra_{i}' if name != 'ncbi_id' else 50000 + i for i in range(rng.randint(0, 6))]
		all_ids = ids + extras
		rng.shuffle(all_ids)
		mode = rng.choice(['ok', 'ok', 'ok', 'ok', 'missing', 'dup', 'dup-extra', 'noattr', 'badattr', 'otherattr', 'missing+dup'])
		id_attr = name
		if mode in ('missing', 'missing+dup') and ids:
			all_ids.remove(rng.choice(ids))
		if mode in ('dup', 'missing+dup') and all_ids:
			present = [i for i in all_ids if i in ids]
			if present:
				all_ids.insert(rng.randint(0, len(all_ids)), rng.choice(present))
		if mode == 'dup-extra' and extras:
			all_ids.append(extras[0])
		if mode == 'noattr':
			id_attr = None
		if mode == 'badattr':
			id_attr = 'description'
		if mode == 'otherattr':
			id_attr = rng.choice([a for a in ATTRS if a != name])
		sigs = [rand_sig() for _ in all_ids]
		arr = SignatureArray(sigs, kspec) if rng.random() < .6 else SignatureList(sigs, kspec)
		idkind = rng.choice(['list', 'tuple', 'nd', 'ndobj'])
		refsigs = AnnotatedSignatures(arr, wrap_ids(all_ids, idkind), SignaturesMeta(id='x', id_attr=id_attr))
		holder = {}

		def build():
			holder['db'] = ReferenceDatabase(gset, refsigs)
			return describe_db(holder['db'])

		res = run(f'refdb/{case}/{mode}/{name}/{idkind}', build)
		if res[0] == 'ok':
			db = holder['db']
			queries = [rand_sig() for _ in range(rng.randint(1, 4))]
			for chunksize in (None, 1, 3, 100):
				run(f'refdb/{case}/dmat/{chunksize}', lambda: jaccarddist_matrix(queries, db.signatures, ref_indices=db.sig_indices, chunksize=chunksize))
				run(f'refdb/{case}/query/{chunksize}', lambda: describe_results(query(db, queries, QueryParams(chunksize=chunksize, report_closest=5))))
			# Same signatures object against second database built from it
			run(f'refdb/{case}/again', build)
		session.close()

	# ---------------------------------------------------------------------------------------------
	# 4. locate_files / load_from_dir on arbitrary directory contents
	# ---------------------------------------------------------------------------------------------
	rng = random.Random(5)
	fnames = ['a.gdb', 'b.db', 'c.gs', 'd.h5', 'e.txt', 'f.gdb.bak', '.gdb', 'g.GS', 'h.gs.gz', 'noext', 'i.tar.h5', 'j.DB', 'k.gs', 'l.gdb']
	dnames = ['sub.gs', 'sub.db', 'subdir', 'x.h5']
	for case in range(150):
		d = tmproot / f'dir{case}'
		d.mkdir()
		chosen = rng.sample(fnames, rng.randint(0, 5))
		if rng.random() < .4:
			chosen = [f for f in chosen if Path(f).suffix not in ('.gdb', '.db', '.gs', '.h5')]
			chosen += [rng.choice(['a.gdb', 'b.db', '.x.db']), rng.choice(['c.gs', 'd.h5', 'i.tar.h5'])]
		for f in chosen:
			(d / f).write_text('x')
		if rng.random() < .3:
			(d / rng.choice(dnames)).mkdir()
		arg = rng.choice([d, str(d), str(d) + '/', Path(str(d)) / '.' ])
		run(f'locate/{case}/{sorted(p.name for p in d.iterdir())}/{type(arg).__name__}', lambda: ReferenceDatabase.locate_files(arg))
		run(f'loaddir/{case}', lambda: type(ReferenceDatabase.load_from_dir(arg)).__name__)
	(tmproot / 'afile.gdb').write_text('x')
	run('locate/nonexistent', lambda: ReferenceDatabase.locate_files(tmproot / 'nope'))
	run('locate/file', lambda: ReferenceDatabase.locate_files(tmproot / 'afile.gdb'))
	run('locate/none', lambda: ReferenceDatabase.locate_files(None))
	run('locate/int', lambda: ReferenceDatabase.locate_files(3))
	run('locate/bytes', lambda: ReferenceDatabase.locate_files(b'/tmp'))

	# ---------------------------------------------------------------------------------------------
	# 5. jaccarddist_matrix directly
	# ---------------------------------------------------------------------------------------------
	rng = random.Random(31)
	for case in range(220):
		nrefs_total = rng.randint(0, 14)
		nq = rng.randint(0, 5)
		refs_l = [rand_sig() for _ in range(nrefs_total)]
		queries = [rand_sig() for _ in range(nq)]
		rk = rng.choice(['list', 'SignatureArray', 'SignatureList', 'tuple'])
		refs = {'list': refs_l, 'tuple': tuple(refs_l), 'SignatureArray': SignatureArray(refs_l, kspec), 'SignatureList': SignatureList(refs_l, kspec)}[rk]
		qk = rng.choice(['list', 'tuple', 'SignatureArray'])
		qs = {'list': queries, 'tuple': tuple(queries), 'SignatureArray': SignatureArray(queries, kspec)}[qk]

		ik = rng.choice(['none', 'none', 'list', 'nd', 'tuple', 'nd32', 'bad', 'range'])
		if ik == 'none':
			ref_indices = None
			nrefs = nrefs_total
		else:
			m = rng.randint(0, nrefs_total) if nrefs_total else 0
			idxl = sorted(rng.sample(range(nrefs_total), m)) if rng.random() < .7 else [rng.randrange(nrefs_total) for _ in range(m)] if nrefs_total else []
			if ik == 'bad':
				idxl = idxl + [nrefs_total + 3]
			nrefs = len(idxl)
			ref_indices = {'list': idxl, 'bad': idxl, 'nd': np.asarray(idxl, dtype=np.intp), 'nd32': np.asarray(idxl, dtype=np.int32), 'tuple': tuple(idxl), 'range': range(len(idxl))}[ik]
			if ik == 'range':
				nrefs = len(idxl)

		chunksize = rng.choice([None, None, 1, 2, 3, 5, 100, 1, 2, 3, 4, 7, 0, -2, np.int64(2)])
		ok = rng.choice(['none'] * 6 + ['good'] * 4 + ['fortran', 'fortran', 'strided', 'strided', 'badshape', 'baddtype', 'transposedshape', 'list'])
		if ok == 'none':
			out = None
		elif ok == 'good':
			out = np.full((nq, nrefs), -1, dtype=np.float32)
		elif ok == 'fortran':
			out = np.asfortranarray(np.full((nq, nrefs), -1, dtype=np.float32))
		elif ok == 'strided':
			out = np.full((nq * 2, nrefs * 2), -1, dtype=np.float32)[::2, ::2]
		elif ok == 'badshape':
			out = np.full((nq + 1, nrefs), -1, dtype=np.float32)
		elif ok == 'transposedshape':
			out = np.full((nrefs, nq), -1, dtype=np.float32)
		elif ok == 'baddtype':
			out = np.full((nq, nrefs), -1, dtype=np.float64)
		else:
			out = [[-1.0] * nrefs for _ in range(nq)]

		meters = []
		def factory(total, **kw):
			m = TestProgressMeter(total, **kw)
			meters.append(m)
			return m
		progress = rng.choice([None, factory, factory, False])

		holder = {}
		def call():
			r = jaccarddist_matrix(qs, refs, ref_indices=ref_indices, out=out, chunksize=chunksize, progress=progress)
			holder['same'] = (r is out) if out is not None else None
			return r

		run(f'dmat/{case}/{rk}/{qk}/{ik}/{chunksize!r}/{ok}', call)
		run(f'dmat/{case}/post', lambda: dict(
			same=holder.get('same'),
			out=out if isinstance(out, np.ndarray) else repr(out),
			meters=[(m.n, m.total, m.closed, sorted(m.kw)) for m in meters],
		))

	# ---------------------------------------------------------------------------------------------
	# 6. Real test database: load, query (API, threads, CLI), shuffled copy with unrelated signatures
	# ---------------------------------------------------------------------------------------------
	if testdb_dir and Path(testdb_dir).is_dir():
		import click.testing
		from gambit.cli import cli
		from gambit.results import JSONResultsExporter
		from datetime import datetime

		testdb_dir = Path(testdb_dir)
		qsigs_file = testdb_dir / 'queries/query-signatures.gs'
		qsigs = load_signatures(qsigs_file)
		queries = list(qsigs)

		def export(results):
			results.timestamp = datetime(2020, 1, 1)
			buf = io.StringIO()
			JSONResultsExporter().export(buf, results)
			return buf.getvalue()

		db = ReferenceDatabase.load_from_dir(testdb_dir)
		run('testdb/describe', lambda: describe_db(db))
		for strict in (False, True):
			for chunksize in (None, 17, 1000):
				params = QueryParams(classify_strict=strict, chunksize=chunksize, report_closest=3)
				run(f'testdb/query/{strict}/{chunksize}', lambda: describe_results(query(db, queries, params)))
		run('testdb/export', lambda: export(query(db, queries)))
		run('testdb/dmat', lambda: jaccarddist_matrix(queries, db.signatures, ref_indices=db.sig_indices, chunksize=50))

		# Threads, each with its own database object
		tres = [None] * 3
		def tq(i):
			dbi = ReferenceDatabase.load_from_dir(testdb_dir)
			tres[i] = describe_results(query(dbi, queries[i * 5:i * 5 + 8], QueryParams(chunksize=13)))
		threads = [threading.Thread(target=tq, args=(i,)) for i in range(3)]
		for t in threads: t.start()
		for t in threads: t.join()
		run('testdb/threads', lambda: tres)

		# Shuffled signature file with extra unrelated signatures
		refsigs = load_signatures(testdb_dir / 'ref-signatures.gs')
		rng = random.Random(77)
		for variant in range(3):
			d = tmproot / f'shuf{variant}'
			d.mkdir()
			shutil.copy(testdb_dir / 'ref-genomes.gdb', d / 'genomes.gdb')
			order = list(range(len(refsigs)))
			rng.shuffle(order)
			if variant == 2:
				order = order[:-1]   # one genome without signature
			sl = [refsigs[i] for i in order]
			ids = [refsigs.ids[i] for i in order]
			nextra = 0 if variant == 1 else 9
			for j in range(nextra):
				pos = rng.randint(0, len(sl))
				sl.insert(pos, queries[j])
				ids.insert(pos, f'unrelated_{j}')
			shuffled = AnnotatedSignatures(SignatureArray(sl, refsigs.kmerspec), np.asarray(ids), refsigs.meta)
			dump_signatures_hdf5(d / 'sigs.h5', shuffled)
			holder = {}
			def load():
				holder['db'] = ReferenceDatabase.load_from_dir(d)
				return describe_db(holder['db'])
			res = run(f'shuf/{variant}/load', load)
			if res[0] == 'ok':
				run(f'shuf/{variant}/query', lambda: describe_results(query(holder['db'], queries, QueryParams(chunksize=31))))
				outf = d / 'out.csv'
				r = click.testing.CliRunner().invoke(cli, ['-d', str(d), 'query', '-o', str(outf), '-s', str(qsigs_file)])
				run(f'shuf/{variant}/cli', lambda: (r.exit_code, repr(r.exception), outf.read_text()))
			else:
				outf = d / 'out.csv'
				r = click.testing.CliRunner().invoke(cli, ['-d', str(d), 'query', '-o', str(outf), '-s', str(qsigs_file)])
				run(f'shuf/{variant}/cli-fail', lambda: (r.exit_code, type(r.exception).__name__, fixstr(str(r.exception)), fixstr(r.output)))

		# CLI on the original
		for fmt in ('csv', 'json'):
			for strict in ('--no-strict', '--strict'):
				outf = tmproot / f'cli.{fmt}'
				r = click.testing.CliRunner().invoke(cli, ['-d', str(testdb_dir), 'query', '-o', str(outf), '-f', fmt, strict, '-s', str(qsigs_file)])
				def read():
					txt = outf.read_text()
					txt = re.sub(r'"timestamp": *"[^"]*"', '"timestamp": "X"', txt)
					return (r.exit_code, repr(r.exception), txt)
				run(f'cli/{fmt}/{strict}', read)

		# CLI with broken directories
		for case, names in enumerate([[], ['a.gdb'], ['a.gdb', 'b.db', 'c.gs'], ['a.gdb', 'c.gs', 'd.h5'], ['c.gs']]):
			d = tmproot / f'clidir{case}'
			d.mkdir()
			for nme in names:
				(d / nme).write_text('x')
			outf = d / 'out.csv'
			r = click.testing.CliRunner().invoke(cli, ['-d', str(d), 'query', '-o', str(outf), '-s', str(qsigs_file)])
			run(f'cli-baddir/{case}', lambda: (r.exit_code, type(r.exception).__name__, fixstr(str(r.exception)), fixstr(r.output)))
	else:
		records.append(('testdb', 'SKIPPED', []))

	shutil.rmtree(tmproot, ignore_errors=True)

	with open(outfile, 'wb') as f:
		pickle.dump(records, f)


# --------------------------------------------------------------------------------------------------
# Driver
# --------------------------------------------------------------------------------------------------

def main():
	if len(sys.argv) == 4 and sys.argv[1] == '--worker':
		worker(sys.argv[2], sys.argv[3])
		return 0

	if len(sys.argv) != 3:
		print(__doc__)
		return 2

	clean, patched = (os.path.abspath(p) for p in sys.argv[1:3])
	testdb = ''
	for src in (clean, patched):
		cand = Path(src).parent / 'tests/data/testdb_210818'
		if cand.is_dir():
			testdb = str(cand)
			break

	results = []
	with tempfile.TemporaryDirectory(prefix='equivC04_drv_') as tmp:
		for i, src in enumerate((clean, patched)):
			outfile = os.path.join(tmp, f'out{i}.pkl')
			env = dict(os.environ)
			env['PYTHONPATH'] = src
			env['PYTHONHASHSEED'] = '0'
			env.setdefault('OMP_WAIT_POLICY', 'PASSIVE')
			proc = subprocess.run([sys.executable, os.path.abspath(__file__), '--worker', outfile, testdb], env=env, cwd=tmp)
			if proc.returncode != 0:
				print(f'worker for {src} failed with exit code {proc.returncode}')
				print('DIFFERENT')
				return 1
			with open(outfile, 'rb') as f:
				results.append(pickle.load(f))

	a, b = results
	ndiff = 0
	if len(a) != len(b):
		print(f'number of records differs: {len(a)} vs {len(b)}')
		ndiff += 1
	for ra, rb in zip(a, b):
		if ra != rb:
			ndiff += 1
			if ndiff <= 10:
				print('--- difference in case', ra[0], '/', rb[0])
				print('  clean:  ', repr(ra[1:])[:600])
				print('  patched:', repr(rb[1:])[:600])

	nexc = sum(1 for r in a if isinstance(r[1], tuple) and r[1][0] == 'exc')
	print(f'{len(a)} cases compared ({nexc} raising exceptions, test database {"used" if testdb else "NOT FOUND"}), {ndiff} differences')
	print('SAME' if ndiff == 0 else 'DIFFERENT')
	return 0 if ndiff == 0 else 1


if __name__ == '__main__':
	sys.exit(main())
