#!/usr/bin/env python
"""Differential test for the C14 harmless rewrite (k-mer parameter reconciliation).

Usage:  python equiv.py <clean-src-dir> <patched-src-dir>

Runs the same seeded inputs through the touched public functions / CLI commands in two
subprocesses (one per PYTHONPATH) and compares the recorded outcomes exactly. Prints SAME or
DIFFERENT, exits 0 / 1.
"""

import json
import os
import re
import subprocess
import sys
import tempfile
from pathlib import Path


################################################################################
# Worker
################################################################################

def worker(data_dir: str, outfile: str):
	import random
	import threading
	import warnings

	import numpy as np
	import click
	from click.testing import CliRunner

	import gambit.cli
	from gambit.cli import cli, common
	from gambit.kmers import KmerSpec, DEFAULT_KMERSPEC
	from gambit.sigs import SignatureList, AnnotatedSignatures, dump_signatures, load_signatures
	from gambit.seq import SequenceFile
	from gambit.db import ReferenceDatabase
	from gambit.query import query_parse, QueryParams

	data_dir = Path(data_dir)
	records = []

	def describe_exc(e):
		d = dict(type=type(e).__module__ + '.' + type(e).__qualname__, str=str(e))
		if isinstance(e, click.ClickException):
			d['message'] = e.message
			d['exit_code'] = e.exit_code
		ctx = e.__context__
		d['context'] = None if ctx is None else type(ctx).__qualname__
		d['cause'] = None if e.__cause__ is None else type(e.__cause__).__qualname__
		return d

	def describe_kspec(ks):
		if ks is None:
			return None
		return dict(
			cls=type(ks).__qualname__, repr=repr(ks), k=repr(ks.k), ktype=type(ks.k).__qualname__,
			prefix=repr(ks.prefix), prefix_str=ks.prefix_str, total_len=repr(ks.total_len),
			nkmers=repr(ks.nkmers), dtype=str(ks.index_dtype), is_default=ks is DEFAULT_KMERSPEC,
			eq_default=ks == DEFAULT_KMERSPEC,
		)

	# ---------------------------------------------------------------- kspec_from_params
	class MyStr(str):
		def upper(self):
			return 'ATG'

	rng = random.Random(140014)
	nucs = 'ACGT'

	def rand_prefix():
		r = rng.random()
		n = rng.choice([0, 1, 2, 2, 3, 4, 5, 5, 6, 8])
		if r < 0.55:
			s = ''.join(rng.choice(nucs) for _ in range(n))
		elif r < 0.7:
			s = ''.join(rng.choice('acgt') for _ in range(n))
		elif r < 0.8:
			s = ''.join(rng.choice('ACGTacgtNnXU -') for _ in range(n))
		elif r < 0.85:
			s = ''.join(rng.choice('ACGTéΑ') for _ in range(max(n, 2)))
		elif r < 0.9:
			return rng.choice([b'ATGAC', b'AT', MyStr('xx'), MyStr('ATGAC'), ('A', 'T'), ['A', 'T', 'G'], 5])
		else:
			s = rng.choice(['ATGAC', 'atgac', 'AtGaC', 'ATGAC ', 'AT', 'at'])
		return s

	def rand_k():
		r = rng.random()
		if r < 0.6:
			return rng.randint(-2, 16)
		if r < 0.7:
			return np.int64(rng.randint(3, 14))
		if r < 0.75:
			return np.uint8(rng.randint(3, 14))
		if r < 0.8:
			return float(rng.randint(3, 12))
		if r < 0.85:
			return rng.choice([True, False, 5.5, '11', np.float32(7), 0, 40])
		return rng.choice([11, 5, 4])

	kcases = [
		(None, None, False), (None, None, True), (11, None, False), (None, 'ATGAC', False),
		(11, None, True), (None, 'ATGAC', True), (11, 'ATGAC', False), (11, 'ATGAC', True),
		(11, 'atgac', False), (5, 'AT', False), (4, 'AT', False), (5, 'A', False), (5, '', False),
		(11, 'ATGAX', False), (11, 'ATGAX', False), (11, 'ATGAC', False), (11, 'éé', False),
		(0, 'ATGAC', False), (None, '', False), (0, None, False), (0, '', True),
	]
	for i in range(420):
		k = rand_k() if rng.random() < 0.93 else None
		p = rand_prefix() if rng.random() < 0.93 else None
		kcases.append((k, p, rng.random() < 0.3))
		if rng.random() < 0.35:
			# Repeat an earlier case (exercises any memoisation, including after failures)
			kcases.append(rng.choice(kcases))

	def run_kcase(k, p, default):
		rec = dict(kind='kspec_from_params', args=[repr(k), repr(p), type(p).__qualname__, default])
		try:
			res = common.kspec_from_params(k, p, default)
			rec['result'] = describe_kspec(res)
		except BaseException as e:
			rec['exc'] = describe_exc(e)
		return rec

	for k, p, default in kcases:
		records.append(run_kcase(k, p, default))

	# Keyword / two-argument call forms
	for kw in [dict(k=11, prefix='ATGAC'), dict(k=None, prefix=None), dict(prefix='ATGAC', k=9, default=True)]:
		try:
			records.append(dict(kind='kspec_kw', result=describe_kspec(common.kspec_from_params(**kw))))
		except BaseException as e:
			records.append(dict(kind='kspec_kw', exc=describe_exc(e)))

	# From other threads, interleaved
	thread_out = [None] * 8
	def tfunc(j):
		out = []
		for k, p, default in kcases[j::8][:40]:
			out.append(run_kcase(k, p, default))
		thread_out[j] = out
	threads = [threading.Thread(target=tfunc, args=(j,)) for j in range(8)]
	for t in threads:
		t.start()
	for t in threads:
		t.join()
	records.append(dict(kind='threads', out=thread_out))

	# Results are independent objects with equal content / same identity behaviour for default
	a = common.kspec_from_params(11, 'ATGAC')
	b = common.kspec_from_params(11, 'atgac')
	records.append(dict(kind='identity', eq=a == b, hash_eq=hash(a) == hash(b), a=describe_kspec(a), b=describe_kspec(b)))

	# Many distinct prefixes (overflows any bounded memo), then re-check early ones
	many = []
	for i in range(700):
		p = ''.join(nucs[(i >> (2 * j)) & 3] for j in range(6))
		many.append(run_kcase(7, p, False))
	for i in range(0, 700, 37):
		p = ''.join(nucs[(i >> (2 * j)) & 3] for j in range(6))
		many.append(run_kcase(8, p.lower(), False))
	records.append(dict(kind='many', out=many))

	# ---------------------------------------------------------------- signature files
	srng = np.random.RandomState(1414)
	kspecs = [KmerSpec(11, 'ATGAC'), KmerSpec(11, 'ATGAT'), KmerSpec(9, 'ATGAC'), KmerSpec(8, 'AT'), KmerSpec(6, 'AT')]  # last one = test database's

	def make_sigs(kspec, n, tag):
		sigs = []
		for i in range(n):
			size = int(srng.randint(0, 60))
			vals = np.sort(srng.choice(min(kspec.nkmers, 5000), size=size, replace=False)).astype(kspec.index_dtype)
			sigs.append(vals)
		sl = SignatureList(sigs, kspec)
		return AnnotatedSignatures(sl, [f'{tag}{i}' for i in range(n)])

	sigfiles = {}
	for i, ks in enumerate(kspecs):
		for side, n in (('q', 3), ('r', 4)):
			fname = f'{side}{i}.gs'
			dump_signatures(fname, make_sigs(ks, n, f'{side}{i}_'))
			sigfiles[side, i] = fname
	# Duplicate IDs file
	dup = AnnotatedSignatures(SignatureList([np.arange(3, dtype=kspecs[0].index_dtype)] * 3, kspecs[0]), ['x', 'x', 'y'])
	dump_signatures('dup.gs', dup)

	db_path = str(data_dir)
	qgenomes = sorted(str(p) for p in (data_dir / 'queries' / 'genomes').glob('*.fasta'))[:3]
	rgenomes = sorted(str(p) for p in (data_dir / 'ref-genomes').glob('*.fasta'))[:3]
	query_sigfile = str(data_dir / 'queries' / 'query-signatures.gs')

	runner = CliRunner()
	counter = [0]

	def mask(text):
		if text is None:
			return None
		text = re.sub(r'"timestamp": *"[^"]*"', '"timestamp": "<T>"', text)
		return text

	def run_cli(args, outflag='-o', binary=False, label=None):
		counter[0] += 1
		outname = f'out{counter[0]}.dat'
		full = list(args) + ([outflag, outname] if outflag else [])
		with warnings.catch_warnings(record=True) as wlist:
			warnings.simplefilter('always')
			result = runner.invoke(cli, full)
		rec = dict(kind='cli', args=[a if a != outname else '<OUT>' for a in full], label=label)
		rec['exit_code'] = result.exit_code
		rec['output'] = mask(result.output)
		try:
			rec['stderr'] = mask(result.stderr)
		except Exception:
			rec['stderr'] = None
		exc = result.exception
		rec['exc'] = None if exc is None or isinstance(exc, SystemExit) else describe_exc(exc)
		rec['warnings'] = sorted(f'{w.category.__name__}: {w.message}' for w in wlist if 'gambit' in str(w.filename))
		if outflag and os.path.exists(outname):
			raw = open(outname, 'rb').read()
			if binary:
				try:
					s = load_signatures(outname)
					rec['outfile'] = dict(
						kspec=describe_kspec(s.kmerspec), ids=[str(x) for x in s.ids], n=len(s),
						values=[np.asarray(s[i]).tolist() for i in range(len(s))],
						dtype=str(s.dtype),
					)
					s.close() if hasattr(s, 'close') else None
				except Exception as e:
					rec['outfile'] = dict(load_error=repr(e), size=len(raw))
			else:
				rec['outfile'] = mask(raw.decode('utf8', 'replace'))
		else:
			rec['outfile'] = None
		records.append(rec)
		return rec

	# ---------------------------------------------------------------- dist command
	opt_sets = [
		[], ['-k', '6', '-p', 'at'], ['-k', '11', '-p', 'ATGAC'], ['-k', '11', '-p', 'atgat'], ['-k', '9', '-p', 'ATGAC'],
		['-k', '8', '-p', 'AT'], ['-k', '7', '-p', 'GG'], ['-k', '11'], ['-p', 'ATGAC'],
		['-k', '4', '-p', 'ATGAC'], ['-k', '11', '-p', 'ATGAN'], ['-k', '11', '-p', 'A'],
	]
	for qi in range(len(kspecs)):
		for ri in range(len(kspecs)):
			for opts in opt_sets:
				run_cli(['dist', '--no-progress', '--qs', sigfiles['q', qi], '--rs', sigfiles['r', ri]] + opts, label='dist qs/rs')

	for qi in range(len(kspecs)):
		for opts in opt_sets:
			run_cli(['dist', '--no-progress', '--qs', sigfiles['q', qi], '-s'] + opts, label='dist square')

	# With database
	for qi in range(len(kspecs)):
		for opts in opt_sets[:6]:
			run_cli(['-d', db_path, 'dist', '--no-progress', '--qs', sigfiles['q', qi], '-d'] + opts, label='dist use-db')
	run_cli(['dist', '--no-progress', '--qs', sigfiles['q', 0], '-d'], label='dist use-db no db')
	run_cli(['-d', db_path, 'dist', '--no-progress', '--qs', query_sigfile, '-d'], label='dist use-db real sigs')

	# Genome files on one or both sides
	qargs = [x for g in qgenomes for x in ('-q', g)]
	rargs = [x for g in rgenomes for x in ('-r', g)]
	for ri in range(len(kspecs)):
		for opts in opt_sets[:5]:
			run_cli(['dist', '--no-progress'] + qargs + ['--rs', sigfiles['r', ri]] + opts, label='dist q files/rs')
	for qi in range(len(kspecs)):
		for opts in [[], ['-k', '11', '-p', 'ATGAC'], ['-k', '8', '-p', 'AT']]:
			run_cli(['dist', '--no-progress', '--qs', sigfiles['q', qi]] + rargs + opts, label='dist qs/r files')
	for opts in [[], ['-k', '11', '-p', 'ATGAC'], ['-k', '8', '-p', 'AT'], ['-k', '11']]:
		run_cli(['dist', '--no-progress'] + qargs + rargs + opts, label='dist files/files')
		run_cli(['dist', '--no-progress', '-s'] + qargs + opts, label='dist files square')
		run_cli(['-d', db_path, 'dist', '--no-progress', '-d'] + qargs[:2] + opts, label='dist files use-db')
		run_cli(['dist', '--dump-params'] + qargs + rargs + opts, label='dist dump-params')
	run_cli(['dist', '--no-progress', '--qs', 'dup.gs', '--rs', 'dup.gs'], label='dist dup ids')
	run_cli(['dist', '--no-progress', '--qs', sigfiles['q', 0], '--rs', sigfiles['r', 0], '-s'], label='dist exclusive')
	run_cli(['dist', '--no-progress', '--qs', sigfiles['q', 0]], label='dist missing ref')
	run_cli(['dist', '--no-progress', '--rs', sigfiles['r', 0]], label='dist missing query')

	# ---------------------------------------------------------------- query command
	for fmt in ['csv', 'json']:
		run_cli(['-d', db_path, 'query', '--no-progress', '-f', fmt, '-s', query_sigfile], label='query sigfile')
		run_cli(['-d', db_path, 'query', '--no-progress', '-f', fmt, '--strict', '-s', query_sigfile], label='query sigfile strict')
		for qi in range(len(kspecs)):
			run_cli(['-d', db_path, 'query', '--no-progress', '-f', fmt, '-s', sigfiles['q', qi]], label='query small sigfile')
		run_cli(['-d', db_path, 'query', '--no-progress', '-f', fmt] + qgenomes, label='query files')
	run_cli(['query', '--no-progress', '-s', sigfiles['q', 1]], label='query no db')
	run_cli(['-d', db_path, 'query', '--no-progress', '-s', sigfiles['q', 1]] + qgenomes[:1], label='query exclusive')
	run_cli(['-d', db_path, 'query', '--no-progress', '-s', 'dup.gs'], label='query dup ids sigfile')
	run_cli(['-d', db_path, 'query', '--no-progress'], label='query nothing')

	# ---------------------------------------------------------------- signatures create
	for opts in opt_sets:
		for dbopt in [[], ['--db-params']]:
			for dbroot in [[], ['-d', db_path]]:
				run_cli(dbroot + ['signatures', 'create', '--no-progress', '--dump-params'] + dbopt + opts + qgenomes[:2],
				        label='create dump-params')
	for opts in [[], ['-k', '9', '-p', 'ATGAC'], ['-k', '8', '-p', 'at'], ['-k', '11']]:
		run_cli(['signatures', 'create', '--no-progress'] + opts + qgenomes[:2], binary=True, label='create')
		run_cli(['-d', db_path, 'signatures', 'create', '--no-progress', '--db-params'] + opts + qgenomes[:2], binary=True, label='create db-params')
	run_cli(['signatures', 'create', '--no-progress', '--db-params'] + qgenomes[:2], binary=True, label='create db-params no db')

	# ---------------------------------------------------------------- query_parse (library)
	from gambit.cli.common import CLIContext

	class FakeRoot:
		params = dict(db_path=db_path)

	db = CLIContext(FakeRoot()).get_database()
	files = SequenceFile.from_paths(qgenomes, 'fasta', 'auto')

	def describe_results(res):
		items = []
		for item in res.items:
			items.append(dict(
				input_label=item.input.label,
				input_file=None if item.input.file is None else str(item.input.file.path),
				predicted=None if item.classifier_result.predicted_taxon is None else item.classifier_result.predicted_taxon.name,
				report=None if item.report_taxon is None else item.report_taxon.name,
				closest=[(m.genome.key, repr(m.distance), type(m.distance).__name__) for m in item.closest_genomes],
				success=item.classifier_result.success,
				warnings=list(item.classifier_result.warnings),
			))
		return dict(items=items, params=repr(res.params))

	def run_qp(label, files_, **kw):
		rec = dict(kind='query_parse', label=label)
		with warnings.catch_warnings(record=True) as wlist:
			warnings.simplefilter('always')
			try:
				rec['result'] = describe_results(query_parse(db, files_, **kw))
			except BaseException as e:
				rec['exc'] = describe_exc(e)
		rec['warnings'] = sorted(f'{w.category.__name__}: {w.message}' for w in wlist if 'gambit' in str(w.filename))
		records.append(rec)

	run_qp('plain', files)
	run_qp('labels', files, file_labels=['a', 'b', 'c'])
	run_qp('labels tuple', tuple(files), file_labels=('a', 'b', 'c'))
	run_qp('labels generator', files, file_labels=(s for s in ['a', 'b', 'c']))
	run_qp('labels short', files, file_labels=['a', 'b'])
	run_qp('labels long', files, file_labels=['a', 'b', 'c', 'd'])
	run_qp('labels dup', files, file_labels=['a', 'a', 'a'])
	run_qp('empty', [])
	run_qp('empty labels', [], file_labels=[])
	run_qp('params', files, params=QueryParams(classify_strict=True), file_labels=['a', 'b', 'c'])
	run_qp('params + kw', files, params=QueryParams(classify_strict=True), classify_strict=False)
	run_qp('kw', files, report_closest=3, progress=None)
	pkw = dict(max_workers=1)
	run_qp('parse_kw', files, parse_kw=pkw)
	records.append(dict(kind='parse_kw_after', keys=sorted(pkw), progress_type=type(pkw.get('progress')).__name__))
	pkw2 = dict(progress=None, concurrency=None)
	run_qp('parse_kw progress', files, parse_kw=pkw2)
	records.append(dict(kind='parse_kw_after', keys=sorted(pkw2), progress=repr(pkw2.get('progress'))))
	run_qp('repeat', files, file_labels=['a', 'b', 'c'])

	class NoSigsDB:
		signatures = None
	rec = dict(kind='query_parse bad db')
	try:
		query_parse(NoSigsDB(), files, file_labels=['a'])
	except BaseException as e:
		rec['exc'] = describe_exc(e)
	records.append(rec)
	rec = dict(kind='query_parse bad db 2')
	try:
		query_parse(NoSigsDB(), files, file_labels=['a', 'b', 'c'])
	except BaseException as e:
		rec['exc'] = describe_exc(e)
	records.append(rec)

	# Public names still present
	import gambit.cli.dist as dmod, gambit.cli.query as qmod, gambit.cli.signatures as smod
	records.append(dict(
		kind='names',
		fmt=dmod.fmt_kspec(KmerSpec(7, 'ACG')),
		dist_public=sorted(n for n in dir(dmod) if not n.startswith('_')),
		query_public=sorted(n for n in dir(qmod) if not n.startswith('_')),
		sigs_public=sorted(n for n in dir(smod) if not n.startswith('_')),
		common_public=sorted(n for n in dir(common) if not n.startswith('_')),
	))

	with open(outfile, 'w') as f:
		json.dump(records, f, indent=1, sort_keys=True, default=repr)


################################################################################
# Driver
################################################################################

def main():
	if len(sys.argv) >= 2 and sys.argv[1] == '--worker':
		worker(sys.argv[2], sys.argv[3])
		return 0

	if len(sys.argv) != 3:
		print(__doc__)
		return 2

	clean = Path(sys.argv[1]).resolve()
	patched = Path(sys.argv[2]).resolve()
	script = Path(__file__).resolve()

	data_dir = None
	for src in (patched, clean):
		cand = src.parent / 'tests' / 'data' / 'testdb_210818'
		if cand.is_dir():
			data_dir = cand
			break
	if data_dir is None:
		print('Cannot find tests/data/testdb_210818 next to either source directory')
		return 2

	outputs = []
	with tempfile.TemporaryDirectory(prefix='equivC14_') as tmp:
		for name, src in (('clean', clean), ('patched', patched)):
			wd = Path(tmp) / name / 'work'   # same relative layout / depth for both
			wd.mkdir(parents=True)
			out = Path(tmp) / f'{name}.json'
			env = dict(os.environ)
			env['PYTHONPATH'] = str(src)
			env['OMP_WAIT_POLICY'] = 'PASSIVE'
			env['PYTHONHASHSEED'] = '0'
			env.pop('GAMBIT_DB_PATH', None)
			proc = subprocess.run(
				[sys.executable, str(script), '--worker', str(data_dir), str(out)],
				cwd=wd, env=env, capture_output=True, text=True,
			)
			if proc.returncode != 0:
				print(f'worker for {name} failed:\n{proc.stdout}\n{proc.stderr}')
				print('DIFFERENT')
				return 1
			outputs.append(json.loads(out.read_text()))

	a, b = outputs
	ndiff = 0
	if len(a) != len(b):
		print(f'record count differs: {len(a)} vs {len(b)}')
		ndiff += 1
	for i, (ra, rb) in enumerate(zip(a, b)):
		if ra != rb:
			ndiff += 1
			if ndiff <= 10:
				print(f'--- record {i} differs')
				print('clean:  ', json.dumps(ra, sort_keys=True)[:1500])
				print('patched:', json.dumps(rb, sort_keys=True)[:1500])

	ncli = sum(1 for r in a if r.get('kind') == 'cli')
	nk = sum(1 for r in a if r.get('kind') == 'kspec_from_params')
	nerr = sum(1 for r in a if r.get('exc'))
	print(f'{len(a)} records compared ({nk} kspec_from_params calls, {ncli} CLI invocations, {nerr} with exceptions)')
	if ndiff:
		print(f'{ndiff} differences')
		print('DIFFERENT')
		return 1
	print('SAME')
	return 0


if __name__ == '__main__':
	sys.exit(main())
