#!/usr/bin/env python
"""Differential test for the C13 rewrite of gambit.sigs.calc.

Usage: python equiv.py <clean-src-dir> <patched-src-dir>

Generates a seeded set of sequence files once, then runs the same cases through
calc_signature / calc_file_signature / calc_file_signatures / the ``dist`` and ``signatures create``
CLI commands in two subprocesses (one per PYTHONPATH) and compares the transcripts exactly.
Prints SAME or DIFFERENT, exit code 0 / 1.
"""

import sys, os, json, subprocess, tempfile, shutil, random, gzip, hashlib, itertools, threading, time


# ------------------------------------------------------------------------------------------------
# Data generation (driver side, shared by both workers)
# ------------------------------------------------------------------------------------------------

def rand_seq(rng, n, prefix=None):
	alphabet = 'ACGT' * 6 + 'acgt' + 'N' + 'R'
	chars = [rng.choice(alphabet) for _ in range(n)]
	s = ''.join(chars)
	if prefix and n > 40:
		# Sprinkle in prefixes so that there are plenty of matches
		parts = []
		pos = 0
		while pos < n:
			step = rng.randint(5, 40)
			parts.append(s[pos:pos + step])
			if rng.random() < .6:
				parts.append(prefix)
			pos += step
		s = ''.join(parts)
	return s


def write_fasta(path, seqs, gz=False):
	text = ''.join(f'>seq{i} description\n{s}\n' for i, s in enumerate(seqs))
	if gz:
		with gzip.open(path, 'wt') as f:
			f.write(text)
	else:
		with open(path, 'w') as f:
			f.write(text)


def make_data(datadir):
	rng = random.Random(1313)
	# Increasing-size files: later files in a reversed list finish first
	sizes = [60000, 20000, 5000, 1500, 400, 100, 0, 30000, 800, 12000]
	for i, size in enumerate(sizes):
		ncontigs = rng.randint(1, 4) if size else 0
		seqs = [rand_seq(rng, size // max(ncontigs, 1), 'ATGAC') for _ in range(ncontigs)]
		write_fasta(os.path.join(datadir, f'g{i}.fasta'), seqs)
		write_fasta(os.path.join(datadir, f'g{i}.fasta.gz'), seqs, gz=True)
	with open(os.path.join(datadir, 'garbage.fasta'), 'wb') as f:
		f.write(b'\x00\x01\x02 this is not a sequence file \xff\xfe\n>>>\n')
	with open(os.path.join(datadir, 'notgzip.fasta.gz'), 'wb') as f:
		f.write(b'>seq\nACGTACGT\n')
	with open(os.path.join(datadir, 'truncated.gb'), 'w') as f:
		f.write('LOCUS       XX 10 bp DNA\nORIGIN\n        1 acgtnnn\n')


# ------------------------------------------------------------------------------------------------
# Worker
# ------------------------------------------------------------------------------------------------

def worker(datadir, outdir):
	import numpy as np
	from concurrent.futures import ThreadPoolExecutor, ProcessPoolExecutor, Future, Executor
	from types import SimpleNamespace
	from pathlib import Path
	from Bio.Seq import Seq

	import gambit.sigs.calc as calc
	from gambit.sigs.calc import calc_signature, calc_file_signature, calc_file_signatures, \
		ArrayAccumulator, SetAccumulator, default_accumulator
	from gambit.sigs import SignatureList
	from gambit.kmers import KmerSpec
	from gambit.seq import SequenceFile
	from gambit.util.progress import capture_progress, progress_config, TestProgressMeter

	out = []

	def desc(x):
		"""Exact, JSON-able description of a value."""
		if isinstance(x, np.ndarray):
			return ['ndarray', str(x.dtype), list(x.shape), bool(x.flags.writeable), bool(x.flags.owndata),
			        hashlib.sha1(np.ascontiguousarray(x).tobytes()).hexdigest(), x[:5].tolist()]
		if isinstance(x, SignatureList):
			return ['SignatureList', repr(x.kmerspec), str(x.dtype), len(x), [desc(s) for s in x]]
		if isinstance(x, np.generic):
			return ['npscalar', str(x.dtype), x.item()]
		if isinstance(x, (list, tuple)):
			return [type(x).__name__] + [desc(y) for y in x]
		if isinstance(x, dict):
			return {str(k): desc(v) for k, v in x.items()}
		if x is None or isinstance(x, (bool, int, float, str)):
			return x
		return repr(x)

	def case(name, fn):
		try:
			r = ['ok', desc(fn())]
		except BaseException as e:
			msg = str(e)
			r = ['exc', type(e).__module__ + '.' + type(e).__qualname__, msg.replace(datadir, '<DATA>')]
		out.append([name, r])

	rng = random.Random(4242)

	# ---------------------------------------------------------------- calc_signature
	kspecs = [KmerSpec(3, 'A'), KmerSpec(5, 'AT'), KmerSpec(8, 'ATGAC'), KmerSpec(11, 'ATGAC'),
	          KmerSpec(12, 'ATG'), KmerSpec(14, 'AT'), KmerSpec(np.int64(6), b'GA'), KmerSpec(1, '')]
	convs = [
		lambda s: s, lambda s: s.encode(), lambda s: bytearray(s.encode()), lambda s: Seq(s),
		lambda s: [s], lambda s: (s.encode(), s[::-1]), lambda s: iter([s, s.lower()]),
		lambda s: (x for x in [s[:len(s) // 2], s[len(s) // 2:]]), lambda s: [],
	]
	for i in range(220):
		ks = rng.choice(kspecs)
		s = rand_seq(rng, rng.choice([0, 1, 5, 30, 200, 2000]), ks.prefix.decode())
		ci = rng.randrange(len(convs))
		case(f'calc_signature/{i}/k{ks.k}/c{ci}', lambda: calc_signature(ks, convs[ci](s)))

	# Caller-supplied accumulators: kept, accumulate over calls, not cleared
	for ks in kspecs[:6]:
		for cls in (ArrayAccumulator, SetAccumulator):
			if cls is ArrayAccumulator and ks.k > 11:
				continue
			acc = cls(ks.k)
			acc.add(1)
			s1, s2 = rand_seq(rng, 500, ks.prefix.decode()), rand_seq(rng, 500, ks.prefix.decode())
			case(f'acc/{cls.__name__}/k{ks.k}/1', lambda: calc_signature(ks, s1, accumulator=acc))
			case(f'acc/{cls.__name__}/k{ks.k}/2', lambda: calc_signature(ks, [s2], accumulator=acc))
			case(f'acc/{cls.__name__}/k{ks.k}/len', lambda: int(len(acc)))
			case(f'acc/{cls.__name__}/k{ks.k}/none', lambda: calc_signature(ks, s2))
			case(f'acc/{cls.__name__}/k{ks.k}/len2', lambda: [int(len(acc)), desc(acc.signature())])

	# Failure part-way, then clean calls; nested calls from within the sequence generator
	for ks in kspecs[:6]:
		p = ks.prefix.decode()
		s1, s2, s3 = (rand_seq(rng, 800, p) for _ in range(3))

		def failing():
			yield s1
			raise RuntimeError('boom')

		def badtype():
			yield s1
			yield 12345

		nested_results = []

		def nesting():
			yield s1
			nested_results.append(desc(calc_signature(ks, s3)))
			yield s2
			nested_results.append(desc(calc_signature(ks, [s3, s1])))

		case(f'state/k{ks.k}/before', lambda: calc_signature(ks, s2))
		case(f'state/k{ks.k}/fail', lambda: calc_signature(ks, failing()))
		case(f'state/k{ks.k}/after-fail', lambda: calc_signature(ks, s2))
		case(f'state/k{ks.k}/badtype', lambda: calc_signature(ks, badtype()))
		case(f'state/k{ks.k}/after-badtype', lambda: calc_signature(ks, s2))
		case(f'state/k{ks.k}/nested', lambda: calc_signature(ks, nesting()))
		case(f'state/k{ks.k}/nested-inner', lambda: list(nested_results))
		case(f'state/k{ks.k}/after-nested', lambda: calc_signature(ks, s3))
		case(f'state/k{ks.k}/empty-after', lambda: calc_signature(ks, []))
		r1 = calc_signature(ks, s1)
		r1b = calc_signature(ks, s1)
		case(f'state/k{ks.k}/no-alias', lambda: [r1 is r1b, bool(np.shares_memory(r1, r1b)), bool(np.array_equal(r1, r1b))])
		# Caller mutates a returned signature, later results unaffected
		if len(r1):
			r1[:] = 0
		case(f'state/k{ks.k}/after-mutate', lambda: calc_signature(ks, s1))

		def in_thread():
			res = []
			t = threading.Thread(target=lambda: res.append(desc(calc_signature(ks, [s1, s2]))))
			t.start(); t.join()
			return res
		case(f'state/k{ks.k}/thread', in_thread)

	# Odd kmerspec-likes
	case('odd/k-str', lambda: calc_signature(SimpleNamespace(k='x', prefix=b'A'), 'ACGT'))
	case('odd/k-none', lambda: calc_signature(SimpleNamespace(k=None, prefix=b'A'), 'ACGT'))
	case('odd/k-list', lambda: calc_signature(SimpleNamespace(k=[3], prefix=b'A'), 'ACGT'))
	case('odd/kspec-none', lambda: calc_signature(None, 'ACGT'))
	case('odd/seq-int', lambda: calc_signature(kspecs[0], 5))
	case('odd/seq-none', lambda: calc_signature(kspecs[0], None))
	case('odd/default-acc', lambda: [type(default_accumulator(k)).__name__ for k in (1, 11, 12, np.int32(11), np.int8(12), 11.5)])
	case('odd/public-names', lambda: sorted(n for n in dir(calc) if not n.startswith('_') and getattr(getattr(calc, n), '__module__', None) == calc.__name__))

	# ---------------------------------------------------------------- files
	def sf(name, fmt='fasta', comp=None):
		return SequenceFile(os.path.join(datadir, name), fmt, comp)

	good = [sf(f'g{i}.fasta') for i in range(10)]
	goodgz = [sf(f'g{i}.fasta.gz', comp='gzip') for i in range(10)]
	bad = {
		'missing': sf('does-not-exist.fasta'),
		'garbage': sf('garbage.fasta'),
		'notgzip': sf('notgzip.fasta.gz', comp='gzip'),
		'badfmt': sf('g1.fasta', fmt='no-such-format'),
		'gb': sf('truncated.gb', fmt='genbank'),
		'dir': sf('.'),
	}
	ks = KmerSpec(8, 'ATGAC')
	ks11 = KmerSpec(11, 'ATGAC')
	ks12 = KmerSpec(12, 'ATG')

	for i, f in enumerate(good + goodgz):
		case(f'file/{i}', lambda: calc_file_signature(ks, f))
	for i, f in enumerate(good[:4]):
		case(f'file11/{i}', lambda: calc_file_signature(ks11, f))
		case(f'file12/{i}', lambda: calc_file_signature(ks12, f))
	for name, f in bad.items():
		case(f'file/bad/{name}', lambda: calc_file_signature(ks, f))
		case(f'file/bad/{name}/after', lambda: calc_file_signature(ks, good[3]))
	acc = ArrayAccumulator(8)
	case('file/acc/1', lambda: calc_file_signature(ks, good[2], accumulator=acc))
	case('file/acc/2', lambda: calc_file_signature(ks, good[3], accumulator=acc))

	def run_multi(kspec, files, **kw):
		pconf, meters = capture_progress(progress_config(TestProgressMeter))
		try:
			sigs = calc_file_signatures(kspec, files, progress=pconf, **kw)
		finally:
			minfo = [[m.total, m.n, m.closed] for m in meters]
		return [sigs, type(sigs).__name__, minfo]

	single = {id(f): calc_file_signature(ks, f) for f in good + goodgz}

	def run_check(kspec, files, **kw):
		r = run_multi(kspec, files, **kw)
		ok = len(r[0]) == len(files) and all(np.array_equal(s, single[id(f)]) for s, f in zip(r[0], files))
		return r + [ok]

	orders = {
		'asc': good, 'desc': good[::-1], 'gz': goodgz, 'mixed': good[:5] + goodgz[5:], 'dups': [good[1], good[1], good[0], good[1]],
		'one': [good[0]], 'empty': [], 'tuple': tuple(good[:4]), 'shuffled': rng.sample(good + goodgz, 20),
	}
	for oname, files in orders.items():
		for conc in (None, 'threads', 'processes'):
			for mw in (None, 1, 2, 5):
				if conc == 'processes' and (mw in (None, 5) or oname in ('shuffled', 'gz', 'mixed')):
					continue
				if conc is None and mw not in (None, 2):
					continue
				case(f'multi/{oname}/{conc}/{mw}', lambda: run_check(ks, files, concurrency=conc, max_workers=mw))
	case('multi/defaults', lambda: calc_file_signatures(ks, good[:3]))
	case('multi/positional', lambda: calc_file_signatures(ks, good[:3], None, 'threads', 2, None))
	case('multi/k11/threads', lambda: calc_file_signatures(ks11, good[:4] + good[:4], concurrency='threads', max_workers=3))
	case('multi/k11/none', lambda: calc_file_signatures(ks11, good[:4] + good[:4], concurrency=None))
	case('multi/k12/threads', lambda: calc_file_signatures(ks12, good[:4], concurrency='threads', max_workers=3))
	case('multi/k11/processes', lambda: calc_file_signatures(ks11, good[:4], concurrency='processes', max_workers=2))
	for p in (None, False, True, 'click', 'tqdm', TestProgressMeter, 'no-such', 17):
		for conc in (None, 'threads'):
			case(f'multi/progress/{p!r}/{conc}', lambda: calc_file_signatures(ks, good[3:6], progress=p, concurrency=conc))

	# Unreadable file at every position
	base = [good[0], good[3], good[5], good[4]]
	for bname, bf in bad.items():
		for pos in range(len(base) + 1):
			files = base[:pos] + [bf] + base[pos:]
			for conc, mw in ((None, None), ('threads', 1), ('threads', 3), ('processes', 2)):
				if conc == 'processes' and (pos not in (0, 2) or bname not in ('missing', 'garbage')):
					continue
				case(f'multi/bad/{bname}/{pos}/{conc}/{mw}', lambda: run_multi(ks, files, concurrency=conc, max_workers=mw))
		case(f'multi/bad/{bname}/after', lambda: run_check(ks, base, concurrency='threads', max_workers=2))
	case('multi/bad/two', lambda: run_multi(ks, [bad['missing'], good[0], bad['garbage']], concurrency='threads', max_workers=1))

	# Bad / unusual arguments
	for i, conc in enumerate(['foo', '', 'Threads', 0, False, True, ['threads'], ('processes',), b'threads', 1.5, np.str_('threads'),
	                          np.array(['threads']), np.array(['threads', 'x']), {'threads'}]):
		case(f'multi/conc/{i}', lambda: run_multi(ks, good[3:6], concurrency=conc, max_workers=2))
		case(f'multi/conc/{i}/empty', lambda: run_multi(ks, [], concurrency=conc))
	for i, mw in enumerate([0, -1, 'x', 2.5, np.int64(2), True]):
		for conc in ('threads', 'processes', None):
			case(f'multi/mw/{i}/{conc}', lambda: run_multi(ks, good[4:7], concurrency=conc, max_workers=mw))
	for conc in (None, 'threads'):
		case(f'multi/files/gen/{conc}', lambda: run_multi(ks, (f for f in good[:3]), concurrency=conc))
		case(f'multi/files/iter/{conc}', lambda: run_multi(ks, iter(good[:3]), concurrency=conc))
		case(f'multi/files/none/{conc}', lambda: run_multi(ks, None, concurrency=conc))
		case(f'multi/files/int/{conc}', lambda: run_multi(ks, 3, concurrency=conc))
		case(f'multi/files/paths/{conc}', lambda: run_multi(ks, [Path(good[0].path)], concurrency=conc))
		case(f'multi/files/strs/{conc}', lambda: run_multi(ks, [str(good[0].path)], concurrency=conc))
		case(f'multi/files/nonefile/{conc}', lambda: run_multi(ks, [good[0], None], concurrency=conc))
		case(f'multi/files/nparr/{conc}', lambda: run_multi(ks, np.array(good[:3], dtype=object), concurrency=conc))
		case(f'multi/files/dict/{conc}', lambda: run_multi(ks, {f: 1 for f in good[:3]} if False else dict.fromkeys(range(2)), concurrency=conc))
		case(f'multi/kspec/none/{conc}', lambda: run_multi(None, good[:2], concurrency=conc))
		case(f'multi/kspec/none/empty/{conc}', lambda: run_multi(None, [], concurrency=conc))

		class LyingLong(list):
			def __len__(self):
				return 5

		class LyingShort(list):
			def __len__(self):
				return 2
		case(f'multi/files/lyinglong/{conc}', lambda: run_multi(ks, LyingLong(good[:3]), concurrency=conc))
		case(f'multi/files/lyingshort/{conc}', lambda: run_multi(ks, LyingShort(good[:4]), concurrency=conc))

	# Caller-supplied executors
	def with_real_executor(cls, conc):
		ex = cls(max_workers=2)
		try:
			r1 = run_check(ks, good[::-1], executor=ex, concurrency=conc, max_workers=1)
			r2 = run_check(ks, goodgz[:4], executor=ex, concurrency=conc)
			try:
				run_multi(ks, [good[0], bad['missing'], good[1]], executor=ex)
				r3 = 'no exception'
			except Exception as e:
				r3 = type(e).__name__
			r4 = run_check(ks, good[:3], executor=ex)
			still_open = ex.submit(int, '7').result()
		finally:
			ex.shutdown()
		return [r1, r2, r3, r4, still_open]
	for conc in (None, 'threads', 'processes', 'foo'):
		case(f'executor/threadpool/{conc}', lambda: with_real_executor(ThreadPoolExecutor, conc))
	case('executor/processpool', lambda: with_real_executor(ProcessPoolExecutor, None))

	class ScriptedExecutor(Executor):
		"""Returns pending futures, completes them in the given order once ``n`` were submitted."""
		def __init__(self, n, order, transform=None):
			self.n, self.order, self.transform = n, order, transform
			self.calls = []
			self.futures = []
			self.log = []
			self.thread = None

		def submit(self, fn, *args, **kwargs):
			self.log.append(['submit', fn.__module__ + '.' + fn.__qualname__, [type(a).__name__ for a in args],
			                 [repr(a) for a in args], sorted(kwargs)])
			fut = Future()
			self.calls.append((fn, args, kwargs))
			self.futures.append(fut)
			if len(self.futures) == self.n:
				self.thread = threading.Thread(target=self._run)
				self.thread.start()
			return fut

		def _run(self):
			for j in self.order:
				fn, args, kwargs = self.calls[j]
				fut = self.futures[j]
				fut.set_running_or_notify_cancel()
				try:
					r = fn(*args, **kwargs)
					if self.transform:
						r = self.transform(j, r)
				except BaseException as e:
					fut.set_exception(e)
				else:
					fut.set_result(r)
				time.sleep(0.003)

		def shutdown(self, wait=True, **kw):
			self.log.append(['shutdown', wait])

		def __enter__(self):
			self.log.append(['enter'])
			return self

		def __exit__(self, *a):
			self.log.append(['exit'])
			return False

	def scripted(files, order, transform=None, **kw):
		files = list(files)
		ex = ScriptedExecutor(len(files), order, transform)
		try:
			r = run_multi(ks, files, executor=ex, **kw)
			ok = all(np.array_equal(s, single[id(f)]) for s, f in zip(r[0], files)) if transform is None else None
			return [r, ok, ex.log]
		except BaseException as e:
			return ['exc', type(e).__name__, str(e).replace(datadir, '<DATA>'), ex.log]
		finally:
			if ex.thread:
				ex.thread.join()

	for n in (1, 2, 3, 4):
		files = [good[3], good[5], good[4], good[8]][:n]
		for perm in itertools.permutations(range(n)):
			case(f'scripted/{n}/{perm}', lambda: scripted(files, perm, concurrency=rng.choice([None, 'threads', 'processes', 'bogus'])))
	for perm in itertools.permutations(range(3)):
		for badpos in range(3):
			files = [good[3], good[5], good[4]]
			files[badpos] = bad['missing']
			case(f'scripted/bad/{perm}/{badpos}', lambda: scripted(files, perm))
		case(f'scripted/none-result/{perm}', lambda: scripted([good[3], good[5], good[4]], perm, transform=lambda j, r: None if j == 1 else r))
		case(f'scripted/other-result/{perm}', lambda: scripted([good[3], good[5], good[4]], perm, transform=lambda j, r: [j, 'x'] if j != 1 else r))
	for i in range(30):
		n = rng.randint(5, 8)
		files = rng.sample(good + goodgz, n)
		perm = list(range(n)); rng.shuffle(perm)
		case(f'scripted/rand/{i}', lambda: scripted(files, perm))
	case('scripted/empty', lambda: scripted([], []))

	class InlineExecutor(Executor):
		def submit(self, fn, *a, **kw):
			f = Future()
			try:
				f.set_result(fn(*a, **kw))
			except Exception as e:
				f.set_exception(e)
			return f
	case('executor/inline', lambda: run_check(ks, good, executor=InlineExecutor()))
	case('executor/inline/gen', lambda: run_multi(ks, iter(good), executor=InlineExecutor()))
	case('executor/notexecutor', lambda: run_multi(ks, good[:2], executor='nope'))
	case('executor/false', lambda: run_multi(ks, good[:2], executor=0))

	# Caller mutates its list between calls; results are independent lists
	files = list(good[:4])
	r_a = calc_file_signatures(ks, files, concurrency='threads')
	files.reverse(); files.pop()
	r_b = calc_file_signatures(ks, files, concurrency='threads')
	r_a[0] = np.zeros(3, dtype=r_a.dtype)
	r_c = calc_file_signatures(ks, files, concurrency=None)
	case('mutate', lambda: [r_a, r_b, r_c, files == good[1:4][::-1]])

	# From several threads at once
	def threaded():
		results = [None] * 6
		def run(j):
			fl = good[j:j + 4]
			results[j] = desc(calc_file_signatures(ks11 if j % 2 else ks, fl, concurrency='threads' if j % 3 else None, max_workers=2))
		ts = [threading.Thread(target=run, args=(j,)) for j in range(6)]
		for t in ts: t.start()
		for t in ts: t.join()
		return results
	case('threaded', threaded)

	# ---------------------------------------------------------------- CLI
	from click.testing import CliRunner
	from gambit.cli import cli
	from gambit.sigs import load_signatures

	def run_cli(name, args, outfile):
		res = CliRunner().invoke(cli, args)
		text = None
		if os.path.exists(outfile) and not outfile.endswith('.gs'):
			with open(outfile) as f:
				text = f.read()
		return [res.exit_code, res.output.replace(datadir, '<DATA>').replace(outdir, '<OUT>'),
		        repr(res.exception) if res.exception and not isinstance(res.exception, SystemExit) else None, text]

	qfiles = [str(f.path) for f in good[:4]] + [str(goodgz[7].path)]
	rfiles = [str(f.path) for f in goodgz[:3]]
	for i, extra in enumerate([[], ['-c', '2'], ['--no-progress'], ['-k', '8', '-p', 'ATGAC'], ['-s']]):
		o = os.path.join(outdir, f'dist{i}.csv')
		args = ['dist', '-o', o] + extra + [x for q in qfiles for x in ('-q', q)]
		if '-s' not in extra:
			args += [x for r in rfiles for x in ('-r', r)]
		case(f'cli/dist/{i}', lambda: run_cli('dist', args, o))
	o = os.path.join(outdir, 'distbad.csv')
	case('cli/dist/bad', lambda: run_cli('dist', ['dist', '-o', o, '-q', qfiles[0], '-q', os.path.join(datadir, 'nope.fasta'), '-r', rfiles[0]], o))
	for i, extra in enumerate([[], ['-c', '3', '--no-progress']]):
		o = os.path.join(outdir, f'sigs{i}.gs')
		case(f'cli/sigs/{i}', lambda: run_cli('sigs', ['signatures', 'create', '-o', o, '-k', '9', '-p', 'ATG'] + extra + qfiles, o))
		def load():
			with load_signatures(o) as s:
				return [repr(s.kmerspec), str(s.dtype), [desc(x) for x in s], list(map(str, s.ids))]
		case(f'cli/sigs/{i}/load', load)

	json.dump(out, sys.stdout)


# ------------------------------------------------------------------------------------------------
# Driver
# ------------------------------------------------------------------------------------------------

def main():
	if len(sys.argv) == 4 and sys.argv[1] == '--worker':
		worker(sys.argv[2], sys.argv[3])
		return 0

	clean, patched = sys.argv[1:3]
	tmp = tempfile.mkdtemp(prefix='equivC13-')
	try:
		datadir = os.path.join(tmp, 'data')
		os.mkdir(datadir)
		make_data(datadir)

		results = []
		for label, src in (('clean', clean), ('patched', patched)):
			src = os.path.abspath(src)
			if os.path.isdir(os.path.join(src, 'src', 'gambit')):
				src = os.path.join(src, 'src')
			outdir = os.path.join(tmp, 'out')  # Same path for both so output text is comparable
			shutil.rmtree(outdir, ignore_errors=True)
			os.mkdir(outdir)
			env = dict(os.environ, PYTHONPATH=src, OMP_WAIT_POLICY='PASSIVE', PYTHONHASHSEED='0', PYTHONWARNINGS='ignore')
			p = subprocess.run([sys.executable, os.path.abspath(__file__), '--worker', datadir, outdir],
			                   env=env, stdout=subprocess.PIPE, stderr=subprocess.PIPE, text=True, cwd=tmp)
			if p.returncode != 0:
				print(f'worker for {label} failed:\n{p.stderr[-3000:]}')
				print('DIFFERENT')
				return 1
			start = p.stdout.index('[[')  # progress bars may write to stdout before the JSON
			results.append((p.stdout[:start], json.loads(p.stdout[start:])))
	finally:
		shutil.rmtree(tmp, ignore_errors=True)

	(pre_a, a), (pre_b, b) = results
	ndiff = 0
	if pre_a != pre_b:
		print('stdout noise differs')
		ndiff += 1
	if [x[0] for x in a] != [x[0] for x in b]:
		print('case lists differ')
		ndiff += 1
	for (na, ra), (nb, rb) in zip(a, b):
		if ra != rb:
			ndiff += 1
			if ndiff < 15:
				print(f'--- {na}\n  clean:   {json.dumps(ra)[:600]}\n  patched: {json.dumps(rb)[:600]}')
	nexc = sum(1 for _, r in a if r[0] == 'exc')
	print(f'{len(a)} cases ({nexc} raising), {ndiff} differences')
	print('SAME' if ndiff == 0 else 'DIFFERENT')
	return 0 if ndiff == 0 else 1


if __name__ == '__main__':
	sys.exit(main())
