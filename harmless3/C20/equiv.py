#!/usr/bin/env python
"""Differential test for the C20 rewrite (signature collection indexing / equality).

Usage: python equiv.py <clean-src-dir> <patched-src-dir>

Runs the same seeded inputs through gambit.util.indexing.AdvancedIndexingMixin, SignatureArray,
SignatureList, HDF5Signatures, AnnotatedSignatures, sigarray_eq and a few CLI commands in two
subprocesses (one per PYTHONPATH) and compares the recorded outcomes exactly.
Prints SAME / DIFFERENT, exit status 0 / 1.
"""

import os
import sys
import json
import shutil
import subprocess
import tempfile


# ------------------------------------------------------------------------------------------------
# Worker
# ------------------------------------------------------------------------------------------------

def worker(tmpdir, datadir):
	import itertools
	import random
	import re
	import threading
	import warnings
	from collections.abc import Sequence

	import numpy as np

	from gambit.kmers import KmerSpec
	from gambit.util.indexing import AdvancedIndexingMixin
	from gambit.sigs.base import SignatureArray, SignatureList, AnnotatedSignatures, sigarray_eq, \
		AbstractSignatureArray, SignaturesMeta, dump_signatures, load_signatures
	import gambit.sigs.base as base

	out = []

	def emit(label, value):
		out.append(json.dumps([label, value], sort_keys=True, default=lambda o: re.sub(r'0x[0-9a-fA-F]+', '0x?', repr(o))))

	def desc_arr(a):
		return ['ndarray', str(a.dtype), list(a.shape), a.tolist(), bool(a.flags.writeable)]

	def desc(x, parent=None):
		if isinstance(x, AbstractSignatureArray):
			d = {
				'type': type(x).__name__,
				'kmerspec': repr(x.kmerspec),
				'dtype': repr(x.dtype),
				'len': len(x),
				'sigs': [desc(s) for s in x],
				'repr': repr(x) if isinstance(x, SignatureArray) else None,
			}
			if isinstance(x, SignatureArray):
				d['values_dtype'] = str(x.values.dtype)
				d['values'] = x.values.tolist()
				d['bounds'] = desc_arr(np.asarray(x.bounds))
				d['bounds_type'] = type(x.bounds).__name__
				if parent is not None and isinstance(getattr(parent, 'values', None), np.ndarray):
					d['view'] = bool(np.shares_memory(x.values, parent.values))
				d['sizes'] = desc(x.sizes())
			return d
		if isinstance(x, np.ndarray):
			return desc_arr(x)
		if isinstance(x, np.generic):
			return ['npscalar', type(x).__name__, x.item()]
		if isinstance(x, (list, tuple)):
			return [type(x).__name__, [desc(y) for y in x]]
		if x is NotImplemented:
			return 'NotImplemented'
		if isinstance(x, (int, float, str, bool, type(None))):
			return [type(x).__name__, x]
		return ['obj', type(x).__name__, re.sub(r'0x[0-9a-fA-F]+', '0x?', repr(x))]

	def attempt(label, f, *a, parent=None, **kw):
		with warnings.catch_warnings(record=True) as w:
			warnings.simplefilter('always')
			try:
				r = ['ok', desc(f(*a, **kw), parent=parent)]
			except Exception as e:
				own = isinstance(e, (IndexError,)) or type(e).__module__.startswith('gambit')
				r = ['exc', type(e).__name__, str(e) if own or isinstance(e, (TypeError, ValueError)) else None,
				     type(e.__cause__).__name__ if e.__cause__ is not None else None]
			r.append([[type(x.message).__name__, str(x.message)] for x in w])
		emit(label, r)

	rng = random.Random(20200)
	nprng = np.random.RandomState(2020)

	ks = KmerSpec(5, 'ATGAC')
	ks2 = KmerSpec(6, 'ATGAC')

	def make_sigs(n, dtype, maxlen=6):
		sigs = []
		for i in range(n):
			ln = rng.choice([0, 0, 1, 2, 3, maxlen])
			vals = sorted(rng.sample(range(4 ** 5), ln))
			sigs.append(np.array(vals, dtype=dtype))
		return sigs

	# -------------------------------------------------------------------------------------------
	# Collections
	# -------------------------------------------------------------------------------------------

	class Wrapper(AdvancedIndexingMixin, Sequence):
		def __init__(self, array):
			self.array = array
			self.calls = []
		def __len__(self):
			return len(self.array)
		def _getitem_int(self, i):
			self.calls.append(['int', type(i).__name__, int(i)])
			return self.array[i]
		def _getitem_int_array(self, index):
			self.calls.append(['int_array', str(index.dtype), index.tolist(), bool(index.flags.writeable), bool(index.flags.owndata)])
			return self.array[index]

	class Wrapper2(Wrapper):
		"""Overrides everything overridable, including _check_index."""
		def _check_index(self, i):
			self.calls.append(['check', type(i).__name__, int(i)])
			return super()._check_index(i)
		def _getitem_slice(self, s):
			self.calls.append(['slice', repr(s)])
			return super()._getitem_slice(s)
		def _getitem_bool_array(self, index):
			self.calls.append(['bool', index.tolist()])
			return super()._getitem_bool_array(index)

	class Wrapper3(Wrapper):
		"""_check_index which clamps instead of raising."""
		def _check_index(self, i):
			return max(0, min(len(self) - 1, int(i)))

	collections = {}
	sig_lists = {}
	for n, dt in [(0, 'u8'), (1, 'u4'), (3, 'u2'), (5, 'u8'), (6, 'i4')]:
		sigs = make_sigs(n, np.dtype(dt))
		name = f'n{n}{dt}'
		sig_lists[name] = sigs
		collections['SA_' + name] = SignatureArray(sigs, ks)
		collections['SL_' + name] = SignatureList(sigs, ks)
		path = os.path.join(tmpdir, name + '.gs')
		dump_signatures(path, AnnotatedSignatures(SignatureArray(sigs, ks, dtype=np.dtype(dt)), ids=np.array([f'id{i}' for i in range(n)], dtype=object),
		                meta=SignaturesMeta(id='x', name=name)))
		collections['H5_' + name] = load_signatures(path)
		collections['AN_' + name] = AnnotatedSignatures(SignatureList(sigs, ks))
		collections['W_' + name] = Wrapper(np.arange(n) * 10)
		collections['W2_' + name] = Wrapper2(np.arange(n) * 10)
		collections['W3_' + name] = Wrapper3(np.arange(n) * 10)
	collections['SA_nospec'] = SignatureArray(make_sigs(4, np.dtype('u8')), None)
	collections['SL_nospec'] = SignatureList(make_sigs(4, np.dtype('u8')), None, dtype=np.dtype('u2'))
	# View of a view
	collections['SA_view'] = collections['SA_n5u8'][1:4]
	collections['SA_h5sub'] = collections['H5_n5u8'][1:4]

	for name, c in collections.items():
		emit(['describe', name], desc(c))

	# -------------------------------------------------------------------------------------------
	# Index expressions
	# -------------------------------------------------------------------------------------------

	def index_exprs(n):
		"""Yield (label, factory) pairs. Factory creates a fresh index object."""
		rg = range(-n - 2, n + 3)
		for i in rg:
			yield f'int {i}', lambda i=i: i
		for t in [np.int8, np.int64, np.uint8, np.uint64, np.intp]:
			for i in [0, 1, n - 1, n, -1, -n, -n - 1, 200]:
				try:
					with warnings.catch_warnings():
						warnings.simplefilter('ignore')
						v = t(i)
				except Exception:
					continue
				yield f'{t.__name__} {i}', lambda v=v: v
		yield 'uint64 max', lambda: np.uint64(2 ** 64 - 1)
		yield 'int64 min', lambda: np.int64(-2 ** 63)
		yield 'bigint', lambda: 2 ** 70
		yield '-bigint', lambda: -2 ** 70
		yield 'True', lambda: True
		yield 'np.True_', lambda: np.True_
		for bad in [1.0, None, 'a', b'ab', 1 + 2j, np.float64(1), Ellipsis, (0, 1), {0: 1}, {0}, object]:
			yield f'bad {bad!r}', lambda bad=bad: bad
		yield 'generator', lambda: (i for i in range(n))
		yield 'iter', lambda: iter([0])

		vals = [None] + list(range(-n - 2, n + 3))
		steps = [None] + [s for s in range(-n - 1, n + 2)]
		for a, b, c in itertools.product(vals, vals, steps):
			yield f'slice {a}:{b}:{c}', lambda a=a, b=b, c=c: slice(a, b, c)
		yield 'slice np', lambda: slice(np.int8(0), np.uint64(n), np.int16(1))
		yield 'slice np2', lambda: slice(np.int64(-1), None, np.int64(-1))
		yield 'slice np0', lambda: slice(None, None, np.int8(0))
		yield 'slice float', lambda: slice(0.0, 1)
		yield 'slice floatstep', lambda: slice(0, 1, 1.0)
		yield 'slice str', lambda: slice('a')
		yield 'slice True', lambda: slice(True, None, True)
		yield 'slice big', lambda: slice(-2 ** 70, 2 ** 70, 2 ** 65)

		# All index lists up to length 3 (2 for larger n)
		maxlen = 3 if n <= 3 else 2
		for ln in range(0, maxlen + 1):
			for tup in itertools.product(range(-n - 1, n + 1), repeat=ln):
				yield f'list {list(tup)}', lambda tup=tup: list(tup)
		for ln in range(0, 3):
			for tup in itertools.product(range(-n, n), repeat=ln):
				yield f'tuple {tup}', lambda tup=tup: tuple(tup)
				for dt in ['i1', 'u1', 'i8', 'u8', 'f8', 'O', 'U1', 'b1']:
					def f(tup=tup, dt=dt):
						with warnings.catch_warnings():
							warnings.simplefilter('ignore')
							return np.array(tup, dtype='i8').astype(dt)
					yield f'array {dt} {tup}', f
		# All masks
		for ln in sorted({n, max(n - 1, 0), n + 1}):
			if ln > 5:
				masks = [tuple(rng.random() < .5 for _ in range(ln)) for _ in range(12)]
			else:
				masks = itertools.product([False, True], repeat=ln)
			for m in masks:
				yield f'masklist {ln} {m}', lambda m=m: list(m)
				yield f'maskarr {ln} {m}', lambda m=m: np.array(m, dtype=bool)
		yield 'mask npbool list', lambda: [np.True_] * n
		yield 'mixed bool int', lambda: [True, 0][:max(n, 1)]
		yield 'range', lambda: range(n)
		yield 'range rev', lambda: range(n - 1, -1, -1)
		yield 'range oob', lambda: range(n + 1)
		yield 'empty range', lambda: range(0)
		yield 'empty str', lambda: ''
		yield 'empty dict', lambda: {}
		yield 'empty set', lambda: set()
		yield 'empty bytes', lambda: b''
		yield 'empty float arr', lambda: np.array([])
		yield 'empty int arr', lambda: np.array([], dtype=int)
		yield 'empty bool arr', lambda: np.array([], dtype=bool)
		yield 'empty 2d', lambda: np.zeros((0, 2), dtype=int)
		yield 'empty nested', lambda: [[]]
		yield '2d', lambda: [[0], [0]]
		yield '0d', lambda: np.array(0)
		yield 'ragged', lambda: [[0], [0, 1]]
		yield 'strs', lambda: ['a', 'b']
		yield 'floats', lambda: [0.0]
		yield 'nones', lambda: [None]
		yield 'npints list', lambda: [np.int8(0), np.uint64(0)] if n else []
		yield 'bigints list', lambda: [2 ** 70]
		yield 'uint64 big arr', lambda: np.array([2 ** 64 - 1], dtype='u8')
		yield 'int64 min arr', lambda: np.array([-2 ** 63], dtype='i8')
		def ro():
			a = np.arange(-n, n)
			a.setflags(write=False)
			return a
		yield 'readonly', ro
		yield 'noncontig', lambda: np.arange(-2 * n, 2 * n)[::2]
		yield 'noncontig rev', lambda: np.arange(n)[::-1]
		yield 'fortran col', lambda: np.asfortranarray(np.zeros((max(n, 1), 2), dtype=int))[:, 0]
		yield 'dups', lambda: [0, 0, -1, -1] if n else [0]
		yield 'memmap-like subclass', lambda: np.arange(n).view(np.recarray) if n else np.arange(0).view(np.recarray)
		yield 'siglist as index', lambda: SignatureList([np.array([0], dtype='u8')], ks)

	def snapshot(ix):
		if isinstance(ix, np.ndarray):
			return ['ndarray', str(ix.dtype), list(ix.shape), ix.tolist() if ix.dtype.kind != 'O' else repr(ix.tolist()),
			        bool(ix.flags.writeable)]
		if isinstance(ix, (list, tuple)):
			return [type(ix).__name__, repr(ix)]
		return None

	for cname, c in collections.items():
		n = len(c)
		if n > 5 and not cname.startswith(('SA_', 'W2_')):
			continue
		for label, make in index_exprs(n):
			if n >= 5 and label.startswith('slice') and rng.random() < .8:
				continue
			ix = make()
			if hasattr(c, 'calls'):
				c.calls = []
			attempt(['getitem', cname, label], c.__getitem__, ix, parent=c)
			emit(['index-after', cname, label], snapshot(ix))
			if hasattr(c, 'calls'):
				emit(['calls', cname, label], c.calls)

		# sizeof / sizes
		if isinstance(c, AbstractSignatureArray):
			for i in list(range(-n - 2, n + 3)) + [np.int8(0), np.uint64(0), np.uint64(2 ** 64 - 1), 0.0, None, '0', True, 2 ** 70]:
				attempt(['sizeof', cname, repr(i)], c.sizeof, i)
			attempt(['sizes', cname], c.sizes)

	# Same index object used against several collections, repeatedly, and from a second thread
	shared = [np.array([0, -1, 0]), [0, -1], slice(None, None, -1), np.array([True, False, True]), -1]
	def shared_run(tag):
		for rep in range(2):
			for cname in ['SA_n3u2', 'SL_n3u2', 'H5_n3u2', 'W2_n3u2', 'SA_n5u8', 'SA_n1u4', 'SA_n0u8']:
				for k, ix in enumerate(shared):
					attempt(['shared', tag, rep, cname, k], collections[cname].__getitem__, ix)
		emit(['shared-after', tag], [snapshot(ix) for ix in shared])
	shared_run('main')
	t = threading.Thread(target=shared_run, args=('thread',))
	t.start()
	t.join()

	# Failing call followed by a good one on the same objects
	for cname in ['SA_n3u2', 'SL_n3u2', 'H5_n3u2', 'W2_n3u2']:
		c = collections[cname]
		attempt(['fail-then-ok 1', cname], c.__getitem__, [0, 1, 7])
		attempt(['fail-then-ok 2', cname], c.__getitem__, [0, 1, 2])
		attempt(['fail-then-ok 3', cname], c.__getitem__, [True, False])
		attempt(['fail-then-ok 4', cname], c.__getitem__, [True, False, True])

	# -------------------------------------------------------------------------------------------
	# Constructors
	# -------------------------------------------------------------------------------------------

	sources = {}
	for name, sigs in sig_lists.items():
		sources['list_' + name] = lambda sigs=sigs: list(sigs)
		sources['tuple_' + name] = lambda sigs=sigs: tuple(sigs)
		sources['pylists_' + name] = lambda sigs=sigs: [s.tolist() for s in sigs]
		sources['SA_' + name] = lambda name=name: collections['SA_' + name]
		sources['SL_' + name] = lambda name=name: collections['SL_' + name]
		sources['H5_' + name] = lambda name=name: collections['H5_' + name]
		sources['AN_' + name] = lambda name=name: collections['AN_' + name]
	sources['SA_nospec'] = lambda: collections['SA_nospec']
	sources['SA_view'] = lambda: collections['SA_view']
	sources['2darr'] = lambda: np.arange(6, dtype='u8').reshape(2, 3)
	sources['2darr1'] = lambda: np.arange(3, dtype='u8').reshape(1, 3)
	sources['1darr'] = lambda: np.arange(3)
	sources['none'] = lambda: None
	sources['int'] = lambda: 3
	sources['strs'] = lambda: ['ab', 'c']
	sources['floats'] = lambda: [np.array([1.5, 2.5]), np.array([3.0])]
	sources['mixed'] = lambda: [np.array([1, 2], dtype='u2'), np.array([70000], dtype='u8')]
	sources['dict'] = lambda: {0: np.array([1])}

	for sname, make in sources.items():
		for kspec in [None, ks, ks2]:
			for dt in [None, np.dtype('u2'), 'u8', np.int32, 'f4']:
				label = [sname, repr(kspec), repr(dt)]
				attempt(['SA()'] + label, lambda: SignatureArray(make(), kspec, dt))
				attempt(['SA() kw'] + label, lambda: SignatureArray(signatures=make(), kmerspec=kspec, dtype=dt))
				attempt(['SL()'] + label, lambda: SignatureList(make(), kspec, dt))
		attempt(['SA() default', sname], lambda: SignatureArray(make()))
		attempt(['SL() default', sname], lambda: SignatureList(make()))

	# Copies are independent of the source
	src = SignatureArray(sig_lists['n5u8'], ks)
	cp = SignatureArray(src)
	cp2 = SignatureArray(src, dtype='u4')
	emit(['copy-independent'], [bool(np.shares_memory(cp.values, src.values)), bool(np.shares_memory(cp.bounds, src.bounds)),
	                            bool(np.shares_memory(cp2.values, src.values)), cp.values is src.values])
	sl = SignatureList(sig_lists['n5u8'], ks)
	emit(['SL-shares-elements'], [a is b for a, b in zip(sl, sig_lists['n5u8'])])
	emit(['SL-int-array-shares'], [a is b for a, b in zip(sl[[0, 1]], sig_lists['n5u8'])])

	# One-shot iterators. With a dtype the values array stays uninitialized for SignatureArray, so
	# only the layout is compared.
	def layout(sa):
		return [type(sa).__name__, str(sa.values.dtype), len(sa.values), desc_arr(sa.bounds), repr(sa.kmerspec)]
	for sname in ['list_n3u2', 'list_n0u8', 'list_n5u8']:
		attempt(['SA(iter)', sname], lambda: layout(SignatureArray(iter(sources[sname]()), ks, 'u8')))
		attempt(['SA(iter) nodtype', sname], lambda: layout(SignatureArray(iter(sources[sname]()), ks)))
		attempt(['SL(iter)', sname], lambda: SignatureList(iter(sources[sname]()), ks))
		attempt(['SL(gen) nodtype', sname], lambda: SignatureList((x for x in sources[sname]()), ks))
		attempt(['SL(gen) nospec', sname], lambda: SignatureList((x for x in sources[sname]())))

	# uninitialized / from_arrays / _uninit_arrays
	lengths_cases = {
		'empty': lambda: [], 'list': lambda: [3, 0, 2], 'tuple': lambda: (1, 2), 'arr': lambda: np.array([4, 0, 0, 1]),
		'arr u1': lambda: np.array([200, 200], dtype='u1'), 'npints': lambda: [np.int8(3), np.uint64(2)],
		'2d': lambda: [[1, 2], [3, 4]], 'gen': lambda: (i for i in [1, 2]), 'floats': lambda: [1.0, 2.0],
		'floats frac': lambda: [1.5, 2.5], 'strs': lambda: ['a'], 'none': lambda: None, 'range': lambda: range(4),
		'bools': lambda: [True, False], 'empty arr': lambda: np.array([]), 'neg': lambda: [2, -1, 3],
	}
	for lname, make in lengths_cases.items():
		for kspec in [ks, None]:
			for dt in [None, 'u2', np.dtype('i8')]:
				attempt(['uninitialized', lname, repr(kspec), repr(dt)], lambda: layout(SignatureArray.uninitialized(make(), kspec, dt)))
		attempt(['uninitialized default', lname], lambda: layout(SignatureArray.uninitialized(make(), ks)))
		attempt(['uninitialized kw', lname], lambda: layout(SignatureArray.uninitialized(lengths=make(), kmerspec=ks, dtype='u4')))

	v = np.arange(10, dtype='u4')
	b = np.array([0, 3, 3, 10])
	fa = SignatureArray.from_arrays(v, b, ks)
	emit(['from_arrays'], [desc(fa), fa.values is v, fa.bounds is b])
	emit(['from_arrays idx'], [desc(fa[[2, 0]]), desc(fa[1:]), desc(fa[::-1]), desc(fa[1:1])])
	fa2 = SignatureArray.from_arrays(values=v, bounds=[0, 3, 3, 10], kmerspec=None)
	attempt(['from_arrays listbounds int'], fa2.__getitem__, 1)
	attempt(['from_arrays listbounds slice'], fa2.__getitem__, slice(0, 2))
	attempt(['from_arrays listbounds arr'], fa2.__getitem__, [0, 2])
	attempt(['from_arrays listbounds sizes'], fa2.sizes)
	fa3 = SignatureArray.from_arrays(v, b.astype('u8'), ks)
	for ix in [0, -1, slice(1, 3), slice(None), [2, 1], [True, False, True], slice(None, None, 2)]:
		attempt(['from_arrays u8 bounds', repr(ix)], fa3.__getitem__, ix, parent=fa3)
	fa4 = SignatureArray.from_arrays(v, b.astype('i2'), ks)
	for ix in [0, -1, slice(1, 3), slice(None), [2, 1], [True, False, True], slice(None, None, 2)]:
		attempt(['from_arrays i2 bounds', repr(ix)], fa4.__getitem__, ix, parent=fa4)

	# Contiguous slices are views, writes through
	sa = SignatureArray(sig_lists['n5u8'], ks)
	sub = sa[1:4]
	if len(sub.values):
		sub.values[0] = 999
	emit(['view-write'], [desc(sa), desc(sub)])
	# Caller mutates object between calls
	sa.values[:] = 7
	emit(['after-mutation'], [desc(sa[[0, 1]]), desc(sa[0:2]), desc(sa[::-1]), sa == SignatureArray(sig_lists['n5u8'], ks)])
	sa.bounds = np.array([0, 1, 2])
	emit(['after-bounds-replaced'], [desc(sa), desc(sa[[-1]]), desc(sa[1:]), len(sa)])

	# Closed HDF5 file
	path = os.path.join(tmpdir, 'closed.gs')
	dump_signatures(path, SignatureArray(sig_lists['n3u2'], ks))
	h = load_signatures(path)
	h.close()
	for ix in [0, -1, 5, slice(None), slice(1, 1), [], [0], [True, False, True], np.array([], dtype=int)]:
		attempt(['closed-h5', repr(ix)], h.__getitem__, ix)
	attempt(['closed-h5 len'], len, h)
	attempt(['closed-h5 eq'], lambda: h == h)

	# -------------------------------------------------------------------------------------------
	# Equality
	# -------------------------------------------------------------------------------------------

	eq_objs = dict(collections)
	eq_objs['SA_n3u2_k2'] = SignatureArray(sig_lists['n3u2'], ks2)
	eq_objs['SA_n3u2_u8'] = SignatureArray(sig_lists['n3u2'], ks, dtype='u8')
	eq_objs['SL_n3u2_none'] = SignatureList(sig_lists['n3u2'], None)
	mod = [s.copy() for s in sig_lists['n3u2']]
	mod[-1] = np.append(mod[-1], 1023).astype('u2')
	eq_objs['SL_n3u2_mod'] = SignatureList(mod, ks)
	eq_objs['SL_n3u2_short'] = SignatureList(sig_lists['n3u2'][:2], ks)
	eq_objs['SL_nan'] = SignatureList([np.array([np.nan])], ks)
	eq_objs['list'] = list(sig_lists['n3u2'])
	eq_objs['tuple'] = tuple(sig_lists['n3u2'])
	eq_objs['None'] = None
	eq_objs['int'] = 3
	eq_objs['arr'] = np.arange(3)
	names = [k for k in eq_objs if not k.startswith('W')]
	for a in names:
		for b_ in names:
			if a.startswith(('AN_n5', 'AN_n6', 'SL_n6', 'H5_n6')) or b_.startswith(('AN_n5', 'AN_n6', 'SL_n6', 'H5_n6')):
				continue
			x, y = eq_objs[a], eq_objs[b_]
			attempt(['eq', a, b_], lambda: x == y)
			attempt(['ne', a, b_], lambda: x != y)
			if isinstance(x, AbstractSignatureArray):
				attempt(['__eq__', a, b_], lambda: x.__eq__(y))
			if hasattr(x, '__len__') and hasattr(y, '__len__'):
				attempt(['sigarray_eq', a, b_], sigarray_eq, x, y)
	nanl = [np.array([np.nan])]
	attempt(['sigarray_eq nan same'], sigarray_eq, nanl, nanl)
	attempt(['sigarray_eq kw'], lambda: sigarray_eq(a1=[np.arange(2)], a2=[np.arange(2)]))
	attempt(['sigarray_eq lists of lists'], sigarray_eq, [[1, 2], [3]], ([1, 2], [3]))
	attempt(['sigarray_eq lists of lists ne'], sigarray_eq, [[1, 2], [3]], ([1, 2], [4]))
	attempt(['sigarray_eq strs'], sigarray_eq, 'abc', 'abd')
	attempt(['sigarray_eq nolen'], sigarray_eq, iter([1]), iter([1]))
	attempt(['sigarray_eq 2d'], sigarray_eq, np.zeros((2, 2)), np.zeros((2, 2)))
	attempt(['sigarray_eq shapes'], sigarray_eq, [np.zeros(2)], [np.zeros(3)])
	attempt(['sigarray_eq dict'], sigarray_eq, {0: 1}, {0: 2})
	attempt(['hash'], lambda: [getattr(type(c), '__hash__') is None for c in [collections['SA_n3u2'], collections['SL_n3u2']]])

	# -------------------------------------------------------------------------------------------
	# SignatureList mutation sequences
	# -------------------------------------------------------------------------------------------

	def rand_sig(dtype='u8'):
		ln = rng.choice([0, 1, 2, 4])
		return np.array(sorted(rng.sample(range(1024), ln)), dtype=dtype)

	for seq_no in range(60):
		n0 = rng.choice([0, 1, 3, 5])
		sl = SignatureList([rand_sig() for _ in range(n0)], ks)
		ref = list(sl)
		for step in range(12):
			n = len(sl)
			op = rng.choice(['set', 'setneg', 'setslice', 'del', 'delslice', 'insert', 'append', 'extend', 'pop', 'popi',
			                 'reverse', 'iadd', 'clear', 'setoob', 'deloob', 'index', 'count', 'remove', 'contains', 'setnp',
			                 'setlist', 'delnp', 'insertnp', 'getmix'])
			i = rng.randint(-n - 2, n + 2)
			sig = rand_sig()
			label = ['mut', seq_no, step, op, i]
			if op in ('set', 'setneg', 'setoob'):
				attempt(label, sl.__setitem__, i, sig)
			elif op == 'setnp':
				attempt(label, sl.__setitem__, np.int64(i), sig)
			elif op == 'setlist':
				attempt(label, sl.__setitem__, [0], sig)
			elif op == 'setslice':
				j = rng.randint(-n - 2, n + 2)
				st = rng.choice([None, 1, 2, -1])
				attempt(label + [j, st], sl.__setitem__, slice(i, j, st), [rand_sig() for _ in range(rng.randint(0, 3))])
			elif op in ('del', 'deloob'):
				attempt(label, sl.__delitem__, i)
			elif op == 'delnp':
				attempt(label, sl.__delitem__, np.int8(max(-100, min(100, i))))
			elif op == 'delslice':
				j = rng.randint(-n - 2, n + 2)
				st = rng.choice([None, 1, 2, -1])
				attempt(label + [j, st], sl.__delitem__, slice(i, j, st))
			elif op == 'insert':
				attempt(label, sl.insert, i, sig)
			elif op == 'insertnp':
				attempt(label, sl.insert, np.int64(i), sig)
			elif op == 'append':
				attempt(label, sl.append, sig)
			elif op == 'extend':
				attempt(label, sl.extend, [rand_sig(), rand_sig()])
			elif op == 'pop':
				attempt(label, sl.pop)
			elif op == 'popi':
				attempt(label, sl.pop, i)
			elif op == 'reverse':
				attempt(label, sl.reverse)
			elif op == 'iadd':
				def f():
					nonlocal sl
					sl += [sig]
					return type(sl).__name__
				attempt(label, f)
			elif op == 'clear':
				if rng.random() < .3:
					attempt(label, sl.clear)
			elif op == 'index':
				attempt(label, lambda: sl.index(sl[0]) if len(sl) else sl.index(sig))
			elif op == 'count':
				attempt(label, sl.count, sig)
			elif op == 'remove':
				attempt(label, sl.remove, sig)
			elif op == 'contains':
				attempt(label, lambda: sig in sl)
			elif op == 'getmix':
				attempt(label, lambda: [desc(sl[::-1]), desc(sl[[]]), desc(sl[:0])])
			emit(label + ['state'], [desc(sl), desc(SignatureArray(sl)) if len(sl) or True else None])
			attempt(label + ['get'], sl.__getitem__, i)
			attempt(label + ['getslice'], sl.__getitem__, slice(i, None, rng.choice([None, -1, 2])))
			attempt(label + ['eq'], lambda: [sl == SignatureList(list(sl), ks), sl == SignatureArray(sl), sl == SignatureList(list(sl)[:-1], ks)])

	# -------------------------------------------------------------------------------------------
	# Users of the indexing: metric functions and CLI
	# -------------------------------------------------------------------------------------------

	from gambit.metric import jaccarddist_matrix, jaccarddist_array, jaccarddist_pairwise
	big = SignatureArray([np.array(sorted(rng.sample(range(1024), rng.randint(0, 40))), dtype='u2') for _ in range(12)], ks)
	attempt(['metric matrix'], jaccarddist_matrix, big[[3, 1, -1]], big[2:9])
	attempt(['metric matrix2'], jaccarddist_matrix, SignatureList(big)[::2], big[::-1])
	attempt(['metric array'], jaccarddist_array, big[0], big[[True] * 6 + [False] * 6])
	attempt(['metric pairwise'], jaccarddist_pairwise, big)
	attempt(['metric pairwise idx'], jaccarddist_pairwise, big, indices=[5, 3, 1, 0])
	attempt(['metric pairwise h5'], jaccarddist_pairwise, collections['H5_n5u8'])

	if datadir:
		from click.testing import CliRunner
		import gambit.cli
		gs = os.path.join(datadir, 'testdb_210818', 'ref-signatures.gs')
		def cli(label, args, outfile=None):
			r = CliRunner().invoke(gambit.cli.cli, args)
			content = None
			if outfile and os.path.exists(outfile):
				with open(outfile, 'rb') as f:
					content = f.read().decode('latin1')
				os.unlink(outfile)
			emit(['cli', label], [r.exit_code, r.output, repr(r.exception), content])
		cli('info', ['signatures', 'info', gs])
		cli('info json', ['signatures', 'info', '-j', '-p', gs])
		cli('info ids', ['signatures', 'info', '-i', gs])
		o = os.path.join(tmpdir, 'dist.csv')
		cli('dist square', ['dist', '--qs', gs, '-s', '-o', o, '--no-progress', '-c', '1'], o)
		cli('dist qs rs', ['dist', '--qs', gs, '--rs', os.path.join(tmpdir, 'n5u8.gs'), '-o', o, '--no-progress', '-c', '1'], o)
		refs = load_signatures(gs)
		attempt(['testdb getitem'], lambda: [desc(refs[[0, -1, 5]]), desc(refs[3:6]), desc(refs[-1]), desc(refs[::60])])
		attempt(['testdb eq'], lambda: [refs == SignatureArray(refs), refs[:5] == refs[[0, 1, 2, 3, 4]], refs[:5] == refs[1:6]])

	sys.stdout.write('\n'.join(out) + '\n')


# ------------------------------------------------------------------------------------------------
# Driver
# ------------------------------------------------------------------------------------------------

def run_worker(srcdir, tmpdir, datadir):
	env = dict(os.environ)
	env['PYTHONPATH'] = srcdir
	env['OMP_WAIT_POLICY'] = 'PASSIVE'
	env['PYTHONHASHSEED'] = '0'
	os.makedirs(tmpdir, exist_ok=True)
	p = subprocess.run([sys.executable, os.path.abspath(__file__), '--worker', tmpdir, datadir or ''],
	                   env=env, stdout=subprocess.PIPE, stderr=subprocess.PIPE, cwd=tmpdir)
	return p.returncode, p.stdout.decode(), p.stderr.decode()


def main():
	if len(sys.argv) >= 2 and sys.argv[1] == '--worker':
		worker(sys.argv[2], sys.argv[3] or None)
		return 0

	if len(sys.argv) != 3:
		print(__doc__)
		return 2

	clean, patched = (os.path.abspath(p) for p in sys.argv[1:3])

	datadir = None
	for src in (clean, patched):
		d = os.path.join(os.path.dirname(src), 'tests', 'data')
		if os.path.isdir(os.path.join(d, 'testdb_210818')):
			datadir = d
			break

	root = tempfile.mkdtemp(prefix='equivC20-')
	try:
		# Both workers use the same working directory path (one after the other) so that any paths
		# in output are identical
		results = []
		for src in (clean, patched):
			work = os.path.join(root, 'work')
			results.append(run_worker(src, work, datadir))
			shutil.rmtree(work, ignore_errors=True)
	finally:
		shutil.rmtree(root, ignore_errors=True)

	(rc1, out1, err1), (rc2, out2, err2) = results
	ok = True
	if rc1 != 0 or rc2 != 0:
		print(f'worker exit codes: clean={rc1} patched={rc2}')
		print(err1[-3000:])
		print(err2[-3000:])
		ok = False

	l1, l2 = out1.splitlines(), out2.splitlines()
	print(f'cases: clean={len(l1)} patched={len(l2)} (cli/testdb included: {bool(datadir)})')
	if len(l1) != len(l2):
		ok = False
	ndiff = 0
	for a, b in zip(l1, l2):
		if a != b:
			ndiff += 1
			if ndiff <= 10:
				print('--- clean  :', a[:600])
				print('+++ patched:', b[:600])
	if ndiff:
		print(f'{ndiff} differing cases')
		ok = False
	if len(l1) < 300:
		print('too few cases ran')
		ok = False

	print('SAME' if ok else 'DIFFERENT')
	return 0 if ok else 1


if __name__ == '__main__':
	sys.exit(main())
