"""Differential test for the C01 rewrite (k-mer search / signature calculation).

Usage: python equiv.py <clean-src-dir> <patched-src-dir>

Runs the same seeded inputs through index_dtype, KmerMatch, find_kmers, accumulate_kmers,
calc_signature, calc_file_signature(s) and the "signatures create" / "query" CLI commands in two
subprocesses (one per PYTHONPATH), and compares the transcripts exactly. Prints SAME / DIFFERENT,
exit status 0 / 1.
"""

import sys
import os
import subprocess


def worker():
	import random
	import tempfile
	import threading
	import warnings
	from pathlib import Path

	import numpy as np
	from Bio.Seq import Seq

	import gambit
	from gambit import kmers
	from gambit.kmers import KmerSpec, KmerMatch, find_kmers, index_dtype
	from gambit.sigs import calc
	from gambit.sigs.calc import (ArrayAccumulator, SetAccumulator, KmerAccumulator, accumulate_kmers,
		calc_signature, calc_file_signature, calc_file_signatures, default_accumulator)
	from gambit.seq import SequenceFile, revcomp

	warnings.simplefilter('always')
	out = sys.stdout
	ncase = [0]

	def emit(*args):
		ncase[0] += 1
		out.write(' | '.join(str(a) for a in args) + '\n')

	def attempt(f, *a, **kw):
		try:
			return ('ok', f(*a, **kw))
		except BaseException as e:
			return ('exc', type(e).__name__, str(e))

	def fmt(x):
		if isinstance(x, np.ndarray):
			return f'ndarray({x.dtype!r},{x.shape},{x.flags.c_contiguous},{x.flags.writeable},{x.tolist()!r})'
		if isinstance(x, np.generic):
			return f'{type(x).__name__}({x!r})'
		if isinstance(x, tuple):
			return '(' + ','.join(fmt(y) for y in x) + ')'
		if isinstance(x, list):
			return '[' + ','.join(fmt(y) for y in x) + ']'
		return f'{type(x).__name__}:{x!r}'

	# ---------------------------------------------------------------- index_dtype
	ks = list(range(-3, 70)) + [np.uint8(4), np.uint8(5), np.int64(8), np.int64(9), np.uint64(16), np.uint64(17),
		np.int32(32), np.int32(33), 4.0, 4.5, 8.0, 16.000001, 32.0, 32.5, float('nan'), float('inf'), -float('inf'),
		np.float64('nan'), True, False, 'a', None, b'4', [4], np.array([1, 2]), np.array(3), np.array([40]), 2 ** 70, -2 ** 70,
		1 + 2j]
	for k in ks:
		r = attempt(index_dtype, k)
		same_obj = (r[0] == 'ok' and r[1] is not None and r[1] is np.dtype(r[1].str))
		emit('index_dtype', fmt(k), fmt(r), same_obj)

	# ---------------------------------------------------------------- KmerSpec sanity (untouched but depends on index_dtype)
	for k, p in [(1, 'A'), (4, 'a'), (5, b'AT'), (8, bytearray(b'ac')), (9, Seq('ATG')), (16, ''), (17, 'T'), (32, 'G'),
	             (33, 'G'), (40, 'AC'), (0, 'A'), (-1, 'A'), (np.uint8(11), 'ATGAC'), (3, 'AN'), (3, 1)]:
		r = attempt(KmerSpec, k, p)
		if r[0] == 'ok':
			s = r[1]
			emit('kspec', repr(s), fmt(s.k), fmt(s.prefix), s.prefix_str, s.prefix_len, s.total_len, s.nkmers, repr(s.index_dtype),
			     fmt(attempt(hash, s)), sorted(vars(s)) if hasattr(s, '__dict__') else None)
		else:
			emit('kspec', fmt(k), fmt(p), fmt(r))

	# ---------------------------------------------------------------- helpers for sequences
	rng = random.Random(20240101)

	ALPHABETS = [b'ACGT', b'ACGT', b'ACGTacgt', b'ACGTN', b'ACGTacgtNnRYxz-*. 0', b'AT', b'A', b'acgt', b'AaTt']

	def rand_seq(n, prefix, alphabet=None):
		alphabet = alphabet or rng.choice(ALPHABETS)
		b = bytearray(rng.choice(alphabet) for _ in range(n))
		# plant prefix / revcomp occurrences, incl. at both ends
		if prefix and n >= len(prefix):
			rc = revcomp(bytes(prefix))
			for _ in range(rng.randrange(0, 5)):
				what = rng.choice([prefix, rc, prefix.lower(), rc.lower()])
				where = rng.choice([0, n - len(what), rng.randrange(0, n - len(what) + 1)])
				b[where:where + len(what)] = what
		return bytes(b)

	def as_types(b):
		"""All four sequence types (text based ones only if ascii)."""
		res = [('bytes', bytes(b)), ('bytearray', bytearray(b))]
		try:
			s = b.decode('ascii')
		except UnicodeDecodeError:
			return res
		res.append(('str', s))
		res.append(('Seq', Seq(s)))
		return res

	PREFIXES = [b'A', b'T', b'AT', b'AA', b'ACGT', b'ATAT', b'ATGAC', b'GC', b'TTT', b'CG', b'', b'ATG', b'C', b'TA', b'GATC']

	def describe_match(m, seq):
		return (fmt(m.pos), fmt(m.reverse), m.seq is seq, m.kmerspec.k,
			repr(m.kmer_indices()), repr(m.full_indices()), fmt(attempt(m.kmer)), fmt(attempt(m.kmer_index)))

	def run_find(kspec, seq):
		try:
			gen = find_kmers(kspec, seq)
		except BaseException as e:
			return ('exc-at-call', type(e).__name__, str(e))
		res = [type(gen).__name__]
		try:
			for m in gen:
				res.append(describe_match(m, seq))
		except BaseException as e:
			res.append(('exc', type(e).__name__, str(e)))
		return res

	class Recorder(KmerAccumulator):
		"""Records every add() call."""
		def __init__(self, k):
			self.k = k
			self.calls = []
		def __len__(self): return len(self.calls)
		def __iter__(self): return iter(self.calls)
		def __contains__(self, x): return x in self.calls
		def add(self, x): self.calls.append(x)
		def discard(self, x): pass
		def signature(self): return self.calls

	class Exploder(Recorder):
		def add(self, x):
			if len(self.calls) >= 1:
				raise ValueError('boom from add')
			self.calls.append(x)

	def run_sig(kspec, seqs, acc_kind):
		if acc_kind == 'default':
			acc = None
		elif acc_kind == 'array':
			acc = ArrayAccumulator(kspec.k)
		elif acc_kind == 'set':
			acc = SetAccumulator(kspec.k)
		elif acc_kind == 'rec':
			acc = Recorder(kspec.k)
		else:
			acc = Exploder(kspec.k)
		r = attempt(calc_signature, kspec, seqs, accumulator=acc)
		extra = ''
		if acc_kind in ('rec', 'boom'):
			extra = fmt(list(acc.calls))
		return fmt(r) + extra

	# ---------------------------------------------------------------- random differential cases
	specs = {}

	def get_spec(k, prefix):
		# reuse KmerSpec objects so that any state attached to them / keyed on them is exercised
		key = (k, prefix)
		if key not in specs or rng.random() < .3:
			specs[key] = KmerSpec(k, prefix)
		return specs[key]

	K_CHOICES = list(range(1, 33)) + [1, 2, 3, 4, 5, 8, 9, 11, 11, 12, 16, 17, 32, 33, 40]

	for i in range(450):
		prefix = rng.choice(PREFIXES)
		k = rng.choice(K_CHOICES)
		if i % 3 == 0:
			k = rng.choice([1, 2, 3, 4, 5])
		kspec = get_spec(k, prefix)
		total = kspec.total_len
		n = rng.choice([0, 1, len(prefix), max(total - 1, 0), total, total + 1, total + 2, rng.randrange(0, 25), rng.randrange(0, 120), 2 * total + 1])
		if i % 11 == 0:
			alphabet = bytes(range(256))
		else:
			alphabet = None
		b = rand_seq(n, prefix, alphabet)
		for tname, seq in as_types(b):
			emit('find', i, repr(kspec), tname, fmt(run_find(kspec, seq)))
		# Signatures: all types x accumulators (dense only for small k)
		accs = ['default', 'set', 'rec']
		if k <= 11:
			accs.append('array')
		for acc_kind in accs:
			for tname, seq in as_types(b):
				emit('sig1', i, repr(kspec), tname, acc_kind, run_sig(kspec, seq, acc_kind))
		# multiple sequences, as list / tuple / generator, mixed types
		others = [rand_seq(rng.randrange(0, 60), prefix) for _ in range(rng.randrange(0, 4))]
		coll = [rng.choice(as_types(x))[1] for x in [b] + others]
		for acc_kind in accs + ['boom']:
			emit('sigN-list', i, acc_kind, run_sig(kspec, list(coll), acc_kind))
			emit('sigN-gen', i, acc_kind, run_sig(kspec, (s for s in coll), acc_kind))
		emit('sigN-tuple', i, run_sig(kspec, tuple(coll), 'default'))
		# reused accumulator across calls (accumulates)
		acc = default_accumulator(k) if k <= 11 or k > 11 else None
		if k <= 12:
			r1 = attempt(calc_signature, kspec, coll[:1], accumulator=acc)
			r2 = attempt(calc_signature, kspec, coll[1:], accumulator=acc)
			emit('sig-reuse', i, fmt(r1), fmt(r2), type(acc).__name__, fmt(attempt(len, acc)))

	# ---------------------------------------------------------------- hand-written edge cases
	edge = [
		(3, b'AT', b''), (3, b'AT', b'A'), (3, b'AT', b'AT'), (3, b'AT', b'ATCCC'), (3, b'AT', b'ATCC'), (3, b'AT', b'GGGAT'),
		(3, b'AT', b'GGAT'), (3, b'AT', b'ATATATATAT'), (2, b'AA', b'AAAAAAAA'), (2, b'AA', b'TTTTTTTT'), (2, b'AA', b'aaaaTTTT'),
		(1, b'A', b'A'), (1, b'A', b'AA'), (1, b'A', b'T'), (1, b'A', b'TT'), (1, b'A', b'AT'), (1, b'A', b'TA'),
		(4, b'ACGT', b'ACGTACGTACGT'), (4, b'GATC', b'GATCGATCNGATC'), (3, b'AT', b'ATNCCATCNCATCCN'), (3, b'AT', b'atccgGGATxxAT'),
		(3, b'', b''), (3, b'', b'AC'), (3, b'', b'ACG'), (3, b'', b'ACGT'), (3, b'', b'acgtn'), (40, b'A', b'A' * 100),
		(33, b'AT', b'AT' + b'C' * 40 + b'AT'), (32, b'AT', b'AT' + b'C' * 32), (32, b'AT', b'G' * 32 + b'AT'),
		(5, b'AT', b'AT\x00\xff\xe1\xc1CCAT'), (5, b'AT', bytes([0x41, 0x54, 0x61, 0x63, 0x67, 0x74, 0x41, 0xE1, 0xC3])),
		(2, b'AT', b'\xe1\xf4CCAT'), (2, b'AT', b'at' * 10), (2, b'AT', b'aT' * 10), (2, b'AT', b'nnnnnn'), (2, b'AT', b'NNNNatNN'),
	]
	for k, prefix, b in edge:
		kspec = KmerSpec(k, prefix)
		for tname, seq in as_types(b):
			emit('edge-find', k, prefix, tname, fmt(run_find(kspec, seq)))
			for acc_kind in ['default', 'set', 'rec'] + (['array'] if k <= 11 else []):
				emit('edge-sig', k, prefix, tname, acc_kind, run_sig(kspec, seq, acc_kind))

	# bad inputs
	kspec = KmerSpec(3, 'AT')
	for bad in [None, 123, 1.5, ['ATCCC'], ('ATCCC',), memoryview(b'ATCCC'), np.frombuffer(b'ATCCC', dtype='u1'), 'ATéCCC', 'ATCCC☃',
	            Seq(None, length=10), object]:
		emit('bad-find', type(bad).__name__, fmt(run_find(kspec, bad)))
		emit('bad-acc', type(bad).__name__, fmt(attempt(accumulate_kmers, Recorder(3), kspec, bad)))
		emit('bad-sig', type(bad).__name__, fmt(attempt(calc_signature, kspec, bad)))
		emit('bad-sig-list', type(bad).__name__, fmt(attempt(calc_signature, kspec, ['ATCCC', bad])))
	# laziness: nothing evaluated until first next()
	g = find_kmers(None, None)
	emit('lazy', type(g).__name__, fmt(attempt(next, g)), fmt(attempt(next, g)))
	g = find_kmers(kspec, 'ATCCCATGGG')
	emit('lazy2', fmt(describe_match(next(g), None)[0]), g.close(), fmt(attempt(next, g)))
	for badspec in [None, 3, 'x']:
		emit('bad-spec', fmt(run_find(badspec, 'ATCCC')), fmt(attempt(accumulate_kmers, Recorder(3), badspec, 'ATCCC')))
	# accumulator without add(): only an error if something is found
	emit('none-acc', fmt(attempt(accumulate_kmers, None, kspec, 'GGGGGGG')), fmt(attempt(accumulate_kmers, None, kspec, 'ATCCC')),
	     fmt(attempt(accumulate_kmers, None, kspec, 'ATCNC')), fmt(attempt(accumulate_kmers, None, kspec, 'AT')))
	# sequence partially processed before failure, then accumulator reused
	acc = SetAccumulator(3)
	emit('partial', fmt(attempt(calc_signature, kspec, ['ATCCC', 5, 'ATGGG'], accumulator=acc)), fmt(acc.signature()),
	     fmt(attempt(calc_signature, kspec, ['ATGGG'], accumulator=acc)))

	# ---------------------------------------------------------------- caller mutates bytearray during / between calls
	for k, prefix, b in [(3, b'AT', b'ATCCCATGGGATAAACCCATGGGAT'), (2, b'AA', b'AAAAAAAAAAAAAAAA'), (3, b'AT', b'atcccatgggataaacccatgggat'),
	                     (3, b'AT', b'ATCCCATGGGATAAAcccatgggat')]:
		kspec = KmerSpec(k, prefix)
		seq = bytearray(b)
		res = []
		for j, m in enumerate(find_kmers(kspec, seq)):
			res.append(describe_match(m, seq))
			# deterministic mutation of the caller's own buffer while iterating
			seq[(7 * j + 3) % len(seq)] = b'ACGTN'[j % 5]
			if j == 2:
				seq.extend(b'ATCCC')
			if j > 50:
				break
		emit('mutate-during', k, prefix, fmt(res), fmt(bytes(seq)))
		seq = bytearray(b)
		r1 = calc_signature(kspec, seq)
		seq[0:2] = b'GG'
		r2 = calc_signature(kspec, seq)
		seq.reverse()
		r3 = calc_signature(kspec, seq)
		del seq[:]
		r4 = calc_signature(kspec, seq)
		emit('mutate-between', k, prefix, fmt(r1), fmt(r2), fmt(r3), fmt(r4))
	# KmerMatch is a plain mutable record
	m = KmerMatch(KmerSpec(3, 'AT'), 'GGATCCCGGGAT', 2, False)
	r = [repr(m.kmer_indices()), m.kmer(), m.kmer_index()]
	m.reverse = True; m.pos = 11
	r += [repr(m.kmer_indices()), m.kmer(), m.kmer_index()]
	m.kmerspec = KmerSpec(2, 'T'); m.seq = b'ccggTA'
	r += [repr(m.kmer_indices()), repr(m.full_indices()), fmt(attempt(m.kmer)), fmt(attempt(m.kmer_index)), repr(m), m == KmerMatch(m.kmerspec, m.seq, 11, True)]
	emit('match-mutable', fmt(r))
	emit('match-slots', KmerMatch.__slots__, fmt(attempt(setattr, m, '_x', 1)))

	# ---------------------------------------------------------------- manual KmerMatch objects with odd values
	ms = KmerSpec(4, 'ATG')
	for pos in [0, 1, 5, -1, -10, 100, np.int64(6), np.uint8(6), np.uint8(2), 6.0, None, 'a']:
		for rev in [False, True, 0, 1, None, 'x', '', np.bool_(True), np.bool_(False)]:
			m = KmerMatch(ms, 'ACGTACGTACGTACGTACGT', pos, rev)
			emit('manual', fmt(pos), fmt(rev), fmt(attempt(lambda: repr(m.kmer_indices()))), fmt(attempt(lambda: repr(m.full_indices()))),
			     fmt(attempt(m.kmer)), fmt(attempt(m.kmer_index)))

	# ---------------------------------------------------------------- threads, shared specs
	tspecs = [KmerSpec(k, p) for k in (3, 5, 12) for p in ('AT', 'ATAT', 'G', 'GATC')]
	tseqs = [rand_seq(400, rng.choice(PREFIXES)) for _ in range(6)]
	expected = {}
	results = {}
	def work(tid):
		r = random.Random(tid)
		for _ in range(150):
			si = r.randrange(len(tspecs)); qi = r.randrange(len(tseqs))
			sig = calc_signature(tspecs[si], [tseqs[qi], bytearray(tseqs[qi])])
			n = sum(1 for _ in find_kmers(tspecs[si], tseqs[qi]))
			results.setdefault((si, qi), set()).add((fmt(sig), n))
	threads = [threading.Thread(target=work, args=(t,)) for t in range(6)]
	for t in threads: t.start()
	for t in threads: t.join()
	for key in sorted(results):
		emit('threads', key, sorted(results[key]))

	# ---------------------------------------------------------------- files and CLI
	from click.testing import CliRunner
	from gambit.cli import cli
	from gambit.sigs import load_signatures

	dbdir = Path(os.environ['EQUIV_DBDIR'])
	root = dbdir.parents[2]
	qfiles = sorted((dbdir / 'queries/genomes').glob('*.fasta'))[:6]
	gzfiles = sorted((dbdir / 'queries/genomes').glob('*.fasta.gz'))[:2]
	emit('nfiles', len(qfiles), len(gzfiles))

	with tempfile.TemporaryDirectory() as td:
		td = Path(td)
		# small handmade fasta
		fa = td / 'x.fasta'
		fa.write_text('>a desc\nATGACccgtagctagctagc\nNNNATGACGGGGGGGGGGGGTT\n>b\n\n>c\nGTCATAAAAAAAAAAAT\ngtcatCCCCCCCCCCCGG\n')
		sf = SequenceFile(fa, 'fasta')
		for k, p in [(11, 'ATGAC'), (3, 'AT'), (14, 'A'), (32, 'C')]:
			ks_ = KmerSpec(k, p)
			emit('file-sig', k, p, fmt(attempt(calc_file_signature, ks_, sf)), fmt(attempt(calc_file_signature, ks_, sf, accumulator=SetAccumulator(k))))
		files = [SequenceFile(f, 'fasta') for f in qfiles] + [SequenceFile(f, 'fasta', 'gzip') for f in gzfiles] + [sf]
		for conc in [None, 'threads', 'processes', 'bogus']:
			r = attempt(calc_file_signatures, KmerSpec(11, 'ATGAC'), files, concurrency=conc, max_workers=2)
			if r[0] == 'ok':
				sl = r[1]
				emit('file-sigs', conc, type(sl).__name__, repr(sl.kmerspec), repr(sl.dtype), fmt([np.asarray(s) for s in sl]))
			else:
				emit('file-sigs', conc, fmt(r))

		runner = CliRunner()
		for j, (k, p) in enumerate([(11, 'ATGAC'), (5, 'AT'), (13, 'GC'), (13, 'G')]):
			outp = td / f'sigs{j}.gs'
			args = ['signatures', 'create', '-k', str(k), '-p', p, '-o', str(outp), '--no-progress', '-c', '1'] + [str(f) for f in qfiles[:4]] + [str(fa)]
			res = runner.invoke(cli, args)
			emit('cli-create', k, p, res.exit_code, repr(res.output).replace(str(td), '<TD>'), fmt(attempt(lambda: type(res.exception).__name__)))
			r = attempt(load_signatures, outp)
			if r[0] == 'ok':
				with r[1] as sigs:
					emit('cli-create-sigs', repr(sigs.kmerspec), list(sigs.ids), repr(sigs.dtype), fmt([np.asarray(s) for s in sigs]))
			else:
				emit('cli-create-sigs', fmt(r).replace(str(td), '<TD>'))
		for fmt_ in ['csv', 'json']:
			outp = td / f'res.{fmt_}'
			args = ['-d', str(dbdir), 'query', '-o', str(outp), '-f', fmt_, '--no-progress', '-c', '1'] + [str(f) for f in qfiles]
			res = runner.invoke(cli, args)
			txt = outp.read_text() if outp.exists() else None
			if txt is not None and fmt_ == 'json':
				import json, re
				data = json.loads(txt)
				data.pop('timestamp', None)
				txt = json.dumps(data, sort_keys=True).replace(str(root), '<ROOT>')
			emit('cli-query', fmt_, res.exit_code, repr(res.output), repr(txt))

	emit('TOTAL', ncase[0])


def main():
	if len(sys.argv) == 2 and sys.argv[1] == '--worker':
		worker()
		return 0
	if len(sys.argv) != 3:
		print(__doc__)
		return 2

	# Both workers read the same test database / genome files
	dbdir = None
	for src in (sys.argv[2], sys.argv[1]):
		cand = os.path.join(os.path.dirname(os.path.abspath(src)), 'tests', 'data', 'testdb_210818')
		if os.path.isdir(cand):
			dbdir = cand
			break
	if dbdir is None:
		print('cannot find tests/data/testdb_210818 next to either src dir')
		return 2

	outputs = []
	for src in sys.argv[1:3]:
		env = dict(os.environ)
		env['PYTHONPATH'] = os.path.abspath(src)
		env['OMP_WAIT_POLICY'] = 'PASSIVE'
		env['PYTHONHASHSEED'] = '0'
		env['EQUIV_DBDIR'] = dbdir
		proc = subprocess.run([sys.executable, os.path.abspath(__file__), '--worker'], env=env, stdout=subprocess.PIPE, stderr=subprocess.PIPE)
		if proc.returncode != 0:
			print(f'worker for {src} failed with status {proc.returncode}:')
			print(proc.stderr.decode(errors='replace')[-4000:])
			print('DIFFERENT')
			return 1
		outputs.append((proc.stdout.decode(errors='replace').splitlines(), proc.stderr.decode(errors='replace')))

	(a, erra), (b, errb) = outputs
	ndiff = 0
	for i in range(max(len(a), len(b))):
		la = a[i] if i < len(a) else '<missing>'
		lb = b[i] if i < len(b) else '<missing>'
		if la != lb:
			ndiff += 1
			if ndiff <= 10:
				print(f'line {i} differs:\n  clean:   {la[:600]}\n  patched: {lb[:600]}')
	# stderr (warnings) must match too, modulo the source path
	na = erra.replace(os.path.abspath(sys.argv[1]), '<SRC>')
	nb = errb.replace(os.path.abspath(sys.argv[2]), '<SRC>')
	if na != nb:
		ndiff += 1
		print('stderr differs:\n--- clean\n' + na[-1500:] + '\n--- patched\n' + nb[-1500:])
	print(f'{len(a)} records compared, {ndiff} differences')
	print('SAME' if ndiff == 0 else 'DIFFERENT')
	return 0 if ndiff == 0 else 1


if __name__ == '__main__':
	sys.exit(main())
