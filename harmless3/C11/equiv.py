#!/usr/bin/env python
"""Differential test for the C11 (export formats) rewrite.

Usage: python equiv.py <clean-src-dir> <patched-src-dir>

Runs the same seeded inputs through gambit.results (CSV / JSON / archive exporters, archive
reader, getattr_nested), gambit.util.json and the ``gambit query`` CLI in two subprocesses, one per
source tree, and compares the recorded transcripts exactly. Prints SAME / DIFFERENT, exits 0 / 1.
"""

import os
import sys
import json
import shutil
import subprocess
import tempfile
from pathlib import Path


def find_testdb(*srcdirs):
	for s in srcdirs:
		p = Path(s).resolve().parent / 'tests' / 'data' / 'testdb_210818'
		if (p / 'ref-genomes.gdb').is_file():
			return p
	raise SystemExit('cannot find tests/data/testdb_210818 next to either source dir')


# ------------------------------------------------------------------------------------------------
# Worker
# ------------------------------------------------------------------------------------------------

def worker(dbdir, outfile, workdir):
	import io
	import random
	import threading
	import warnings
	from datetime import datetime, date
	from types import SimpleNamespace

	import numpy as np
	from attr import attrs, attrib

	import gambit.results as gr
	import gambit.util.json as gjson
	from gambit.results import (JSONResultsExporter, CSVResultsExporter, ResultsArchiveReader,
		ResultsArchiveWriter, getattr_nested, BaseJSONResultsExporter)
	from gambit.query import QueryResults, QueryResultItem, QueryInput, QueryParams
	from gambit.classify import ClassifierResult, GenomeMatch
	from gambit.db import ReferenceGenomeSet, Genome, Taxon, AnnotatedGenome
	from gambit.db.sqla import file_sessionmaker
	from gambit.sigs import SignaturesMeta
	from gambit.seq import SequenceFile

	dbdir = Path(dbdir)
	workdir = Path(workdir)
	log = []

	def rec(tag, value):
		log.append([tag, value])

	def attempt(tag, f, show=repr):
		with warnings.catch_warnings(record=True) as w:
			warnings.simplefilter('always')
			try:
				val = f()
				out = ['ok', show(val)]
			except BaseException as e:
				def flat(x, depth=0):
					d = [type(x).__module__ + '.' + type(x).__qualname__, str(x)[:2000], list(getattr(x, '__notes__', []))]
					if depth < 8:
						d.append([flat(y, depth + 1) for y in getattr(x, 'exceptions', ())])
					return d
				out = ['exc', type(e).__module__ + '.' + type(e).__qualname__, str(e)[:2000], flat(e)]
		out.append([[x.category.__name__, str(x.message)] for x in w])
		rec(tag, out)

	def show_val(x):
		"""Type-exact description of a value."""
		if isinstance(x, (list, tuple)):
			return [type(x).__name__, [show_val(y) for y in x]]
		if isinstance(x, dict):
			return ['dict', [[show_val(k), show_val(v)] for k, v in x.items()]]
		if isinstance(x, float):
			return [type(x).__name__, x.hex()]
		if isinstance(x, np.generic):
			return [type(x).__name__, repr(x.item()), str(x.dtype)]
		return [type(x).__name__, repr(x)]

	# ---------------------------------------------------------------------------------------------
	# A. getattr_nested
	# ---------------------------------------------------------------------------------------------
	rng = random.Random(1101)

	class StrSub(str):
		pass

	class WeirdSplit(str):
		def split(self, *a, **kw):
			return ['b']

	def mkobj(depth):
		if depth == 0:
			return rng.choice([None, 1, 'leaf', 2.5, np.float32(0.25)])
		return SimpleNamespace(
			a=mkobj(depth - 1),
			b=rng.choice([None, mkobj(depth - 1)]),
			c=rng.randrange(100),
		)

	paths = ['a', 'b', 'c', 'a.a', 'a.b', 'b.a', 'b.b.c', 'a.a.a', 'a.a.a.a', 'c.real', 'c.imag.real',
		'', '.', 'a.', '.a', 'a..b', 'zz', 'a.zz', 'b.zz', ' a', 'a.b.c.d.e']
	for i in range(260):
		obj = rng.choice([None, mkobj(rng.randrange(4))])
		p = rng.choice(paths)
		form = rng.randrange(7)
		pass_none = rng.choice([False, True, 0, 1, None])
		if form == 0:
			arg = p
		elif form == 1:
			arg = p.split('.')
		elif form == 2:
			arg = tuple(p.split('.'))
		elif form == 3:
			arg = iter(p.split('.'))
		elif form == 4:
			arg = StrSub(p)
		elif form == 5:
			arg = WeirdSplit(p)
		else:
			arg = rng.choice([[], (), None, 5, [1], b'a.b', ['a', None]])
		attempt(f'A{i}', lambda: getattr_nested(obj, arg, pass_none=pass_none), show_val)
		# Same call again (memoized path)
		if form in (0, 4, 5):
			attempt(f'A{i}r', lambda: getattr_nested(obj, arg, pass_none), show_val)

	# Many distinct paths (more than any cache size), then the early ones again
	o = SimpleNamespace(**{f'x{j}': SimpleNamespace(y=j) for j in range(600)})
	rec('A-many', [getattr_nested(o, f'x{j}.y') for j in range(600)] + [getattr_nested(o, f'x{j}.y') for j in range(600)])

	# ---------------------------------------------------------------------------------------------
	# Database setup: two private copies of the genome database
	# ---------------------------------------------------------------------------------------------
	db1 = workdir / 'db1.gdb'
	db2 = workdir / 'db2.gdb'
	shutil.copy(dbdir / 'ref-genomes.gdb', db1)
	shutil.copy(dbdir / 'ref-genomes.gdb', db2)
	Session1 = file_sessionmaker(db1)
	Session2 = file_sessionmaker(db2, readonly=False)
	session = Session1()
	session2 = Session2()

	# Second database: same keys, different content
	for t in session2.query(Taxon).order_by(Taxon.id):
		t.name = 'DB2 ' + t.name
		if t.distance_threshold is not None:
			t.distance_threshold = t.distance_threshold / 2
	session2.commit()

	gset = session.query(ReferenceGenomeSet).one()
	taxa = session.query(Taxon).order_by(Taxon.id).all()
	genomes = session.query(AnnotatedGenome).order_by(AnnotatedGenome.genome_id).all()

	WEIRD = ['plain', 'with, comma', 'with "quotes"', 'new\nline', 'cr\r\nlf', 'tab\there', "single'quote",
		'ünïcödé', '日本語', '\U0001f9ec emoji', '', ' ', ',', '"', '""', '\\', 'a;b|c',
		' sep', 'nul\x00byte'[:3], '=1+1', '  lead', 'trail  ', 'é']

	# Unusual names for some taxa (uncommitted changes in the session)
	for i, t in enumerate(taxa):
		if i % 3 == 0:
			t.name = WEIRD[(i // 3) % len(WEIRD)] + f' #{i}'
		if i % 5 == 0:
			t.ncbi_id = 1000 + i
	for i, g in enumerate(genomes):
		if i % 4 == 0:
			g.genome.description = WEIRD[(i // 4) % len(WEIRD)] + f' g{i}'

	def rand_distance(rng):
		kind = rng.randrange(6)
		x = rng.choice([0.0, 1.0, 0.5, rng.random(), rng.random() * 1e-6, 1 / 3])
		if kind == 0:
			return np.float32(x)
		if kind == 1:
			return np.float64(x)
		if kind == 2:
			return float(np.float32(x))
		return x

	def rand_match(rng, genome=None):
		if genome is None:
			genome = rng.choice(genomes)
		d = rand_distance(rng)
		k = rng.randrange(4)
		if k == 0:
			return GenomeMatch(genome=genome, distance=d)
		if k == 1:
			return GenomeMatch(genome=genome, distance=d, matched_taxon=None)
		if k == 2:
			return GenomeMatch(genome=genome, distance=d, matched_taxon=genome.taxon)
		return GenomeMatch(genome=genome, distance=d, matched_taxon=rng.choice(taxa))

	def rand_item(rng, i):
		closest = rand_match(rng)
		kind = rng.randrange(5)
		kw = dict()
		if rng.random() < .3:
			kw['next_taxon'] = rng.choice([None, rng.choice(taxa)])
		if rng.random() < .4:
			kw['warnings'] = [rng.choice(WEIRD) for _ in range(rng.randrange(3))]
		if kind == 0:   # No prediction
			cr = ClassifierResult(success=True, predicted_taxon=None, primary_match=None, closest_match=closest, **kw)
		elif kind == 1:  # failed
			cr = ClassifierResult(success=False, predicted_taxon=None, primary_match=None, closest_match=closest,
				error=rng.choice(WEIRD), **kw)
		elif kind == 2:
			cr = ClassifierResult(success=True, predicted_taxon=closest.genome.taxon, primary_match=closest,
				closest_match=closest, **kw)
		else:
			primary = rand_match(rng)
			cr = ClassifierResult(success=True, predicted_taxon=rng.choice(taxa), primary_match=primary,
				closest_match=closest, **kw)

		pred = cr.predicted_taxon
		r = rng.randrange(4)
		if pred is None or r == 0:
			report = None      # unreportable
		elif r == 1:
			report = pred.parent
		else:
			report = pred

		label = rng.choice(WEIRD) + f'-{i}'
		f = rng.randrange(4)
		if f == 0:
			file = None
		elif f == 1:
			file = SequenceFile(Path(f'dir {i}') / (rng.choice(WEIRD[:8]).replace('\n', '_') + '.fasta'), 'fasta')
		elif f == 2:
			file = SequenceFile(Path(f'/abs/q{i}.fa.gz'), 'fasta', 'gzip')
		else:
			file = SequenceFile(Path(f'q{i}.gb'), 'genbank', None)

		nclosest = rng.randrange(4)
		closest_genomes = [closest] + [rand_match(rng) for _ in range(nclosest)] if rng.random() < .8 else []
		return QueryResultItem(input=QueryInput(label, file), classifier_result=cr, report_taxon=report,
			closest_genomes=closest_genomes)

	def rand_results(rng, n):
		items = [rand_item(rng, i) for i in range(n)]
		kw = dict()
		p = rng.randrange(3)
		if p == 0:
			kw['params'] = None
		elif p == 1:
			kw['params'] = QueryParams(chunksize=rng.choice([None, 1, 1234]), classify_strict=rng.choice([True, False]),
				report_closest=rng.randrange(20))
		else:
			kw['params'] = QueryParams()
		if rng.random() < .7:
			kw['signaturesmeta'] = SignaturesMeta(id=rng.choice(WEIRD), name='Test signatures', version='1.0',
				id_attr=rng.choice(['key', 'refseq_acc', None]), description=rng.choice([None, 'desc\n2']),
				extra=rng.choice([dict(), dict(a=1), dict(nested=dict(b=[1, 2.5, None]))]))
		e = rng.randrange(4)
		if e == 1:
			kw['extra'] = dict(foo=1, bar=[1, 2, 'x'], baz=dict(q=None))
		elif e == 2:
			kw['extra'] = {'ü': '日', 'f': 0.1}
		return QueryResults(items=items, genomeset=gset, gambit_version=rng.choice(['1.0.0', '0.5.1-dev', '']),
			timestamp=datetime(2020 + rng.randrange(5), 1 + rng.randrange(12), 1 + rng.randrange(28),
				rng.randrange(24), rng.randrange(60), rng.randrange(60), rng.choice([0, 123456])), **kw)

	def to_buf(exporter, results):
		buf = io.StringIO()
		exporter.export(buf, results)
		return buf.getvalue()

	def describe_results(res):
		"""Bit-exact description of a results object (models by identity -> key)."""
		def tx(t):
			return None if t is None else [t.key, t.name, t.id, t.genome_set_id]
		def gm(m):
			return None if m is None else [m.genome.key, m.genome.genome_set_id, show_val(m.distance), tx(m.matched_taxon)]
		out = []
		for it in res.items:
			cr = it.classifier_result
			out.append([
				repr(it.input), repr(it.input.file),
				cr.success, tx(cr.predicted_taxon), gm(cr.primary_match), gm(cr.closest_match), tx(cr.next_taxon),
				show_val(cr.warnings), show_val(cr.error), tx(it.report_taxon), [gm(m) for m in it.closest_genomes],
			])
		return [out, repr(res.params), [res.genomeset.key, res.genomeset.version, res.genomeset.id],
			repr(res.signaturesmeta), res.gambit_version, repr(res.timestamp), show_val(res.extra)]

	# Exporters / readers reused over the whole run (state must not leak between calls)
	csv_default = CSVResultsExporter()
	csv_variants = [
		csv_default,
		CSVResultsExporter(dialect='excel'),
		CSVResultsExporter(dialect='excel-tab'),
		CSVResultsExporter(delimiter=';', quotechar="'"),
		CSVResultsExporter(quoting=1),
		CSVResultsExporter(lineterminator='\r\n', quoting=2),
	]
	json_compact = JSONResultsExporter()
	json_pretty = JSONResultsExporter(pretty=True)
	arch_compact = ResultsArchiveWriter()
	arch_pretty = ResultsArchiveWriter(pretty=True)
	reader = ResultsArchiveReader(session)
	reader_db2 = ResultsArchiveReader(session2)

	rec('B-header', csv_default.get_header())
	rec('B-fmtopts', [sorted(e.format_opts.items()) for e in csv_variants])
	rec('B-columns', [list(c) for c in CSVResultsExporter.COLUMNS])
	rec('B-reprs', [repr(json_compact), repr(json_pretty), repr(arch_pretty), json_compact == JSONResultsExporter(),
		json_compact == json_pretty, arch_compact == ResultsArchiveWriter(), sorted(vars(reader)) == sorted(vars(ResultsArchiveReader(session)))])

	all_results = []
	sizes = [0, 1, 1, 2, 3] + [rng.randrange(9) for _ in range(75)]
	for ri, n in enumerate(sizes):
		res = rand_results(rng, n)
		all_results.append(res)
		tag = f'B{ri}'

		for ci, e in enumerate(csv_variants):
			attempt(f'{tag}-csv{ci}', lambda: to_buf(e, res), str)
		attempt(f'{tag}-rows', lambda: [csv_default.get_row(it) for it in res.items], show_val)
		attempt(f'{tag}-json', lambda: to_buf(json_compact, res), str)
		attempt(f'{tag}-jsonp', lambda: to_buf(json_pretty, res), str)
		attempt(f'{tag}-arch', lambda: to_buf(arch_compact, res), str)
		attempt(f'{tag}-archp', lambda: to_buf(arch_pretty, res), str)
		attempt(f'{tag}-tojson', lambda: [json_compact.to_json(res.items[0]) if res.items else None,
			sorted(json_compact.to_json(res)), arch_compact.to_json(gset), json_compact.to_json(gset),
			json_compact.to_json(np.float32(0.5)), arch_compact.to_json(Path('x/y'))], repr)

		# Export to path
		if ri % 6 == 0:
			for name, e in [('c.csv', csv_default), ('j.json', json_pretty), ('a.json', arch_compact)]:
				p = workdir / f'{ri}-{name}'
				e.export(p if ri % 12 else str(p), res)
				rec(f'{tag}-file-{name}', p.read_bytes().decode('utf-8'))

		# Archive round trip
		text = to_buf(arch_compact, res)
		def roundtrip(rd=reader, text=text, res=res):
			res2 = rd.read(io.StringIO(text))
			same_objs = all(
				a.report_taxon is b.report_taxon and a.classifier_result.closest_match.genome is b.classifier_result.closest_match.genome
				for a, b in zip(res.items, res2.items))
			return [res2 == res, same_objs, describe_results(res2), to_buf(arch_pretty, res2) , to_buf(csv_default, res2),
				rd._current_genomeset is None]
		attempt(f'{tag}-rt', roundtrip, repr)
		if ri % 4 == 0:
			attempt(f'{tag}-rt-fresh', lambda: roundtrip(ResultsArchiveReader(session)), repr)
			# Same archive against the other database (different session)
			def other_db():
				res2 = reader_db2.read(io.StringIO(text))
				return [res2 == res, describe_results(res2), to_buf(json_compact, res2), to_buf(csv_default, res2)]
			attempt(f'{tag}-rt-db2', other_db, repr)
		if ri % 8 == 0:
			# results_from_json / read from path
			p = workdir / f'{ri}-rt.json'
			p.write_text(text)
			attempt(f'{tag}-rt-path', lambda: describe_results(reader.read(p)), repr)
			attempt(f'{tag}-rt-data', lambda: describe_results(reader.results_from_json(json.loads(text))), repr)

	# ---------------------------------------------------------------------------------------------
	# C. Failures part-way, then reuse of the same reader
	# ---------------------------------------------------------------------------------------------
	big = [r for r in all_results if len(r.items) >= 4]
	for ci, res in enumerate(big[:25]):
		good = json.loads(to_buf(arch_compact, res))
		rngc = random.Random(5000 + ci)

		def corrupt(data, mode):
			data = json.loads(json.dumps(data))
			items = data['items']
			it = items[rngc.randrange(len(items))]
			cm = it['classifier_result']['closest_match']
			if mode == 0:
				cm['genome']['key'] = 'no-such-genome'
			elif mode == 1:
				items[-1]['classifier_result']['closest_match']['matched_taxon'] = dict(key='no-such-taxon')
			elif mode == 2:
				data['genomeset']['key'] = 'nope'
			elif mode == 3:
				data['genomeset']['version'] = None
			elif mode == 4:
				del data['genomeset']['version']
			elif mode == 5:
				cm['genome'] = dict()
			elif mode == 6:
				cm['genome']['key'] = rngc.choice([None, 5, 1.5, True])
			elif mode == 7:
				cm['genome']['key'] = ['a', 'b']
			elif mode == 8:
				it['report_taxon'] = dict(key=dict(a=1))
			elif mode == 9:
				it['report_taxon'] = dict(key=None)
			elif mode == 10:
				cm['distance'] = 'abc'
			elif mode == 11:
				del data['items'][0]['input']
			elif mode == 12:
				data['genomeset'] = None
			elif mode == 13:
				it['report_taxon'] = 'key-as-string'
			elif mode == 14:
				data['timestamp'] = 'not a time'
			return data

		for mode in range(15):
			bad = corrupt(good, mode)
			def run_bad():
				try:
					return describe_results(reader.results_from_json(bad))
				finally:
					rec(f'C{ci}-{mode}-state', [reader._current_genomeset is None])
			attempt(f'C{ci}-{mode}', run_bad, repr)
			if mode % 5 == 0:
				attempt(f'C{ci}-{mode}-after', lambda: [reader.results_from_json(good) == res], repr)

	# Hooks used outside of a read
	attempt('C-hook-taxon', lambda: reader._converter.structure(dict(key=taxa[0].key), Taxon), repr)
	attempt('C-hook-genome', lambda: reader._converter.structure(dict(key=genomes[0].key), AnnotatedGenome), repr)

	# ---------------------------------------------------------------------------------------------
	# D. Caller mutates between calls; session swapped on one reader
	# ---------------------------------------------------------------------------------------------
	res = big[0]
	text = to_buf(arch_compact, res)
	before = [to_buf(csv_default, res), to_buf(json_compact, res)]
	t0 = res.items[0].classifier_result.closest_match.genome.taxon
	oldname = t0.name
	t0.name = 'renamed, "taxon"'
	res.items[0].input.label = 'relabelled'
	res.items.append(res.items[1])
	after = [to_buf(csv_default, res), to_buf(json_compact, res), to_buf(arch_compact, res)]
	rec('D-mutate', [before, after, describe_results(reader.read(io.StringIO(text)))])
	t0.name = oldname
	res.items.pop()

	swap = ResultsArchiveReader(session)
	d1 = describe_results(swap.read(io.StringIO(text)))
	swap.session = session2
	d2 = describe_results(swap.read(io.StringIO(text)))
	swap.session = session
	d3 = describe_results(swap.read(io.StringIO(text)))
	rec('D-swap', [d1, d2, d3, d1 == d3, d1 == d2])

	# Subclass with different columns, instance-level COLUMNS, mutation of COLUMNS between calls
	class MyCSV(CSVResultsExporter):
		COLUMNS = [('q', 'input.label'), ('file', ['input', 'file', 'path']), ('d', ('classifier_result', 'closest_match', 'distance'))]
	my = MyCSV()
	rec('D-sub1', [my.get_header(), to_buf(my, res)])
	my.COLUMNS = MyCSV.COLUMNS + [('succ', 'classifier_result.success')]
	rec('D-sub2', [my.get_header(), to_buf(my, res)])
	my.COLUMNS.append(('err', 'classifier_result.error'))
	rec('D-sub3', [my.get_header(), to_buf(my, res)])
	my.COLUMNS = [('bad', 'input.nope')]
	attempt('D-sub4', lambda: to_buf(my, res), str)
	my.COLUMNS = [('gen', iter(['input', 'label']))]
	attempt('D-sub5', lambda: to_buf(my, res), str)

	# Failing partway while writing: row 2 raises
	class Boom:
		def __init__(self):
			self.parts = []
		def write(self, s):
			if len(self.parts) >= 2:
				raise OSError('disk full')
			self.parts.append(s)
	b = Boom()
	attempt('D-boom', lambda: csv_default.export(b, res), repr)
	rec('D-boom-parts', b.parts)
	rec('D-after-boom', to_buf(csv_default, res))

	# pretty flag changed on an existing exporter
	je = JSONResultsExporter()
	o1 = to_buf(je, res)
	je.pretty = True
	o2 = to_buf(je, res)
	je.pretty = 0
	o3 = to_buf(je, res)
	je.pretty = 'yes'
	o4 = to_buf(je, res)
	rec('D-pretty', [o1, o2, o3, o4])

	# ---------------------------------------------------------------------------------------------
	# E. Second thread (own session), same exporter objects
	# ---------------------------------------------------------------------------------------------
	thread_out = []
	def in_thread():
		try:
			s = Session1()
			rd = ResultsArchiveReader(s)
			for r in big[:6]:
				t = to_buf(arch_compact, r)
				r2 = rd.read(io.StringIO(t))
				thread_out.append([to_buf(arch_pretty, r2), to_buf(csv_default, r2), to_buf(json_compact, r2)])
			s.close()
		except BaseException as e:
			thread_out.append(['exc', type(e).__name__, str(e)])
	th = threading.Thread(target=in_thread)
	th.start()
	th.join()
	rec('E-thread', thread_out)

	# ---------------------------------------------------------------------------------------------
	# F. gambit.util.json
	# ---------------------------------------------------------------------------------------------
	@attrs()
	class Inner:
		x: int = attrib()
		when: datetime = attrib()
		p: Path = attrib()

	@attrs()
	class Outer:
		inner: Inner = attrib()
		d: date = attrib()
		xs: list[int] = attrib(factory=list)

	class J1(gjson.Jsonable):
		def __init__(self, v):
			self.v = v
		def __to_json__(self):
			return dict(v=self.v, tag='j1')
		@classmethod
		def __from_json__(cls, data):
			return cls(data['v'])
		def __repr__(self):
			return f'J1({self.v!r})'

	@attrs()
	class J2(gjson.Jsonable):
		a: int = attrib()

	@attrs()
	class HasJ:
		j: J1 = attrib()
		k: J2 = attrib()

	class Custom:
		def __init__(self, v):
			self.v = v
		def __repr__(self):
			return f'Custom({self.v!r})'

	class Custom2(Custom):
		pass

	gjson.register_hooks(Custom, lambda c: ['custom', c.v], lambda data: Custom(data[1]))
	gjson.register_hooks(Custom2, lambda c: ['custom2', c.v], lambda data, cls: cls(data[1]), withtype=True)

	values = [
		datetime(2021, 8, 18, 12, 30, 1, 5), datetime(1999, 1, 1), date(2021, 8, 18), Path('a/b c'), Path('/'),
		np.int8(-5), np.int16(7), np.int32(2 ** 31 - 1), np.int64(-2 ** 63), np.uint8(255), np.uint64(2 ** 64 - 1),
		np.float16(0.1), np.float32(0.1), np.float64(0.1), np.float32('nan'), np.float64('inf'), np.bool_(True),
		np.complex64(1), np.str_('s'), np.arange(3), 1, 1.5, 'x', None, True, [1, np.int32(2)], dict(a=np.float32(1.5)),
		(1, 2), {1, 2}, b'bytes',
		Inner(1, datetime(2020, 1, 2, 3, 4, 5), Path('p')), Outer(Inner(2, datetime(2020, 1, 2), Path('.')), date(2020, 2, 29), [1, 2]),
		J1(5), J2(6), HasJ(J1([1]), J2(2)), Custom('c'), Custom2('d'), [Custom(1), Custom2(2)],
	]
	for i, v in enumerate(values):
		attempt(f'F{i}-to_json', lambda: gjson.to_json(v), show_val)
		attempt(f'F{i}-dumps', lambda: gjson.dumps(v), str)
		attempt(f'F{i}-dumps-sorted', lambda: gjson.dumps([v, {'k': v}], indent=2, sort_keys=True), str)
		def dump_buf():
			buf = io.StringIO()
			gjson.dump(v, buf)
			return buf.getvalue()
		attempt(f'F{i}-dump', dump_buf, str)
		attempt(f'F{i}-base', lambda: BaseJSONResultsExporter().to_json(v), show_val)

	loads_cases = [
		('"2021-08-18T12:30:01.000005"', datetime), ('"2021-08-18"', date), ('"2021-08-18"', datetime), ('"bad"', date),
		('5', date), ('null', date), ('"a/b"', Path), ('5', Path), ('{"x": 1, "when": "2020-01-02T03:04:05", "p": "q"}', Inner),
		('{"inner": {"x": "7", "when": "2020-01-02T03:04:05", "p": "q"}, "d": "2020-02-29", "xs": ["1", 2]}', Outer),
		('{"inner": {"x": 1}, "d": "2020-02-29"}', Outer), ('{"v": 3}', J1), ('{}', J1), ('{"a": 3}', J2), ('{"j": {"v": 1}, "k": {"a": "2"}}', HasJ),
		('["custom", 9]', Custom), ('["custom2", 9]', Custom2), ('[]', Custom), ('5', int), ('"5"', int), ('[1, 2]', list[int]),
		('{"a": 1}', dict[str, int]), ('1.5', float), ('"x"', str), ('null', type(None)),
	]
	for i, (s, cls) in enumerate(loads_cases):
		attempt(f'F-loads{i}', lambda: gjson.loads(s, cls), repr)
		attempt(f'F-load{i}', lambda: gjson.load(io.StringIO(s), cls), repr)
		attempt(f'F-from_json{i}', lambda: gjson.from_json(json.loads(s), cls), repr)
	attempt('F-loads-any', lambda: gjson.loads('{"a": [1, 2.5, null]}'), repr)
	attempt('F-loads-invalid', lambda: gjson.loads('{'), repr)
	rec('F-names', sorted(n for n in vars(gjson) if not n.startswith('_')))
	rec('G-names', sorted(n for n in vars(gr) if not n.startswith('_')))

	# ---------------------------------------------------------------------------------------------
	# G. CLI
	# ---------------------------------------------------------------------------------------------
	from click.testing import CliRunner
	import gambit.cli

	sigfile = dbdir / 'queries' / 'query-signatures.gs'
	for fmt in ['csv', 'json', 'archive']:
		for strict in [False, True]:
			out = workdir / f'cli-{fmt}-{int(strict)}.out'
			args = ['-d', str(dbdir), 'query', '-o', str(out), '-f', fmt, '-s', str(sigfile)]
			if strict:
				args.append('--strict')
			result = CliRunner().invoke(gambit.cli.cli, args)
			text = out.read_text() if out.is_file() else None
			if text is not None and fmt != 'csv':
				data = json.loads(text)
				data.pop('timestamp')
				text = [len(text), json.dumps(data, sort_keys=False)]
			rec(f'G-cli-{fmt}-{int(strict)}', [result.exit_code, repr(result.exception), result.output, text])

	with open(outfile, 'w') as f:
		json.dump(log, f, indent=0)


# ------------------------------------------------------------------------------------------------
# Driver
# ------------------------------------------------------------------------------------------------

def main():
	if len(sys.argv) >= 2 and sys.argv[1] == '--worker':
		worker(*sys.argv[2:5])
		return

	if len(sys.argv) != 3:
		print(__doc__)
		sys.exit(2)

	clean, patched = (str(Path(a).resolve()) for a in sys.argv[1:3])
	dbdir = find_testdb(clean, patched)
	tmp = Path(tempfile.mkdtemp(prefix='equivC11-'))
	logs = []

	try:
		for name, src in [('clean', clean), ('patched', patched)]:
			workdir = tmp / name
			workdir.mkdir()
			outfile = tmp / (name + '.json')
			env = dict(os.environ)
			env['PYTHONPATH'] = src
			env['OMP_WAIT_POLICY'] = 'PASSIVE'
			env['PYTHONHASHSEED'] = '0'
			# Same cwd for both so that relative paths in output agree
			proc = subprocess.run([sys.executable, os.path.abspath(__file__), '--worker', str(dbdir), str(outfile), str(workdir)],
				env=env, cwd=str(tmp), capture_output=True, text=True)
			if proc.returncode != 0:
				print(f'worker for {name} tree failed:\n{proc.stdout}\n{proc.stderr}')
				print('DIFFERENT')
				sys.exit(1)
			text = outfile.read_text()
			# The private work directory is the only legitimately differing string
			logs.append(json.loads(text.replace(str(workdir), '<WORKDIR>')))

		a, b = logs
		ndiff = 0
		if len(a) != len(b):
			print(f'transcript lengths differ: {len(a)} vs {len(b)}')
			ndiff += 1
		for (ta, va), (tb, vb) in zip(a, b):
			if ta != tb or va != vb:
				ndiff += 1
				if ndiff <= 10:
					print(f'--- {ta} / {tb}\n  clean:   {json.dumps(va)[:600]}\n  patched: {json.dumps(vb)[:600]}')

		nexc = sum(1 for _, v in a if isinstance(v, list) and v and v[0] == 'exc')
		print(f'{len(a)} transcript entries compared ({nexc} expected-exception cases), {ndiff} differences')
		print('SAME' if ndiff == 0 else 'DIFFERENT')
		sys.exit(0 if ndiff == 0 else 1)

	finally:
		shutil.rmtree(tmp, ignore_errors=True)


if __name__ == '__main__':
	main()
