"""Differential test for the C05 (bulk Jaccard distance) rewrite.

Usage: /venv/bin/python equiv.py <clean-src-dir> <patched-src-dir>

Runs the same seeded inputs through gambit.metric public functions (and the ``gambit dist`` CLI
command) in two subprocesses, one per source tree, and compares everything exactly: result bytes,
dtypes, shapes, exception types + messages, warnings, progress meter calls, output files.
"""

import sys
import os
import json
import subprocess


def worker():
	import warnings
	import tempfile
	import threading
	from pathlib import Path

	import numpy as np

	import gambit
	from gambit import metric
	from gambit.metric import jaccard, jaccarddist, jaccarddist_array, jaccarddist_matrix, jaccarddist_pairwise
	from gambit.sigs import SignatureArray, SignatureList, dump_signatures, load_signatures
	from gambit.kmers import KmerSpec
	from gambit.util.progress import TestProgressMeter
	from gambit._cython.threads import omp_set_num_threads, omp_get_max_threads

	src_root = Path(gambit.__file__).resolve().parent.parent.parent
	results = []
	tmpdir = tempfile.mkdtemp(prefix='equivC05-')
	kspec = KmerSpec(11, 'ATGAC')

	def enc(x):
		if isinstance(x, np.ndarray):
			return ['nd', x.dtype.str, list(x.shape), np.ascontiguousarray(x).tobytes().hex()]
		if isinstance(x, np.generic):
			return ['npscalar', type(x).__name__, x.dtype.str, x.tobytes().hex()]
		if isinstance(x, (list, tuple)):
			return [type(x).__name__] + [enc(y) for y in x]
		if isinstance(x, dict):
			return {str(k): enc(v) for k, v in x.items()}
		if isinstance(x, (int, float, str, bool)) or x is None:
			return [type(x).__name__, repr(x)]
		return ['obj', type(x).__name__, repr(x)]

	def run(label, func):
		with warnings.catch_warnings(record=True) as wlist:
			warnings.simplefilter('always')
			try:
				value = ['ok', enc(func())]
			except BaseException as e:
				value = ['exc', type(e).__name__, str(e)]
		ws = [[w.category.__name__, str(w.message)] for w in wlist]
		results.append([label, value, ws])

	class Recorder:
		"""Progress meter factory recording everything done with the meters."""
		def __init__(self):
			self.log = []

		def __call__(self, total, initial=0, **kw):
			rec = self

			class Meter(TestProgressMeter):
				def moveto(self, n):
					rec.log.append(['moveto', int(n), type(n).__name__])
					super().moveto(n)

				def close(self):
					rec.log.append(['close'])
					super().close()

			self.log.append(['create', total, type(total).__name__, initial, sorted(kw)])
			return Meter(total, initial, **kw)

	rng = np.random.default_rng(20240605)

	DTYPES = ['u2', 'u4', 'u8', 'i2', 'i4', 'i8']

	def make_sigs(n, dtype, universe=60, maxlen=25):
		sigs = []
		for i in range(n):
			kind = rng.integers(0, 6)
			if kind == 0:
				s = np.empty(0, dtype=dtype)
			elif kind == 1 and sigs:
				s = sigs[rng.integers(0, len(sigs))].copy()
			elif kind == 2:
				s = np.asarray([rng.integers(0, universe)], dtype=dtype)
			else:
				size = rng.integers(1, maxlen)
				s = np.sort(rng.choice(universe, size=size, replace=False)).astype(dtype)
			sigs.append(s)
		return sigs

	nfile = [0]
	conts_open = []

	def containers(sigs, dtype):
		"""All container types holding the same signatures."""
		out = {
			'list': list(sigs),
			'tuple': tuple(sigs),
			'siglist': SignatureList(list(sigs), kspec, dtype=np.dtype(dtype)),
			'sigarray': SignatureArray(list(sigs), kspec, dtype=np.dtype(dtype)),
		}
		sa32 = SignatureArray(list(sigs), kspec, dtype=np.dtype(dtype))
		sa32.bounds = sa32.bounds.astype('i4')
		out['sigarray_i4bounds'] = sa32
		nfile[0] += 1
		path = os.path.join(tmpdir, f'sigs{nfile[0]}.gs')
		dump_signatures(path, out['sigarray'])
		out['hdf5'] = load_signatures(path)
		conts_open.append(out['hdf5'])
		return out

	# ---------------------------------------------------------------- pairs / dtype casting
	for t in range(60):
		d1 = DTYPES[rng.integers(0, 6)]
		d2 = DTYPES[rng.integers(0, 6)]
		a, = make_sigs(1, d1)
		b, = make_sigs(1, d2)
		run(f'pair{t}-jaccard-{d1}-{d2}', lambda: jaccard(a, b))
		run(f'pair{t}-jaccarddist-{d1}-{d2}', lambda: jaccarddist(a, b))
		run(f'pair{t}-self', lambda: jaccarddist(a, a))
		ro = a.copy()
		ro.setflags(write=False)
		run(f'pair{t}-readonly', lambda: jaccarddist(ro, b))

	good = np.arange(5, dtype='u8')
	for bad in ['u1', 'i1', 'f4', 'f8', '>u2', '>i4', '>u8', 'bool', 'O', 'c8', 'S2', 'U1', 'm8[s]']:
		arr = np.zeros(3, dtype=bad)
		run(f'baddtype-{bad}-1', lambda: jaccarddist(arr, good))
		run(f'baddtype-{bad}-2', lambda: jaccard(good, arr))
		run(f'baddtype-{bad}-arrayq', lambda: jaccarddist_array(arr, [good]))
		run(f'baddtype-{bad}-arrayr', lambda: jaccarddist_array(good, [good, arr], out=np.full(2, 7, 'f4')))
	for code in 'HILQhilq':
		arr = np.arange(4).astype(np.dtype(code))
		run(f'ccode-{code}', lambda: jaccarddist(arr, good))
		run(f'ccode-{code}-arr', lambda: jaccarddist_array(arr, SignatureArray([arr, arr[:2]], kspec)))
	run('notarray-list', lambda: jaccarddist([1, 2], good))
	run('notarray-none', lambda: jaccarddist_array(None, [good]))
	run('2d', lambda: jaccarddist(np.zeros((2, 2), 'u8'), good))
	run('strided', lambda: jaccarddist(np.arange(10, dtype='i4')[::2], good))

	# ---------------------------------------------------------------- collections
	for t in range(14):
		n = [0, 1, 2, 3, 5, 8, 13][t % 7]
		dtype = DTYPES[t % 6]
		qdtype = DTYPES[(t * 5 + 1) % 6]
		sigs = make_sigs(n, dtype)
		queries = make_sigs([0, 1, 3, 4][t % 4], qdtype)
		conts = containers(sigs, dtype)
		nthreads = [1, 2, 3, 4, 7, 8, 16][t % 7]
		omp_set_num_threads(nthreads)

		for cname, refs in conts.items():
			L = f'c{t}-{cname}'

			# -- jaccarddist_array
			for qi, q in enumerate(queries[:2]):
				run(f'{L}-array-q{qi}', lambda: jaccarddist_array(q, refs))
				buf = np.full(n, -1, 'f4')
				run(f'{L}-array-q{qi}-out', lambda: [jaccarddist_array(q, refs, out=buf) is buf, buf])
				big = np.full(2 * n + 1, -1, 'f4')
				run(f'{L}-array-q{qi}-stridedout', lambda: [jaccarddist_array(q, refs, out=big[:2 * n:2]), big])
				run(f'{L}-array-q{qi}-badshape', lambda: jaccarddist_array(q, refs, out=np.zeros(n + 1, 'f4')))
				run(f'{L}-array-q{qi}-baddtype', lambda: jaccarddist_array(q, refs, out=np.zeros(n, 'f8')))
				run(f'{L}-array-q{qi}-bad2d', lambda: jaccarddist_array(q, refs, out=np.zeros((n, 1), 'f4')))
				robuf = np.full(n, -1, 'f4')
				robuf.setflags(write=False)
				run(f'{L}-array-q{qi}-roout', lambda: [jaccarddist_array(q, refs, out=robuf), robuf])
				run(f'{L}-array-q{qi}-listout', lambda: jaccarddist_array(q, refs, out=[0.0] * n))
			run(f'{L}-array-badquery', lambda: jaccarddist_array(np.zeros(2, 'f4'), refs))

			# -- jaccarddist_matrix
			chunksizes = [None, 1, 2, 3, n, n + 1, n + 5, 0, -2, np.int64(2), np.uint8(3), True, 2.0, '2', np.array(2)]
			for ci, cs in enumerate(chunksizes):
				if cname not in ('sigarray', 'list') and ci % 3 != t % 3:
					continue
				rec = Recorder()
				run(f'{L}-matrix-cs{ci}', lambda: [jaccarddist_matrix(queries, refs, chunksize=cs, progress=rec), rec.log])

			idx_sets = [[], list(range(n)), list(range(n))[::-1]]
			if n > 0:
				idx_sets += [
					[int(i) for i in rng.integers(0, n, size=2 * n + 1)],
					[int(i) for i in rng.integers(-n, n, size=n + 2)],
					[0, n],           # out of range
					[0.5],
				]
			for ii, idx in enumerate(idx_sets):
				for form, mk in [('list', list), ('nd', np.asarray), ('tuple', tuple), ('i2', lambda x: np.asarray(x, dtype='i2') if x and isinstance(x[0], int) else np.asarray(x))]:
					if form in ('tuple', 'i2') and cname not in ('sigarray', 'hdf5'):
						continue
					for cs in [None, 2, 3]:
						rec = Recorder()
						run(f'{L}-matrix-idx{ii}-{form}-cs{cs}', lambda: [jaccarddist_matrix(queries, refs, ref_indices=mk(idx), chunksize=cs, progress=rec), rec.log])
						rec2 = Recorder()
						run(f'{L}-pairwise-idx{ii}-{form}-cs{cs}', lambda: [jaccarddist_pairwise(refs, indices=mk(idx), flat=(cs == 2), progress=rec2), rec2.log])

			nq = len(queries)
			for order in 'CF':
				buf = np.full((nq, n), -1, dtype='f4', order=order)
				run(f'{L}-matrix-out{order}', lambda: [jaccarddist_matrix(queries, refs, out=buf, chunksize=2) is buf, buf])
			run(f'{L}-matrix-badshape', lambda: jaccarddist_matrix(queries, refs, out=np.zeros((nq + 1, n), 'f4')))
			run(f'{L}-matrix-badshape-T', lambda: jaccarddist_matrix(queries, refs, out=np.zeros((n, nq + 7), 'f4')))
			run(f'{L}-matrix-baddtype', lambda: jaccarddist_matrix(queries, refs, out=np.zeros((nq, n), 'f8'), chunksize=0))
			run(f'{L}-matrix-badchunk-out', lambda: jaccarddist_matrix(queries, refs, out=np.zeros((nq, n), 'f4'), chunksize=0))
			run(f'{L}-matrix-qtuple', lambda: jaccarddist_matrix(tuple(queries), refs, chunksize=3))
			run(f'{L}-matrix-qsigarray', lambda: jaccarddist_matrix(SignatureArray(queries, kspec, dtype=np.dtype(qdtype)), refs, chunksize=np.int32(3)))
			run(f'{L}-matrix-qgen', lambda: jaccarddist_matrix((q for q in queries), refs))
			run(f'{L}-matrix-self', lambda: jaccarddist_matrix(refs, refs, chunksize=4))

			# partial failure: second query has a bad dtype, caller supplied out shows what was written
			if nq >= 1:
				badq = [queries[0], np.zeros(2, 'f4')] + list(queries[1:])
				pbuf = np.full((nq + 1, n), -1, 'f4')
				run(f'{L}-matrix-partial', lambda: jaccarddist_matrix(badq, refs, out=pbuf, chunksize=2))
				run(f'{L}-matrix-partial-buf', lambda: pbuf)
				# And again with a good call with the same (nrefs, chunksize), same thread and another
				run(f'{L}-matrix-after-fail', lambda: jaccarddist_matrix(queries, refs, chunksize=2))
				box = []
				th = threading.Thread(target=lambda: box.append(jaccarddist_matrix(queries, refs, chunksize=2)))
				th.start()
				th.join()
				run(f'{L}-matrix-thread', lambda: box)

			# -- jaccarddist_pairwise
			for flat in [False, True, 0, 1, np.bool_(True), np.bool_(False), None, 'yes', []]:
				rec = Recorder()
				run(f'{L}-pairwise-flat{flat!r}', lambda: [jaccarddist_pairwise(refs, flat=flat, progress=rec), rec.log])
			npairs = n * (n - 1) // 2
			sq = np.full((n, n), -1, 'f4')
			run(f'{L}-pairwise-out-sq', lambda: [jaccarddist_pairwise(refs, out=sq) is sq, sq])
			sqf = np.full((n, n), -1, 'f4', order='F')
			run(f'{L}-pairwise-out-sqF', lambda: [jaccarddist_pairwise(refs, out=sqf) is sqf, sqf])
			fl = np.full(npairs, -1, 'f4')
			run(f'{L}-pairwise-out-flat', lambda: [jaccarddist_pairwise(refs, flat=True, out=fl) is fl, fl])
			run(f'{L}-pairwise-out-mismatch1', lambda: jaccarddist_pairwise(refs, flat=True, out=np.zeros((n, n + 1), 'f4')))
			run(f'{L}-pairwise-out-mismatch2', lambda: jaccarddist_pairwise(refs, flat=False, out=np.zeros(npairs + 1, 'f4')))
			run(f'{L}-pairwise-out-mismatch3', lambda: jaccarddist_pairwise(refs, flat=np.bool_(True), out=np.zeros(npairs + 2, 'f4')))
			run(f'{L}-pairwise-out-baddtype', lambda: jaccarddist_pairwise(refs, flat=True, out=np.zeros(npairs, 'f8')))
			run(f'{L}-pairwise-out-baddtype-sq', lambda: jaccarddist_pairwise(refs, out=np.zeros((n, n), 'i4')))
			run(f'{L}-pairwise-idx-0d', lambda: jaccarddist_pairwise(refs, indices=np.int64(0)))
			run(f'{L}-pairwise-idx-2d', lambda: jaccarddist_pairwise(refs, indices=[[0, 0]]))

			# symmetric, zero diagonal, agrees with two-signature function
			def check_pairwise():
				m = jaccarddist_pairwise(refs)
				f = jaccarddist_pairwise(refs, flat=True)
				ok = bool((m == m.T).all()) and bool((np.diag(m) == 0).all())
				k = 0
				for i in range(n):
					for j in range(i + 1, n):
						d = np.float32(jaccarddist(sigs[i], sigs[j]))
						ok = ok and m[i, j].tobytes() == d.tobytes() == f[k].tobytes()
						k += 1
				return ok
			run(f'{L}-pairwise-check', check_pairwise)

		# -- mutation between calls (SignatureList, plain list, SignatureArray values)
		if n >= 2:
			sl = conts['siglist']
			run(f'c{t}-mut-before', lambda: jaccarddist_matrix(queries, sl, chunksize=2))
			sl[0] = np.asarray([1, 2, 3], dtype=dtype)
			run(f'c{t}-mut-after-set', lambda: [jaccarddist_matrix(queries, sl, chunksize=2), jaccarddist_pairwise(sl, flat=True)])
			del sl[1]
			run(f'c{t}-mut-after-del', lambda: [jaccarddist_matrix(queries, sl, chunksize=2), jaccarddist_pairwise(sl)])
			sl.append(np.asarray([5], dtype=dtype))
			sl.append(np.asarray([], dtype=dtype))
			run(f'c{t}-mut-after-append', lambda: [jaccarddist_matrix(queries, sl, chunksize=2), jaccarddist_pairwise(sl)])
			pl = conts['list']
			pl.append(np.asarray([7, 9], dtype=dtype))
			run(f'c{t}-mut-list', lambda: [jaccarddist_matrix(queries, pl, chunksize=2), jaccarddist_array(pl[0], pl)])
			sa = conts['sigarray']
			if len(sa.values):
				sa.values[:] = np.sort(sa.values[::-1] // 2)
			run(f'c{t}-mut-sigarray', lambda: [jaccarddist_matrix(queries, sa, chunksize=2), jaccarddist_pairwise(sa, flat=True)])
			# same query objects against a different collection of the same length
			other = SignatureArray(make_sigs(len(sa), dtype), kspec, dtype=np.dtype(dtype))
			run(f'c{t}-other-collection', lambda: [jaccarddist_matrix(queries, other, chunksize=2), jaccarddist_matrix(queries, sa, chunksize=2)])

		# -- thread counts + repeated runs under dynamic schedule
		sa = SignatureArray(make_sigs(40, dtype, universe=400, maxlen=120), kspec, dtype=np.dtype(dtype))
		for nt in [1, 2, 5, 16]:
			omp_set_num_threads(nt)
			for r in range(3):
				run(f'c{t}-threads{nt}-r{r}', lambda: [omp_get_max_threads(), jaccarddist_pairwise(sa, flat=True), jaccarddist_matrix(sa[:5], sa, chunksize=7)])

	# mismatched dtypes between query and SignatureArray refs (fused type dispatch in Cython)
	run('dtype-mismatch', lambda: jaccarddist_array(np.arange(3, dtype='u2'), SignatureArray([np.arange(3, dtype='u8')], kspec)))
	run('len-generator', lambda: jaccarddist_array(good, (x for x in [good])))
	run('num_pairs', lambda: [metric.num_pairs(i) for i in [0, 1, 2, 10, np.int64(5)]])
	run('public-names', lambda: sorted(k for k in vars(metric) if not k.startswith('_')))

	# ---------------------------------------------------------------- CLI
	from click.testing import CliRunner
	from gambit.cli import cli
	tdata = src_root / 'tests' / 'data' / 'testdb_210818'
	qs = str(tdata / 'queries' / 'query-signatures.gs')
	rs = str(tdata / 'ref-signatures.gs')

	def run_cli(args, outname):
		outfile = os.path.join(tmpdir, outname)
		res = CliRunner().invoke(cli, args + ['-o', outfile])
		content = None
		if os.path.exists(outfile):
			with open(outfile) as f:
				content = f.read()
		return [res.exit_code, res.output, type(res.exception).__name__, content]

	run('cli-dist-qs-rs', lambda: run_cli(['dist', '--qs', qs, '--rs', rs], 'd1.csv'))
	run('cli-dist-square', lambda: run_cli(['dist', '--qs', qs, '-s'], 'd2.csv'))
	run('cli-dist-c4', lambda: run_cli(['-c', '4', 'dist', '--qs', qs, '--rs', rs], 'd3.csv'))

	import shutil
	for sigfile in conts_open:
		sigfile.close()
	shutil.rmtree(tmpdir, ignore_errors=True)

	json.dump(results, sys.stdout)


def main():
	if len(sys.argv) == 2 and sys.argv[1] == '--worker':
		worker()
		return 0

	if len(sys.argv) != 3:
		print(__doc__)
		return 2

	outputs = []
	for src in sys.argv[1:3]:
		env = dict(os.environ)
		env['PYTHONPATH'] = os.path.abspath(src)
		env['OMP_WAIT_POLICY'] = 'PASSIVE'
		env['PYTHONHASHSEED'] = '0'
		proc = subprocess.run([sys.executable, os.path.abspath(__file__), '--worker'], env=env, stdout=subprocess.PIPE, stderr=subprocess.PIPE, text=True)
		if proc.returncode != 0:
			print(f'worker failed for {src}:\n{proc.stderr[-3000:]}')
			print('DIFFERENT')
			return 1
		outputs.append((json.loads(proc.stdout), proc.stderr))

	(a, aerr), (b, berr) = outputs
	ndiff = 0
	if len(a) != len(b):
		print(f'number of cases differs: {len(a)} vs {len(b)}')
		ndiff += 1
	for ra, rb in zip(a, b):
		if ra != rb:
			ndiff += 1
			if ndiff <= 10:
				print(f'case {ra[0]}:\n  clean:   {str(ra[1:])[:400]}\n  patched: {str(rb[1:])[:400]}')
	if aerr != berr:
		print('stderr differs')
		ndiff += 1

	nexc = sum(1 for r in a if r[1][0] == 'exc')
	print(f'{len(a)} cases ({nexc} raising), {ndiff} differences')
	print('SAME' if ndiff == 0 else 'DIFFERENT')
	return 0 if ndiff == 0 else 1


if __name__ == '__main__':
	sys.exit(main())
