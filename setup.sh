#!/bin/bash
# Build the framework from files on disk only: Coq development, extraction, OCaml driver.
cd "$(dirname "$(readlink -f "$0")")" || exit 2
export VERIF_REPO="${VERIF_REPO:-/repo}"
export PYTHONPATH="$VERIF_REPO/src:$PWD" PYTHONDONTWRITEBYTECODE=1
exec /venv/bin/python - <<'PY'
import sys
from vf import build
st = build.full_build(__import__('os').environ['VERIF_REPO'])
print('translator:', st['translator_msg'])
print('make rc', st['make_rc'], 'failed:', st['failed'])
print('driver:', st['driver_ok'], st['driver_msg'])
print('gate:', st['gate'])
sys.exit(0 if (st['make_rc'] == 0 and st['driver_ok'] and st['translator_ok'] and not st['gate']) else 1)
PY
