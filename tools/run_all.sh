#!/bin/bash
# tools/run_all.sh [quick|thorough]  -- every claimed check, one line per property
cd "$(dirname "$(readlink -f "$0")")/.." || exit 2
tier=${1:-quick}
rc=0
for p in $(python3 -c "import json;print(' '.join(c['property_id'] for c in json.load(open('MANIFEST.json'))['checks']))"); do
  out=$(./check $p $tier 2>&1); e=$?
  echo "$out" | grep -E "VIOLATION|KNOWN-FINDING|FRAMEWORK" | cut -c1-200
  echo "$out" | tail -1
  [ $e -ne 0 ] && rc=1
done
exit $rc
