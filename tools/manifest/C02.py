CLAIMED['C02'] = dict(
	text='Coq theorems (Props/C02.v) about the definitions tools/pyx2v.py regenerates from metric.pyx/types.pxd on every '
	     'run: for all strictly increasing integer lists A, B the two-pointer loop terminates within |A|+|B| steps, never '
	     'reads out of range and the kernel returns (float)|A xor B| / (float)|A or B| (C02_union_count, by induction, no '
	     'size bound); for |A or B| <= 2^24 that value is the exact ratio rounded once to binary32, finite and '
	     'non-negative (C02_rounded_once, Flocq); two empty sets give +0; jaccard = 1 - distance evaluated in binary64, and that subtraction is exact (C02_index_exact: every binary32 in {0} u [2^-24,1] '
	     'has a binary64-representable complement); '
	     'the wrapper accepts exactly 16/32/64-bit signed/unsigned dtypes and the value does not depend on them. Tie '
	     'checked on every run: model regenerated from the .pyx text, and compiled kernel vs model vs an independent exact '
	     'integer rounding oracle, bit for bit, on all pairs of subsets of a 6/7-element universe x dtype pairs x both '
	     'orders, range-top placements, random structured pairs. Known finding C02-g (union just above 2^24).',
	note='Trusted: Coq kernel + Flocq; the four Reals axioms (sig_not_dec, sig_forall_dec, functional_extensionality_dep, '
	     'classic); tools/pyx2v.py reading of C semantics (float division = binary32 division of converted operands, '
	     'unsigned comparisons value-preserving, intptr_t arithmetic without overflow); extraction + driver; that the .so '
	     'corresponds to metric.pyx. Sorted duplicate-free inputs only.',
	technique='Coq proof (induction over the generated merge loop + Flocq rounding theorem) + bit-exact differential run',
)
