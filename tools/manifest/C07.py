CLAIMED['C07'] = dict(
	text='Ten Coq theorems (Props/C07.v, closed under the global context) about the definitions that tools/pyx2v.py '
	     'regenerates from kmers.pyx on every run: kmer_to_index is the positional base-4 code for <=32 nucleotides in '
	     'either case and ValueError otherwise (C uint64 wrap-around modelled and proved unreachable), index_to_kmer is its '
	     'inverse on [0,4^k), case-insensitivity, revcomp = mirrored complement and an involution, and kmer_to_index_rc = '
	     'kmer_to_index o revcomp including the error cases -- for every k and every byte string, no size bound. The tie to '
	     'the code is checked on every run: the model is re-translated from the .pyx text (a change there breaks the proofs) '
	     'and the compiled extension, the generated model and the extracted specification are run on the same inputs '
	     '(all k-mers k<=7/8, all byte strings of length<=2, boundary and random k-mers/indices up to 2^64-1).',
	note='Trusted: Coq kernel; tools/pyx2v.py and its reading of C semantics; extraction + OCaml driver; that the compiled '
	     '.so corresponds to kmers.pyx (Cython is not installed here, so .pyx->.c cannot be redone; the .so is what the '
	     'correspondence run executes). Inputs are byte strings (0..255); Python-int -> C int conversion of k assumed in range.',
	technique='Coq proof over a model generated from the .pyx source + differential correspondence run',
)
