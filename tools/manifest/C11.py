CLAIMED['C11'] = dict(
	text='Fifteen Coq theorems (Props/C11.v, all closed under the global context) over hand-written models of the code path: '
	     'the CPython csv writer/reader as character-level state machines (QUOTE_MINIMAL, LF terminator, reader over a newline="" '
	     'stream), the exporter column table, JSON string escaping (ensure_ascii, surrogate pairs) and the JSON string scanner, the '
	     'type-dispatched JSON conversion, and the archive as keys-only documents re-read by key lookup (.one()). Proved for ALL '
	     'inputs, no size bound: csv_parse(csv_write rows) = rows for every list of rows of every strings for the repaired writer, and '
	     'for the unchanged writer exactly under the side condition "a field containing CR also contains comma, quote or LF" '
	     '(C11_csv_lone_cr_refuted has the witness a<CR>b); the repair changes no byte where the old writer was right; the parsed '
	     'export is header + one 11-cell row per query in order with the documented cells (empty when absent); a JSON string literal '
	     'reads back as the string for every code-point list without a (high,low) surrogate adjacency (exactness refuted otherwise) '
	     'and is printable ASCII; the JSON item/taxon/match documents carry label, reported/next taxon and closest-genome data; '
	     'archive_read(db, archive(r)) = r for every results object living in a database with unique keys, and for the unchanged '
	     'QueryParams only when chunksize is an integer (C11_archive_chunksize_none_refuted). Two genuine defects of the unchanged '
	     'code were found: QueryParams(chunksize=None) not readable from an archive -- repaired in /repo by a fix: commit; a lone CR '
	     'written unquoted in CSV -- recorded as known finding C11-csv-lone-cr (the candidate repair in repo_fixes/C11.diff relies on '
	     'csv.writer internals and was not applied; the harness detects which writer it is talking to and compares with the matching '
	     'model, so both the current and a repaired exporter pass). Explored, not proved: that the Python code equals the model -- on every run the three exporters are '
	     'compared byte for byte with the extracted model and read back with csv.reader / json.loads / ResultsArchiveReader on result '
	     'sets from real API and CLI queries on generated databases (names with , " LF CR e-acute CJK emoji; no prediction, '
	     'unreportable taxon, failed strict results with warnings, missing file, float32 and float distances compared by bit '
	     'pattern) and on hand-built result objects; the csv/json models are compared with CPython exhaustively on small alphabets.',
	note='Trusted: Coq kernel; extraction + OCaml driver; harness/c11.py. Modelled not verified: CPython csv/json, float repr / '
	     'str(np.float32) (numbers are opaque tokens), cattrs, SQLAlchemy/SQLite. Whole-document JSON parsing is json.loads at run '
	     'time (only string literals are proved to read back). CSV is read with newline="" as the csv docs require; fields < 131072 '
	     'chars; one genome set per database. The fix relies on csv.writer issuing one write() per record.',
	technique='Coq proofs over hand-written models of csv/json/exporters + differential correspondence run (API, CLI, hand-built results)',
)
