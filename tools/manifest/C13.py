CLAIMED['C13'] = dict(
	text='Seven Coq theorems (Props/C13.v, closed under the global context) about a hand-written Gallina model of '
	     'calc_file_signatures (calc.py:240-276: submit loop building the future->index dict, as_completed loop writing '
	     'sigs[i], the final assert, the sequential append loop, executor selection): for EVERY completion order sigma '
	     '(any permutation of the futures, any number of files, no bound) the result is exactly the list of single-file '
	     'signatures in file order, or -- iff a file is unreadable -- the exception of the first failing future in sigma; '
	     'two orders are indistinguishable; for ANY yield sequence at all (dropped/repeated/foreign futures) a returned list '
	     'is the in-order list (never missing/duplicated/misplaced); the sequential path; all four modes (none/threads/'
	     'processes/caller-supplied executor); every worker count x every job-duration vector of a FCFS worker pool; and a '
	     'refutation of the append-as-completed collector (2 files, 2 workers, first file slower). The tie to the code is a '
	     'correspondence run: the real function is driven by a harness executor that finishes the futures in a chosen order, '
	     'stepping on the progress meter -- all permutations of <=5 (thorough 6) files x every position of an unreadable '
	     'file, also through the threads/processes selection code with the pool class replaced, random and model-generated '
	     'pool schedules on up to 14 files -- plus real thread/process pools (max_workers 1..8/None, owned and '
	     'caller-supplied, size-skewed FASTA files that do finish out of order, six kinds of unreadable file at every '
	     'position, concurrency=None) and `gambit signatures create -c N`, all compared with the extracted model.',
	note='Trusted/modelled, not verified: concurrent.futures (submit returns distinct futures; result() returns/re-raises the '
	     'job outcome; as_completed yields each future once -- the hypotheses NoDup/Permutation of the theorems), CPython '
	     'threads/processes and pickling, Biopython/gzip/open for what makes a file unreadable. Interleavings below the '
	     'granularity "one future consumed per loop iteration" are not modelled (the loop body touches only sigs[i] and the '
	     'meter). Only done-vs-failed and the returned list are compared; which exception class reports the failure is '
	     'recorded, not enforced (the property does not state it). Executor lifetime (owned pools shut down, caller-supplied '
	     'left open) is exercised and counted but is not a theorem.',
	technique='Coq proof over a hand-written model (invariant over the completion loop, quantified over all permutations) + '
	          'schedule-controlling differential correspondence run',
)
