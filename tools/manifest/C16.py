CLAIMED['C16'] = dict(
	text='Eight Coq theorems (Props/C16.v, closed under the global context) about a hand-written model of `gambit dist` '
	     '(cli/dist.py source selection with ids carried alongside, common.py file ids / list files / parameter groups, '
	     'the array-filling loops of jaccarddist_matrix / jaccarddist_pairwise, dump_dmat_csv with zip_strict, and '
	     "format(x, '0.4f') of a binary32 value), with the distance kernel as an arbitrary oracle returning 32-bit patterns: "
	     'for all genome lists and all 3 x 5 ways of supplying the sides the command succeeds exactly when each side is '
	     'supplied in exactly one way and every listed file exists, and then the table is header = reference labels in input '
	     'order, one row per query in input order, cell (i,j) = four-decimal text of d(q_i, r_j) (C16_cells); the pairwise loop '
	     'leaves no uninitialised cell and never fails (C16_pairwise_fills), so --square gives the zero-diagonal symmetric table '
	     '(C16_square, C16_square_shape) and, for an oracle symmetric with zero self-distance on the queries, literally the '
	     'table of the queries on both sides (C16_square_both_sides); the cell text never fails on a finite pattern and reads '
	     'back to the integer N nearest to value*10^4, |N/10^4 - value| <= 5*10^-5, even on ties (C16_fmt4, exact dyadic '
	     'arithmetic, unbounded); file labels are the stem of [dir/]stem.ext[.gz] (C16_label, C16_label_plain). '
	     'Explored, not proved: that the Python code is this model -- `gambit dist -o` is run in process for every supply '
	     'combination (files, list file + base directory, signature file, database, --square) x -k/-p given or implied x -c 1..4, '
	     'on seeded genomes, synthetic signatures whose distances are exact ties (odd/32), the repository test database and '
	     'malformed command lines; the parsed CSV is compared label by label and cell by cell with an independent Python oracle '
	     '(exact Fraction rounding of gambit.metric.jaccarddist on pure-Python reference signatures), with the model and with '
	     'the Coq specification; --square runs are repeated with the queries on both sides. format() is compared on all '
	     'small-set ratios, all ties, multiples of 2^-13, decimal boundaries and random patterns.',
	note='Trusted: Coq kernel; extraction + OCaml driver; csv module round trip (quoting not modelled; tables compared after '
	     'csv.reader); click/pathlib option handling; h5py/load_signatures, calc_file_signatures and FASTA parsing (files enter '
	     'the model as the genome they hold: C12/C13/C01); the distance kernel (oracle; C02/C05; symmetry and zero self-distance '
	     'are hypotheses of C16_square_both_sides checked on every square case, C15). K-mer parameter mismatches are C14. '
	     'List-file entries cannot carry leading/trailing white space or line breaks. No defect found in the unchanged code.',
	technique='Coq proof over a hand-written model (loop invariant for the pairwise fill, exact integer rounding) + '
	          'differential correspondence run through the command line',
)
