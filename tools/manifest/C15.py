CLAIMED['C15'] = dict(
	text='Coq theorems (Props/C15.v) about the generated kernel, for all strictly increasing lists: bit-for-bit symmetry '
	     '(all sizes); and for |A or B| <= 2^24 (which C15_small_k proves for every k <= 12): 0 <= d <= 1, d = 0 iff A = B, '
	     'd = 1 iff disjoint and not both empty, triangle inequality d(A,C) <= d(A,B)+d(B,C)+2^-22 (exact Jaccard triangle '
	     'inequality on the seven Venn-region counts by nia, plus |round x - x| <= 2^-24 on [0,1]); the exact ratios '
	     'satisfy the triangle inequality with no slack for all sizes; width independence; adding a k-mer absent from '
	     'both (different) sets strictly decreases the reported binary32 value when |A or B|+1 <= 2^23 (C15_add_common, '
	     'via Flocq relative error bounds) and never increases it up to 2^24 (C15_add_common_weak). '
	     'Correspondence: every axiom evaluated exactly on the compiled kernel for all triples of subsets of a '
	     '4/5-element universe in all width combinations and random large triples. Known findings C15-f1, C15-f2 (beyond '
	     'the size bound the statements are false of binary32 itself).',
	note='Trusted: as C02 (Coq kernel, Flocq, four Reals axioms, translator, extraction, stale-.so assumption). '
	     'Rounding-sensitive statements carry the explicit bound |A or B| <= 2^24.',
	technique='Coq proof (set-count recurrences, nia on Venn regions, Flocq error bounds) + exhaustive small-universe differential run',
)
