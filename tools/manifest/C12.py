CLAIMED['C12'] = dict(
	text='Eleven Coq theorems (Props/C12.v, closed under the global context) about a store-protocol model of '
	     'src/gambit/sigs/hdf5.py (Model/Store.v: the attribute / create_dataset / slice-write calls of HDF5Signatures.create in the order of the '
	     'code repaired for C19 -- the format marker is written LAST; the order as found, marker first, is create_v0 and round-trips identically: C12_roundtrip_v0 --, '
	     'the reader HDF5Signatures.__init__, load_signatures_hdf5): for EVERY collection with k >= 1, ACGT prefix, any of the 8 '
	     'integer types, any list of signatures (empty ones, all empty), int or str ids and any metadata h5py can store, and for '
	     'BOTH write paths, the write succeeds and the file loads as exactly the written parameters, ids, metadata (None <-> Empty), '
	     'type, values and bounds (C12_roundtrip, C12_paths_agree); every int index, index list and contiguous slice of the loaded '
	     'object returns the original signatures (C12_index, C12_index_list, C12_slice -- by induction over the list, no size '
	     'bound); `extra` round-trips given loads(dumps j) = j (C12_extra); every file libhdf5 cannot read and every HDF5 file '
	     'without the root marker is answered with SignaturesFileError and only marked version-1 files load (C12_refuse, C12_accept) '
	     '-- for the reader REPAIRED by repo_fixes/C12.diff; for the reader as found the statement is refuted (C12_refuse_current_refuted: '
	     'OSError / KeyError on unreadable files that begin with the magic number, C12_refuse_current: exactly on those). '
	     'The tie to the code is explored, not proved: real h5py files of ~1500 (quick) collections (exhaustive small scope, every k in '
	     '1..32 x 4 container types x none/gzip/lzf, Unicode metadata, u64 >= 2^63) are compared with the model store, the model load '
	     'and the written collection incl. every slice; ~80 foreign / 14 defective files; the CLI create/info path.',
	note='Trusted: Coq kernel; extraction + OCaml driver; h5py/libhdf5 semantics as modelled (typed 1-d datasets, Empty attributes, '
	     'UTF-8 strings refusing NUL/surrogates, zero fill, transparent compression filters) -- libhdf5\'s on-disk encoding is not modelled, a '
	     'file is "root group st", "unopenable bytes" or "opens but root unreadable"; json.dumps/loads enter C12_extra as parameters with '
	     'their round-trip law (sampled). "Signature file" means: root group carries gambit_signatures_version; marked but defective files '
	     '(missing datasets, other version) are outside the property and only tie-checked. Non-contiguous slices / masks / negative indices '
	     'are explored here and proved under C20. On the unchanged repository the check reports the 6-h defect (VIOLATION) until '
	     'repo_fixes/C12.diff is applied.',
	technique='Coq proof over a hand-written store-protocol model + differential correspondence run against real h5py files',
)
