CLAIMED['C01'] = dict(
	text='Coq theorems (Props/C01.v, closed under the global context): for every k >= 1, every non-empty upper-case ACGT '
	     'prefix, every collection of byte strings and either accumulator, the model of calc_signature (CPython bytes.find '
	     'index adjustment, the two search loops with their exact bounds and restart points, the slice arithmetic of '
	     'KmerMatch, ValueError-skipping, the dense and the set accumulator, index_dtype; calling the encoders generated '
	     'from kmers.pyx) never runs out of fuel or slices out of range and returns the strictly increasing enumeration of '
	     '{ index of the k nucleotides following a case-insensitive occurrence of the prefix in a sequence or in its '
	     'reverse complement } in the smallest unsigned type holding 4^k-1 (C01_signature, C01_membership, C01_sorted, '
	     'C01_dense_eq_set, C01_matches, C01_dtype) -- all lengths, overlapping / palindromic / end-flush occurrences '
	     'included, by induction. Tie checked every run: gambit.kmers.find_kmers and calc_signature for str / bytes / '
	     'bytearray / Bio.Seq x both accumulators against model and extracted specification on all sequences over ACGTN up '
	     'to length 6/7 x k in 1..3 x 7 prefixes, byte-class sequences, and random planted sequences with k up to 32. Advisory syntactic tie (theories/Ties, reported as a NOTE when it no longer checks, never a violation: the behavioural correspondence decides) for gambit.kmers.index_dtype / nkmers: translated from the Python text by tools/py2v.py on every run and proved equal to the model\'s (C01_tie_index_dtype).',
	note='Trusted: Coq kernel; tools/pyx2v.py for the encoders; the hand model of CPython bytes.find / bytes.upper / '
	     'slicing / set / numpy.flatnonzero in Model/C01.v (validated by the correspondence run, not verified); Biopython '
	     'Seq; extraction + driver. Input-type independence (str/bytes/bytearray/Seq) is explored, not proved; str inputs '
	     'must be ASCII.',
	technique='Coq proof (loop invariants over a hand model of the Python search + generated encoders) + exhaustive small-scope differential run',
)
