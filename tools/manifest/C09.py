CLAIMED['C09'] = dict(
	text='Fourteen Coq theorems (Props/C09.v, closed under the global context), for distance rows of every length with any '
	     'ties and every N: the model of the FIXED get_result_item (np.argsort(kind="stable")[:N], repo_fixes/C09.diff) returns '
	     'min(N,#refs) indices (C09_length) and is THE list that starts an arrangement of all references in strictly increasing '
	     '(distance, reference order) -- existence and uniqueness, also in the form "every unlisted reference is farther than '
	     'every listed one", and the extracted boolean checker used as oracle accepts exactly that list (C09_sorted_prefix, '
	     'C09_nearest, C09_checker, C09_deterministic); the modelled np.argmin is the unique first minimum and for N>=1 is the '
	     'head of the list, so classify()\'s closest_match (CSV) equals closest_genomes[0] (JSON) including distance and matched '
	     'taxon (C09_argmin, C09_head_is_argmin, C09_csv_json_same); every entry is (i, dists[i], matching_taxon(taxon_i, '
	     'dists[i])) and that taxon is the first admitting one of the lineage (C09_entries, C09_entry_taxon); no error value on '
	     'well-formed input (C09_total). For the code BEFORE the fix (np.argsort with unspecified tie order) the head/argmin and '
	     'determinism statements are refuted with the witness NumPy actually produces here (C09_unstable_head_refuted, '
	     'C09_unstable_nondet_refuted); only the sequence of distances is guaranteed (C09_unstable_distances). Explored, not '
	     'proved: that the Python code behaves like the model -- get_result_item on all rows of length<=5 over 3 distances x '
	     'every N, thousands of tie-heavy random rows with lengths on both sides of 16/64/256, sub-processes with '
	     'NPY_DISABLE_CPU_FEATURES / OMP_NUM_THREADS variants, query() on generated on-disk databases with identical and '
	     'equidistant references for several chunk sizes, and CLI CSV closest.description vs JSON closest_genomes[0] for '
	     'several --cores; every call is repeated and must return the same list.',
	note='Trusted: Coq kernel; extraction + OCaml driver; NumPy (argsort(kind="stable") is a stable sort, argmin returns the '
	     'first minimum, float32-scalar <= Python-float compares in double precision) -- modelled as merge sort on (distance, '
	     'index) / left-to-right scan / integer comparison of order-isomorphic 64-bit keys and sampled on every case; '
	     'SQLAlchemy/SQLite/h5py deliver the generated database unchanged. Assumes distances finite, non-negative, not NaN; '
	     'every reference genome has a taxon; acyclic taxonomy; N>=1. Independence of CPU dispatch / threads / chunk size is a '
	     'theorem only in the sense that any list meeting the specification is unique; that the implementation meets it under '
	     'each configuration is sampled. On the unchanged /repo (before repo_fixes/C09.diff is committed) the check reports the '
	     'genuine defect: rows [0.5,0.5,0.25,0.25] with N=1 give closest_genomes[0]=genome 3 but closest_match=genome 2.',
	technique='Coq proof (merge sort / Sorted / Permutation, uniqueness of the strictly sorted arrangement) over a hand-written '
	          'model + differential correspondence run against get_result_item, query() and the CLI',
)
