CLAIMED['C19'] = dict(
	text='Eight Coq theorems (Props/C19.v, closed under the global context) over the call sequence dump_ops of one signature-file write '
	     '(Model/Store.v, shared with C12), quantified over every collection, both write paths and EVERY prefix of the call sequence '
	     '(crash between any two storage-library calls, including after the last call and before close): under the durability policy '
	     'AtClose (what is on disk before close cannot be parsed by libhdf5 -- a stated hypothesis, `unparsable junk`) every interrupted '
	     'write is refused (C19_atclose; SignaturesFileError by the repaired reader, OSError/KeyError/SignaturesFileError by the reader as '
	     'found) and a file that loads comes from a completed write and loads as exactly what was written (C19_complete). The dependence '
	     'on that policy is proved, not hidden: under an eager-flush policy a crash before the last per-signature write loads as a '
	     'collection with a zero-filled signature (C19_eager_refuted, vm_compute witness), while every crash before the values dataset '
	     'exists -- and every crash of the whole-array path -- is still refused (C19_eager_window, C19_eager_whole). '
	     'The output path may already hold a file (Model/StoreOver.v): with the repository\'s truncating open (mode w), once the writer has '
	     'opened the path every crash point is refused and a file that loads is the requested collection WHATEVER the path held before '
	     '(C19_overwrite_truncate, C19_overwrite_complete, for every old disk content); an in-place writer (open r+ and rewrite the datasets) '
	     'is not safe even under AtClose: over a complete file of another collection it leaves a file that loads with the new ids, the old '
	     'metadata and mixed signatures (C19_overwrite_inplace_refuted, vm_compute witness; this is the shape a seeded change had). '
	     'The AtClose hypothesis and the call sequence are validated by fault enumeration on every run: the writer runs in a forked '
	     'child with the three h5py entry points counted and is killed (os._exit) at every boundary 0..N of ~35 collections (quick; 661 '
	     'kills), the observed calls must equal the model prefix, the remains must be refused with the model\'s error class, the '
	     'completed write must load as written; multi-megabyte payloads in the thorough tier. The command-line writer is covered as well: `gambit signatures create` is run in a child process and killed before, during and after the signature calculation and at every storage-call boundary (cli_kill kind); whatever is left at the output path must be refused or load as exactly the requested collection. Both kill kinds also start from an output path that already holds another, the same, a truncated or a foreign file (over_kill kind, field pre of cli_kill) and judge every kill point after the writer opened the path.',
	note='Trusted: Coq kernel; extraction + OCaml driver; libhdf5/OS durability (AtClose) -- an assumption of C19_atclose/C19_complete, '
	     'observed at every enumerated boundary but not provable from the repository\'s code; os._exit as a model of process death; kills '
	     'inside a libhdf5 call are not enumerated; h5py interception sees all storage calls (cross-checked against the model call list). '
	     'The Eager model was checked by hand against a writer patched to flush after every dataset write (loads zero-filled at exactly '
	     'the predicted boundaries); a repository mutant that flushes inside the loop makes the check print VIOLATION.',
	technique='Coq proof over a store-protocol model with a durability-policy parameter + crash-point enumeration in child processes',
)
