#!/bin/bash
# tools/try_seed.sh <PROP> <seed-dir> [more props to check...]
# Confirms a seeded change (seed-dir/patch.diff, demo.py): demo passes on /repo, fails with the patch,
# the repository's test-suite results are unchanged by the patch, then runs ./check for the property
# (and any further ones named) against the patched scratch copy.  Everything happens in a scratch
# worktree outside /repo and /verif, which is removed afterwards.
set -u
export OMP_WAIT_POLICY=${OMP_WAIT_POLICY:-PASSIVE}   # idle OpenMP threads must not spin: demos using the parallel kernels take 10-100x longer on a loaded machine otherwise
prop="$1"; seed="$(readlink -f "$2")"; shift 2
cd "$(dirname "$(readlink -f "$0")")/.."
d=/var/tmp/seedrun-$prop-$$
tools/scratch_repo.sh "$d" "$seed/patch.diff" >/dev/null || { echo "patch does not apply"; git -C /repo worktree remove --force "$d" 2>/dev/null; exit 2; }
echo "== demo on unchanged /repo"; (cd /tmp && PYTHONPATH=/repo/src /venv/bin/python "$seed/demo.py" >/tmp/demo_clean.$$ 2>&1; echo "exit $?"; tail -3 /tmp/demo_clean.$$)
echo "== demo on patched copy"; (cd /tmp && PYTHONPATH=$d/src /venv/bin/python "$seed/demo.py" >/tmp/demo_mut.$$ 2>&1; echo "exit $?"; tail -3 /tmp/demo_mut.$$)
if [ "${SKIP_TESTS:-0}" != 1 ]; then
echo "== test suite on patched copy (failing set must equal the baseline's)"
(cd "$d" && PYTHONPATH=$d/src /venv/bin/python -m pytest -q -p no:cacheprovider --timeout=900 -x --co -q >/dev/null 2>&1)
(cd "$d" && PYTHONPATH=$d/src timeout 1200 /venv/bin/python -m pytest -q -p no:cacheprovider --timeout=900 --tb=no -rf tests 2>&1 | grep -E '^FAILED|passed|failed' | sed 's/ - .*//' | sort > /tmp/tests_mut.$$)
if [ ! -f /var/tmp/tests_base.txt ]; then
 (cd /repo && PYTHONPATH=/repo/src timeout 1200 /venv/bin/python -m pytest -q -p no:cacheprovider --timeout=900 --tb=no -rf tests 2>&1 | grep -E '^FAILED|passed|failed' | sed 's/ - .*//' | sort > /var/tmp/tests_base.txt)
fi
if diff <(grep FAILED /var/tmp/tests_base.txt) <(grep FAILED /tmp/tests_mut.$$) >/dev/null; then echo "tests: same failing set ($(grep -c FAILED /tmp/tests_mut.$$) failed)"; else echo "tests: DIFFERENT failing set"; diff <(grep FAILED /var/tmp/tests_base.txt) <(grep FAILED /tmp/tests_mut.$$) | head; fi
grep -E 'passed|failed' /tmp/tests_mut.$$ | tail -1
fi
for p in "$prop" "$@"; do
 echo "== ./check $p quick on patched copy"; VERIF_REPO=$d ./check $p quick 2>&1 | grep -E 'VIOLATION|KNOWN|violation:|broken:|exit' | head -8
done
git -C /repo worktree remove --force "$d"; rm -f /tmp/demo_clean.$$ /tmp/demo_mut.$$ /tmp/tests_mut.$$
# restore generated model / driver for /repo
