#!/bin/bash
# tools/scratch_repo.sh <dir> [patch]  -- git worktree of /repo at <dir> (outside /repo and /verif) with the
# untracked build products (.so, .c) copied in, optionally with a patch applied.
# Remove with: git -C /repo worktree remove --force <dir>
set -e
d="$1"
git -C /repo worktree add --detach "$d" HEAD >/dev/null 2>&1
cp -p /repo/src/gambit/_cython/*.so /repo/src/gambit/_cython/*.c "$d/src/gambit/_cython/"
mkdir -p "$d/tests/data/testdb_210818/queries/genomes"
cp -rp /repo/tests/data/testdb_210818/queries/genomes/. "$d/tests/data/testdb_210818/queries/genomes/" 2>/dev/null || true
if [ -n "$2" ]; then git -C "$d" apply "$(readlink -f "$2")"; fi
echo "$d"
