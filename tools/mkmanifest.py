#!/usr/bin/env python3
"""Regenerate /verif/MANIFEST.json from the table below (run after adding a property)."""
import json, os
HERE = os.path.dirname(os.path.dirname(os.path.abspath(__file__)))

# id -> dict(text=..., note=..., technique=..., design=...)
CLAIMED = {}
exec(open(os.path.join(HERE, 'tools', 'manifest_table.py')).read())

props = [json.loads(l)['id'] for l in open(os.path.join(HERE, 'properties.jsonl'))]
checks = []
for pid in props:
	if pid not in CLAIMED:
		continue
	c = dict(CLAIMED[pid])
	# harness coverage addendum, generated from the committed evidence (names of the input streams driven per run)
	try:
		ev = json.load(open(os.path.join(HERE, 'evidence', pid + '.json')))
		names = []
		for k in ev['coverage'].get('streams', {}):
			if k.startswith('stream:'):
				n = k[7:].split(':')[0]
				if n not in names:
					names.append(n)
		if names:
			c['text'] = c['text'].rstrip() + (' Harness coverage: audited after the seeding rounds against every clause, quantifier element and '
				f'entry point of the statement (table in the module docstring of harness/{pid.lower()}.py); input streams driven on every run '
				'(counts in the evidence file): ' + ', '.join(names[:60]) + ('.' if len(names) <= 60 else ', ...'))
	except (OSError, KeyError, ValueError):
		pass
	fnd = [f for f in json.load(open(os.path.join(HERE, 'known_findings.json')))['findings'] if f['property'] == pid]
	if fnd:
		c['note'] = c['note'].rstrip() + ' Genuine defects found for this property (known_findings.json): ' + '; '.join(
			(f"{f['id']} -- repaired in /repo by fix: commit {f['commit']}" if f['status'] == 'fixed'
			 else f"{f['id']} -- recorded, not repaired (the check prints KNOWN-FINDING for exactly that input)") for f in fnd) + '.'
	checks.append(dict(
		property_id=pid,
		quick_cmd=f'./check {pid} quick',
		thorough_cmd=f'./check {pid} thorough',
		evidence_file=f'/verif/evidence/{pid}.json',
		replay_cmd_template=f'./check {pid} --replay {{path}}',
		engine='coq-proof+correspondence',
		level_claimed=dict(category='proof', text=c['text'], design_ref=c.get('design', f'DESIGN.md §5 {pid}')),
		level_note=c['note'],
		technique=c['technique'],
	))
na = [dict(property_id=p, reason=NOT_CLAIMED.get(p, 'check not built yet in this session; see DESIGN.md §8 build order'))
      for p in props if p not in CLAIMED]
manifest = dict(
	version=1,
	setup_cmd='./setup.sh',
	hooks=dict(guard='GAMBIT_VERIF', enable='no source hooks: the harness patches what it needs inside its own child processes (GAMBIT_VERIF=1 is exported by ./check for completeness)',
	           baseline_off_cmd='cd /repo && /venv/bin/python -m pytest -ra -q -p no:cacheprovider --timeout=900 --continue-on-collection-errors',
	           source_commits=[], add_only=True),
	engines=[dict(name='coq-proof+correspondence', path='/verif/check',
	              serves_properties=[c['property_id'] for c in checks],
	              kind_free_text='Coq 8.16.1 theorems about a Gallina model (generated from the .pyx kernels by tools/pyx2v.py, hand-written for Python code), tied to the code by a correspondence run of the extracted model against the implementation')],
	checks=checks,
	notes='See DESIGN.md. ./check <id> quick|thorough [--replay file]; VERIF_REPO selects the tree under test (default /repo).',
	not_applicable=na,
)
json.dump(manifest, open(os.path.join(HERE, 'MANIFEST.json'), 'w'), indent=1)
print(f'{len(checks)} checks, {len(na)} not claimed')
