#!/usr/bin/env python3
"""pyx2v -- translate the Cython kernels of jlumpe/gambit into Gallina.

Usage: pyx2v.py <repo>/src/gambit/_cython <outdir>

Emits  KmersPyx.v  (from kmers.pyx, kmers.pxd),  MetricPyx.v  (from metric.pyx,
types.pxd).  The translation is *fail closed*: any construct outside the small
whitelisted subset aborts with exit status 3 and a message naming the line.

Reading of C / Cython semantics (part of the trusted base, see DESIGN.md §3):
  * uint64_t arithmetic wraps mod 2^64 (u64), CHAR (unsigned char) mod 256 (u8);
  * int / intptr_t / BOUNDS_T are mathematical integers (assumption: array lengths
    are far below 2^31 resp. 2^63, so no signed overflow occurs);
  * comparisons between unsigned values of different widths are value-preserving;
  * a memoryview is a list; reads/writes outside it (boundscheck=False) are the
    explicit outcome  Fail OOB ; slices clamp (wraparound=False);
  * <SCORE_T>x / y  is the binary32 division of the two converted operands;
    `1 - f` in a def function is computed in binary64 (checked against metric.c);
  * `for i in range(n)` -> for_range, `prange` additionally gets an `_order`
    variant running the iterations in an arbitrary given order, `while` runs on
    explicit fuel (an extra leading parameter of the generated definition).

Every source variable x becomes the Coq name v_x.
"""
import ast
import re
import sys
import os


class Unsupported(Exception):
	pass


def fail(msg, node=None):
	line = getattr(node, 'lineno', None)
	raise Unsupported(msg + (f' (body line {line})' if line else ''))


INT_TYPES = {'int': 'Z', 'intptr_t': 'Z', 'BOUNDS_T': 'Z', 'uint64_t': 'u64', 'CHAR': 'u8',
             'char': 'u8', 'bint': 'bool', 'SCORE_T': 'f32', 'COORDS_T': 'coord', 'COORDS_T_2': 'coord'}


def ctype(t):
	"""C type name -> model type tag."""
	t = t.strip()
	const = False
	if t.startswith('const '):
		t = t[6:].strip()
		const = True
	if t.endswith('[:]'):
		return ('mv', ctype(t[:-3]))
	if t not in INT_TYPES:
		raise Unsupported(f'unknown C type {t!r}')
	return INT_TYPES[t]


def coqtype(t):
	if isinstance(t, tuple):
		return f'list {coqtype(t[1])}'
	return {'Z': 'Z', 'u64': 'Z', 'u8': 'Z', 'coord': 'Z', 'obj': 'Z', 'bool': 'bool',
	        'f32': 'f32', 'f64': 'f64'}[t]


def default_value(t):
	if isinstance(t, tuple):
		return '[]'
	return {'bool': 'false', 'f32': 'f32_zero'}.get(t, '0')


def split_top(s, sep=','):
	out, depth, cur = [], 0, ''
	for ch in s:
		if ch in '([{':
			depth += 1
		elif ch in ')]}':
			depth -= 1
		if ch == sep and depth == 0:
			out.append(cur)
			cur = ''
		else:
			cur += ch
	if cur.strip():
		out.append(cur)
	return [x.strip() for x in out]


def rewrite_casts(line):
	"""<T>(e) -> __cast__("T", (e)) ;  <T>name -> __cast__("T", name) ; &x -> __addr__(x)"""
	while True:
		m = re.search(r'<(\w+)>\s*', line)
		if not m:
			break
		rest = line[m.end():]
		if rest.startswith('('):
			depth = 0
			for idx, ch in enumerate(rest):
				if ch == '(':
					depth += 1
				elif ch == ')':
					depth -= 1
					if depth == 0:
						break
			else:
				raise Unsupported('unbalanced cast: ' + line)
			operand, tail = rest[:idx + 1], rest[idx + 1:]
		else:
			m2 = re.match(r'\w+', rest)
			if not m2:
				raise Unsupported('cast of unsupported operand: ' + line)
			operand, tail = m2.group(0), rest[m2.end():]
		line = line[:m.start()] + f'__cast__("{m.group(1)}", {operand})' + tail
	line = re.sub(r'([(,]\s*)&(\w+)', r'\1__addr__(\2)', line)
	return line


def strip_comment(line):
	# no '#' occurs inside string literals in the supported subset except docstrings,
	# which are handled before this is called
	i = line.find('#')
	return line if i < 0 else line[:i].rstrip()


class Func:
	pass


def parse_decl(rest):
	"""'uint64_t idx = 0' / 'int i, k = kmer.shape[0]' -> (type, [(name, init or None)])"""
	m = re.match(r'\s*(\w+)\s+(.*)$', rest)
	if not m:
		raise Unsupported('bad declaration: ' + rest)
	t = m.group(1)
	items = []
	for part in split_top(m.group(2)):
		if '=' in part:
			n, e = part.split('=', 1)
			items.append((n.strip(), e.strip()))
		else:
			items.append((part.strip(), None))
	for n, _ in items:
		if not re.fullmatch(r'\w+', n):
			raise Unsupported('bad declarator: ' + rest)
	return t, items


def prepass(text):
	"""Split a .pyx into functions with Python-parsable bodies and type tables."""
	lines = text.split('\n')
	funcs = []
	i = 0
	n = len(lines)
	in_doc = False
	while i < n:
		line = lines[i]
		s = line.strip()
		if in_doc:
			if '"""' in s:
				in_doc = False
			i += 1
			continue
		if not s or s.startswith('#'):
			i += 1
			continue
		if line[0] not in '\t ':
			if s.startswith('"""'):
				if s.count('"""') < 2:
					in_doc = True
				i += 1
				continue
			if re.match(r'(from\s+\S+\s+c?import\s|c?import\s)', s):
				i += 1
				continue
			m = re.match(r'(def|cdef)\s+(.*?)\((.*)\)\s*(nogil)?\s*:\s*$', s)
			if not m:
				raise Unsupported(f'unsupported top-level line {i + 1}: {s}')
			f = Func()
			f.kind = m.group(1)
			head = m.group(2).split()
			f.name = head[-1]
			f.ret = None
			if f.kind == 'cdef':
				if len(head) != 2:
					raise Unsupported(f'bad cdef header line {i + 1}')
				f.ret = None if head[0] == 'void' else ctype(head[0])
			elif len(head) != 1:
				raise Unsupported(f'bad def header line {i + 1}')
			f.params = []  # (name, type, is_ptr)
			for p in split_top(m.group(3)):
				if not p:
					continue
				pm = re.match(r'(.*?)(\*?)\s*(\w+)$', p)
				tname, star, pname = pm.group(1).strip(), pm.group(2), pm.group(3)
				if not tname:
					f.params.append((pname, 'obj', False))
				else:
					f.params.append((pname, ctype(tname), bool(star)))
			f.lineno = i + 1
			i += 1
			body = []
			while i < n and (not lines[i].strip() or lines[i][0] in '\t '):
				body.append(lines[i])
				i += 1
			f.body_src, f.locals = convert_body(body)
			funcs.append(f)
			continue
		raise Unsupported(f'unsupported line {i + 1}: {s}')
	return funcs


def convert_body(body):
	"""Cython body lines -> (python source, ordered [(name, type)] of cdef locals)."""
	out = []
	locs = []
	i = 0
	n = len(body)
	in_doc = False

	def indent_of(l):
		return len(l) - len(l.lstrip('\t'))

	while i < n:
		line = body[i]
		s = line.strip()
		if in_doc:
			if '"""' in s:
				in_doc = False
			i += 1
			continue
		if s.startswith('"""'):
			if s.count('"""') < 2:
				in_doc = True
			i += 1
			continue
		if ' ' in line[:indent_of(line) + 1] and s and not line.startswith('\t'):
			raise Unsupported('space indentation not supported')
		line = strip_comment(line)
		s = line.strip()
		if not s:
			i += 1
			continue
		ind = indent_of(line)
		tabs = '\t' * ind
		if s == 'cdef:':
			i += 1
			while i < n and (not body[i].strip() or indent_of(body[i]) > ind):
				d = strip_comment(body[i]).strip()
				i += 1
				if not d:
					continue
				t, items = parse_decl(d)
				for name, init in items:
					locs.append((name, ctype(t)))
					if init is not None:
						out.append(f'{tabs}{name} = {rewrite_casts(init)}')
			continue
		if s.startswith('cdef '):
			t, items = parse_decl(s[5:])
			for name, init in items:
				locs.append((name, ctype(t)))
				if init is not None:
					out.append(f'{tabs}{name} = {rewrite_casts(init)}')
			i += 1
			continue
		out.append(rewrite_casts(line))
		i += 1
	if not out:
		raise Unsupported('empty function body')
	base = min(indent_of(l) for l in out)
	return '\n'.join(l[base:] for l in out) + '\n', locs


# ---------------------------------------------------------------------------------------------

class FuncTranslator:
	def __init__(self, f, known):
		self.f = f
		self.known = known  # name -> translated signature info
		self.tree = ast.parse(f.body_src)
		self.types = {}
		for name, t, ptr in f.params:
			self.types[name] = t
		for name, t in f.locals:
			if name in self.types:
				fail(f'{f.name}: local {name} shadows a parameter')
			self.types[name] = t
		self.loop_vars = set()
		self.assigned = []
		self.uses_fuel = False
		self.has_prange = False
		self.loops = []  # generated loop body definitions (text)
		self.loop_count = 0
		self.order_mode = False
		self._scan(self.tree.body)
		self.ptr_params = [p for p, t, ptr in f.params if ptr]
		# state: every name that is assigned somewhere (not loop variables), in first-seen order:
		# pointer params, then declared locals, then others
		st = []
		for p in self.ptr_params:
			st.append(p)
		for name, t in f.locals:
			if name not in self.loop_vars and name not in st:
				st.append(name)
		for name in self.assigned:
			if name not in st and name not in self.loop_vars:
				st.append(name)
		self.state = st
		for name in st:
			if name not in self.types:
				fail(f'{f.name}: cannot type variable {name}')
		self.mut_mv = [p for p, t, ptr in f.params if isinstance(t, tuple) and p in st]
		self.imm_params = [(p, t) for p, t, ptr in f.params if p not in st]

	# ---- scanning -----------------------------------------------------------------------
	def _note_assign(self, name):
		if name not in self.assigned:
			self.assigned.append(name)

	def _scan(self, stmts):
		for s in stmts:
			if isinstance(s, ast.Expr) and isinstance(s.value, ast.Constant) and isinstance(s.value.value, str):
				continue
			if isinstance(s, (ast.Assign, ast.AugAssign)):
				tgt = s.targets[0] if isinstance(s, ast.Assign) else s.target
				if isinstance(s, ast.Assign) and len(s.targets) != 1:
					fail('multiple assignment targets', s)
				if isinstance(tgt, ast.Name):
					self._note_assign(tgt.id)
					if tgt.id not in self.types:
						self.types[tgt.id] = self._infer(s.value)
				elif isinstance(tgt, ast.Subscript) and isinstance(tgt.value, ast.Name):
					self._note_assign(tgt.value.id)
				else:
					fail('unsupported assignment target', s)
				self._scan_calls(s.value)
			elif isinstance(s, ast.Expr):
				self._scan_calls(s.value)
			elif isinstance(s, ast.If):
				self._scan(s.body)
				self._scan(s.orelse)
			elif isinstance(s, ast.For):
				if not isinstance(s.target, ast.Name) or s.orelse:
					fail('unsupported for loop', s)
				self.loop_vars.add(s.target.id)
				if isinstance(s.iter, ast.Call) and isinstance(s.iter.func, ast.Name) and s.iter.func.id == 'prange':
					self.has_prange = True
				self._scan(s.body)
			elif isinstance(s, ast.While):
				if s.orelse:
					fail('while-else', s)
				self.uses_fuel = True
				self._scan(s.body)
			elif isinstance(s, (ast.Return, ast.Raise)):
				if isinstance(s, ast.Return) and s.value is not None:
					self._scan_calls(s.value)
			else:
				fail(f'unsupported statement {type(s).__name__}', s)

	def _scan_calls(self, e):
		for node in ast.walk(e):
			if isinstance(node, ast.Call) and isinstance(node.func, ast.Name):
				info = self.known.get(node.func.id)
				if info is not None:
					if info['fuel']:
						self.uses_fuel = True
					# by-reference / mutated arguments are assigned by the call
					for a, (pname, pt, how) in zip(node.args, info['params']):
						if how in ('ptr', 'mutmv'):
							if how == 'ptr':
								if not (isinstance(a, ast.Call) and getattr(a.func, 'id', None) == '__addr__'):
									fail('pointer parameter needs &var', node)
								a = a.args[0]
							if not isinstance(a, ast.Name):
								fail('mutated argument must be a variable', node)
							self._note_assign(a.id)

	def _infer(self, e):
		if isinstance(e, ast.Call) and isinstance(e.func, ast.Name) and e.func.id == 'bytearray':
			return ('mv', 'u8')
		fail('cannot infer type of untyped local', e)

	# ---- helpers ------------------------------------------------------------------------
	def v(self, name):
		return 'v_' + name

	def st_pat(self):
		if not self.state:
			return '_'
		return "'(" + ', '.join(self.v(x) for x in self.state) + ')' if len(self.state) > 1 else self.v(self.state[0])

	def st_val(self):
		if not self.state:
			return 'tt'
		return '(' + ', '.join(self.v(x) for x in self.state) + ')'

	def st_type(self):
		if not self.state:
			return 'unit'
		return '(' + ' * '.join(coqtype(self.types[x]) for x in self.state) + ')%type'

	def result_parts(self):
		parts = []
		if self.ret_type() is not None:
			parts.append(('ret', self.ret_type()))
		for p in self.ptr_params:
			parts.append((p, self.types[p]))
		for p in self.mut_mv:
			parts.append((p, self.types[p]))
		return parts

	def ret_type(self):
		if self.f.kind == 'cdef':
			return self.f.ret
		return getattr(self, '_def_ret', None)

	def res_type(self):
		parts = self.result_parts()
		if not parts:
			return 'unit'
		return '(' + ' * '.join(coqtype(t) for _, t in parts) + ')%type'

	def res_val(self, retexpr):
		parts = []
		for name, t in self.result_parts():
			parts.append(retexpr if name == 'ret' else self.v(name))
		if not parts:
			return 'tt'
		return '(' + ', '.join(parts) + ')'

	# ---- expressions --------------------------------------------------------------------
	def expr(self, e, hoists):
		"""-> (coq term, type tag).  Calls and memoryview reads are hoisted."""
		if isinstance(e, ast.Constant):
			if isinstance(e.value, bool):
				return ('true' if e.value else 'false', 'bool')
			if isinstance(e.value, int):
				return (str(e.value) if e.value >= 0 else f'({e.value})', 'lit')
			if isinstance(e.value, str) and len(e.value) == 1 and ord(e.value) < 128:
				return (str(ord(e.value)), 'lit')
			fail('unsupported constant', e)
		if isinstance(e, ast.Name):
			if e.id in self.loop_vars or e.id in self.types:
				return (self.v(e.id), self.types.get(e.id, 'Z'))
			fail(f'unknown name {e.id}', e)
		if isinstance(e, ast.Subscript):
			# x.shape[0]
			if (isinstance(e.value, ast.Attribute) and e.value.attr == 'shape'
					and isinstance(e.value.value, ast.Name) and isinstance(e.slice, ast.Constant)
					and e.slice.value == 0):
				t = self.types.get(e.value.value.id)
				if not isinstance(t, tuple):
					fail('.shape of non-memoryview', e)
				return (f'(mv_len {self.v(e.value.value.id)})', 'Z')
			if isinstance(e.value, ast.Name) and isinstance(self.types.get(e.value.id), tuple):
				mvt = self.types[e.value.id]
				if isinstance(e.slice, ast.Slice):
					if e.slice.step is not None or e.slice.lower is None or e.slice.upper is None:
						fail('unsupported slice form', e)
					a, ta = self.expr(e.slice.lower, hoists)
					b, tb = self.expr(e.slice.upper, hoists)
					return (f'(mv_slice {self.v(e.value.id)} {a} {b})', mvt)
				idx, ti = self.expr(e.slice, hoists)
				if ti not in ('Z', 'lit'):
					fail('memoryview index must be a signed integer expression', e)
				tmp = f'r{len(hoists)}_'
				hoists.append(('get', tmp, f'mv_get {self.v(e.value.id)} {idx}'))
				return (tmp, mvt[1])
			fail('unsupported subscript', e)
		if isinstance(e, ast.BinOp):
			a, ta = self.expr(e.left, hoists)
			b, tb = self.expr(e.right, hoists)
			op = type(e.op).__name__
			if op == 'Div':
				if 'f32' not in (ta, tb):
					fail('integer / not supported', e)
				return (f'(f32_div {self.to_f32(a, ta)} {self.to_f32(b, tb)})', 'f32')
			if 'f32' in (ta, tb):
				if op == 'Sub' and ta == 'lit' and tb == 'f32' and self.f.kind == 'def':
					return (f'(f64_minus (f64_of_Z {a}) (f64_of_f32 {b}))', 'f64')
				fail('unsupported float arithmetic', e)
			t = self.join(ta, tb, e)
			ops = {'Add': f'({a} + {b})', 'Sub': f'({a} - {b})', 'Mult': f'({a} * {b})',
			       'LShift': f'(Z.shiftl {a} {b})', 'RShift': f'(Z.shiftr {a} {b})',
			       'BitAnd': f'(Z.land {a} {b})'}
			if op == 'Mod':
				if t not in ('u64', 'u8', 'coord'):
					fail('% on signed operands not supported', e)
				return (f'({a} mod {b})', t)
			if op not in ops:
				fail(f'unsupported operator {op}', e)
			return (self.wrap(ops[op], t), t)
		if isinstance(e, ast.Compare):
			if len(e.ops) != 1:
				fail('chained comparison', e)
			a, ta = self.expr(e.left, hoists)
			b, tb = self.expr(e.comparators[0], hoists)
			if 'bool' in (ta, tb) or 'f32' in (ta, tb) or isinstance(ta, tuple) or isinstance(tb, tuple):
				fail('unsupported comparison operands', e)
			sym = {'Eq': '=?', 'Lt': '<?', 'LtE': '<=?', 'Gt': '>?', 'GtE': '>=?'}.get(type(e.ops[0]).__name__)
			if sym is None:
				fail('unsupported comparison', e)
			return (f'({a} {sym} {b})', 'bool')
		if isinstance(e, ast.BoolOp):
			if not isinstance(e.op, ast.And):
				fail('only `and` supported', e)
			parts = []
			for v in e.values:
				x, tx = self.expr(v, hoists)
				if tx != 'bool':
					fail('non-boolean operand of and', e)
				parts.append(x)
			return ('(' + ' && '.join(parts) + ')', 'bool')
		if isinstance(e, ast.Call) and isinstance(e.func, ast.Name):
			fn = e.func.id
			if fn == '__cast__':
				target = ctype(e.args[0].value)
				x, tx = self.expr(e.args[1], hoists)
				if target == 'f32':
					return (self.to_f32(x, tx), 'f32')
				fail(f'unsupported cast to {target}', e)
			if fn == 'len' and len(e.args) == 1 and isinstance(e.args[0], ast.Name) \
					and isinstance(self.types.get(e.args[0].id), tuple):
				return (f'(mv_len {self.v(e.args[0].id)})', 'Z')
			if fn == 'bytes' and len(e.args) == 1 and isinstance(e.args[0], ast.Name) \
					and self.types.get(e.args[0].id) == ('mv', 'u8'):
				return (self.v(e.args[0].id), ('mv', 'u8'))
			if fn == 'bytearray' and len(e.args) == 1:
				x, tx = self.expr(e.args[0], hoists)
				tmp = f'r{len(hoists)}_'
				hoists.append(('call', tmp, f'py_bytearray {x}', []))
				return (tmp, ('mv', 'u8'))
			if fn in self.known:
				return self.call(e, hoists)
		fail('unsupported expression ' + ast.dump(e)[:60], e)

	def call(self, e, hoists):
		info = self.known[e.func.id]
		if len(e.args) != len(info['params']) or e.keywords:
			fail('bad call arity', e)
		args = []
		outs = []
		pre = []
		for a, (pname, pt, how) in zip(e.args, info['params']):
			if how == 'ptr':
				a = a.args[0]
				args.append(self.v(a.id))
				outs.append(a.id)
			elif how == 'mutmv':
				args.append(self.v(a.id))
				outs.append(a.id)
			else:
				x, tx = self.expr(a, hoists)
				if tx == 'obj' and pt == 'u64':
					tmp = f'r{len(hoists)}_'
					hoists.append(('call', tmp, f'py_to_u64 {x}', []))
					x = tmp
				elif tx == 'obj':
					fail('untyped argument to typed parameter', e)
				args.append(x)
		tmp = f'r{len(hoists)}_'
		fuel = 'fuel ' if info['fuel'] else ''
		# result tuple layout of the callee: (ret?, ptr outs..., mutated mvs...)
		pat = []
		if info['ret'] is not None:
			pat.append(tmp)
		# outputs in callee order: ptr params first then mutated mvs
		order = [n for n, (pname, pt, how) in zip([getattr(x, 'id', None) if not isinstance(x, ast.Call) else x.args[0].id for x in e.args], info['params']) if how == 'ptr']
		order += [n for n, (pname, pt, how) in zip([getattr(x, 'id', None) if not isinstance(x, ast.Call) else x.args[0].id for x in e.args], info['params']) if how == 'mutmv']
		pat += [self.v(n) for n in order]
		hoists.append(('callpat', pat, f'{e.func.id} {fuel}' + ' '.join(args)))
		return (tmp, info['ret'])

	def to_f32(self, x, t):
		if t == 'f32':
			return x
		if t in ('Z', 'lit', 'u64', 'u8', 'coord'):
			return f'(f32_of_Z {x})'
		fail(f'cannot convert {t} to float')

	def join(self, ta, tb, node):
		for t in ('u64', 'coord', 'u8', 'Z'):
			if t in (ta, tb):
				# integer promotion: CHAR op literal stays CHAR only for the in-place forms we
				# accept; u64 dominates
				return t
		if ta == 'lit' and tb == 'lit':
			return 'lit'
		fail(f'cannot combine types {ta} and {tb}', node)

	def wrap(self, term, t):
		if t == 'u64':
			return f'(u64 {term})'
		if t == 'u8':
			return f'(u8 {term})'
		return term

	def coerce(self, x, tx, target, node):
		"""value of type tx assigned to a variable / returned as target"""
		if target == tx or tx == 'lit' and target in ('Z', 'u64', 'u8', 'coord', 'obj'):
			return x
		if target == 'f32' and tx in ('lit', 'Z'):
			return f'(f32_of_Z {x})'
		if target in ('Z', 'obj') and tx in ('u64', 'u8', 'coord'):
			return x  # value-preserving under the stated range assumptions
		if target == 'u8' and tx in ('coord', 'Z'):
			return f'(u8 {x})'
		if target == 'coord' and tx == 'coord':
			return x
		if isinstance(target, tuple) and target == tx:
			return x
		fail(f'unsupported conversion {tx} -> {target}', node)

	def apply_hoists(self, hoists, inner):
		for h in reversed(hoists):
			if h[0] == 'get':
				inner = f'match {h[2]} with None => Fail OOB | Some {h[1]} =>\n{inner} end'
			elif h[0] == 'call':
				inner = f'rbind ({h[2]}) (fun {h[1]} =>\n{inner})'
			elif h[0] == 'callpat':
				pat = h[1]
				p = '_' if not pat else (pat[0] if len(pat) == 1 else "'(" + ', '.join(pat) + ')')
				inner = f'rbind ({h[2]}) (fun {p} =>\n{inner})'
		return inner

	# ---- statements ---------------------------------------------------------------------
	def go(self):
		return f'Go {self.st_val()}'

	def block(self, stmts, k):
		"""translate stmts followed by continuation term k (state variables in scope)"""
		if not stmts:
			return k
		s, rest = stmts[0], stmts[1:]
		if isinstance(s, ast.Expr) and isinstance(s.value, ast.Constant) and isinstance(s.value.value, str):
			return self.block(rest, k)
		kk = lambda: self.block(rest, k)
		if isinstance(s, ast.Assign) or isinstance(s, ast.AugAssign):
			hoists = []
			if isinstance(s, ast.AugAssign):
				value = ast.BinOp(left=ast.copy_location(ast.Name(id=s.target.id, ctx=ast.Load()), s), op=s.op, right=s.value)
				ast.copy_location(value, s)
				tgt = s.target
				if not isinstance(tgt, ast.Name):
					fail('augmented assignment to non-variable', s)
			else:
				value, tgt = s.value, s.targets[0]
			x, tx = self.expr(value, hoists)
			if isinstance(tgt, ast.Name):
				if tgt.id in self.loop_vars:
					fail('assignment to loop variable', s)
				tt = self.types[tgt.id]
				if isinstance(s, ast.AugAssign) and tt in ('u64', 'u8') and tx not in (tt, 'lit'):
					fail('augmented assignment changes type', s)
				x = self.coerce(x, tx, tt, s)
				if isinstance(s, ast.AugAssign):
					x = self.wrap(x, tt) if not x.startswith('(u') else x
				inner = f'let {self.v(tgt.id)} := {x} in\n{kk()}'
			else:
				name = tgt.value.id
				mvt = self.types.get(name)
				# exc[0] = True  (pointer parameter)
				if name in self.ptr_params:
					if not (isinstance(tgt.slice, ast.Constant) and tgt.slice.value == 0):
						fail('pointer store must be p[0]', s)
					x = self.coerce(x, tx, self.types[name], s)
					inner = f'let {self.v(name)} := {x} in\n{kk()}'
				elif isinstance(mvt, tuple):
					idx, ti = self.expr(tgt.slice, hoists)
					if ti not in ('Z', 'lit'):
						fail('memoryview index must be a signed integer expression', s)
					x = self.coerce(x, tx, mvt[1], s)
					inner = (f'match mv_set {self.v(name)} {idx} {x} with None => Fail OOB '
					         f'| Some {self.v(name)} =>\n{kk()} end')
				else:
					fail('store to non-memoryview', s)
			return self.apply_hoists(hoists, inner)
		if isinstance(s, ast.Expr):
			hoists = []
			self.expr(s.value, hoists)
			return self.apply_hoists(hoists, kk())
		if isinstance(s, ast.Return):
			hoists = []
			if s.value is None:
				if self.ret_type() is not None:
					fail('bare return in non-void function', s)
				return f'Ret {self.res_val(None)}'
			x, tx = self.expr(s.value, hoists)
			if self.f.kind == 'cdef':
				x = self.coerce(x, tx, self.f.ret, s)
			else:
				if tx == 'lit':
					tx = 'Z'
				if getattr(self, '_def_ret', None) not in (None, tx):
					fail('def function returns values of different types', s)
				self._def_ret = tx
			return self.apply_hoists(hoists, f'Ret {self.res_val(x)}')
		if isinstance(s, ast.Raise):
			exc = s.exc
			if isinstance(exc, ast.Call) and isinstance(exc.func, ast.Name) and exc.func.id in ('ValueError', 'TypeError'):
				return f'Fail {exc.func.id}'
			fail('unsupported raise', s)
		if isinstance(s, ast.If):
			hoists = []
			c, tc = self.expr(s.test, hoists)
			if tc != 'bool':
				fail('non-boolean condition', s)
			rest_k = kk()
			trivial = (rest_k == self.go()) or rest_k.startswith('Ret ') and len(rest_k) < 80
			if trivial:
				a = self.block(s.body, rest_k)
				b = self.block(s.orelse, rest_k)
				return self.apply_hoists(hoists, f'if {c} then\n{a}\nelse\n{b}')
			a = self.block(s.body, self.go())
			b = self.block(s.orelse, self.go())
			inner = f'bind (if {c} then\n{a}\nelse\n{b}) (fun st_ => let {self.st_pat()} := st_ in\n{rest_k})'
			return self.apply_hoists(hoists, inner)
		if isinstance(s, ast.For):
			it = s.iter
			if not (isinstance(it, ast.Call) and isinstance(it.func, ast.Name) and it.func.id in ('range', 'prange')
					and len(it.args) == 1):
				fail('only range(n) / prange(n) loops', s)
			if it.func.id == 'range' and it.keywords:
				fail('range keywords', s)
			hoists = []
			nterm, tn = self.expr(it.args[0], hoists)
			if tn not in ('Z', 'lit'):
				fail('loop bound must be a signed integer', s)
			self.loop_count += 1
			lname = f'{self.f.name}_loop{self.loop_count}'
			body = self.block(s.body, self.go())
			self.loops.append((lname, s.target.id, body))
			extra = ' '.join(['fuel'] * self.uses_fuel + [self.v(p) for p, t in self.imm_params])
			if it.func.id == 'prange' and self.order_mode:
				loop = f'for_order pi_ ({lname}_body {extra})'
			else:
				loop = f'for_range {nterm} ({lname}_body {extra})'
			inner = f'bind ({loop} {self.st_val()}) (fun st_ => let {self.st_pat()} := st_ in\n{kk()})'
			return self.apply_hoists(hoists, inner)
		if isinstance(s, ast.While):
			hoists = []
			c, tc = self.expr(s.test, hoists)
			if hoists or tc != 'bool':
				fail('while condition must be a pure boolean expression', s)
			self.loop_count += 1
			lname = f'{self.f.name}_loop{self.loop_count}'
			body = self.block(s.body, self.go())
			self.loops.append((lname, None, body, c))
			extra = ' '.join([self.v(p) for p, t in self.imm_params])
			inner = (f'bind (while_fuel fuel ({lname}_cond {extra}) ({lname}_body {extra}) {self.st_val()}) '
			         f'(fun st_ => let {self.st_pat()} := st_ in\n{kk()})')
			return inner
		fail(f'unsupported statement {type(s).__name__}', s)

	# ---- whole function -------------------------------------------------------------------
	def translate(self):
		out = []
		variants = [False, True] if self.has_prange else [False]
		texts = []
		for order_mode in variants:
			self.order_mode = order_mode
			self.loops = []
			self.loop_count = 0
			self._def_ret = None
			if self.f.kind == 'def':
				# first pass to learn the return type
				self.block(self.tree.body, 'Go ' + self.st_val())
				self.loops = []
				self.loop_count = 0
			void = self.ret_type() is None
			final = f'Ret {self.res_val(None)}' if void else 'Fail TypeError'
			body = self.block(self.tree.body, final)
			texts.append((order_mode, body, list(self.loops)))
		imm = ' '.join(f'({self.v(p)} : {coqtype(t)})' for p, t in self.imm_params)
		fuel = '(fuel : nat) ' if self.uses_fuel else ''
		rt = self.res_type()
		stt = self.st_type()
		done_loops = set()
		for order_mode, body, loops in texts:
			for lp in loops:
				if lp[0] in done_loops:
					continue
				done_loops.add(lp[0])
				if len(lp) == 3:
					lname, var, lbody = lp
					out.append(f'Definition {lname}_body {fuel}{imm} ({self.v(var)} : Z) (st_ : {stt}) : ctl {stt} {rt} :=\n'
					           f'let {self.st_pat()} := st_ in\n{lbody}.\n')
				else:
					lname, _, lbody, cond = lp
					out.append(f'Definition {lname}_cond {imm} (st_ : {stt}) : bool :=\n'
					           f'let {self.st_pat()} := st_ in\n{cond}.\n')
					out.append(f'Definition {lname}_body {imm} (st_ : {stt}) : ctl {stt} {rt} :=\n'
					           f'let {self.st_pat()} := st_ in\n{lbody}.\n')
			# parameters of the function: all, in source order
			params = ' '.join(f'({self.v(p)} : {coqtype(t)})' for p, t, ptr in self.f.params)
			inits = ''
			for name in self.state:
				if name not in [p for p, _, _ in self.f.params]:
					inits += f'let {self.v(name)} : {coqtype(self.types[name])} := {default_value(self.types[name])} in\n'
			name = self.f.name + ('_order' if order_mode else '')
			pi = '(pi_ : list Z) ' if order_mode else ''
			out.append(f'Definition {name} {fuel}{pi}{params} : res {rt} :=\n{inits}'
			           f'finish (\n{body}) (fun _ : {stt} => Error TypeError).\n')
		info = {
			'fuel': self.uses_fuel,
			'ret': self.ret_type(),
			'params': [(p, t, 'ptr' if ptr else ('mutmv' if p in self.mut_mv else 'in')) for p, t, ptr in self.f.params],
		}
		return '\n'.join(out), info


def order_functions(funcs):
	"""callees before callers"""
	names = {f.name for f in funcs}
	deps = {}
	for f in funcs:
		deps[f.name] = {n.func.id for n in ast.walk(ast.parse(f.body_src))
		                if isinstance(n, ast.Call) and isinstance(n.func, ast.Name) and n.func.id in names} - {f.name}
	done, out = set(), []
	while len(out) < len(funcs):
		progress = False
		for f in funcs:
			if f.name not in done and deps[f.name] <= done:
				out.append(f)
				done.add(f.name)
				progress = True
		if not progress:
			raise Unsupported('recursive functions')
	return out


HEADER = '''(* GENERATED by tools/pyx2v.py from %s -- do not edit.
   Regenerated from the working tree of the repository on every check run. *)
From Coq Require Import ZArith List Bool.
From GV Require Import Base.CSem Base.F32 Base.PyConv.
Import ListNotations.
Open Scope Z_scope.
Open Scope bool_scope.

'''


def translate_file(path, extra_defs=''):
	text = open(path).read()
	funcs = order_functions(prepass(text))
	known = {}
	chunks = []
	for f in funcs:
		tr = FuncTranslator(f, known)
		body, info = tr.translate()
		known[f.name] = info
		chunks.append(f'(* ---- {f.kind} {f.name} (source line {f.lineno}) ---- *)\n' + body)
	return HEADER % os.path.basename(path) + extra_defs + '\n'.join(chunks)


def parse_types_pxd(path):
	"""types.pxd -> Coq definitions describing SCORE_T, BOUNDS_T and the fused types."""
	text = open(path).read()
	out = []
	widths = {'uint16_t': 16, 'uint32_t': 32, 'uint64_t': 64}
	lines = [strip_comment(l) for l in text.split('\n')]
	i = 0
	seen = {}
	in_doc = False
	while i < len(lines):
		s = lines[i].strip()
		i += 1
		if not s or s.startswith('"""') or s.startswith('from ') or s.startswith('cimport'):
			continue
		m = re.match(r'ctypedef\s+fused\s+(\w+)\s*:$', s)
		if m:
			members = []
			while i < len(lines) and lines[i].startswith(('\t', ' ')):
				t = lines[i].strip()
				i += 1
				if not t:
					continue
				if t not in widths:
					raise Unsupported(f'fused type member {t} is not an unsigned 16/32/64-bit integer')
				members.append(widths[t])
			seen[m.group(1)] = members
			continue
		m = re.match(r'ctypedef\s+(\w+)\s+(\w+)$', s)
		if m:
			seen[m.group(2)] = m.group(1)
			continue
		raise Unsupported('types.pxd: unsupported line: ' + s)
	if seen.get('SCORE_T') != 'float':
		raise Unsupported('SCORE_T must be C float (binary32)')
	if seen.get('BOUNDS_T') != 'intptr_t':
		raise Unsupported('BOUNDS_T must be intptr_t')
	for ft in ('COORDS_T', 'COORDS_T_2'):
		if not isinstance(seen.get(ft), list):
			raise Unsupported(f'{ft} must be a fused type')
		out.append(f'Definition {ft}_widths : list Z := [{"; ".join(map(str, seen[ft]))}].')
	out.append('Definition SCORE_T_bits : Z := 32.')
	return '\n'.join(out) + '\n\n'


def check_kmers_pxd(path):
	text = open(path).read()
	if not re.search(r'ctypedef\s+unsigned\s+char\s+CHAR\b', text):
		raise Unsupported('kmers.pxd: CHAR must be unsigned char')


def write_if_changed(path, text):
	if os.path.exists(path) and open(path).read() == text:
		return False
	with open(path, 'w') as f:
		f.write(text)
	return True


STUB = '(* GENERATED by tools/pyx2v.py: TRANSLATION FAILED (fail closed), this file does not compile on purpose.\n   %s *)\nTranslation_failed.\n'


def main(argv):
	src, out = argv[1], argv[2]
	os.makedirs(out, exist_ok=True)
	rc = 0
	# the two kernels are translated independently: a source that leaves the subset gets a stub that does not
	# compile, so exactly the theorems and model entry points that depend on it are lost
	jobs = [('KmersPyx.v', lambda: (check_kmers_pxd(os.path.join(src, 'kmers.pxd')), translate_file(os.path.join(src, 'kmers.pyx')))[1]),
	        ('MetricPyx.v', lambda: translate_file(os.path.join(src, 'metric.pyx'), parse_types_pxd(os.path.join(src, 'types.pxd'))))]
	msgs = []
	for name, job in jobs:
		try:
			text = job()
		except (Unsupported, SyntaxError, OSError) as e:
			print(f'pyx2v: {name}: translation failed (fail closed): {e}', file=sys.stderr)
			text = STUB % str(e).replace('*)', '* )')
			rc = 3
		ch = write_if_changed(os.path.join(out, name), text)
		msgs.append(f'{name} {"updated" if ch else "unchanged"}')
	print('pyx2v: ' + ', '.join(msgs))
	return rc


if __name__ == '__main__':
	sys.exit(main(sys.argv))
