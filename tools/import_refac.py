#!/usr/bin/env python3
"""tools/import_refac.py <PROP> <seed-dir> "<result line of ./check on the patched copy>"
Copies a confirmed behaviour-preserving rewrite into /verif/harmless/<PROP>/ (patch.diff, equiv.py, meta.json)."""
import json, os, shutil, sys
prop, src, result = sys.argv[1:4]
meta = json.load(open(os.path.join(src, 'meta.json')))
dst = os.path.join(os.path.dirname(os.path.dirname(os.path.abspath(__file__))), 'harmless', prop)
os.makedirs(dst, exist_ok=True)
for f in ('patch.diff', 'equiv.py'):
	shutil.copy(os.path.join(src, f), dst)
meta.update(dict(
	property=prop, kind='harmless-rewrite',
	confirmed_by_lead=dict(
		ran=[f'tools/try_refac.sh {prop} <seed-dir>  (scratch worktree of /repo with patch.diff applied)',
		     'equiv.py <clean src> <patched src>: SAME (the author\'s seeded differential test, re-run by the lead)',
		     'repository test suite on the patched copy (run by the author): same 48 failing tests as the baseline, 542 passed',
		     f'VERIF_REPO=<patched copy> ./check {prop} quick'],
		alarm='none', result=result),
))
json.dump(meta, open(os.path.join(dst, 'meta.json'), 'w'), indent=1)
print(dst)
