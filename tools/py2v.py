#!/usr/bin/env python3
"""py2v -- translate a few small pure Python functions of jlumpe/gambit into Gallina.

Usage: py2v.py <repo>/src/gambit <outdir>      (writes <outdir>/PyC01.v, PyC05.v, PyC20.v: one file per
consuming property, so that a function that leaves the subset only costs the theorems that use it)

The hand-written models of the Python code (coq/theories/Model/*.v) are tied to the source by
behavioural correspondence.  For the integer-only helper functions below the tie is made
syntactic as well: their text is translated on every run (fail closed: anything outside the
small subset aborts with exit status 3) and Proofs/PyTieC01.v / PyTieC05.v / PyTieC20.v prove the translation equal to the
hand model the property theorems are about.  A change to one of these functions therefore
changes the generated definition and breaks the tie theorem.

Subset: `def f(params)`; statements `x = e`, `if/elif/else`, `return e`, `raise E(...)`,
one `while c:` loop whose body consists of assignments and exactly one `yield e` (a generator,
translated to a fuel-bounded recursive function producing the list of yielded values);
expressions over Python ints: literals, names, + - * // % **, comparisons (chained), and/or/not,
conditional expressions, `len(self)` (a parameter), `operator.index(x)` (identity on ints),
`slice(a, b)` (a pair), `np.dtype('uN')` (Some N) and `None`.
Python ints are unbounded: Z.  `//` and `%` are floor division / modulo: Z.div / Z.modulo.
"""
import ast
import os
import sys
import textwrap

#: output file -> [(file relative to src/gambit, qualified name, Coq name, {python name: coq name} for parameters, extra parameters)]
GROUPS = {
	'PyC01.v': [('kmers.py', 'nkmers', 'py_nkmers', {}, []),
	            ('kmers.py', 'index_dtype', 'py_index_dtype', {}, [])],
	'PyC05.v': [('metric.py', 'num_pairs', 'py_num_pairs', {}, []),
	            ('util/misc.py', 'chunk_slices', 'py_chunk_slices', {}, [])],
	'PyC20.v': [('util/indexing.py', 'AdvancedIndexingMixin._check_index', 'py_check_index', {'self': None}, ['len_self'])],
}


class Unsupported(Exception):
	pass


def fail(msg, node=None):
	raise Unsupported(msg + (f' (line {node.lineno})' if node is not None and hasattr(node, 'lineno') else ''))


def find_function(tree, qual):
	parts = qual.split('.')
	body = tree.body
	node = None
	for p in parts:
		node = next((n for n in body if isinstance(n, (ast.FunctionDef, ast.ClassDef)) and n.name == p), None)
		if node is None:
			fail(f'{qual} not found')
		body = node.body
	if not isinstance(node, ast.FunctionDef):
		fail(f'{qual} is not a function')
	return node


def v(name):
	return 'v_' + name


def expr(e):
	if isinstance(e, ast.Constant):
		if e.value is None:
			return 'None'
		if isinstance(e.value, bool):
			return 'true' if e.value else 'false'
		if isinstance(e.value, int):
			return str(e.value) if e.value >= 0 else f'({e.value})'
		fail('unsupported constant', e)
	if isinstance(e, ast.Name):
		return v(e.id)
	if isinstance(e, ast.BinOp):
		a, b = expr(e.left), expr(e.right)
		op = type(e.op).__name__
		table = {'Add': f'({a} + {b})', 'Sub': f'({a} - {b})', 'Mult': f'({a} * {b})', 'FloorDiv': f'({a} / {b})',
		         'Mod': f'({a} mod {b})', 'Pow': f'({a} ^ {b})'}
		if op not in table:
			fail(f'unsupported operator {op}', e)
		return table[op]
	if isinstance(e, ast.UnaryOp):
		if isinstance(e.op, ast.Not):
			return f'(negb {expr(e.operand)})'
		if isinstance(e.op, ast.USub):
			return f'(- {expr(e.operand)})'
		fail('unsupported unary operator', e)
	if isinstance(e, ast.Compare):
		sym = {'Eq': '=?', 'Lt': '<?', 'LtE': '<=?', 'Gt': '>?', 'GtE': '>=?'}
		terms = [e.left] + list(e.comparators)
		parts = []
		for op, a, b in zip(e.ops, terms, terms[1:]):
			s = sym.get(type(op).__name__)
			if s is None:
				fail('unsupported comparison', e)
			parts.append(f'({expr(a)} {s} {expr(b)})')
		return parts[0] if len(parts) == 1 else '(' + ' && '.join(parts) + ')'
	if isinstance(e, ast.BoolOp):
		j = ' && ' if isinstance(e.op, ast.And) else ' || '
		return '(' + j.join(expr(x) for x in e.values) + ')'
	if isinstance(e, ast.IfExp):
		return f'(if {expr(e.test)} then {expr(e.body)} else {expr(e.orelse)})'
	if isinstance(e, ast.Call):
		f = e.func
		if isinstance(f, ast.Name) and f.id == 'len' and len(e.args) == 1 and isinstance(e.args[0], ast.Name) and e.args[0].id == 'self':
			return 'v_len_self'
		if isinstance(f, ast.Attribute) and isinstance(f.value, ast.Name) and f.value.id == 'operator' and f.attr == 'index' and len(e.args) == 1:
			return expr(e.args[0])
		if isinstance(f, ast.Name) and f.id == 'slice' and len(e.args) == 2:
			return f'({expr(e.args[0])}, {expr(e.args[1])})'
		if isinstance(f, ast.Attribute) and isinstance(f.value, ast.Name) and f.value.id == 'np' and f.attr == 'dtype' \
				and len(e.args) == 1 and isinstance(e.args[0], ast.Constant) and isinstance(e.args[0].value, str) \
				and e.args[0].value[:1] == 'u' and e.args[0].value[1:].isdigit():
			return f'(Some {int(e.args[0].value[1:])})'
	fail('unsupported expression ' + ast.dump(e)[:70], e)


ERRS = {'ValueError': 'ValueError', 'IndexError': 'IndexError', 'TypeError': 'TypeError'}


def is_doc(s):
	return isinstance(s, ast.Expr) and isinstance(s.value, ast.Constant) and isinstance(s.value.value, str)


def block(stmts, loops, fname):
	"""statements -> Gallina term of type res _ ; falls off the end -> Ok None is not supported"""
	stmts = [s for s in stmts if not is_doc(s)]
	if not stmts:
		fail(f'{fname}: control reaches the end of the function without return')
	s, rest = stmts[0], stmts[1:]
	if isinstance(s, ast.Return):
		if s.value is None:
			fail('bare return', s)
		return f'Ok {expr(s.value)}'
	if isinstance(s, ast.Raise):
		exc = s.exc
		if isinstance(exc, ast.Call) and isinstance(exc.func, ast.Name) and exc.func.id in ERRS:
			return f'Error {ERRS[exc.func.id]}'
		fail('unsupported raise', s)
	if isinstance(s, ast.Assign):
		if len(s.targets) != 1 or not isinstance(s.targets[0], ast.Name):
			fail('unsupported assignment', s)
		return f'let {v(s.targets[0].id)} := {expr(s.value)} in\n{block(rest, loops, fname)}'
	if isinstance(s, ast.If):
		a = block(s.body + rest, loops, fname)
		b = block(s.orelse + rest, loops, fname)
		return f'if {expr(s.test)} then\n{a}\nelse\n{b}'
	if isinstance(s, ast.While):
		if rest or s.orelse:
			fail('statements after the generator loop are not supported', s)
		return gen_loop(s, loops, fname)
	fail(f'unsupported statement {type(s).__name__}', s)


def gen_loop(w, loops, fname):
	"""while c: (assignments and one yield) -> call of a fuel-recursive function"""
	assigned, yielded = [], None
	for st in w.body:
		if isinstance(st, ast.Assign) and len(st.targets) == 1 and isinstance(st.targets[0], ast.Name):
			if st.targets[0].id not in assigned:
				assigned.append(st.targets[0].id)
		elif isinstance(st, ast.Expr) and isinstance(st.value, ast.Yield) and st.value.value is not None and yielded is None:
			yielded = st
		else:
			fail('unsupported statement in generator loop', st)
	if yielded is None:
		fail('generator loop without yield', w)
	# free names of the loop = state (assigned names that are read before assignment or in the condition) + parameters
	callees = {id(n.func) for n in ast.walk(w) if isinstance(n, ast.Call)}
	names = sorted({n.id for n in ast.walk(w) if isinstance(n, ast.Name) and id(n) not in callees})
	state = [n for n in names if n in assigned and _live_in(w, n)]
	params = [n for n in names if n not in assigned]
	body = ''
	for st in w.body:
		if st is yielded:
			body += f'let y_ := {expr(st.value.value)} in\n'
		else:
			body += f'let {v(st.targets[0].id)} := {expr(st.value)} in\n'
	lname = f'{fname}_loop'
	args = ' '.join(v(p) for p in params)
	sargs = ' '.join(v(s) for s in state)
	loops.append(
		f'Fixpoint {lname} (fuel : nat) {" ".join(f"({v(p)} : Z)" for p in params)} {" ".join(f"({v(s)} : Z)" for s in state)} '
		f': res (list (Z * Z)) :=\n'
		f'if {expr(w.test)} then\nmatch fuel with\n| O => Error OutOfFuel\n| S fuel_ =>\n{body}'
		f'match {lname} fuel_ {args} {sargs} with\n| Ok rest_ => Ok (y_ :: rest_)\n| Error e_ => Error e_\nend\nend\nelse Ok [].\n')
	return f'{lname} fuel {args} {sargs}'


def _live_in(w, name):
	"""is `name` read in the loop condition or before its first assignment in the body?"""
	if any(isinstance(n, ast.Name) and n.id == name for n in ast.walk(w.test)):
		return True
	for st in w.body:
		val = st.value.value if isinstance(st.value, ast.Yield) else st.value
		if any(isinstance(n, ast.Name) and n.id == name for n in ast.walk(val)):
			return True
		if isinstance(st, ast.Assign) and st.targets[0].id == name:
			return False
	return False


HEADER = '''(* GENERATED by tools/py2v.py from the Python sources of the repository -- do not edit.
   Regenerated from the working tree on every check run. *)
From Coq Require Import ZArith List Bool.
From GV Require Import Base.CSem.
Import ListNotations.
Open Scope Z_scope.
Open Scope bool_scope.

'''


def translate(src_root, funcs):
	out = [HEADER]
	for rel, qual, coqname, renames, extra in funcs:
		path = os.path.join(src_root, rel)
		tree = ast.parse(open(path).read())
		fn = find_function(tree, qual)
		if fn.args.vararg or fn.args.kwarg or fn.args.kwonlyargs or fn.args.defaults:
			fail(f'{qual}: unsupported signature')
		params = [a.arg for a in fn.args.args if renames.get(a.arg, a.arg) is not None] + extra
		loops = []
		body = block(fn.body, loops, coqname)
		uses_fuel = bool(loops)
		out.append(f'(* ---- {rel} :: {qual} (line {fn.lineno}) ---- *)\n')
		out.extend(loops)
		plist = ' '.join(f'({v(p)} : Z)' for p in params)
		out.append(f'Definition {coqname} {"(fuel : nat) " if uses_fuel else ""}{plist} :=\n{body}.\n\n')
	return ''.join(out)


STUB = '(* GENERATED by tools/py2v.py: TRANSLATION FAILED (fail closed), this file does not compile on purpose.\n   %s *)\nTranslation_failed.\n'


def main(argv):
	src, outdir = argv[1], argv[2]
	os.makedirs(outdir, exist_ok=True)
	rc = 0
	msgs = []
	for name, funcs in GROUPS.items():
		try:
			text = translate(src, funcs)
		except (Unsupported, SyntaxError, OSError) as e:
			print(f'py2v: {name}: translation failed (fail closed): {e}', file=sys.stderr)
			text = STUB % str(e).replace('*)', '* )')
			rc = 3
		path = os.path.join(outdir, name)
		changed = not (os.path.exists(path) and open(path).read() == text)
		if changed:
			open(path, 'w').write(text)
		msgs.append(f'{name} {"updated" if changed else "unchanged"}')
	old = os.path.join(outdir, 'PyFuncs.v')     # file layout of earlier versions
	if os.path.exists(old):
		os.remove(old)
	print('py2v: ' + ', '.join(msgs))
	return rc


if __name__ == '__main__':
	sys.exit(main(sys.argv))
