#!/usr/bin/env python3
"""tools/import_seed.py <PROP> <seed-dir> <caught: yes|after-strengthening|no> "<note>"
Copies a confirmed seeded change into /verif/seeded/<PROP>-<slug>/ with an augmented meta.json."""
import json, os, re, shutil, sys
prop, src, caught, note = sys.argv[1:5]
meta = json.load(open(os.path.join(src, 'meta.json')))
slug = re.sub(r'[^a-z0-9]+', '-', meta.get('summary', 'seed').lower())[:48].strip('-')
dst = os.path.join(os.path.dirname(os.path.dirname(os.path.abspath(__file__))), 'seeded', f'{prop}-{slug}')
os.makedirs(dst, exist_ok=True)
shutil.copy(os.path.join(src, 'patch.diff'), dst)
shutil.copy(os.path.join(src, 'demo.py'), dst)
meta.update(dict(
	property=prop,
	breaks=prop,
	confirmed_by_lead=dict(
		ran=[f'tools/try_seed.sh {prop} <seed-dir>  (scratch worktree of /repo with patch.diff applied)',
		     'demo.py on unchanged /repo: exit 0 (PASS); demo.py on patched copy: exit 1 (FAIL)',
		     'repository test suite on patched copy: same 48 failing tests as the baseline, 542 passed',
		     f'VERIF_REPO=<patched copy> ./check {prop} quick'],
		caught=caught, note=note),
))
json.dump(meta, open(os.path.join(dst, 'meta.json'), 'w'), indent=1)
print(dst)
