#!/usr/bin/env python3
"""Print the markdown table of seeded changes (from seeded/*/meta.json) for DESIGN.md section 9."""
import glob, json, os
HERE = os.path.dirname(os.path.dirname(os.path.abspath(__file__)))
rows = []
for d in sorted(glob.glob(os.path.join(HERE, 'seeded', '*'))):
	m = json.load(open(os.path.join(d, 'meta.json')))
	c = m.get('confirmed_by_lead', {})
	rows.append((m['property'], os.path.basename(d), m.get('summary', '')[:150].replace('|', '/'), m.get('needs', '')[:110].replace('|', '/'),
	             c.get('caught', '?'), c.get('note', '')[:200].replace('|', '/')))
print('| property | seeded/<dir> | change | needs | caught | by / note |')
print('|---|---|---|---|---|---|')
for r in rows:
	print('| ' + ' | '.join(r) + ' |')
print()
n = len(rows)
y = sum(1 for r in rows if r[4] == 'yes')
a = sum(1 for r in rows if r[4] == 'after-strengthening')
z = sum(1 for r in rows if r[4] == 'neutralised')
print(f'{n} confirmed seeded changes: {y} caught by the checks as they were, {a} only after the harness was strengthened, '
      f'{z} no longer a violation after the repair of the genuine defect it exposed, {n - y - a - z} not caught.')
