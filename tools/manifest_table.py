# table of claimed properties (exec'd by mkmanifest.py)
CLAIMED = {}
NOT_CLAIMED = {}
