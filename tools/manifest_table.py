# table of claimed properties (exec'd by mkmanifest.py): one file per property in tools/manifest/
import glob as _glob, os as _os
CLAIMED = {}
NOT_CLAIMED = {}
for _f in sorted(_glob.glob(_os.path.join(HERE, 'tools', 'manifest', 'C*.py'))):
	exec(open(_f).read())
