#!/usr/bin/env python3
"""Regenerate section 9 of DESIGN.md (seeded changes) from seeded/*/meta.json.
The explanatory text lives here; the table comes from tools/seed_table.py."""
import os, subprocess, sys
HERE = os.path.dirname(os.path.dirname(os.path.abspath(__file__)))
table = subprocess.check_output([sys.executable, os.path.join(HERE, 'tools', 'seed_table.py')]).decode()

TEXT = '''## 9. Seeded changes: which checks catch which
--------------------------------------------------------------------------------

Nine rounds of seeding were run with fresh sub-agents (the fourth and fifth after the coverage audit of every harness, the sixth after the statefulness audit, the eighth and the ninth -- twelve properties only, the other eight got a third round of harmless rewrites instead -- at the end of the session).  Each agent got only the text of one
property and its own scratch git worktree of /repo (nothing from /verif), and had to produce a
change that breaks the property, keeps the package importable and leaves the repository's test
results exactly as they were (same 542 passing / 48 failing tests), plus a demonstration program.
From the second round on each agent was also told the earlier ideas for its property and had to use
a different mechanism, location and trigger; from the third round on it was asked to attack a
clause of the statement or an element of the quantifier that the earlier changes did not touch.  Every
change was confirmed by `tools/try_seed.sh` (demo passes on /repo, fails on the patched scratch
copy; test suite re-run on the patched copy; then `VERIF_REPO=<patched copy> ./check <property>
quick`).  Confirmed changes are kept under `seeded/<dir>/` (patch.diff, demo.py, meta.json with
what was run and what caught it).  None was ever applied to /repo.

''' + table + '''
The misses and what was changed (every one is caught now; no check was loosened to get there):

* C02 r1 (byte-swapped signed dtypes accepted and viewed as unsigned): the dtype stream only fed
  native dtypes.  `k_dtype` now feeds non-native, narrow and non-integer dtypes holding real values
  and requires the exact value or an error.
* C02 r3 / C15 r1 (bulk path narrows a wide query to the references' dtype): both harnesses only
  used the two-signature function.  Every C02 pair is now also sent through `jaccarddist_array`
  (SignatureArray and plain list), and both have a stream with values beyond the narrower type.
* C07 r3 (a Python wrapper `index % nkmers(k)` that loses bits for `numpy.uint64` indices >= 2^53):
  the harness called the extension module directly with Python ints.  It now calls the public
  `gambit.kmers.index_to_kmer` with Python ints, `numpy.uint64` and array-element indices.
* C11 r3 (per-reader cache of AnnotatedGenome by genome key across two genome sets): databases with
  two genome-set versions over shared genomes, read back by one reader, were added.
* C13 r1 (caller-supplied executor used as the `with` context and shut down): the harness wrapped the
  caller's executor and swallowed `shutdown()`.  It now forwards it and runs a second batch through
  the same executor.  C13 r2 (futures keyed by file: a file listed twice collapses): repeated-file
  lists were added for every concurrency mode.
* C15 r3 (all-pairs shortcut: an empty row gets distance 1 to everything, also to other empty
  signatures): a pairwise kind with several empty / duplicate signatures was added.
* C18 r2 (flush becomes real inside a SAVEPOINT; releasing the outermost savepoint commits): savepoint
  operations on the default, explicit and CLI sessions were added (property predicate only; they are
  outside the Coq session machine).  C18 r3 (signature values memory-mapped writable; a caller
  modifying a returned array in place changes the file): in-place modification of arrays handed out
  by the reference signatures was added to the store / history streams.
* C19 r1 (periodic flush after 1 MiB): the quick tier now has a multi-megabyte collection with sampled
  crash points.  C19 r3 (`gambit signatures create` writes a header-only file before the long
  calculation): the real CLI writer is now killed before, during and after the calculation.

* Round 4 (after the audit): 15 of 20 caught at once.  C04 (identifier values read through a second,
  differently ordered query and zipped with the genomes: needs annotation rows in another physical order
  than the genome rows): the generated databases always inserted a genome row together with its annotation row in key order; the new stream `database-layouts` builds the file from an operation list (independent insertion orders, explicit rowids, holes, rows of other sets, several taxa, VACUUM; every order for 3-4 genomes enumerated).  C08 (one-shot zlib.decompress instead of GzipFile: multi-member
  gzip inputs lose everything after the first member; the same idea was caught at once by C06, whose
  audit had added gzip flavours): every compressed input of the C08 harness was one gzip member under a `.gz` name; `cli-gzip-containers` / `api-gzip-containers` now feed 24 container flavours (multi-member, bgzf, empty members, header fields, no suffix) through every channel.  C12 (buffered per-signature writer that drops the pending
  buffer before a signature of >= 2^14 values, list-type containers only): no round-trip case had a signature above 1500 values; kind `sizes` now combines size classes up to 2^17+1 in nine orders with fifteen container kinds.  C18 (a `PRAGMA
  journal_mode = OFF` "read-only tuning" hook: rewrites the header of a genome file that is in WAL
  mode): every database used was the shipped one (DELETE journal mode, 4096-byte pages) and the hook bypasses the statement recorder; `history-dbstate` now runs the read-side uses on 29 persistent file states (WAL with and without side files, page sizes, auto_vacuum, free pages, encodings) and compares hashes.  The same work turned up a genuine defect of the unchanged code: a genome file with *pending* WAL frames is checkpointed, i.e. modified, by a plain `gambit query` because the file is opened read-write (known finding C18-wal-pending-frames).  C19 (an existing output file is opened r+ and rewritten in place: a killed
  writer leaves old metadata over partly new data): every crash stream wrote to a fresh path, where mode `w` and the seeded `r+` fallback coincide; kind `over_kill` and the field `pre` of `cli_kill` now start from an output path that already holds another, the same, a truncated or a foreign file and kill the writer at every storage call after it opened the path.

* Round 5: 15 of 20 caught at once.  C02 (dtype of the unsigned view computed once from the FIRST element of a
  reference list: a list mixing dtypes is reinterpreted): every reference collection of the harness had a single dtype; kind `mixed` now builds collections whose elements differ in dtype (all 36 ordered pairs, narrow / wide first, first element empty) for every container and bulk entry point.  C03 (ancestor list memoised per ORM object and
  not invalidated when an ancestor is re-parented: classify, edit the taxonomy, classify again): every database was built, classified once and discarded; kind `edit` now keeps the same ORM objects (transient, in a session, loaded from a file) through 2-6 rounds of curator edits (re-parenting through `.parent`, the `children` backref and `parent_id`, thresholds, report flags, inserted / deleted taxa, moved genomes, flush / commit / expire / rollback) and judges every classification against the tree as it is at that moment.  C06 (per-thread
  scratch accumulator not cleared after a read that fails part-way: the next genome absorbs the leftovers):
  every file the harness read was well-formed, at a fresh path, with nothing run before it; kind `history` now runs 1-5 earlier calls in the same thread (reads failing part-way in six ways, dirty caller accumulators, reused executors, the same path rewritten) before computing the genome through eight entry points.  C09 (report_closest clamped to the database size and written back to the caller's QueryParams: reuse
  against a larger database gives a short list): params objects were reused only against one database; kind `multidb` now reuses one QueryParams / keyword dict / inputs / signatures object across 2-4 databases smaller than, equal to and larger than N in every visiting order and compares the caller's objects with copies taken before each call.  C19 (SIGTERM handler calling sys.exit, so that a
  terminated writer closes the file cleanly): the harness only knew hard kills; extending it to exception deaths showed
  that the UNCHANGED code already had the defect for Ctrl-C and every other exception (section 6, repaired by a fix:
  commit); on the repaired tree the seeded change is harmless and the check rightly exits 0 on it.

* Round 6 (after the statefulness audit): 17 of 20 caught at once.  C15 (SignatureArray constructor copying a list
  through one np.concatenate: a list mixing uint64 with signed elements is promoted to float64 and indices above
  2^53 are rounded): mixed-dtype lists only had values below 3*2^32 and values near 2^64 only occurred in homogeneous containers; kind `store` now crosses 16 construction / conversion paths with 14 dtype mixes whose values sit at the top of each member's own range.  C18 (load_genomeset runs create_all: a genome file that lacks a model table, or is
  empty, gets tables created by a plain load): every genome file had the complete schema, where `create_all` issues no DDL; `history-dbschema` now runs loads through five entry points and CLI commands on 37 incomplete or foreign genome files and compares the bytes whatever the outcome of the call.  C19 (re-saving an open HDF5Signatures copies the source
  group's attributes, marker included, before the datasets): the source of every interrupted write was a fresh in-memory collection; the death-mode streams now have a SOURCE CONTAINER dimension (views, an open HDF5Signatures with foreign attributes / in a sub-group / under AnnotatedSignatures, user subclasses); the round-7 C19 change (the same idea through a block-copy fast path) was then caught at once.

* Round 7: 14 of 20 caught at once.  C02 (SignatureList caches a concatenated copy that `__setitem__` / `reverse` do not
  invalidate): no stream mutated a list-type reference container between two bulk calls; kind `mutate` keeps one mutable container (SignatureList, plain list, AnnotatedSignatures, SignatureArray through its views) across call / mutation / call sequences with 22 mutations and judges every cell against the current members.  C04 (index-array reads merged into runs by a shift measured against the wrong slot edge:
  wrong only when neighbouring signature sizes coincide arithmetically): stored signature lengths were unrelated random numbers, never equal, never zero; stream `size-structure` uses a second pool of sizes 0..6 with pairwise distinct contents, enumerates 178 layouts g(a) x(b) g(c) (chains, adjacent genomes, extras before and after) and random size palettes.  C06 (contigs above 2^20 nt
  searched in windows that overlap by k-1 instead of prefix+k-1): no contig was ever longer than 2^20 letters; kind `long` generates contigs whose lengths cross 2^16, 2^20, 2^21 (up to 8*2^20 in thorough) with occurrences planted on both strands in touching ladders across every multiple and flush with both ends, judged against the harness's own reference.  C11 (CSV exporter defaults override
  the options of a `dialect=`): almost no CSV option set passed `dialect=` and the reader was not given the same dialect; kind `dialect` passes the dialect as registered name, class or instance (3 standard and 14 harness dialects: QUOTE_NONE with escapechar, ALL, NONNUMERIC, doublequote off, other quote / delimiter / line terminator) alone and with 14 keyword overrides and reads back with exactly the same settings.  C15 (SignatureList memoises a packed copy, rebuilt only when the length
  changes): sequence scripts drew a dtype per member, so no SignatureList was uniform (the memo needs that), and had no length-preserving reordering; the new product stream crosses uniform-dtype SignatureList / list / AnnotatedSignatures with every bulk role and ten length-preserving changes (negative index, equal-length and stepped slices, reverse, swap, move, replace, in-place element write).  C16 (all-pairs kernel chunked at 1000 columns, mirror copy only for the last chunk: needs
  `--square` with 1002 or more queries): the largest square case had 30 genomes; stream `size-class` runs sides of 1001..2600 tiny signatures (classes of equal signatures make a 10^6-cell oracle cheap) through `--square`, `--qs X --rs X`, narrow tables and the library functions with NaN-prefilled `out=`.

* Round 8: 11 of 20 caught at once, 2 more ended as a *framework error* and 7 were missed.  The framework errors (C06: a
  file name ending in `.gz` is trusted before the magic number, so a plain file of that name dies in the gzip decoder;
  C20: `SignatureList.sizes()` memoised and not reset by `insert`) were a defect of the runner, not of a harness: the
  changed implementation raised an exception inside a batch function that has no handler for it (the unchanged code never
  raises there), the run ended with exit 2 and no verdict.  `vf/main.py:run_kind` now treats an exception that escapes a
  batch function as what it is -- the code no longer behaves as it did when the correspondence was validated: if it
  comes out of the implementation's own frames the batch is re-run case by case, the input is isolated and reported as
  a violation (the replay re-raises it), otherwise the correspondence is reported broken; the campaign then goes on,
  and both changes are also caught by the property predicate itself (C06: a plain-content `*.gz` file has no signature
  but its contigs have prefix-anchored k-mers; C20: equal collections compare unequal).  The misses: C01 (sequences
  above 2^20 bytes searched in windows overlapping by k instead of prefix+k-1): the `big` stream did have a
  2^20+300-byte sequence, but the occurrences it planted around the offset overwrote each other and no complete span
  straddled it; `big-boundary` / `big-comb` plant non-overlapping, per-case unique spans at every alignment to 2^12 ..
  2^22 and 10^6 (thorough 2^10 .. 2^24, 10^3 .. 10^7) and across every multiple of 2^12 and 10^4 of a 2 MB sequence.
  C04 (ID -> genome map memoised per genome-set object, invalidated only when the number of genomes changes):
  every genome set of the sequence streams was read-only and its rows never changed while the object was alive; steps `gsetrw` / `edit` and stream `genome-set-edited-between-uses` edit a set through its own writable session (identifiers exchanged, re-pointed, NULLed; members replaced, removed, added; commit or flush) between two constructions / matchings on the same objects, every call judged by the oracle on the table the set holds at that moment.  C05 (the HDF5 reader reads every slice into one scratch buffer kept on the object, so a block the
  caller still holds is overwritten by the next read): no case held something read out of a holder while the holder
  was read again; kind `blocks` keeps slices, index selections and items of 19 holder types alive across later reads
  and bulk calls and judges every cell against `jaccarddist` of the stored pair (the C20 check catches the same change
  as "a sub-collection taken earlier changed").  C11 (`pathlib.Path` written through `os.path.normpath`: a query
  source file with an interior `..` comes back as another path): every source path the harness generated was absolute
  and already normal; 28 path shapes now go through every archive / JSON kind and the CLI is driven with
  `-l LIST --ldir DIR`.  C13 (`ProgressIterator.__exit__` returns the meter's `close()`, which the click / tqdm meters
  make truthy: the sequential mode swallows the error of an unreadable file when a display-backed meter is used): that
  combination occurred in well under one case per quick run; `var-progress-unreadable` crosses 12 meter values with
  every mode and every position of the unreadable file, and `query_parse` is driven with them too.  C14
  (`dump_signatures` of a container without k-mer parameters labels the file 11/ATGAC instead of failing): signature
  files were only ever written from containers that state their parameters; 40 writing forms through the public API now
  produce the pre-computed side and are judged as what the signatures were built with.  C18 (signature files above
  1 MiB opened through the low-level h5py API, whose default access mode is read-write): every signature file used was the 257 KiB shipped one and the open-mode recorder did not see `h5py.File(<FileID>)`; stream `history-sigsize` builds signature files above 1, 4 and 16 MiB (also in the latest HDF5 format and with zero padding after the HDF5 data), kills a client process that holds the database open, and the recorder also wraps `h5py.h5f.open`.

* Round 9 (12 properties): 8 of 12 caught at once (C03 C06 C08 C10 C12 C15 C17 C19), 4 missed.  C02 (`jaccarddist_matrix` fills the matrix column by column when the
  queries are a SignatureArray, the references are not and there are more queries than references, writing column j of
  the whole matrix instead of column j of the chunk): the matrix function was only ever called with list-type queries
  and at most three of them; kind `matrix` crosses 5 query containers x 5 reference containers x 6 chunk sizes x
  `ref_indices` forms x NaN-prefilled `out` over 7 shapes, every cell judged against the specification.  C07
  (`revcomp` done block-wise above 64 KiB, `view[-0:]` for lengths that are exact multiples of 65536): long reverse
  complements were sampled at 65535, 65536, 65537 and 131073 bytes only; `rc-ladder` / `rc-ladder-random` run every
  length m*2^p (m = 1..9, p = 6..22) and m*10^d with n-1 and n+1, and random multiples of random block sizes, as bytes /
  bytearray / memoryview through the three public entry points.  C09 (distance rows looked up by `QueryInput.label`:
  two queries of one batch with the same label share a row): every stream gave the queries of a batch distinct labels; stream `query-labels` gives 2-12 different query genomes equal, empty, pooled or swapped labels through `query(inputs=)`, `query_parse(file_labels=)`, the IDs of a `-s` signature file and equal file names in different directories, every position judged against the model's list for the genome at that position.  C16 (genome files inflated by one
  `zlib.decompress`: only the first member of a multi-member gzip file is read): genome files were only ever written through `gzip.open` (one member; C06 and C08 already had container flavours, C16 did not); stream `cli-gzip-containers` supplies the same genomes as plain files and as gzip containers of seven flavours (gzip(1) header, all header fields, 2-5 members, empty members, BGZF blocks, with / without a `.gz` name) through `-q` / `-r` / `--ql` / `--rl` / `--square` against each other and against the signature file / database of the same genomes.

**Behaviour-preserving rewrites (the opposite experiment).**  A check that alarms on correct code is as
useless as one that misses a defect, so after round 3 twenty fresh sub-agents (same isolation: the
property text and a scratch worktree only) each produced a *harmless* maintenance rewrite of the code
its property is anchored in -- 80 to 190 changed lines over 2 to 6 functions: loops restructured,
helpers extracted or inlined, comprehensions unrolled, early returns turned into flags, equivalent
library calls, private call paths changed -- together with a seeded differential test (`equiv.py`,
clean vs patched in two sub-processes, 1 000 to 50 000 recorded outcomes including exception types and
messages) and the unchanged test-suite result.  Each was confirmed (`tools/try_refac.sh`: `equiv.py`
re-run: SAME) and the property's check was run against the patched copy: **all twenty exit 0 with no
VIOLATION line** (`harmless/<id>/`, meta.json holds the result line); the same patches were run again after the
statefulness audit had added the sequence streams (18 still apply to the repaired tree): again no alarm.
Because those streams check "caller objects unmodified", "same call, same result" and process state, a second round of
twenty rewrites was made after round 7 whose authors were asked to introduce CORRECT internal state on purpose --
properly keyed and invalidated memos (lineage walks, prefix reverse complements, slice arithmetic, archive look-ups,
a distance-matrix memo keyed by the matrix bytes), per-thread scratch accumulators reset in `finally`, per-call helper
objects, constant tables, exact fast paths (110 to 290 changed lines each; `harmless2/<id>/`).  All twenty: `equiv.py`
SAME, check exit 0, no VIOLATION line.  A third round of eight (`harmless3/<id>/`, the properties whose harness got new
sequence / state streams in round 8: C01 C04 C05 C11 C13 C14 C18 C20; 130 to 210 changed lines each, again with correct
memos, per-call helper objects and per-thread scratch pools) gave the same result: `equiv.py` SAME, check exit 0.  Two things were changed because
of this experiment, before it was run on all twenty: the syntactic ties of five Python helpers became
advisory (a rewrite of `chunk_slices` or `index_dtype` would otherwise have been a
`no-failing-input-found` violation, section 0) and a translator failure is only reported against the
properties whose model it affects.

**Statefulness and aliasing audit (after round 5).**  Four of the five round-5 misses, and several earlier
ones, were not wrong formulas but HIDDEN STATE: a cache keyed too coarsely or invalidated too rarely, a
fast path writing a normalised value back into a caller's object, state surviving a call that failed
part-way, one object used against two databases of different size.  A single call on fresh objects -- what
most differential streams do -- cannot see any of these.  Every harness was therefore audited for it (table
"State and aliasing" in each module docstring: every entry point, every object that outlives one call, and
for each whether a stream reuses it across differing calls in both orders, checks the caller's object
unmodified, interleaves failing calls, repeats the same call, uses a second thread) and got *sequence
streams*: a case is a short script of calls over a pool of shared objects, every step judged by the same
predicate / model oracle as the single-call streams, plus "caller objects unmodified", "same call, same
result" and "results handed out earlier unchanged".  Because the state being hunted lives in the process,
failing scripts are re-run alone in a fresh interpreter before they are reported, so that a replay
reproduces.  Each audit wrote 4-9 mutations of those kinds in the anchor code (each leaving a single fresh
call correct): of 80-odd, the harnesses as they were missed about two thirds; the sequence streams catch all
of them.  The unchanged code turned out to be clean in this respect (no module-level state, no write-back
into arguments) apart from hygiene issues outside the properties (section 6).

What the seeding says about the method: every seeded change inside *modelled* logic (search
bounds, case folding, consensus flags, chunk loops, index normalisation, parameter reconciliation,
label stripping, rounding of cells, tree branch lengths, completeness checks) was caught by the
small-scope exhaustive streams at once -- those are exactly the cases the theorems say are the only
ones there are.  The misses were all at the *edge of the model*: an input class the generator did
not produce (a non-native dtype, a repeated file, a savepoint, a large payload, a NumPy scalar, two
empty signatures, two genome sets) or an entry point the harness did not drive (the bulk distance
functions for C02/C15, the CLI writer for C19).  A model-level theorem cannot notice that its
harness does not reach a path; only the input-distribution counts in the evidence (`streams`) make
that visible.  After round 3 a coverage audit of every harness against the clauses, quantifier
elements and entry points of its property was done (the result is the table in each harness's
module docstring).
'''

p = os.path.join(HERE, 'DESIGN.md')
s = open(p).read()
a = s.index('## 9. Seeded changes: which checks catch which')
b = s.index('--------------------------------------------------------------------------------\n## 10. False alarms')
s = s[:a] + TEXT + '\n\n' + s[b:]
open(p, 'w').write(s)
print('section 9 regenerated')
