#!/bin/bash
# Re-check every Props/Cxx.vo (and everything it depends on) with the independent checker coqchk and list
# the axioms.  Takes ~1-2 min and up to 4 GB per property; not part of the per-change checks.
cd "$(dirname "$(readlink -f "$0")")/../coq" || exit 2
for f in theories/Props/C*.v theories/Ties/T*.v; do
  p=$(basename "$f" .v); d=$(basename "$(dirname "$f")")
  echo "== $p"
  timeout 1800 coqchk -silent -Q theories GV -o GV.$d.$p 2>&1 | sed -n '/^\* Axioms/,$p' | grep -v '^ *$'
done
